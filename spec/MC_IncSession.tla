---------------------------- MODULE MC_IncSession ----------------------------
(* Property C06 as a session state machine: one table, a pool of caller-owned filter objects,   *)
(* one action per public call (inc / exc / find_<col> / one_or_none), every call taking one or   *)
(* several filters from the pool in every spelling (positional dicts, callables, ** keywords,    *)
(* exc =).  The calls are executed by the MECHANISM of IncSession.tla on the CURRENT pool; the    *)
(* invariants say what the statement says: the pool and the table are never changed and every    *)
(* result is what the LAW gives for the contents the caller gave the filters, however the        *)
(* condition was spelled and whatever was called before.                                         *)
(* A call may also be made on the table the previous call returned (on = "last"): idempotence     *)
(* and complementarity as histories,  r = t.inc(q1, q2); r.inc(q1, q2) = r; r.exc(q1, q2) empty.  *)
(* ROUND 4: the CALLER acts between the calls too - action Edit: he edits, in place, a list of    *)
(* admissible values or a dict he handed to the previous call (L.append / pop / clear, q[c] = v,  *)
(* del q[c]); later calls take the edited objects (src = "live": the law is applied to what they  *)
(* hold NOW), or FRESH objects equal by value to what the pool held BEFORE the edit (src = "old": *)
(* the law is applied to the old contents - a memo keyed on the contents but holding the caller's *)
(* object answers these with the new contents), on the table, on its previous result, or on a     *)
(* SECOND table (on = "u").  The naming of the columns (nm) and the realisation of the callables  *)
(* (field real of a pool object) are data of the case; the law sees neither.                      *)
(* The same machine, with the history as a variable, is the source of the S2C replay: cfgs       *)
(* MC_IncSession_gen*.cfg print every history together with the outcomes the law allows and the  *)
(* pool the caller must still see after every call; MC_IncSession_sim.cfg draws longer ones.     *)
(* MC_IncSession_quick.cfg does both in one run (clauses checked on every history, no VIEW);      *)
(* so do _edit / _namesreals (quick slices of the round-4 dimensions) and their thorough          *)
(* variants _editT / _namesT / _reals.  MC_IncSession_thorough.cfg checks the VIEW quotient (hist hidden)  *)
(* with 3 filters per call.                                                                       *)
(* cfg MC_IncSession_adopt.cfg (Adopt = TRUE, `filters` is the caller's lone dict) must violate  *)
(* PoolUntouched: the model is able to express what it forbids.                                  *)
EXTENDS IncSession, TLC, Json

CONSTANTS MaxCalls,     \* calls per history
          MaxArgs,      \* filters per call (positional + keywords)
          FreeCalls,    \* the first FreeCalls calls of a history are arbitrary, the later ones take <= 1 filter ("probes")
                        \* or repeat / complement the previous call on its own result ("echo")
          Scope,        \* "quick" | "thorough" | "edit" | "names" | "reals": which tables and pools
          Adopt,        \* mechanism variant, see IncSession.tla
          MaxEdits,     \* edits by the caller per history (0: none)
          MinEdits,     \* generator: only histories with at least so many edits are printed
          Probes,       \* FALSE: after the free calls only echoes
          FirstOps,     \* the operations of the free calls
          Srcs,         \* subset of {"live", "old"}
          Ons,          \* subset of {"t", "last", "u"}
          NameIds,      \* the namings of the columns
          Gen           \* TRUE: keep the history (generator configurations)

VARIABLES t, nm, pool, pool0, prev, last, opd, hist
\* pool0 = what the caller's objects hold by his own doing (initial contents and his edits); pool = what they really hold
\* prev = pool0 as it was before the caller's latest edit; opd = the table the last call was made on ACCORDING TO THE LAW
vars == <<t, nm, pool, pool0, prev, last, opd, hist>>
View == <<t, nm, pool, pool0, prev, last, opd>>

Cols2 == <<"a", "b">>
\* every combination of the a-values with the b-values, one row each: each row tells two filters apart
Grid(As, Bs) == [cols |-> Cols2,
                 rows |-> [k \in 1..(Len(As) * Len(Bs)) |-> [a |-> As[((k - 1) \div Len(Bs)) + 1], b |-> Bs[((k - 1) % Len(Bs)) + 1]]]]
Empty2 == [cols |-> Cols2, rows |-> <<>>]
Single == [cols |-> Cols2, rows |-> <<[a |-> VInt(1), b |-> VStr("b")]>>]
G6 == Grid(<<VInt(1), None, VNaN(1)>>, <<VStr("b"), VInt(1)>>)
G4 == Grid(<<VFlt(1, 1), VStr("ab")>>, <<VStr("ba"), None>>)
G8 == Grid(<<VStr("ab"), VNaN(1), VInt(1), VInf(1)>>, <<VStr("b"), VNaN(3)>>)
Dup == [cols |-> Cols2, rows |-> <<[a |-> VInt(1), b |-> VStr("b")], [a |-> None, b |-> VStr("b")], [a |-> VInt(1), b |-> VStr("b")]>>]

CVal(v)   == <<"val", v>>
CL(id, vs) == <<"list", vs, id>>          \* the list OBJECT id holding vs
CRe(r)    == <<"re", r>>
A(cc) == FDict(<<<<"a", cc>>>>)
B(cc) == FDict(<<<<"b", cc>>>>)
AB(ca, cb) == FDict(<<<<"a", ca>>, <<"b", cb>>>>)
BA(cb, ca) == FDict(<<<<"b", cb>>, <<"a", ca>>>>)      \* the same conditions, inserted in the other order

PoolsQuick == {
    <<A(CVal(VInt(1))), B(CVal(VStr("b"))), FPred("a_eq_b")>>,
    <<A(CL(1, <<VInt(1), VStr("ab")>>)), B(CL(2, <<VStr("b"), None>>)), FDict(<<>>)>>,
    <<A(CVal(None)), B(CRe("starts_b")), FPred("b_is_str")>>,
    <<A(CVal(VNaN(2))), B(CVal(VInt(1))), BA(CVal(VInt(1)), CVal(VNaN(2)))>>,
    <<AB(CVal(VInt(1)), CVal(VStr("b"))), B(CVal(VStr("b"))), A(CL(1, <<None, VInt(1)>>))>> }
PoolsMore == {
    <<A(CRe("has_a")), B(CL(1, <<>>)), FPred("a_is_none")>>,
    <<A(CVal(VFlt(1, 1))), B(CL(1, <<VStr("ba"), VNaN(3)>>)), FPred("a_eq_b")>>,                 \* 1.0 selects the int 1 too
    <<A(CVal(VInf(1))), B(CVal(None)), AB(CVal(VInf(1)), CVal(None))>>,
    <<A(CL(1, <<VNaN(1), None>>)), B(CRe("any")), FDict(<<>>)>>,
    <<AB(CL(1, <<VStr("ab"), VInt(1)>>), CRe("starts_b")), A(CL(1, <<VStr("ab"), VInt(1)>>)), FPred("never")>>,   \* ONE list in two dicts
    <<FPred("always"), A(CVal(VStr("ab"))), B(CVal(VStr("ba")))>>,
    <<FDict(<<>>), FDict(<<>>), B(CVal(VInt(1)))>> }
\* pools whose objects the caller edits: a list held by two dicts, lists of one value, plain dicts next to a callable
PoolsEdit == {
    <<A(CL(1, <<VInt(1), VStr("ab")>>)), B(CL(2, <<VStr("b"), None>>)), AB(CL(1, <<VInt(1), VStr("ab")>>), CVal(VStr("b")))>>,
    <<A(CVal(VInt(1))), B(CVal(VStr("b"))), FPred("a_eq_b")>> }
PoolsEditMore == {
    <<A(CL(1, <<None>>)), AB(CVal(VInt(1)), CL(2, <<VInt(1)>>)), B(CRe("starts_b"))>>,
    <<AB(CL(1, <<VNaN(1), VInt(1)>>), CL(1, <<VNaN(1), VInt(1)>>)), B(CVal(VInt(1))), FDict(<<>>)>> }   \* one list under two columns
PoolsNames == {
    <<A(CVal(VInt(1))), B(CL(1, <<VStr("b"), None>>)), FPred("a_eq_b")>>,
    <<AB(CVal(None), CRe("starts_b")), A(CL(1, <<>>)), FPred("b_is_str")>> }
\* the realisations of a callable
Reals == <<"lambda", "def", "partial", "partial_kw", "callobj", "bound", "classm", "try_false", "try_none", "kwargs_support">>
PoolsReals == {<<FPredR("a_eq_b", Reals[k]), B(CVal(VStr("b"))), FPredR("a_is_none", Reals[k + 1])>> : k \in {1, 3, 5, 7, 9}}
PoolsThorough == PoolsQuick \cup PoolsMore

TableSet == CASE Scope = "quick" -> {G6, Empty2, Single}
              [] Scope = "edit"  -> {G6}
              [] Scope = "editT" -> {G6}
              [] Scope \in {"names", "reals", "names+reals"} -> {G6, Empty2, Single}
              [] OTHER -> {G4, G8, Dup, Empty2, Single}
PoolSet  == CASE Scope = "quick" -> PoolsQuick
              [] Scope = "edit"  -> PoolsEdit
              [] Scope = "editT" -> PoolsEdit \cup PoolsEditMore
              [] Scope = "names" -> PoolsNames
              [] Scope = "reals" -> PoolsReals
              [] Scope = "all"   -> PoolsThorough \cup PoolsEdit \cup PoolsEditMore \cup PoolsReals
              [] OTHER -> PoolsThorough

\* ---- namings: the names the real table gives to the law's columns a, b (c, d: the wider tables of the C2S side) ----
\* names that are parameters / locals of the code under test (data, columns, key, value, function, functions, filters,
\* self, exc, find, item, row, res), the two names swapped, names that are no identifiers
NmF(a, b, c, d) == [a |-> a, b |-> b, c |-> c, d |-> d]
Nm(i) == CASE i = 0 -> [f |-> NmF("a", "b", "c", "d"), ident |-> TRUE]
           [] i = 1 -> [f |-> NmF("data", "key", "columns", "value"), ident |-> TRUE]
           [] i = 2 -> [f |-> NmF("columns", "data", "key", "item"), ident |-> TRUE]
           [] i = 3 -> [f |-> NmF("function", "value", "data", "functions"), ident |-> TRUE]
           [] i = 4 -> [f |-> NmF("self", "filters", "exc", "find"), ident |-> TRUE]
           [] i = 5 -> [f |-> NmF("b", "a", "d", "c"), ident |-> TRUE]
           [] i = 6 -> [f |-> NmF("exc", "find", "self", "res"), ident |-> TRUE]
           [] i = 7 -> [f |-> NmF("functions", "row", "item", "keys"), ident |-> TRUE]
           [] i = 8 -> [f |-> NmF("x y", "1", "a", "-"), ident |-> FALSE]
           [] i = 9 -> [f |-> NmF("key", "columns", "value", "data"), ident |-> TRUE]
NamingInjective == \A x \in DOMAIN Nm(nm).f, y \in DOMAIN Nm(nm).f : x # y => Nm(nm).f[x] # Nm(nm).f[y]

Slots == 1..3
PosU  == UNION {[1..k -> Slots] : k \in 0..MaxArgs}
Forms == {f \in [pos : PosU, kw : 0..3] : NArgs(f) <= MaxArgs}
\* (the fields are written in the order in which TLC keeps them once normalised: records are sorted in place, and a record
\*  printed by one worker while being sorted has been seen to lose a field)
MkCall(op, col, f, x, on, src) == [pos |-> f.pos, kw |-> f.kw, op |-> op, col |-> col, x |-> x, on |-> on, src |-> src]
NoCall == [pos |-> <<>>, kw |-> 0, op |-> "", col |-> "", x |-> 0, on |-> "t", src |-> "live"]
\* t.inc(q), t.exc(f), t.find_a(q), t.one_or_none(q), t.inc(); once the caller has edited something also t.inc(**q), and on the second table
Probe(c) == /\ c.x = 0 /\ c.on \in {"t", "u"} /\ NArgs(c) <= 1
            /\ (c.kw # 0 \/ c.on = "u") => last.e > 0
            /\ c.on = "u" => c.src = "old"              \* (the second table is there for what a call with fresh, equal-valued objects finds remembered)
\* the previous call repeated (or complemented) on its own result with the very same arguments: r = t.inc(q1, q2); r.inc(q1, q2)
Echo(c) == c.on = "last" /\ c.op \in {"inc", "exc"} /\ c.pos = last.call.pos /\ c.kw = last.call.kw /\ c.src = "live" /\ last.call.src = "live"

\* tables of <= 1 row only get single calls (the extremes); the histories run on the tables that tell filters apart
Depth(tt) == IF NRows(tt) <= 1 THEN 1 ELSE MaxCalls
Called == last.call.op # ""
\* a call can be made on the previous result when the law says that result is one definite table
LawLast == Outcomes(opd, last.args, last.call)
Chainable == Called /\ Cardinality(LawLast) = 1 /\ \A o \in LawLast : o.kind = "table"

\* Scope "names+reals": the naming pools under every naming of NameIds, and every realisation under the plain naming and one other
Cases == IF Scope = "names+reals" THEN (PoolsNames \X NameIds) \cup (PoolsReals \X {0, 3}) ELSE PoolSet \X NameIds
Init == /\ t \in TableSet /\ (\E cs \in Cases : pool0 = cs[1] /\ nm = cs[2]) /\ pool = pool0 /\ prev = pool0
        /\ last = [call |-> NoCall, out |-> [kind |-> "none"], echo |-> "", n |-> 0, e |-> 0, dirty |-> FALSE, touched |-> {}, args |-> pool0]
        /\ opd = t /\ hist = <<>>

Do(c) == /\ last.n < MaxCalls
         /\ c.src \in Srcs /\ c.on \in Ons
         /\ last.n < FreeCalls => c.op \in FirstOps
         /\ last.n >= 1 => last.e >= MinEdits                           \* (generator focus: histories in which the caller edits)
         /\ last.n >= FreeCalls => ((Probes /\ Probe(c)) \/ Echo(c))
         /\ c.src = "old" => (last.e > 0 /\ c.on # "last")
         /\ c.on = "u" => last.n >= 1                                   \* the second table comes second
         /\ last.dirty => UsedSlots(c) \cap last.touched # {}          \* right after an edit: a call that can see it
         /\ c.on = "last" => Chainable
         /\ LET lawargs  == IF c.src = "live" THEN pool0 ELSE prev
                mechargs == IF c.src = "live" THEN pool ELSE prev              \* fresh objects with the old contents
                lawopd   == CASE c.on = "t" -> t [] c.on = "u" -> Other(t) [] OTHER -> TableOf(CHOOSE o \in LawLast : TRUE, t.cols)
                mechopd  == CASE c.on = "t" -> t [] c.on = "u" -> Other(t) [] OTHER -> TableOf(last.out, t.cols)   \* the object the code really returned
                m == MechCall(mechopd, mechargs, c, Adopt)
            IN  /\ InDomain(t, lawargs, c) /\ Expressible(Nm(nm), t, lawargs, c)
                /\ pool' = IF c.src = "live" THEN m.pool ELSE pool
                /\ opd' = lawopd
                /\ last' = [call |-> c, out |-> m.out, echo |-> IF Echo(c) /\ ~last.dirty THEN last.call.op ELSE "",
                            n |-> last.n + 1, e |-> last.e, dirty |-> FALSE, touched |-> last.touched, args |-> lawargs]
                /\ hist' = IF Gen THEN Append(hist, [call |-> c, opd |-> IF c.on = "last" THEN TabOut(lawopd) ELSE [kind |-> c.on],
                                                     want |-> SetToSeq(Outcomes(lawopd, lawargs, c)), snap |-> pool0,
                                                     args |-> IF c.src = "old" THEN prev ELSE <<>>])
                           ELSE hist
         /\ UNCHANGED <<t, nm, pool0, prev>>

OnSet == {"t", "last", "u"}
SrcSet == {"live", "old"}
CallInc  == \E f \in Forms, on \in OnSet, s \in SrcSet : Do(MkCall("inc", "", f, 0, on, s))
CallExc  == \E f \in Forms, on \in OnSet, s \in SrcSet : Do(MkCall("exc", "", f, 0, on, s))
CallFind == \E f \in Forms, on \in OnSet, s \in SrcSet, cl \in {"a", "b"} : Do(MkCall("find", cl, f, 0, on, s))
CallOne  == \E f \in Forms, on \in OnSet, s \in SrcSet, x \in 0..3 : (x # 0 => f.kw = 0 /\ NArgs(f) < MaxArgs) /\ Do(MkCall("one", "", f, x, on, s))

\* ---- the caller's own action: an in-place edit of an object he handed to the previous call ----------------
MkEdit(what, id, slot, col, new) == [op |-> "edit", what |-> what, id |-> id, slot |-> slot, col |-> col, new |-> new]
ListEdits(vs) == ({<<>>, Append(vs, None)} \cup (IF vs = <<>> THEN {} ELSE {Front(vs)})) \ {vs}     \* L.clear(), L.append(None), L.pop()
HasCol(items, col) == \E k \in 1..Len(items) : items[k][1] = col
CondAt(items, col) == items[CHOOSE k \in 1..Len(items) : items[k][1] = col][2]
EditMenu ==
    LET used  == {s \in UsedSlots(last.call) : IsDict(pool0[s])}
        lists == UNION {ListIds(pool0[s].items) : s \in used}
    IN  {MkEdit("list", id, 0, "", new) : id \in lists, new \in UNION {ListEdits(ListNow(pool0, i)) : i \in lists}}
        \cup {MkEdit("set", 0, s, col, cc) : s \in used, col \in {"a", "b"}, cc \in {CVal(None), CVal(VInt(1))}}
        \cup {MkEdit("del", 0, s, col, <<>>) : s \in used, col \in {"a", "b"}}
EditOK(e) ==
    CASE e.what = "list" -> e.new \in ListEdits(ListNow(pool0, e.id))
      [] e.what = "set"  -> IF HasCol(pool0[e.slot].items, e.col)
                            THEN e.new = (IF CondAt(pool0[e.slot].items, e.col) = CVal(None) THEN CVal(VInt(1)) ELSE CVal(None))   \* q[c] = another value
                            ELSE e.new = CVal(VInt(1))                                                                        \* q[c] = v, a new key
      [] e.what = "del"  -> HasCol(pool0[e.slot].items, e.col)
Edit == /\ Called /\ last.e < MaxEdits /\ last.n < Depth(t) /\ ~last.dirty /\ last.call.src = "live"
        /\ \E e \in EditMenu :
              /\ EditOK(e)
              /\ pool0' = ApplyEdit(pool0, e) /\ pool' = ApplyEdit(pool, e) /\ prev' = pool0
              /\ last' = [last EXCEPT !.e = @ + 1, !.dirty = TRUE, !.touched = Touched(pool0, e)]
              /\ hist' = IF Gen THEN Append(hist, [call |-> e, opd |-> [kind |-> "t"], want |-> <<>>, snap |-> pool0', args |-> <<>>]) ELSE hist
        /\ UNCHANGED <<t, nm, opd>>

Next == CallInc \/ CallExc \/ CallFind \/ CallOne \/ Edit
NextNoEdit == CallInc \/ CallExc \/ CallFind \/ CallOne

\* ---- what the statement says, clause by clause -----------------------------------------------
LastCond == CondOf(last.args, last.call)
PoolUntouched    == pool = pool0
ResultByOriginal == Called => last.out \in Outcomes(opd, last.args, last.call)
\* only the caller changes his objects
ArgumentsLeftAlone == [][t' = t /\ (last'.e = last.e => pool' = pool) /\ (last'.e # last.e => \E e \in EditMenu : pool' = ApplyEdit(pool, e))]_vars
\* the result depends on the condition only, not on its spelling: every other in-domain spelling of the same
\* condition, run by the mechanism on the same contents, lands in the same set of allowed outcomes
SpellingIrrelevant ==
    Called => \A f \in Forms :
        LET c2 == MkCall(last.call.op, last.call.col, f, last.call.x, last.call.on, last.call.src) IN
        (InDomain(opd, last.args, c2) /\ CondOf(last.args, c2) = LastCond) => MechCall(opd, last.args, c2, FALSE).out \in Outcomes(opd, last.args, last.call)
RECURSIVE Weave(_, _, _, _)
Weave(rows, xs, ys, cd) ==
    IF rows = <<>> THEN xs = <<>> /\ ys = <<>>
    ELSE IF SatC(Head(rows), cd) THEN xs # <<>> /\ Head(xs) = Head(rows) /\ Weave(Tail(rows), Tail(xs), ys, cd)
         ELSE ys # <<>> /\ Head(ys) = Head(rows) /\ Weave(Tail(rows), xs, Tail(ys), cd)
SessPartition  == (Called /\ ~NoCondC(LastCond)) => Weave(opd.rows, IncC(opd, LastCond).rows, ExcC(opd, LastCond).rows, LastCond)
SessIdempotent == Called => /\ IncC(IncC(opd, LastCond), LastCond) = IncC(opd, LastCond)
                            /\ ~NoCondC(LastCond) => NRows(ExcC(IncC(opd, LastCond), LastCond)) = 0
SessKeepsCols  == (Called /\ last.out.kind = "table") => last.out.cols = t.cols /\ Rectangular(last.out)
NoCondIsIdentity == (Called /\ last.call.op = "inc" /\ NoCondC(LastCond)) => last.out = TabOut(opd)
\* idempotence as a history: the same call again on its own result returns that result, the complementary call nothing
\* (last.echo = the operation whose result this call was repeated on, with the very same arguments and no edit in between)
EchoLaw == (Called /\ last.echo # "" /\ ~MixedC(LastCond)) =>
               IF last.call.op = last.echo \/ NoCondC(LastCond) THEN last.out = TabOut(opd) ELSE last.out.rows = <<>>
\* a call with fresh objects cannot concern the pool; an edit shows in exactly the objects that hold the edited one
EditIsLocal == last.dirty => \A s \in 1..Len(pool0) : (s \notin last.touched => pool0[s] = prev[s])

\* ---- S2C: the histories, with what the law allows at every call and the pool the caller still owns, under the naming ----
\* the inputs (tables, pool, calls, edits) are printed in the law's column names together with the naming - the driver renders
\* them under the naming -, everything the replay is compared with (rt, ru, snap, opd, want, argsnap) in the real names
RenEntry(h, f) == [call |-> h.call, opd |-> RenOut(h.opd, f), want |-> [j \in 1..Len(h.want) |-> RenOut(h.want[j], f)],
                   snap |-> Canon(RenPool(h.snap, f), RenCols(t.cols, f)),
                   argsnap |-> Canon(RenPool(h.args, f), RenCols(t.cols, f))]
Emit == LET f == Nm(nm).f IN
        PrintT(ToJson([t |-> t, u |-> Other(t), nm |-> Nm(nm), pool |-> hist[1].snap,
                       rt |-> RenT(t, f), ru |-> RenT(Other(t), f), snap |-> Canon(RenPool(hist[1].snap, f), RenCols(t.cols, f)),
                       hist |-> [k \in 1..Len(hist) |-> RenEntry(hist[k], f)]]))
GenBound == /\ last.n <= Depth(t)
            /\ (last.n = Depth(t) /\ last.e >= (IF Depth(t) = 1 THEN 0 ELSE MinEdits)) => Emit
=============================================================================
