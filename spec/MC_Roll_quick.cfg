CONSTANTS Worlds <- WorldsOne
          Starts = {6}
          Horizon = 19
          MaxStep = 2
          CutLag = 2
          ExpLag = 3
          Ns = {2}
          EmptyAsNone = TRUE
          LiveRule = "post"
          MaxTrunc = 1
          TruncBack = {3}
          Depth = 0
INIT MCInit
NEXT MCSpecNext
VIEW NoHist
INVARIANT FileOK
INVARIANT SavedIsFresh
INVARIANT ChainIsFresh
INVARIANT RollsTrue
INVARIANT LoadsPrefix
INVARIANT MechanismIsLaw
INVARIANT FrontIsStitch
PROPERTY RollsStable
PROPERTY OldNeverLoaded
