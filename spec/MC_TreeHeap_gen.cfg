CONSTANTS Deep = TRUE
          Walk = "unfold"
          Size = "std"
INIT Init
NEXT NextGen
