CONSTANTS MaxRows = 2
          MaxRowsY = 1
          MaxSteps = 1
          NKeys = 6
          Stride = 1024
          Gen = TRUE
          Emit = "each"
          Variant = "plain"
INIT Init
NEXT Next
