\* thorough tier: the clauses on every history of three steps (call, the caller's own action, probe)
CONSTANTS MaxSteps = 3
          FreeSteps = 1
          Scope = "quick"
          Caller = TRUE
          Edits = FALSE
          Pairs = "no"
          Extend = FALSE
          Mech = TRUE
INIT Init
NEXT Next
INVARIANT PoolUntouched
INVARIANT ResultByOriginal
INVARIANT FormIrrelevant
INVARIANT RightListPinned
INVARIANT SwapArguments
INVARIANT ListAggregates
PROPERTY CallsChangeNothing
