CONSTANTS MaxLen1 = 5
          MaxRows2 = 3
          MaxList = 3
          Lims = {0, 1, 2}
INIT Init
NEXT EvalGen
