CONSTANTS
 MaxLen = 4
 NStamps = 2
 Leaky = TRUE
 Depth = 3
INIT InitObj
NEXT ObjNext
INVARIANT AnswerIsLaw
