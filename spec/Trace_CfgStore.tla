--------------------------- MODULE Trace_CfgStore ---------------------------
(* Trace validation for extension X04-a.  Every line of the log is ONE recorded history of real    *)
(* processes over real files (configuration of the files - how many, which cannot be written - is  *)
(* that of the .cfg this module is run with; the driver groups its histories accordingly):          *)
(*    [id, init, events]      init[i] = [there, cfg] what file i held at the start                  *)
(* with the events, in the order in which they happened,                                            *)
(*    [op |-> "spawn", p]                 a process starts (PYG_CFG set, nothing cached)            *)
(*    [op |-> "write", p, cfg, done]      cfg_write(cfg) in process p; done = 1: the call returned, *)
(*                                        done = 0: the process DIED inside the call (SIGKILL at an *)
(*                                        arbitrary point of the code)                              *)
(*    [op |-> "begin", p, cfg]            cfg_write(cfg) has begun in process p and is PAUSED at an  *)
(*                                        arbitrary point of the code (SIGSTOP) - others act meanwhile  *)
(*    [op |-> "end", p, cfg, done]        it was let go on and returned (done = 1), or was killed while  *)
(*                                        paused (done = 0)                                             *)
(*    [op |-> "read", p, ok, cfg]         cfg_read() in process p: ok = 1 and the configuration     *)
(*                                        returned, or ok = 0: it raised                            *)
(* cfg = sequence of <<key, value>> in key order; value 0 = a value that cannot be serialised.      *)
(*                                                                                               *)
(* One TLC behaviour per history (c = the line, l = events consumed); the LAW-level state           *)
(* (S, maybe, view) of CfgStore is stepped by the same Law* operators as the model-checked          *)
(* specification and every recorded read is judged against Admitted(p).  The mechanism-level        *)
(* variables are not used (the real files are the mechanism here).                                  *)
EXTENDS CfgStore, Batch

TKeys4 == <<"a", "b", "c", "d">>

Ev(h, k) == Obs[h].events[k]
Report(v) == IF v = "" THEN TRUE ELSE Reject(1000 * c + l + 1, v)

JudgeRead(e) == IF e.ok = 0 THEN "read_raised"
                ELSE IF e.cfg \in Admitted(e.p) THEN ""
                ELSE "read_not_old_or_new"

TSpawn(e) == view' = [view EXCEPT ![e.p] = Empty] /\ UNCHANGED <<S, maybe>>
TWrite(e) == IF e.done = 1 /\ SerOK(e.cfg) /\ Target # 0
             THEN /\ S' = [S EXCEPT ![Target] = Holds(e.cfg)]          \* LawBegin, then LawComplete
                  /\ maybe' = [maybe EXCEPT ![Target] = {}]
                  /\ view' = [view EXCEPT ![e.p] = e.cfg]
             ELSE LawBegin(e.p, e.cfg)                                  \* died inside, or could not be carried out
TBegin(e) == LawBegin(e.p, e.cfg)
TEnd(e)   == IF e.done = 1 /\ SerOK(e.cfg) /\ Target # 0 THEN LawComplete(e.p, e.cfg) ELSE LawSame
TRead(e)  == /\ Report(JudgeRead(e))
             /\ IF e.ok = 1 THEN LawGiven(e.p, e.cfg) ELSE LawSame

Init == /\ c \in 1..N /\ l = 0
        /\ S = [i \in 1..NPaths |-> [there |-> Obs[c].init[i].there = 1, cfg |-> Obs[c].init[i].cfg]]
        /\ maybe = [i \in 1..NPaths |-> {}]
        /\ view = [p \in Procs |-> Empty]
        /\ disk = <<>> /\ proc = <<>> /\ out = NoOut
Next == /\ l < Len(Obs[c].events)
        /\ LET e == Ev(c, l + 1) IN
              \/ e.op = "spawn" /\ TSpawn(e)
              \/ e.op = "write" /\ TWrite(e)
              \/ e.op = "begin" /\ TBegin(e)
              \/ e.op = "end"   /\ TEnd(e)
              \/ e.op = "read"  /\ TRead(e)
        /\ l' = l + 1 /\ c' = c
        /\ UNCHANGED <<disk, proc, out>>
=============================================================================
