CONSTANTS Dates = {1}
          Stamps = {1, 2, 3}
          Vals = {1, 2}
          MaxMerges = 4
          MaxAgain = 0
          Stable = TRUE
          Zones <- ZonesEW
          ZoneAware = TRUE
INIT Init
NEXT NextMC
CONSTRAINT ReadsAreLeaves
INVARIANT MCStoreShape
INVARIANT MCRefines
INVARIANT MCRefinesFirst
INVARIANT MCNoLeak
INVARIANT ReadOK
INVARIANT MCLawsAgree
INVARIANT MCReplayKeeps
PROPERTY NoLookAhead
PROPERTY NoLookAheadLaw
PROPERTY AgainNoop
