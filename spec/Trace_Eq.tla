------------------------------ MODULE Trace_Eq ------------------------------
(* Trace validation for property C14.  The log is ONE observation of the real code - the full  *)
(* matrix eq(x_i, x_j) over a universe of concrete values and their structural copies - cut    *)
(* into lines so that TLC can index it and 16 workers can share it:                            *)
(*   line 1            {"op":"hdr", "n": V}                                                     *)
(*   lines 2 .. V+1    {"op":"val", "id": i, "desc": <descriptor of x_i as in Eq.tla>}         *)
(*                     the CONCRETE descriptor of the object as it was built: insertion order  *)
(*                     of its dicts, views into shared buffers (Eq!Norm gives the value)       *)
(*   next V*V lines    {"op":"eq", "i": i, "j": j, "out": "T" | "F" | "exc:<class>" | "other:<type>"}   *)
(*                     in row-major order, so that Cell(i, j) is a direct index                *)
(*   then              {"op":"in", "i": i, "seq": <<j1, ..>>, "out": ..}   in_(x_i, [x_j1, ..]) *)
(*   then              {"op":"call", "h": history, "step": k, "x": .., "y": .., "out": ..}     *)
(*                     eq(x, y) on two live objects in a history of in-place writes; x, y are  *)
(*                     the descriptors the objects project to at the moment of the call        *)
(* Verdict of an "eq" line (i, j): the axioms of the statement as far as they involve the cell *)
(* - boolean, reflexive on structural copies and on other realisations of the same value       *)
(* (another insertion order of a dict, other memory: "other_realisation_unequal"), symmetric    *)
(* (against the mirrored cell),                                                                 *)
(* transitive (against every third value k), and equal to what the statement pins - joined     *)
(* with "+" when several clauses fail; a transitivity failure carries its first witness k;    *)
(* after "@" the place where the two descriptors first differ (Eq!At), for the reports.        *)
EXTENDS Eq, Batch

NV         == Obs[1].n
Desc(i)    == Obs[1 + i].desc                 \* the realisation
ValueOf    == [i \in 1..NV |-> Norm(Obs[1 + i].desc)]
Val(i)     == ValueOf[i]                       \* the value it denotes
Cell(i, j) == Obs[1 + NV + (i - 1) * NV + j].out

Min(S) == CHOOSE a \in S : \A b \in S : a <= b

CellVerdict(o) ==
    LET i == o.i  j == o.j  m == o.out  r == Cell(j, i)
        dx == Val(i)  dy == Val(j)
        \* k with eq(x_i, x_j), eq(x_j, x_k) but not eq(x_i, x_k)
        W == IF m = "T" THEN {k \in 1..NV : Cell(j, k) = "T" /\ Cell(i, k) = "F"} ELSE {}
        cl == (IF ~IsB(m) THEN "+not_boolean" ELSE "")
           \o (IF m = "T" /\ r = "F" THEN "+asymmetric" ELSE "")
           \o (IF W # {} THEN "+intransitive:" \o ToString(Min(W)) ELSE "")
           \o (IF m = "F" /\ ClauseIfF(dx, dy) # ""
               THEN "+" \o (IF ClauseIfF(dx, dy) = "copy_unequal" /\ ~SameRealisation(Desc(i), Desc(j)) THEN "other_realisation_unequal" ELSE ClauseIfF(dx, dy))
               ELSE "")
           \o (IF m = "T" /\ ClauseIfT(dx, dy) # "" THEN "+" \o ClauseIfT(dx, dy) ELSE "")
    IN  IF cl = "" THEN "" ELSE cl \o "@" \o At(dx, dy)

\* in_(x, seq) is membership under eq: a boolean, TRUE iff eq(x, s) holds for some s of seq
\* (judged against the observed matrix when the cells in_ had to look at are booleans)
InVerdict(o) ==
    LET i == o.i  q == o.seq  m == o.out
        hit == {k \in 1..Len(q) : Cell(i, q[k]) = "T"}
        upto == IF hit = {} THEN Len(q) ELSE Min(hit)
        clean == \A k \in 1..upto : IsB(Cell(i, q[k]))
    IN  IF ~IsB(m) THEN "+in_not_boolean"
        ELSE IF clean /\ m # (IF hit = {} THEN "F" ELSE "T") THEN "+in_not_membership"
        ELSE ""

\* eq(x, y) in the middle of a history of in-place writes: x and y are the descriptors the two objects project to
\* at the moment of the call - the answer is judged against what the statement pins for THOSE, whatever was
\* answered about the same two objects earlier
CallVerdict(o) ==
    LET m == o.out IN
    IF ~ConcreteOK(o.x) \/ ~ConcreteOK(o.y) THEN "+bad_descriptor"
    ELSE LET cl == (IF ~IsB(m) THEN "+not_boolean" ELSE "")
                \o (IF m = "F" /\ ClauseIfFC(o.x, o.y) # "" THEN "+" \o ClauseIfFC(o.x, o.y) ELSE "")
                \o (IF m = "T" /\ ClauseIfTC(o.x, o.y) # "" THEN "+" \o ClauseIfTC(o.x, o.y) ELSE "")
         IN  IF cl = "" THEN "" ELSE cl \o "@" \o AtC(o.x, o.y)

WellFormed(o) == o.id + 1 <= Len(Obs) /\ Obs[1 + o.id] = o

Verdict(o) ==
    CASE o.op = "hdr" -> IF Len(Obs) >= 1 + o.n + o.n * o.n THEN "" ELSE "+short_log"
      [] o.op = "val" -> IF ~WellFormed(o) THEN "+misplaced_value" ELSE IF ~ConcreteOK(o.desc) THEN "+bad_descriptor" ELSE ""
      [] o.op = "eq"  -> IF Obs[1 + NV + (o.i - 1) * NV + o.j] = o THEN CellVerdict(o) ELSE "+misplaced_cell"
      [] o.op = "in"  -> InVerdict(o)
      [] o.op = "call" -> CallVerdict(o)
      [] OTHER -> "+unknown_op"

Init == BatchInit
Next == BatchNext(Verdict)
=============================================================================
