------------------------------ MODULE MC_Drange ------------------------------
(* Property C10 on the specification: every case (t0, t1, bump) of three families is one         *)
(* behaviour of the drange machine (one Step per emitted element).                                *)
(*   day family       14 start days (two weekends, Feb 29) x spans -DSpan..DSpan days x           *)
(*                    ints, timedelta(days), 'nd', 'nw', 'kb' of both signs, whole-day compounds   *)
(*   intraday family  starts Fri 09:30, Fri 09:30:00.25, Sat 23:59, spans of seconds to 25 hours   *)
(*                    x 'nh', 'nn', 'ns', intraday timedeltas (also sub-second), compounds         *)
(*   month family     midnight starts on days 1/15/28 x t1 = t0 + j months + e days x              *)
(*                    'nm', 'nq', 'ny' of both signs, compounds such as '1y-3m2d'                  *)
(*   whole-day x intraday family   starts Thu 00:00, Fri 09:30, Fri 09:30:00.25, Sat 23:59 x t1 on  *)
(*                    the day WSpan away at every time of day of a menu (and 1 microsecond either   *)
(*                    side of t0's time of day): endpoints NOT a whole number of days apart, spans  *)
(*                    of less than a day / less than one bump, x every spelling of a whole-day      *)
(*                    bump (int where the quantifier admits it, timedelta(days), 'nd', 'nw'),       *)
(*                    day-and-a-half timedeltas, '24h', whole-day compounds, 'kb'                   *)
(*   start-dependent family   6 starts x spans -DSpan..DSpan x compound bumps whose heading depends on    *)
(*                    the start date ('1m-30d', '1b-2d', ...), where the iteration is steady               *)
(* Invariants: one per clause of the statement.  Termination is checked as a liveness property    *)
(* under weak fairness, without any state constraint.  The generator configuration prints every   *)
(* case with the outcomes the specification accepts, for replay into the real drange (S2C).        *)
EXTENDS Drange, TLC, Json
CONSTANTS DSpan,     \* day family: spans -DSpan..DSpan
          NDay,      \* day family: number of start days (from Sat 2000-02-19)
          MJMax,     \* month family: t1 up to MJMax months from t0
          MYears,    \* month family: years of the start days
          WSpanAbs,  \* whole-day x intraday family: t1 falls on the day t0 + sp or t0 - sp, sp \in WSpanAbs
          WKAbs      \* whole-day x intraday family: the day counts n, -n of int n / timedelta(n) / 'nd'

T1(n, u) == <<"tenor", <<<<n, u>>>>>>
T2(a, ua, b, ub) == <<"tenor", <<<<a, ua>>, <<b, ub>>>>>>
T3(a, ua, b, ub, e, ue) == <<"tenor", <<<<a, ua>>, <<b, ub>>, <<e, ue>>>>>>
D0 == OrdOf(2000, 2, 19)                                   \* a Saturday

\* -------------------------------------------------------------------------------- day family -
KD == {-10, -7, -3, -2, -1, 1, 2, 3, 7, 10}
KB == {-6, -5, -3, -2, -1, 1, 2, 3, 5, 6}
DayBumps == {<<"int", k>> : k \in KD} \cup {<<"td", <<k, 0, 0>>>> : k \in KD} \cup {T1(k, "d") : k \in KD}
            \cup {T1(k, "w") : k \in {-2, -1, 1, 2}} \cup {T1(k, "b") : k \in KB}
            \cup {T2(1, "w", -1, "d"), T2(-1, "w", 1, "d"), T2(1, "d", 12, "h"), T2(-1, "d", -12, "h"),
                  T2(2, "b", 1, "d"), T2(-2, "b", -1, "d"), T2(1, "b", 1, "b"), T3(1, "d", 1, "d", 1, "d"),
                  \* the leading part opposes the net movement: the direction of a bump is where dt_bump moves t0
                  T2(-1, "d", 1, "w"), T2(1, "d", -1, "w"), T2(-2, "b", 1, "w"), T2(2, "b", -1, "w")}
DayCases == {<<Midnight(a), Midnight(a + sp), b>> : a \in D0..(D0 + NDay - 1), sp \in (-DSpan)..DSpan, b \in DayBumps}

\* --------------------------------------------------------------------------- intraday family -
IStarts == {<<D0 + 6, 34200, 0>>, <<D0 + 6, 34200, 250000>>, <<D0 + 7, 86340, 0>>}
ISpans  == {-90000, -7200, -3600, -1801, -60, -1, 0, 1, 59, 1800, 3600, 3601, 7200, 90000}
IBumps  == {T1(k, "h") : k \in {-2, -1, 1, 2}} \cup {T1(k, "n") : k \in {-90, -30, 30, 90}} \cup {T1(k, "s") : k \in {-1800, 1800}}
           \cup {<<"td", x>> : x \in {<<0, 1800, 0>>, <<-1, 84600, 0>>, <<0, 3600, 0>>, <<0, 5400, 500000>>, <<-1, 80999, 500000>>}}
           \cup {T2(1, "h", 30, "n"), T2(-1, "h", -30, "n"), T2(1, "h", -15, "n"),
                 T2(3, "h", -1, "d"), T2(-3, "h", 1, "d"), T2(-15, "n", 1, "h"), T2(15, "n", -1, "h")}
FineBumps == {T1(45, "s"), T1(-45, "s"), <<"td", <<0, 0, 400000>>>>, <<"td", <<-1, 86399, 600000>>>>}
ICases == {<<a, AddDur(a, 0, sp, 0), b>> : a \in IStarts, sp \in ISpans, b \in IBumps}
          \cup {<<a, AddDur(a, 0, sp, 0), b>> : a \in IStarts, sp \in {-61, -2, 0, 3, 200}, b \in FineBumps}
\* period strings with sub-second endpoints are kept out of the model-checked menu (see c10.py)
IntraCases == {x \in ICases : x[3][1] = "tenor" => x[1][3] = 0}

\* ------------------------------------------------------------------------------ month family -
MJ == {j \in {-36, -25, -24, -13, -12, -7, -3, -2, -1, 0, 1, 2, 3, 7, 12, 13, 24, 25, 36} : Abs(j) <= MJMax}
MStarts == {OrdOf(y, m, d) : y \in MYears, m \in {1, 2, 12}, d \in {1, 28}} \cup {OrdOf(2000, 3, 15)}
MBumps  == {T1(k, "m") : k \in {-6, -2, -1, 1, 2, 6}} \cup {T1(k, "q") : k \in {-2, -1, 1, 2}} \cup {T1(k, "y") : k \in {-2, -1, 1, 2}}
           \cup {T2(1, "m", -1, "d"), T2(-1, "m", 1, "d"), T3(1, "y", -3, "m", 2, "d"), T3(-1, "y", 3, "m", -2, "d"),
                 T2(1, "q", 1, "w"), T2(1, "m", 1, "b"),
                 T2(-1, "d", 1, "m"), T2(1, "d", -1, "m"), T2(-1, "w", 1, "q"), T2(1, "w", -1, "q"), T2(-11, "m", 1, "y"), T2(11, "m", -1, "y")}
MonthCases == {<<Midnight(a), Midnight(AddMonths(a, j) + e), b>> : a \in MStarts, j \in MJ, e \in {-1, 0, 1}, b \in MBumps}

\* -------------------------------------------------------------- whole-day x intraday family -
\* Whole-day bumps in every spelling between endpoints with times of day of their own.  t1 takes every time of
\* day of the menu (the starts' own among them: then the endpoints are whole days apart and int / 'kb' join in)
\* and the instants one microsecond either side of "whole days apart" (the last element is in or out by 1 us).
WSpan   == WSpanAbs \cup {-sp : sp \in WSpanAbs}
WK      == WKAbs \cup {-k : k \in WKAbs}
WStarts == {<<D0 + 5, 0, 0>>, <<D0 + 6, 34200, 0>>, <<D0 + 6, 34200, 250000>>, <<D0 + 7, 86340, 0>>}
WTods   == {<<0, 0>>, <<21600, 0>>, <<34200, 0>>, <<34200, 250000>>, <<86340, 0>>}
WEnds(a, sp) == {<<a[1] + sp, x[1], x[2]>> : x \in WTods}
                \cup {AddDur(a, sp, 0, e) : e \in {-1, 1}}
WBumps  == UNION {SpellingsOfDays(k) : k \in WK}
           \cup {<<"td", x>> : x \in {<<1, 43200, 0>>, <<-2, 43200, 0>>, <<0, 86399, 999999>>, <<-2, 86399, 999999>>}}
           \cup {T1(24, "h"), T1(-24, "h"), T1(1, "b"), T1(-1, "b"), T1(2, "b"), T1(-2, "b"),
                 T2(1, "d", 0, "h"), T2(-1, "d", 0, "h"), T2(1, "w", -5, "d"), T2(-1, "w", 5, "d")}
WCases  == UNION {{<<a, z, b>> : z \in UNION {WEnds(a, sp) : sp \in WSpan}, b \in WBumps} : a \in WStarts}

\* ------------------------------------------------------------- start-dependent family -
\* Compound bumps whose heading depends on the start date ('1m-30d' moves 1 Feb back to 30 Jan and any d Jan forward to
\* d+1 Jan; '1b-2d' moves a Friday forward and a Monday back; '1m-4w' does not move 1 Feb 2001): which way a bump points
\* is a fact about (t0, bump).  Kept where every step of the iteration moves towards t1 (Drange!Steady).
DepStarts == {OrdOf(2001, 1, 1), OrdOf(2001, 1, 5), OrdOf(2001, 1, 6), OrdOf(2001, 2, 1), OrdOf(2000, 2, 1), OrdOf(2001, 3, 1)}
DepBumps  == {T2(1, "m", -30, "d"), T2(-1, "m", 30, "d"), T2(1, "b", -2, "d"), T2(-1, "b", 2, "d"), T2(2, "b", -3, "d"), T2(1, "m", -4, "w")}
DepCases  == {y \in {<<Midnight(a), Midnight(a + sp), b>> : a \in DepStarts, sp \in (-DSpan)..DSpan, b \in DepBumps} :
                  CaseInDomain(y[1], y[2], y[3]) /\ Steady(y[1], y[2], y[3])}

Cases == {x \in DayCases \cup IntraCases \cup MonthCases \cup WCases : CaseInDomain(x[1], x[2], x[3])} \cup DepCases
\* the family is not vacuous: one bump heads both ways and is rejected both ways within it
BothWays(b, d) == (\E y \in DepCases : y[3] = b /\ Dir(y[1], b) = d /\ Toward(y[1], y[2]) = d)
                  /\ (\E v \in DepCases : v[3] = b /\ Dir(v[1], b) = d /\ Toward(v[1], v[2]) = -d)
ASSUME \A b \in {T2(1, "m", -30, "d"), T2(1, "b", -2, "d"), T2(-1, "m", 30, "d")} : BothWays(b, 1) /\ BothWays(b, -1)
ASSUME BothWays(T2(-1, "b", 2, "d"), 1) /\ \E y \in DepCases : y[3] = T2(-1, "b", 2, "d") /\ Dir(y[1], y[3]) = -1

Init == DrInit(Cases)
Next == DrNext
Spec == Init /\ [][Next]_drvars /\ WF_drvars(Next)
Termination == <>Halted

\* ------------------------------------------------------------------------------- invariants --
Forward == Toward(t0, t1)
Ords(xs) == [i \in DOMAIN xs |-> xs[i][1]]
StrictlyMonotone == \A i \in 1..(Len(out) - 1) : Cmp(out[i + 1], out[i]) = Forward
StartsAtT0       == (out # <<>> /\ ~IsBBump(bump)) => out[1] = t0
WithinBounds     == \A i \in 1..Len(out) : Between(out[i], t0, t1)
IteratesBump     == \A i \in 1..(Len(out) - 1) : out[i + 1] = Apply(out[i], bump)
WeekdaysOnly     == (IsBBump(bump) /\ t0 # t1) => \A i \in 1..Len(out) : IsWeekday(out[i][1]) /\ out[i][2] = t0[2] /\ out[i][3] = t0[3]
SinglePoint      == (t0 = t1 /\ st = "done") => out = <<t0>>
RejectsAway      == (st = "rejected") <=> (t0 # t1 /\ Dir(t0, bump) # Forward /\ st # "run")
NothingOnReject  == st = "rejected" => out = <<>>
KeepsDirection   == (st = "run" /\ t0 # t1 /\ Dir(t0, bump) = Forward /\ Within(cur, t0, t1)) => Dir(cur, bump) = Forward
SingleDirIsSign  == (bump[1] = "tenor" /\ Len(bump[2]) = 1) => Dir(t0, bump) = Sign(bump[2][1][1])
FinalIsDrange    == (st = "done" /\ t0 # t1) => IsDrange(t0, t1, bump, out)
FinalExplained   == Halted => LET r == IF st = "rejected" THEN <<"exc", "ValueError">> ELSE <<"ok", out>>
                              IN  Accepts(t0, t1, bump, r) /\ Explain(t0, t1, bump, r) = ""
\* integer n, timedelta(n) and 'nd' give identical lists
IntTdDaySame     == (st = "done" /\ t0 # t1 /\ bump[1] = "int") =>
                        /\ IsDrange(t0, t1, <<"td", <<bump[2], 0, 0>>>>, out)
                        /\ IsDrange(t0, t1, T1(bump[2], "d"), out)
                        /\ \A i \in 1..Len(out) : out[i] = AddDur(t0, (i - 1) * bump[2], 0, 0)
                        /\ Len(out) = (Abs(t1[1] - t0[1]) \div Abs(bump[2])) + 1
\* '1b' / '-1b': every weekday between the endpoints; 'kb': every k-th of them
WeekdaysFromTo == LET lo == IF t0[1] < t1[1] THEN t0[1] ELSE t1[1]
                      hi == IF t0[1] < t1[1] THEN t1[1] ELSE t0[1]
                      S  == {x \in lo..hi : IsWeekday(x)}
                  IN  IF Forward = 1 THEN SetToSortSeq(S, LAMBDA a, b : a < b) ELSE SetToSortSeq(S, LAMBDA a, b : a > b)
EveryKthWeekday  == (st = "done" /\ t0 # t1 /\ IsBBump(bump)) =>
                        LET W == WeekdaysFromTo  k == Abs(BCount(bump)) IN
                        /\ Len(out) = (Len(W) + k - 1) \div k
                        /\ \A i \in 1..Len(out) : out[i][1] = W[1 + (i - 1) * k]

\* the same list as a function of the arguments alone (Drange!Walk / Outcome / AcceptSeq; recursive: small spans only)
MachineIsFunction == Halted => Outcome(t0, t1, bump) = (IF st = "rejected" THEN <<"exc", "ValueError">> ELSE <<"ok", out>>)

\* the same for every spelling of a whole-day bump and ANY endpoints (times of day of their own, less than a day /
\* less than one bump apart): the finished list is the list of each sibling spelling the quantifier admits there, it
\* is t0, t0 + n days, ... in closed form (so it starts at t0 and keeps t0's time of day), and a sibling is rejected
\* exactly when this spelling is
SpellingsSame    == (Halted /\ t0 # t1 /\ IsWholeDayBump(bump)) =>
                        \A c \in Siblings(t0, t1, bump) :
                            /\ Outcome(t0, t1, c) = (IF st = "rejected" THEN <<"exc", "ValueError">> ELSE <<"ok", out>>)
                            /\ st = "done" => IsDrange(t0, t1, c, out)
WholeDayClosed   == (st = "done" /\ t0 # t1 /\ IsWholeDayBump(bump)) => IsWholeDayList(t0, t1, WholeDays(bump), out)
\* a span shorter than one bump (in particular: less than a day) is no error: the list is <<t0>>
ShortSpanIsT0    == (Halted /\ t0 # t1 /\ IsWholeDayBump(bump) /\ Dir(t0, bump) = Forward /\ WholePeriods(t0, t1, WholeDays(bump)) = 0)
                        => (st = "done" /\ out = <<t0>>)

\* -------------------------------------------------------------------------------- generator --
Emit(r) == PrintT(ToJson([t0 |-> t0, t1 |-> t1, bump |-> bump, accept |-> r]))
NextGen == \/ Single /\ Emit(IF SinglePointWeekend(t0, t1, bump) THEN << <<"ok", <<t0>>>>, <<"ok", <<>>>> >> ELSE << <<"ok", <<t0>>>> >>)
           \/ RejectBump /\ Emit(<< <<"exc", "ValueError">> >>)
           \/ Step
           \/ Finish /\ Emit(<< <<"ok", out>> >>)

\* --------------------------------------------------------------------------- call histories --
\* A session of two calls over the same window; in between the caller changes, in place, the list the
\* first call returned.  The list a call returns is a value of its arguments (Outcome): whatever happened
\* to earlier results, the second call must return what it would return as a first call.
HWindows == {<<Midnight(a), Midnight(a + sp)>> : a \in D0..(D0 + 3), sp \in {-9, -4, -1, 0, 1, 2, 5, 9}}
            \* windows whose endpoints have times of day of their own (not whole days apart; less than a day apart)
            \cup {<<<<D0 + 6, 34200, 0>>, <<D0 + 9, 21600, 0>>>>, <<<<D0 + 9, 21600, 0>>, <<D0 + 6, 34200, 0>>>>,
                  <<<<D0 + 5, 0, 0>>, <<D0 + 5, 64800, 0>>>>, <<<<D0 + 5, 64800, 0>>, <<D0 + 5, 0, 0>>>>,
                  <<<<D0 + 3, 0, 0>>, <<D0 - 1, 21600, 0>>>>}
HFirst   == {<<"int", 1>>, <<"int", -1>>, <<"int", 2>>, <<"td", <<1, 0, 0>>>>, <<"td", <<-1, 0, 0>>>>, T1(1, "d"), T1(1, "b"), T1(-1, "b"), T2(1, "d", 0, "h")}
HSecond  == {<<"int", k>> : k \in {-7, -2, -1, 1, 2, 3}} \cup {<<"td", <<1, 0, 0>>>>, <<"td", <<-1, 0, 0>>>>, T1(1, "d"), T1(-1, "d"),
             T1(1, "b"), T1(-1, "b"), T1(2, "b"), T2(1, "d", 0, "h"), <<"td", <<2, 0, 0>>>>, <<"td", <<-2, 0, 0>>>>}
Mutations == {"append", "pop", "clear", "reverse"}
InitHist == /\ \E w \in HWindows : t0 = w[1] /\ t1 = w[2]
            /\ bump \in HFirst /\ cur \in Mutations /\ out \in HSecond /\ st = "run"
            /\ CaseInDomain(t0, t1, bump) /\ CaseInDomain(t0, t1, out)
\* (in this generator cur holds the mutation and out the bump of the second call)
NextHist == /\ st = "run" /\ st' = "done" /\ UNCHANGED <<t0, t1, bump, cur, out>>
            /\ PrintT(ToJson([t0 |-> t0, t1 |-> t1,
                              hist |-> << [op |-> "call", bump |-> bump, accept |-> AcceptSeq(t0, t1, bump)],
                                          [op |-> "mutate_result", how |-> cur],
                                          [op |-> "call", bump |-> out, accept |-> AcceptSeq(t0, t1, out)] >>]))
=============================================================================
