-------------------------------- MODULE Join --------------------------------
(* Property C02, law level: join as the relational inner / cross join, xor as the anti-join.    *)
(* Written from the statement: the result is the multiset of pairs (l, r) of a left and a right *)
(* row whose keys are equal under KeyEq (int = same-valued float, None = None, NaN = NaN        *)
(* whatever the object), each carrying the key, every other column of both sides, and           *)
(* same-named non-key columns combined as the mode prescribes.                                  *)
EXTENDS Table, FiniteSetsExt, SequencesExt

\* ---- abstract key cells -------------------------------------------------------------------------
\* TLC's integers are 32-bit, the statement's "ints, floats" are not: keys of large magnitude (ints beyond 2^53 and
\* 2^63, an int next to the float it rounds to) and keys in unusual realisations (numpy scalars of every width,
\* Timestamp for datetime, str subclasses) cross the boundary as ABSTRACT KEY CELLS
\*     <<"k", <<class, slot>>>>       class: which key it is - two cells are equal keys iff their classes agree
\*                                    (classes are numbered in the keys' natural order); slot: which realisation
\* All the law needs of a key is which keys are equal.  The driver chooses concrete witnesses (harness/x_join.py: a
\* witness scheme maps class x slot to a Python object, e.g. 2^53, 2^53 + 1, 2^53 + 2 as int / float / numpy.int64) and
\* encodes every cell that comes back by the class of its exact value.  A "k" cell never equals an ordinary value
\* (within one table family all keys of the witnesses' kind are "k" cells).
IsK(v) == Tag(v) = "k"
KClass(v) == Pay(v)[1]
RECURSIVE KeyEqK(_, _)
KeyEqK(u, v) ==
    IF IsK(u) /\ IsK(v) THEN KClass(u) = KClass(v)
    ELSE IF IsK(u) \/ IsK(v) THEN FALSE
    ELSE IF IsSeq(u) /\ IsSeq(v)
         THEN /\ Tag(u) = Tag(v)
              /\ Len(Pay(u)) = Len(Pay(v))
              /\ \A i \in 1..Len(Pay(u)) : KeyEqK(Pay(u)[i], Pay(v)[i])
    ELSE KeyEq(u, v)

\* ---- keys ---------------------------------------------------------------------------------------
\* a key specification is <<"col", name>> or <<"fn", f>> with f from the menu of computed keys
KeyVal(row, ks) == IF ks[1] = "col" THEN row[ks[2]]
                   ELSE CASE ks[2] = "ident_a" -> row.a                       \* lambda a: a
                          [] ks[2] = "ident_b" -> row.b                       \* lambda b: b
                          [] ks[2] = "pair_ab"  -> VTup(<<row.a, row.b>>)     \* lambda a, b: (a, b)
Key(row, kss) == [k \in 1..Len(kss) |-> KeyVal(row, kss[k])]
Match(l, r, lk, rk) == \A k \in 1..Len(lk) : KeyEqK(KeyVal(l, lk[k]), KeyVal(r, rk[k]))
\* the name under which key k appears in the result: the left name if the left key is a column,
\* else the right name; two computed keys cannot be joined (ValueError)
KeyNameOK(lk, rk) == \A k \in 1..Len(lk) : lk[k][1] = "col" \/ rk[k][1] = "col"
KeyName(lk, rk, k) == IF lk[k][1] = "col" THEN lk[k][2] ELSE rk[k][2]
KeyNames(lk, rk) == {KeyName(lk, rk, k) : k \in 1..Len(lk)}

\* ---- result rows --------------------------------------------------------------------------------
Combine(mode, lv, rv) == CASE mode = "none" -> VTup(<<lv, rv>>)        \* mode None: the pair
                           [] mode \in {"l", "0"} -> lv
                           [] mode \in {"r", "1"} -> rv
                           [] mode = "fn" -> VLst(<<rv, lv>>)          \* the driver's callable: lambda l, r: [r, l]
JoinCols(x, y, lk, rk) == KeyNames(lk, rk) \cup ColSet(x) \cup ColSet(y)
Merged(x, y, l, r, lk, rk, mode) ==
    [c \in JoinCols(x, y, lk, rk) |->
        IF c \in KeyNames(lk, rk)
        THEN KeyVal(l, lk[CHOOSE k \in 1..Len(lk) : KeyName(lk, rk, k) = c])     \* "carrying the key"
        ELSE IF c \in ColSet(x) /\ c \in ColSet(y) THEN Combine(mode, l[c], r[c])
        ELSE IF c \in ColSet(x) THEN l[c] ELSE r[c]]
Pairs(x, y, lk, rk) == {p \in (1..NRows(x)) \X (1..NRows(y)) : Match(x.rows[p[1]], y.rows[p[2]], lk, rk)}
\* the expected rows, in some order (the statement speaks of a multiset)
JoinRows(x, y, lk, rk, mode) ==
    LET ps == SetToSeq(Pairs(x, y, lk, rk))
    IN  [n \in 1..Len(ps) |-> Merged(x, y, x.rows[ps[n][1]], y.rows[ps[n][2]], lk, rk, mode)]
XorRows(x, y, lk, rk) == SelectSeq(x.rows, LAMBDA l : \A j \in 1..NRows(y) : ~Match(l, y.rows[j], lk, rk))

\* ---- comparison of row multisets ---------------------------------------------------------------
\* key cells are compared with KeyEq (the result may show 1.0 where the row had 1, or another NaN
\* object: "carrying the key"), all other cells exactly
RowEquiv(r1, r2, keynames) == /\ DOMAIN r1 = DOMAIN r2
                              /\ \A c \in DOMAIN r1 : IF c \in keynames THEN KeyEqK(r1[c], r2[c]) ELSE r1[c] = r2[c]
CountEq(rows, r, kn) == Cardinality({i \in 1..Len(rows) : RowEquiv(rows[i], r, kn)})
BagEq(out, exp, kn) == /\ Len(out) = Len(exp)
                       /\ \A i \in 1..Len(out) : CountEq(out, out[i], kn) = CountEq(exp, out[i], kn)
                       /\ \A i \in 1..Len(exp) : CountEq(out, exp[i], kn) = CountEq(exp, exp[i], kn)

\* implicit keys (lcols = None): the columns the two tables share, in the left table's order
Common(x, y) == SelectSeq(x.cols, LAMBDA cc : cc \in ColSet(y))
=============================================================================
