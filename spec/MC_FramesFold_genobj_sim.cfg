CONSTANTS
 MaxLen = 4
 NStamps = 2
 Leaky = FALSE
 Depth = 6
INIT InitObj
NEXT GenNext
