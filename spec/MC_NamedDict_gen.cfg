CONSTANTS Big = FALSE
          Strata = {"calls", "types", "casts", "both", "decl"}
          MaxOps = 0
INIT Init
NEXT EvalGen
