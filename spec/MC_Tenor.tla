------------------------------ MODULE MC_Tenor ------------------------------
(* X05-a on the specification itself, and the generators for the replay into the code.           *)
(* One behaviour (a single state, plus one "done" step) per start day a; the second date runs     *)
(* over a menu of offsets inside the invariants, so that TLC's workers share the start days.      *)
(*   k = "yb"    a = the first date t0 of years_between(t0, t1); t1 = a + offset                  *)
(*   k = "ytm"   a = the maturity M;  the valuation date t = a - offset                           *)
(*   k = "ten"   a = the count n of a tenor string                                                *)
EXTENDS Tenor, TLC, Json
CONSTANTS Years, Stride,  \* every Stride-th day of these years (and every day around 28 Feb .. 1 Mar and the turn of the year) is a start day / a maturity
          GenYears, GenStride   \* generator: every GenStride-th day of GenYears (plus the days around 28 Feb .. 1 Mar)

VARIABLES k, a, done
vars == <<k, a, done>>

DaysOf(Y) == UNION {OrdOf(y, 1, 1)..OrdOf(y, 12, 31) : y \in Y}
\* the second date: around every anniversary from 3 years before to 6 years after, and single days close by
Around  == -1..1
Offsets == UNION {{365 * j + i : i \in Around} \cup {366 * j + i : i \in Around} \cup {365 * j + 180} : j \in -2..5}
            \cup {1461 + i : i \in Around} \cup {-1461 + i : i \in Around} \cup {-2, 2, 59, 60, -59, -60}
Ks      == -3..6

LeapEdge(o) == LET c == CivilOf(o) IN (c[2] = 2 /\ c[3] >= 27) \/ (c[2] = 3 /\ c[3] <= 2) \/ (c[2] = 12 /\ c[3] = 31) \/ (c[2] = 1 /\ c[3] = 1)
Starts == {o \in DaysOf(Years) : o % Stride = 0 \/ LeapEdge(o)}
Init == /\ done = FALSE
        /\ \/ k = "yb"  /\ a \in Starts
           \/ k = "ytm" /\ a \in Starts
           \/ k = "ten" /\ a \in -60..60
Next == done = FALSE /\ done' = TRUE /\ UNCHANGED <<k, a>>

\* (judged after the step: TLC evaluates the invariants of initial states on one thread, those of successors on all workers)
OnYB(P(_, _))  == (done /\ k = "yb")  => \A off \in Offsets : P(a, a + off)
OnYTM(P(_, _)) == (done /\ k = "ytm") => \A off \in Offsets : P(a, a - off)

\* ---- whole years ---------------------------------------------------------------------------
\* the year shift is strictly increasing in the number of years and stays in "its" year (or on the 1st of March of it)
ShiftShape == (done /\ k \in {"yb", "ytm"}) => \A y \in -8..8 :
                 /\ Shift(a, y) < Shift(a, y + 1)
                 /\ LET c == CivilOf(Shift(a, y)) IN c[1] = YearOfOrd(a) + y /\ (c = <<c[1], 3, 1>> \/ <<c[2], c[3]>> = <<CivilOf(a)[2], CivilOf(a)[3]>>)
                 /\ Shift(a, 0) = a
\* ... hence nothing outside the window of three candidates can be the largest y with Shift(a, y) <= o1
WindowIsEnough == OnYB(LAMBDA o0, o1 : LET dy == YearOfOrd(o1) - YearOfOrd(o0) IN
                      /\ Shift(o0, dy - 1) <= o1
                      /\ Shift(o0, dy + 2) > o1)
FloorLaw == OnYB(LAMBDA o0, o1 : LET w == WholeYears(o0, o1) IN
                      /\ Shift(o0, w) <= o1 /\ o1 < Shift(o0, w + 1)
                      /\ (o1 >= o0 <=> w >= 0))
\* an anniversary is a whole number of years away, the day before it is not
Anniversaries == (done /\ k = "yb") => \A y \in Ks : /\ WholeYears(a, Shift(a, y)) = y
                                           /\ WholeYears(a, Shift(a, y) - 1) = y - 1
MechWholeYearsIsLaw == OnYB(LAMBDA o0, o1 : MechWholeYears(o0, o1) = WholeYears(o0, o1))

\* ---- years to maturity ---------------------------------------------------------------------
\* the part of a year is between 0 and 366/365: on the day after an anniversary that has a leap day ahead
\* the remaining days are 365, i.e. a full 365/365 (ACT/365 knows no 366-day year)
PartOfYear == OnYTM(LAMBDA M, t : LET r == Remaining(M, t) IN r >= 0 /\ r <= 366 /\ (t <= M => r <= 365))
\* as the valuation date advances by a day, the years to maturity fall by 1/365 - or stay (the tie just described)
NonIncreasing == OnYTM(LAMBDA M, t : LET d == YTM(M, t)[1] - YTM(M, t + 1)[1] IN d \in {0, 1})
AtAnniversaries == (done /\ k = "ytm") => \A y \in 0..6 : RatEq(YTM(a, Shift(a, 0 - y)), Whole(y))
\* before maturity the years are positive, at maturity zero, past it never positive (one day past a maturity that has
\* a leap day in the year ahead is -1 + 365/365 = 0: ACT/365 again), and exactly the days over 365 inside the last year
SignAndLastYear == OnYTM(LAMBDA M, t : LET v == YTM(M, t) IN
                      /\ (t < M <=> v[1] > 0) /\ (t = M => v[1] = 0) /\ (t > M => v[1] <= 0)
                      /\ (t <= M /\ M - t < 365) => v[1] = M - t)
\* the timeseries mechanism (back-fill over the ladder of maturity anniversaries) is the law up to maturity,
\* whatever the first date of the series is; after maturity it has no rung (NaN)
SeriesMechIsLaw == OnYTM(LAMBDA M, t : \A back \in {0, 400, 1500} :
                      LET r == MechSeriesYTM(M, t - back, t) IN
                      IF t <= M THEN r[1] = "val" /\ RatEq(r[2], YTM(M, t)) ELSE r[1] = "nan")

\* ---- tenor strings -------------------------------------------------------------------------
TenorLaws == (done /\ k = "ten") =>
    /\ RatEq(TenorYears(a, "y"), Whole(a))
    /\ RatEq(TenorYears(4 * a, "q"), Whole(a)) /\ RatEq(TenorYears(12 * a, "m"), Whole(a))
    /\ RatEq(TenorYears(52 * a, "w"), Whole(a)) /\ RatEq(TenorYears(365 * a, "d"), Whole(a))
    /\ RatEq(TenorYears(252 * a, "b"), Whole(a))
    /\ RatEq(TenorYears(a, "q"), TenorYears(3 * a, "m"))
    /\ \A u \in TenorUnits : RatEq(Reduced(TenorYears(a, u)), TenorYears(a, u)) /\ Gcd(Abs(Reduced(TenorYears(a, u))[1]), Reduced(TenorYears(a, u))[2]) = 1
    /\ \A u \in TenorUnits : IsRat(TenorYears(a, u)) /\ (a > 0 <=> RatLt(Whole(0), TenorYears(a, u)))

\* ---- generators ----------------------------------------------------------------------------
Emit(x) == done = FALSE /\ done' = TRUE /\ UNCHANGED <<k, a>> /\ PrintT(ToJson(x))
GenDays == {o \in DaysOf(GenYears) : o % GenStride = 0 \/ LeapEdge(o)}
OffSeq  == SetToSeq(Offsets)
GenInit == done = FALSE /\ ((k = "gyb" /\ a \in GenDays) \/ (k = "gytm" /\ a \in GenDays) \/ (k = "gten" /\ a = 0))
GenNext ==
    CASE k = "gyb"  -> Emit([k |-> "yb", t0 |-> a, t1 |-> [i \in 1..Len(OffSeq) |-> a + OffSeq[i]],
                             want |-> [i \in 1..Len(OffSeq) |-> WholeYears(a, a + OffSeq[i])]])
      [] k = "gytm" -> Emit([k |-> "ytm", M |-> a, ts |-> [i \in 1..Len(OffSeq) |-> a - OffSeq[i]],
                             want |-> [i \in 1..Len(OffSeq) |-> Reduced(YTM(a, a - OffSeq[i]))]])
      [] k = "gten" -> Emit([k |-> "ten", ns |-> [n \in 1..121 |-> n - 61],
                             want |-> [u \in TenorUnits |-> [n \in 1..121 |-> Reduced(TenorYears(n - 61, u))]]])
=============================================================================
