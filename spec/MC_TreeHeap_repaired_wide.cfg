CONSTANTS Deep = TRUE
          Walk = "unfold"
          Size = "wide"
INIT Init
NEXT Next
INVARIANT ResultIsMerge
INVARIANT OperandsIntact
INVARIANT UnfoldedLaws
