CONSTANTS Deep = TRUE
          Size = "wide"
INIT Init
NEXT Next
INVARIANT ResultIsMerge
INVARIANT OperandsIntact
