\* S2C, thorough: call, the caller's own action on what the call was given, probe
CONSTANTS MaxSteps = 3
          FreeSteps = 1
          Scope = "quick"
          Caller = TRUE
          Edits = FALSE
          Pairs = "no"
          Extend = FALSE
          Mech = FALSE
INIT Init
NEXT NextGen
