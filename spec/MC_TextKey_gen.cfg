CONSTANTS MaxLen = 2
          Gen = TRUE
          WithDicts = TRUE
INIT Init
NEXT Next
