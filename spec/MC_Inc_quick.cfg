CONSTANTS MaxRows = 2
          Wide = FALSE
INIT Init
NEXT Eval
INVARIANT MechanismIsLaw
INVARIANT Partition
INVARIANT Idempotent
INVARIANT KeepsCols
INVARIANT NoCondIsId
INVARIANT FindSound
