CONSTANT Sizes <- SZ_gen_spell
INIT Init
NEXT Gen
