CONSTANTS MaxLen = 3
          Gen = TRUE
INIT Init
NEXT Next
