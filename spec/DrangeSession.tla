---------------------------- MODULE DrangeSession ----------------------------
(* Property C10 over SESSIONS: the Drange machine describes one call; this is the process around it.   *)
(* A caller makes several calls of drange in one process and, between them, uses the rest of the        *)
(* public API: registers / edits the default calendar (calendar(None, holidays = ..), weekend = ..),    *)
(* registers other calendars, changes in place the list an earlier call returned.                       *)
(*                                                                                                      *)
(* Law (the statement: the list is a function of t0, t1 and the bump; business-day bumps list WEEKDAYS): *)
(*   - every call returns Outcome(t0, t1, bump) of the values its arguments denote AT THAT MOMENT:       *)
(*     a call has no memory (NoMemory) ...                                                               *)
(*   - ... whatever calendars the process has registered (RegistryBlind: '1b' lists every weekday, 'kb'  *)
(*     every k-th, also when the default calendar has holidays or another weekend) ...                    *)
(*   - ... and whatever the caller did to lists returned earlier (ResultOwned).                           *)
(* The variables of Drange.tla hold the latest call: t0, t1, bump = the denoted arguments, out = what    *)
(* came back, st = "idle" | "returned" | "edited".                                                       *)
(*                                                                                                      *)
(* Mechanism (MechOutcome): today's code branch by branch - integer and business-day bumps list every    *)
(* day between the endpoints, filter, reverse and stride; everything else checks where dt_bump moves t0   *)
(* and walks.  Variants express what the law forbids (each must violate its clause in MC_DrangeSession):  *)
(*   "memo"    the heading of a compound bump is worked out once per bump string and memoised            *)
(*   "regcal"  "is a business day" is asked of the default calendar of the registry                      *)
(*   "cache"   results are cached per (t0, t1, bump) and the cached list itself is handed out            *)
EXTENDS Drange, TLC
CONSTANTS Variant,      \* "code" | "memo" | "regcal" | "cache"
          MaxCalls
VARIABLES reg,          \* the default calendar as the caller last left it: [hol |-> set of ordinals, wkd |-> set of weekdays]
          memo,         \* mechanism state of the variants (a function; <<>> in "code")
          ncalls
svars == <<t0, t1, bump, cur, out, st, reg, memo, ncalls>>

\* ------------------------------------------------------- the caller's actions on the registry ---
FreshReg == [hol |-> {}, wkd |-> {5, 6}]
\* <<"set_holidays", H>>   calendar(None, holidays = H)              (a new default calendar: weekend as default)
\* <<"set_weekend", W>>    calendar(None, weekend = W)               (a new default calendar: no holidays)
\* <<"set_both", H, W>>    calendar(None, holidays = H, weekend = W)
\* <<"register", H, W>>    calendar(Calendar(None, holidays = H, weekend = W))   (an object registered under its key)
\* <<"add_inplace", H>>    calendar().holidays[d] = d for d in H     ("modifications to the calendar object in-place")
\* <<"reset">>             calendar(None, holidays = [], weekend = [5, 6])
\* <<"named", H, W>>       calendar('another key', holidays = H, weekend = W): the default is left alone
EditReg(r, e) == CASE e[1] = "set_holidays" -> [hol |-> e[2], wkd |-> {5, 6}]
                   [] e[1] = "set_weekend"  -> [hol |-> {}, wkd |-> e[2]]
                   [] e[1] = "set_both"     -> [hol |-> e[2], wkd |-> e[3]]
                   [] e[1] = "register"     -> [hol |-> e[2], wkd |-> e[3]]
                   [] e[1] = "add_inplace"  -> [r EXCEPT !.hol = @ \cup e[2]]
                   [] e[1] = "reset"        -> FreshReg
                   [] e[1] = "named"        -> r

\* ---------------------------------------------------------------------------- mechanism ---
IsCompound(b) == b[1] = "tenor" /\ Len(b[2]) > 1
VE == <<"exc", "ValueError">>
Rev(s)       == [i \in 1..Len(s) |-> s[Len(s) + 1 - i]]
Stride(s, k) == [i \in 1..((Len(s) + k - 1) \div k) |-> s[1 + (i - 1) * k]]
\* every day from the earlier to the later endpoint at t0's time of day (rrule DAILY between min and max)
DaysAsc(a, z) == LET lo == IF a[1] < z[1] THEN a[1] ELSE z[1]
                     hi == IF a[1] < z[1] THEN z[1] ELSE a[1]
                 IN  [i \in 1..(hi - lo + 1) |-> <<lo + i - 1, a[2], a[3]>>]
IsBdayUsed(r, o) == IF Variant = "regcal" THEN Weekday(o) \notin r.wkd /\ o \notin r.hol ELSE IsWeekday(o)
HeadingUsed(m, a, b) == IF Variant = "memo" /\ IsCompound(b) /\ b \in DOMAIN m THEN m[b] ELSE Dir(a, b)

MechFresh(r, m, a, z, b) ==
    IF a = z THEN <<"ok", <<a>>>>
    ELSE IF b[1] = "int" THEN
         IF Sign(z[1] - a[1]) * Sign(b[2]) <= 0 THEN VE
         ELSE <<"ok", Stride(IF b[2] < 0 THEN Rev(DaysAsc(a, z)) ELSE DaysAsc(a, z), Abs(b[2]))>>
    ELSE IF IsBBump(b) THEN
         IF Toward(a, z) # Sign(BCount(b)) THEN VE
         ELSE LET days == SelectSeq(DaysAsc(a, z), LAMBDA x : IsBdayUsed(r, x[1]))
              IN  <<"ok", Stride(IF BCount(b) < 0 THEN Rev(days) ELSE days, Abs(BCount(b)))>>
    ELSE IF HeadingUsed(m, a, b) # Toward(a, z) THEN VE
    ELSE IF Dir(a, b) # Toward(a, z) THEN <<"timeout">>          \* `while t <= t1` on an instant that moves away
    ELSE <<"ok", Walk(a, a, z, b)>>
CacheKey(a, z, b) == <<a, z, b>>
MechOutcome(r, m, a, z, b) == IF Variant = "cache" /\ CacheKey(a, z, b) \in DOMAIN m THEN m[CacheKey(a, z, b)]
                              ELSE MechFresh(r, m, a, z, b)
MemoAfter(r, m, a, z, b) ==
    CASE Variant = "memo"  -> IF IsCompound(b) /\ a # z /\ b \notin DOMAIN m THEN m @@ (b :> Dir(a, b)) ELSE m
      [] Variant = "cache" -> IF CacheKey(a, z, b) \in DOMAIN m THEN m ELSE m @@ (CacheKey(a, z, b) :> MechFresh(r, m, a, z, b))
      [] OTHER             -> m

\* what a caller may do, in place, to a list it was given
Mutated(xs, how) == CASE how = "append"  -> Append(xs, <<730119, 0, 0>>)
                      [] how = "pop"     -> IF xs = <<>> THEN xs ELSE SubSeq(xs, 1, Len(xs) - 1)
                      [] how = "clear"   -> <<>>
                      [] how = "reverse" -> Rev(xs)

\* ------------------------------------------------------------------------------ the machine ---
SInit == /\ t0 = <<>> /\ t1 = <<>> /\ bump = <<>> /\ cur = <<>> /\ out = <<>> /\ st = "idle"
         /\ reg = FreshReg /\ memo = <<>> /\ ncalls = 0

\* one public call of drange on the values c = <<t0, t1, bump>> (whatever realises them)
Call(c) == /\ ncalls < MaxCalls
           /\ t0' = c[1] /\ t1' = c[2] /\ bump' = c[3]
           /\ out' = MechOutcome(reg, memo, c[1], c[2], c[3])
           /\ memo' = MemoAfter(reg, memo, c[1], c[2], c[3])
           /\ st' = "returned" /\ ncalls' = ncalls + 1
           /\ UNCHANGED <<cur, reg>>
\* the caller edits the registry through the public calendar API
EditCal(e) == /\ reg' = EditReg(reg, e) /\ reg' # reg
              /\ UNCHANGED <<t0, t1, bump, cur, out, st, memo, ncalls>>
\* the caller changes, in place, the list the latest call handed out
Mutate(how) == /\ st = "returned" /\ out[1] = "ok"
               /\ out' = <<"ok", Mutated(out[2], how)>> /\ st' = "edited"
               /\ memo' = IF Variant = "cache" THEN [memo EXCEPT ![CacheKey(t0, t1, bump)] = out'] ELSE memo
               /\ UNCHANGED <<t0, t1, bump, cur, reg, ncalls>>

\* ------------------------------------------------------------------------------- the law ---
DaysAscOrds(a, z) == {DaysAsc(a, z)[i][1] : i \in 1..Len(DaysAsc(a, z))}
Law(a, z, b) == Range(AcceptSeq(a, z, b))
\* what the latest call returned is the law of its own arguments
ReturnIsLaw == st = "returned" => out \in Law(t0, t1, bump)
NoMemory      == ReturnIsLaw
RegistryBlind == (st = "returned" /\ IsBBump(bump) /\ t0 # t1 /\ Toward(t0, t1) = Sign(BCount(bump))) =>
                    /\ out[1] = "ok"
                    /\ \A i \in 1..Len(out[2]) : IsWeekday(out[2][i][1])
                    /\ Abs(BCount(bump)) = 1 =>
                          {out[2][i][1] : i \in 1..Len(out[2])} = {x \in DaysAscOrds(t0, t1) : IsWeekday(x)}
ResultOwned   == ReturnIsLaw
=============================================================================
