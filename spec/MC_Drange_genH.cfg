\* S2C generator of two-call histories: call, mutate the returned list in place, call again over the same window
CONSTANTS DSpan = 12
          NDay = 7
          MJMax = 13
          MYears = {2000}
          WSpanAbs = {0, 1, 2, 5}
          WKAbs = {1, 2, 3}
INIT InitHist
NEXT NextHist
