CONSTANTS Depth = 3
          Record = FALSE
          Wide = FALSE
          Full = FALSE
INIT Init
NEXT Next
INVARIANT StateOK
INVARIANT SelfNow
INVARIANT SessionsCollide
INVARIANT InLaw
