CONSTANTS Depth = 3
          Record = FALSE
          Wide = FALSE
INIT Init
NEXT Next
INVARIANT StateOK
INVARIANT SelfNow
