CONSTANTS NPts = 5
          NDays = 2
          NSlots = 3
          StitchCfg <- StitchSmall
INIT Init
NEXT EvalGen

