CONSTANTS NPts = 5
          NDays = 2
          NSlots = 3
          StitchCfg <- StitchSmall
          NDup = 3
          MaxMult = 2
          NDupSlots = 2
          ZoneCfg <- ZonesQuick
          NZE = 3
          NZ2 = 2
          StitchDupCfg <- DupStitchSmall
          StitchNaNCfg <- NaNStitchSmall
INIT Init
NEXT EvalGen
