------------------------------ MODULE Trace_Dt ------------------------------
(* Trace validation for property C04.  Every line of the log is what the real dt() / ymd()       *)
(* returned for spellings rendered by the driver:                                                *)
(*                                                                                               *)
(*  k = "one"  one call:  op, form, f (the integers written), dl (dialect), wr, out.             *)
(*  k = "yr"   one year of calls of one spelling (op, form, tl, wr, dl) - every listed day of    *)
(*             year y, spelled with the time of day tods[month] cut to tl.  The outcomes are     *)
(*             packed as runs <<m, lo, hi, kind, ...>>: for every day d in lo..hi of month m the *)
(*             call returned <<"ok", base + d, sec, us>> (run <<m, lo, hi, "ok", base, sec, us>>)*)
(*             or raised (<<m, lo, hi, "exc", class>>) or returned something that is not a naive *)
(*             datetime (<<m, lo, hi, "other", type>>).  TLC unpacks the runs and judges every   *)
(*             single day with Denote.  n = number of days packed (nothing dropped); vs = the    *)
(*             renderings (separator, padding, names ...) that produced exactly these outcomes   *)
(*             (kept by the driver); f0 = <<m, d, integers written>> for the first packed day.   *)
(*  k = "ovf"  dt(y, m, d) / ymd(y, m, d) for every d of the runs <<lo, hi, kind, ...>>.         *)
(*                                                                                               *)
(*  k = "sess" a history of calls made one after the other in one process that had never called *)
(*             dt() before: calls = <<[op, form, f, dl, wr, out], ...>>.  A call has no memory:   *)
(*             every call is judged by Dates!Expected of that call alone, whatever preceded it;   *)
(*             calls of the noise forms (not pinned by the statement) are not judged themselves   *)
(*             and must be followed by a judged call.  where = <index of the call>:0.             *)
(*                                                                                               *)
(* Verdict: "" or "<clause>@<where>"; clause "bad_input" = the driver left the property's domain *)
(* (a machinery failure, not a violation).                                                       *)
EXTENDS Dates, Batch, SequencesExt

At3(cl, x, z) == cl \o "@" \o ToString(x) \o ":" \o ToString(z)
Least(S) == CHOOSE p \in S : \A q \in S : p[1] < q[1] \/ (p[1] = q[1] /\ p[2] <= q[2])
Packed(runs, lo, hi) == FoldSeq(LAMBDA r, acc : acc + r[hi] - r[lo] + 1, 0, runs)

OneVerdict(o) ==
    LET want == Expected(o.op, o.form, o.f, o.dl) IN
    IF want = Undefined THEN "bad_input"
    ELSE IF SameOutcome(want, o.out) THEN ""
    ELSE Clause(o.op, o.form, o.wr, o.dl, Denote(o.form, o.f, o.dl))

\* ---- a year of one spelling ----
YrOut(r, d) == IF r[4] = "ok" THEN <<"ok", r[5] + d, r[6], r[7]>> ELSE <<r[4], r[5]>>
YrWant(o, m, d) == Expected(o.op, o.form, Spell(o.form, o.y, m, d, o.tods[m], o.wr, o.tl), o.dl)
YrDenoted(o, m, d) == Denote(o.form, Spell(o.form, o.y, m, d, o.tods[m], o.wr, o.tl), o.dl)
YrVerdict(o) ==
    LET runs == o.runs
        bad == UNION {{<<i, d>> : d \in {dd \in runs[i][2]..runs[i][3] : ~SameOutcome(YrWant(o, runs[i][1], dd), YrOut(runs[i], dd))}}
                      : i \in 1..Len(runs)} IN
    IF \/ Packed(runs, 2, 3) # o.n \/ o.tl \notin Tls(o.form) \/ o.wr \notin Wrs(o.form)
       \/ Spell(o.form, o.y, o.f0[1], o.f0[2], o.tods[o.f0[1]], o.wr, o.tl) # o.f0[3]      \* the driver spells like Dates!Spell
    THEN "bad_input"
    ELSE IF bad = {} THEN ""
    ELSE LET p == Least(bad)  m == runs[p[1]][1]  want == YrWant(o, m, p[2]) IN
         IF want = Undefined THEN At3("bad_input", m, p[2])
         ELSE At3(Clause(o.op, o.form, o.wr, o.dl, YrDenoted(o, m, p[2])), m, p[2])

\* ---- overflow ----
OvfOut(r, d) == IF r[3] = "ok" THEN <<"ok", r[4] + d, r[5], r[6]>> ELSE <<r[3], r[4]>>
OvfVerdict(o) ==
    LET runs == o.runs
        ob == OverflowBase(o.y, o.m)        \* YMDOverflow(y, m, d) = ob + d
        bad == UNION {{<<i, d>> : d \in {dd \in runs[i][1]..runs[i][2] : ~SameOutcome(Ok(ob + dd, 0, 0), OvfOut(runs[i], dd))}}
                      : i \in 1..Len(runs)} IN
    IF Packed(runs, 1, 2) # o.n \/ o.m \notin -36..48 THEN "bad_input"
    ELSE IF bad = {} THEN ""
    ELSE LET p == Least(bad) IN At3("overflow", o.m, p[2])

\* ---- a history ----
SessVerdict(o) ==
    LET n == Len(o.calls)
        W(i) == Expected(o.calls[i].op, o.calls[i].form, o.calls[i].f, o.calls[i].dl)
        bad == {i \in 1..n : W(i)[1] # "unpinned" /\ ~SameOutcome(W(i), o.calls[i].out)} IN
    IF n = 0 \/ (\E i \in 1..n : W(i)[1] = "undefined") \/ W(n)[1] = "unpinned" THEN "bad_input"
    ELSE IF bad = {} THEN ""
    ELSE LET i == CHOOSE j \in bad : \A jj \in bad : j <= jj
             cc == o.calls[i] IN
         At3(Clause(cc.op, cc.form, cc.wr, cc.dl, Denote(cc.form, cc.f, cc.dl)), i, 0)

Verdict(o) == CASE o.k = "one" -> OneVerdict(o)
                [] o.k = "sess" -> SessVerdict(o)
                [] o.k = "yr"  -> YrVerdict(o)
                [] o.k = "ovf" -> OvfVerdict(o)
                [] OTHER -> "bad_input"

Init == BatchInit
Next == BatchNext(Verdict)
=============================================================================
