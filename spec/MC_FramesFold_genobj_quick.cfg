CONSTANTS
 MaxLen = 4
 NStamps = 2
 Leaky = FALSE
 Depth = 2
INIT InitObj
NEXT GenNext
