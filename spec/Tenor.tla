------------------------------- MODULE Tenor -------------------------------
(* Extension X05-a: whole years between two dates and years to maturity (ACT/365).               *)
(*                                                                                               *)
(* A date is its proleptic ordinal (Civil!Ord; the calendar is Civil.tla through Bump.tla, whose *)
(* closed forms CivilOf / OrdOf and the year shift AddYears of property C09 are reused, not      *)
(* copied).  A number of years is an exact rational <<num, den>> with den > 0 (not reduced);     *)
(* the driver sends what the code returned as a reduced fraction and rationals are compared by   *)
(* cross multiplication (RatEq), so no floating point is ever looked at inside TLC.              *)
(*                                                                                               *)
(* Law level (from the statement)                                                                *)
(*   Shift(o, y)          the date o moved by y whole years: the library's own year shift        *)
(*                        (Bump!AddYears: the day of month is kept when it exists, 29 Feb in a   *)
(*                        common year rolls to 1 Mar)                                            *)
(*   WholeYears(o0, o1)   the largest y with Shift(o0, y) <= o1 (so it is a floor: negative when *)
(*                        o1 < o0)                                                               *)
(*   YTM(M, t)            WholeYears(t, M) + (days from t to Shift(M, -WholeYears(t, M))) / 365  *)
(*   TenorYears(n, u)     n / (units per year): y 1, q 4, m 12, w 52, d 365, b 252               *)
(* Mechanism level (shape of src/pyg_base/_tenor.py, compared with the law inside TLC only)      *)
(*   MechWholeYears       year difference, minus one when the anniversary built by the           *)
(*                        overflowing constructor dt(y, m, d) lies after o1                      *)
(*   MechSeriesYTM        the timeseries branch: back-fill over the ladder of maturity           *)
(*                        anniversaries                                                          *)
EXTENDS Bump

\* ------------------------------------------------------------------------------ rationals ---
RatEq(a, b)  == a[1] * b[2] = b[1] * a[2]
RatLe(a, b)  == a[1] * b[2] <= b[1] * a[2]          \* both denominators positive
RatLt(a, b)  == a[1] * b[2] < b[1] * a[2]
IsRat(a)     == a[2] > 0
Whole(n)     == <<n, 1>>
\* the normal form in which the driver sends a number (fractions.Fraction): lowest terms, positive denominator
RECURSIVE Gcd(_, _)
Gcd(x, y)    == IF y = 0 THEN x ELSE Gcd(y, x % y)
Reduced(r)   == LET g == Gcd(Abs(r[1]), r[2]) IN <<r[1] \div g, r[2] \div g>>

\* ------------------------------------------------------------------------------ whole years -
Shift(o, y) == AddYears(o, y)
YearOfOrd(o) == CivilOf(o)[1]
\* the candidates: the law is stated as a maximum over all y; MC_Tenor!WindowIsEnough shows that
\* nothing outside this window of three can be the maximum (Shift is increasing in y and lands in
\* the year of o plus y, or on the 1st of March of it)
YWindow(o0, o1) == LET dy == YearOfOrd(o1) - YearOfOrd(o0) IN (dy - 1)..(dy + 1)
MaxOf(S) == CHOOSE x \in S : \A z \in S : z <= x
WholeYears(o0, o1) == MaxOf({y \in YWindow(o0, o1) : Shift(o0, y) <= o1})

\* mechanism: dt(t0.year + y, t0.month, t0.day) is the first of the month plus day - 1 days
OverflowOrd(y, m, d) == OrdOf(y, m, 1) + d - 1
MechWholeYears(o0, o1) ==
    LET c0 == CivilOf(o0)  y == YearOfOrd(o1) - c0[1]
    IN  IF OverflowOrd(c0[1] + y, c0[2], c0[3]) > o1 THEN y - 1 ELSE y

\* ------------------------------------------------------------------------ years to maturity -
\* the days that remain after the whole years: from t to the maturity moved back by them
Remaining(M, t) == Shift(M, 0 - WholeYears(t, M)) - t
YTM(M, t) == <<365 * WholeYears(t, M) + Remaining(M, t), 365>>

\* mechanism of the timeseries branch: years = ymax, .., 0 with ymax = 1 + M.year - first.year, the
\* ladder of dates Shift(M, -y), and for every t the first rung at or after t (back-fill)
MechSeriesYTM(M, first, t) ==
    LET ymax  == 1 + YearOfOrd(M) - YearOfOrd(first)
        rungs == {y \in 0..ymax : Shift(M, 0 - y) >= t}
    IN  IF rungs = {} THEN <<"nan">>
        ELSE LET y == MaxOf(rungs) IN <<"val", <<365 * y + (Shift(M, 0 - y) - t), 365>>>>

\* --------------------------------------------------------------------------- tenor strings --
TenorUnits == {"y", "q", "m", "w", "d", "b"}
PerYear(u) == CASE u = "y" -> 1 [] u = "q" -> 4 [] u = "m" -> 12 [] u = "w" -> 52 [] u = "d" -> 365 [] u = "b" -> 252
TenorYears(n, u) == <<n, PerYear(u)>>
\* named tenors.  Only 'spot' is documented (0).  Named deviation NamedTenorValue: for the others the
\* statement pins only that the slash spelling equals the plain one, that case does not matter and
\* that the value is a positive part of a year of at most one week (today sn = 1/365, tn = 2/365
\* while dt_bump reads tn as 2 and sn as 3 business days: the two tables disagree on the order, so
\* neither value is taken as the law).
NamedTenors == {"spot", "sn", "tn", "s/n", "t/n"}
PlainName(nm) == CASE nm = "s/n" -> "sn" [] nm = "t/n" -> "tn" [] OTHER -> nm
NamedOk(nm, v) == IF nm = "spot" THEN RatEq(v, Whole(0)) ELSE RatLt(Whole(0), v) /\ RatLe(v, <<7, 365>>)

\* ----------------------------------------------------------------- what a maturity denotes --
\* a maturity is <<"date", M>>, <<"tenor", n, u>>, <<"named", nm>> or <<"num", <<p, q>>>>; against the
\* valuation date t.  <<"undefined">>: outside the claimed domain.
YearsOf(mat, t) ==
    CASE mat[1] = "date"  -> YTM(mat[2], t)
      [] mat[1] = "tenor" -> TenorYears(mat[2], mat[3])
      [] mat[1] = "num"   -> mat[2]
=============================================================================
