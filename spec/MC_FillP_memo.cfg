CONSTANTS MaxLenP = 2
          MaxRowsP = 0
          MaxLenY = 0
          MaxRowsY = 0
          ListsP <- ListsQuick
          LimsP = {0}
          OtherLimsP = {0}
          ExtendsP = {1}
          CalendarsP = {0}
          PokeColsP = {0}
          MaxCallsP = 2
          MaxDerP = 1
          Memo = TRUE
          Emit = FALSE
INIT Init
NEXT Next
INVARIANT PShape
INVARIANT PInputs
INVARIANT PNoCross
INVARIANT PIdem
INVARIANT PRefines
