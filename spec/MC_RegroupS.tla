----------------------------- MODULE MC_RegroupS -----------------------------
(* Property C11 as a SESSION state machine (RegroupSession.tla): a store of caller-owned objects  *)
(* (one table, two lists of column names, one {name: columns} dict), one action per public call   *)
(* - sort / listby / groupby / pivot on any table of the store, unlist / ungroup / unpivot on any *)
(* regrouped table of the store - and the caller's own actions between calls (a column set in      *)
(* place, a list of names re-filled in place).  Results join the store; later calls are made on   *)
(* them and on the objects that earlier calls were given.                                          *)
(* The calls are executed by the mechanism MStep (Mech = "law": the constructive level);           *)
(* invariant StepLaw says what the statement says: every step is accepted by the relational       *)
(* session verdict (results by the arguments as they are at the moment of the call, no object of   *)
(* the store different afterwards).  The mechanisms the law forbids (Mech = "tag", "alias", "pop", *)
(* "keys": a sortedness mark that outlives an edit, unlist growing the listed table's own cells,  *)
(* unpivot / listby consuming their argument objects) must violate StepLaw (MC_RegroupS_<m>.cfg).  *)
(* A history follows a PLAN, a sequence of step classes: S sort, F a forward regrouping, I an      *)
(* inverse call, E an edit, R a respec; "X" = any step.  The generator configurations print every  *)
(* completed history; the driver replays them on real objects and Trace_Regroup judges what was    *)
(* observed.  MC_RegroupS_sim.cfg (simulation) draws long free sessions from a wider universe.     *)
EXTENDS RegroupSession, Json

CONSTANTS Scope,      \* "quick" | "wide" | "sim": which tables / name lists / dicts
          PlanSet,    \* the plans: names like "SEFI", one letter per step (see PlanOf)
          Mech,       \* the mechanism that runs the calls
          Loose       \* FALSE: the spellings of a history follow its first call, edits come in two kinds; TRUE: everything

VARIABLES init, store, aux, hist, plan, last
vars == <<init, store, aux, hist, plan, last>>

U == VStr("j")
V == VStr("k")
W == VStr("xyz")      \* (strings of Order!StrOrder: the universe on which the model of cmp knows the order)
Tab(rs) == [cols |-> <<"a", "y", "p">>, rows |-> [i \in 1..Len(rs) |-> [a |-> rs[i][1], y |-> rs[i][2], p |-> VInt(i)]]]
QuickTables == { Tab(<<<<VInt(2), U>>, <<VInt(1), V>>, <<VInt(2), V>>>>),          \* a key twice, not adjacent; unique (a, y)
                 Tab(<<<<VInt(1), U>>, <<VInt(2), U>>, <<VInt(1), U>>>>),          \* an (a, y) cell twice
                 Tab(<<<<VFlt(1, 1), V>>, <<None, U>>, <<VInt(1), U>>>>),          \* 1.0 and 1: one key; None
                 Tab(<<<<VInt(1), V>>, <<VInt(2), U>>>>),                          \* in order by a, not by y
                 Tab(<<>>) }
WideTables == QuickTables \cup
               { Tab(<<<<VNaN(1), U>>, <<VInt(1), V>>, <<VNaN(2), V>>, <<VInt(1), U>>>>),             \* two NaN objects: one key
                 Tab(<<<<VStr("ab"), W>>, <<VInt(2), U>>, <<None, W>>, <<VStr("ab"), U>>>>),             \* mixed-type key column
                 Tab(<<<<VInt(3), U>>, <<VInt(2), V>>, <<VInt(1), W>>, <<VInt(2), U>>>>),
                 Tab(<<<<VInt(1), U>>, <<VInt(1), V>>>>),                                              \* one key class
                 Tab(<<<<VInt(1), U>>>>) }
\* (labels are strings of the ordered universe: an unpivoted table shows them in its y column and may be sorted by it)
AU == {None, VInt(1), VFlt(1, 1), VInt(2), VNaN(1)}
YU == {U, V, W}
\* (the big universe is spelled out inside the IF: TLC evaluates every zero-arity definition when it starts)
Tables == IF Scope = "quick" THEN QuickTables ELSE IF Scope = "wide" THEN WideTables
          ELSE {Tab(r) : r \in [1..3 -> AU \X YU]}
Keys2 == IF Scope = "quick" THEN {<<"y", "a">>} ELSE IF Scope = "wide" THEN {<<"a", "y">>, <<"y", "a">>, <<"y">>}
         ELSE {<<"a", "y">>, <<"y">>}
NameU == IF Scope = "quick" THEN {<<"a">>, <<"a", "y">>, <<"y">>} ELSE {<<"a">>, <<"a", "y">>, <<"y">>, <<"y", "a">>, <<"p">>}
Labels(T) == LET pv == CPivot(T, <<"a">>, "y", "p", "last") IN SubSeq(pv.cols, 2, Len(pv.cols))
YDicts(T) == LET ls == Labels(T) IN
             IF Scope = "quick" \/ Len(ls) < 2 THEN {<<<<"y", ls>>>>}
             ELSE {<<<<"y", ls>>>>, <<<<"y", Reverse(ls)>>>>, <<<<"y", <<ls[2]>>>>>>}
Ob(k, v) == [kind |-> k, val |-> v]
\* a plan's name spells its step classes: "SEFI" = sort ; edit ; forward ; inverse
PlanOf(nm) == [i \in 1..Len(nm) |-> SubSeq(nm, i, i)]

Init == /\ \E T \in Tables, k2 \in Keys2 : \E yd \in YDicts(T) :
              init = <<Ob("table", T), Ob("names", <<"a">>), Ob("names", k2), Ob("ydict", yd)>>
        /\ store = init /\ aux = [s \in 1..4 |-> NoAux] /\ hist = <<>> /\ plan \in {PlanOf(nm) : nm \in PlanSet}
        /\ last = [pre |-> <<>>, call |-> NoCall, pv |-> NoProv]

\* ---- the calls that can be made on the store ------------------------------------------------------
Slots(kinds) == {s \in 1..Len(store) : store[s].kind \in kinds}
NameSlots == Slots({"names"})
Cols(s) == Range(store[s].val.cols)
Rows(s) == NRows(store[s].val)
Derived(s) == s > 4
\* a table of the store that can be regrouped: the session's own table, or a non-empty result
Regroupable(s) == store[s].kind = "table" /\ (Derived(s) => Rows(s) > 0)
ByOK(s, k) == LET by == store[k].val IN by # <<>> /\ Range(by) \subseteq Cols(s) /\ Len(by) = Cardinality(Range(by))
PForm(k, f) == IF f = "names" THEN (IF Len(store[k].val) = 1 THEN "name" ELSE "list") ELSE "list"
Mk(op, on, key, form) == [NoCall EXCEPT !.op = op, !.on = on, !.key = key, !.form = form, !.res = Len(store) + 1]
Forms == {"names", "list"}
Aggs == IF Loose THEN {"last", "list", "len", "first"} ELSE {"last", "list"}
Grps == IF Loose THEN {"grp", "sub"} ELSE {"grp"}

SortCalls == {Mk("sort", s, k, f) : s \in {s \in Slots({"table"}) : Regroupable(s) /\ Rows(s) > 0}, k \in NameSlots, f \in Forms}
ListbyCalls == {Mk("listby", s, k, f) : s \in {s \in Slots({"table"}) : Regroupable(s)}, k \in NameSlots, f \in Forms}
GroupbyCalls == {[Mk("groupby", s, k, f) EXCEPT !.grp = g] : s \in {s \in Slots({"table"}) : Regroupable(s)}, k \in NameSlots, f \in Forms, g \in Grps}
PivotCalls == {[Mk("pivot", s, k, PForm(k, f)) EXCEPT !.y = "y", !.z = "p", !.agg = g] :
                    s \in {s \in Slots({"table"}) : Regroupable(s)}, k \in NameSlots, f \in Forms, g \in Aggs}
FwdOK(cl) == /\ ByOK(cl.on, cl.key)
             /\ cl.op # "pivot" => Len(store[cl.key].val) < Cardinality(Cols(cl.on))
             /\ cl.op = "groupby" => cl.grp \notin Cols(cl.on)
             /\ cl.op = "pivot" => ({"y", "p"} \subseteq Cols(cl.on) /\ {"y", "p"} \cap Range(store[cl.key].val) = {})
UnlistCalls == {Mk("unlist", s, 0, "") : s \in {s \in Slots({"listed"}) : aux[s].pv.ok}}
UngroupCalls == {[Mk("ungroup", s, 0, "") EXCEPT !.grp = aux[s].pv.grp] : s \in {s \in Slots({"grouped"}) : aux[s].pv.ok}}
YSlots(s) == {0} \cup {d \in Slots({"ydict"}) : Rows(s) > 0 /\ store[d].val # <<>> /\ store[d].val[1][1] = "y"
                                                  /\ Range(store[d].val[1][2]) \subseteq Cols(s)}
UnpivotCalls == {[Mk("unpivot", s, k, PForm(k, f)) EXCEPT !.y = "y", !.z = "p", !.yk = d] :
                    s \in {s \in Slots({"pivoted"}) : aux[s].pv.ok /\ aux[s].pv.agg = "last"}, k \in NameSlots, f \in Forms, d \in 0..Len(store)}
InvOK(cl) == cl.op = "unpivot" => (store[cl.key].val = aux[cl.on].pv.key /\ cl.yk \in YSlots(cl.on))

\* edits: the key column a of a table object, re-assigned in place with the same cells in another order (reversed: d[col] = ..,
\* rotated: d.col = ..); Loose: also the y column, every cell the first one, every way of assigning (also d.update({col: ..}))
ColVals(s, col) == [i \in 1..Rows(s) |-> store[s].val.rows[i][col]]
Rot(xs) == Tail(xs) \o <<Head(xs)>>
EditKinds(xs) == {<<"setitem", Reverse(xs)>>, <<"setattr", Rot(xs)>>}
                     \cup (IF Loose THEN {<<"setattr", Reverse(xs)>>, <<"setitem", Rot(xs)>>, <<"setitem", [i \in 1..Len(xs) |-> xs[1]]>>,
                                           <<"update", Reverse(xs)>>, <<"update", Rot(xs)>>} ELSE {})
EditOf(s, col) == {[NoCall EXCEPT !.op = "edit", !.on = s, !.col = col, !.how = e[1], !.vals = e[2]] :
                       e \in {e \in EditKinds(ColVals(s, col)) : e[2] # ColVals(s, col)}}
EditCalls == UNION {UNION {EditOf(s, col) : col \in {cc \in (IF Loose THEN {"a", "y"} ELSE {"a"}) : cc \in Cols(s)}}
                    : s \in {s \in Slots(TableKinds) : Rows(s) > 1}}
RespecCalls == UNION {{[NoCall EXCEPT !.op = "respec", !.key = k, !.names = ns] : ns \in {ns \in NameU : ns # store[k].val}} : k \in NameSlots}

ClassOf(op) == CASE op = "sort" -> "S" [] Forward(op) -> "F" [] op = "edit" -> "E" [] op = "respec" -> "R" [] OTHER -> "I"
\* Tight histories: the spelling of the names (one by one / the list object) is that of the first call that has one
FirstForm == LET ks == {k \in 1..Len(hist) : hist[k].form # ""} IN
             IF ks = {} THEN "" ELSE LET f == hist[MinOf(ks)].form IN IF f = "name" THEN "names" ELSE f
FormOK(cl) == Loose \/ cl.form = "" \/ FirstForm = "" \/ (IF cl.form = "name" THEN "names" ELSE cl.form) = FirstForm
                    \/ (cl.op \in {"pivot", "unpivot"} /\ cl.form = "list" /\ Len(store[cl.key].val) > 1)

\* Tight histories are CHAINS: a call that takes names takes them from the object the latest such step used (the point is
\* the object that is used again); a sort / forward call that follows the making or the editing of a table is made on that table
LastKey == LET ks == {k \in 1..Len(hist) : hist[k].key # 0} IN IF ks = {} THEN 0 ELSE hist[CHOOSE k \in ks : \A j \in ks : j <= k].key
KeyLink(cl) == Loose \/ cl.key = 0 \/ LastKey = 0 \/ cl.key = LastKey
OnLink(cl) == IF Loose \/ hist = <<>> \/ ~(cl.op = "sort" \/ Forward(cl.op)) THEN TRUE
              ELSE LET pr == hist[Len(hist)] IN
                   IF pr.res # 0 THEN (store[pr.res].kind = "table" => cl.on = pr.res)
                   ELSE IF pr.op = "edit" THEN (store[pr.on].kind = "table" => cl.on = pr.on) ELSE TRUE

Do(cl) == /\ Len(hist) < Len(plan)
          /\ plan[Len(hist) + 1] \in {ClassOf(cl.op), "X"}
          /\ FormOK(cl) /\ KeyLink(cl) /\ OnLink(cl)
          /\ LET r == MStep(Mech, store, aux, cl) IN store' = r.store /\ aux' = r.aux
          /\ hist' = Append(hist, cl)
          /\ last' = [pre |-> store, call |-> cl, pv |-> IF cl.on = 0 THEN NoProv ELSE aux[cl.on].pv]
          /\ UNCHANGED <<init, plan>>

Sort    == \E cl \in SortCalls : ByOK(cl.on, cl.key) /\ Do(cl)
Listby  == \E cl \in ListbyCalls : FwdOK(cl) /\ Do(cl)
Groupby == \E cl \in GroupbyCalls : FwdOK(cl) /\ Do(cl)
Pivot   == \E cl \in PivotCalls : FwdOK(cl) /\ Do(cl)
Unlist  == \E cl \in UnlistCalls : Do(cl)
Ungroup == \E cl \in UngroupCalls : Do(cl)
Unpivot == \E cl \in UnpivotCalls : InvOK(cl) /\ Do(cl)
Edit    == \E cl \in EditCalls : Do(cl)
Respec  == \E cl \in RespecCalls : Do(cl)
Next == Sort \/ Listby \/ Groupby \/ Pivot \/ Unlist \/ Ungroup \/ Unpivot \/ Edit \/ Respec

\* ---- what the statement says about every step ---------------------------------------------------
ModelCmp(u, by) == [p \in 1..(Len(u.rows) - 1) |-> [k \in 1..Len(by) |-> CmpModel(u.rows[p][by[k]], u.rows[p + 1][by[k]])]]
LastColcmp == IF last.call.op = "unlist" /\ last.pv.ok THEN ModelCmp(store[Len(store)].val, last.pv.key) ELSE <<>>
StepLaw == last.call.op # "" => StepVerdict(last.pre, last.call, "", store, LastColcmp, "p", last.pv, {}) = ""
\* the ids that name the rows stay unique in every scalar table of the store (the witness of stability)
IdsUnique == \A s \in Slots({"table"}) : "p" \in Cols(s) => \A i, j \in 1..Rows(s) : i # j => store[s].val.rows[i].p # store[s].val.rows[j].p

\* ---- S2C: the completed histories -----------------------------------------------------------------
Emit == PrintT(ToJson([init |-> init, plan |-> plan, hist |-> hist]))
GenDone == Len(hist) = Len(plan) => Emit
=============================================================================
