INIT Init
NEXT Next
