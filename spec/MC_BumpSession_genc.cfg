\* S2C generator: literal calls A ; B ; A with B colliding with A (each history is replayed in a fresh process)
CONSTANTS Variant = "code"
          MaxSteps = 3
          MaxLen = 4
          Shape = "collide"
          Scope = "quick"
          Emitting = TRUE
INIT Init
NEXT NextCollide
INVARIANT ResultIsLaw
INVARIANT NoMemory
