CONSTANTS MaxLen = 3
          Mode = "tuples"
INIT Init
NEXT Next
INVARIANT SortLaws
