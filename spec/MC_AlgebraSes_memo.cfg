CONSTANTS Tier = "quick"
          Shape = "cec"
          Depth = 3
          Fams = {"useq"}
          MemoPolicy = "bylength"
          ArgPolicy = "copy"
INIT Init
NEXT Next
INVARIANT UniqueKept
INVARIANT CallsOwnNothing
INVARIANT NoMemory
INVARIANT ResultsUnique
INVARIANT MemoIsMembers
INVARIANT SameCallSameAnswer
