CONSTANTS
 N = 6
 Ahead = 3
 G = {0, 1, 2, 3, 4}
 HistG = 2
 HistLen = 6
INIT InitCalls
NEXT EvalGen
INVARIANT AllInDomain
INVARIANT GapSums
INVARIANT KeepsATail
INVARIANT NothingToDo
INVARIANT IntDeals
INVARIANT DegapLast
INVARIANT DegapNested
