\* mechanism model of a waiter that awaits its awaitables one after the other: with inter-dependent
\* coroutines it never returns - expected to violate Termination (run with must_fail)
CONSTANTS Menu = "deps"
          Trees <- TreeMenu
          V <- Vals
          Concurrent = FALSE
SPECIFICATION SpecSeq
INVARIANT ProgressIsSet
PROPERTY Termination
