CONSTANTS NStart = 6
          Spread = 5
          Offsets = {0, 1, 2, 3, 4, 5, 6, 7, 8, 9, 14, 28, 35, 61, 100, 366, 400}
          RunSecs = {0, 1, 21600, 64800, 86399}
          NHolDays = 4
INIT Init
NEXT Eval
INVARIANT ClosedForms
INVARIANT Additive
INVARIANT OnePerUnit
INVARIANT KLaw
INVARIANT BLaw
INVARIANT KTodayOffExactly
