CONSTANTS Keys = {"a"}
          NHol = 4
          NWk = 3
          NLo = 3
          NHi = 3
          ConAdjs = {"f", "p", "m"}
          ConFull = FALSE
          Rich = TRUE
          MaxObj = 3
          Depth = 4
          KeepHist = TRUE
          SetAdjs = {"f", "p", "m"}
          Fan = 0
INIT Init
NEXT NextSes
