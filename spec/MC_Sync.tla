------------------------------- MODULE MC_Sync -------------------------------
(* Property C03 on the specification, and the source of its S2C cases.                          *)
(* A case is a collection (container tree) of small timeseries / frames / bare arrays with a    *)
(* join policy, a fill method and a column policy.  Series values identify (series, time):      *)
(* series i holds 10 i + t at time t, so "keeps exactly its original value" is checkable.       *)
(*   MC   : Init = every (objects, shape, policy, method, column policy); one INVARIANT a clause *)
(*   S2C  : InitGen = every (objects, shape); EvalGen prints the tree with the outcome the       *)
(*          specification expects for every policy x method x column policy                      *)
(* Column policies are records (SyncLaw.tla): ij / oj / lj / rj / an explicit column set / none;     *)
(* dict containers carry their class and their keys in insertion order (several shapes have the    *)
(* keys in non-sorted order, nested, in OrderedDict / pyg Dict containers).                        *)
EXTENDS SyncLaw, TLC, Json
CONSTANTS NP,       \* pairs of series over timestamps 1..NP in nine container shapes (0 = none)
          NT,       \* triples of series over 1..NT in three shapes
          NF,       \* frame x frame x (series | leaf) over 1..NF in two shapes
          NA,       \* pairs / triples of bare arrays of lengths 0..NA
          NS,       \* pairs of series over 1..NS whose indices all begin at 1 and end at NS: same first and last timestamp, often the
                    \* same length, different interior points (irregular data; 0 = none)
          NC,       \* three frames on fixed indices over the column-set shapes (equal-sized overlapping / disjoint /
                    \* identical / nested / single-column sets) in NC container shapes (0 = none)
          Light     \* TRUE: fewer container shapes and frame variants (the laws do not depend on the shape)

VARIABLES tree, pol, m, colpol, done,
          res       \* after Eval: the synchronised collection, for each admitted reading
vars == <<tree, pol, m, colpol, done, res>>

\* ---- universes ------------------------------------------------------------------------------
SerU(i, n) == UNION {{MkS(I, LAMBDA x : IF x \in M THEN NaNC ELSE VFlt(10 * i + x, 1)) : M \in SUBSET I} : I \in SUBSET (1..n)}
\* frames: column "b" is NaN on Mb, every column on Mrow (an all-NaN row), Mrow \subseteq Mb
ColSets(i) == IF i = 1 THEN (IF Light THEN {{"a", "b"}} ELSE {{"a", "b"}, {"a", "b", "c"}})
              ELSE (IF Light THEN {{"b", "c"}, {"q"}} ELSE {{"b", "c"}, {"a", "b"}, {"q"}})
ColNo(c) == CHOOSE j \in 1..Len(ColU) : ColU[j] = c
FrU(i, n) == UNION {UNION {{MkF(I, C, LAMBDA c, x : IF x \in Mrow \/ (c = "b" /\ x \in Mb) THEN NaNC ELSE VFlt(100 * i + 10 * ColNo(c) + x, 1))
                          : Mrow \in (IF Light /\ i = 2 THEN {{}} ELSE SUBSET Mb)} : Mb \in SUBSET I} : I \in SUBSET (1..n), C \in ColSets(i)}
\* (the dtype of an array is a matter of rendering: an array without NaN may be an integer array; array 2 may also be boolean)
ArrU(i, n0) == UNION {{[k |-> "a", v |-> [p \in 1..n |-> IF p \in M THEN NaNC ELSE VFlt(10 * i + p, 1)]] : M \in SUBSET (1..n)} : n \in 0..n0}
               \cup (IF i = 2 THEN {[k |-> "a", v |-> [p \in 1..n |-> VBool(p % 2 = 1)]] : n \in 1..n0} ELSE {})

Leaf(n) == [k |-> "x", id |-> n]
L(xs) == [k |-> "l", items |-> xs]
Dc(cls, ks, xs) == [k |-> "d", cls |-> cls, keys |-> ks, items |-> xs]
D(ks, xs) == Dc("dict", ks, xs)
\* shapes 6..9: dict keys in non-sorted insertion order (top level and nested), OrderedDict / pyg Dict containers
Shapes2 == IF Light THEN {1, 4, 8} ELSE 1..9
Shape2(s, a, b) ==
    CASE s = 1 -> L(<<a, b>>)
      [] s = 2 -> D(<<"x", "y">>, <<a, b>>)
      [] s = 3 -> L(<<a, Leaf(1), b, Leaf(0)>>)
      [] s = 4 -> D(<<"x", "y">>, <<a, L(<<b, Leaf(2)>>)>>)
      [] s = 5 -> L(<<L(<<a>>), D(<<"z">>, <<b>>)>>)
      [] s = 6 -> D(<<"y", "x">>, <<Leaf(1), D(<<"u", "w">>, <<a, b>>)>>)
      [] s = 7 -> D(<<"y", "x">>, <<a, b>>)
      [] s = 8 -> Dc("odict", <<"z", "v", "u">>, <<a, Dc("odict", <<"w", "k">>, <<b, Leaf(2)>>), Leaf(1)>>)
      [] s = 9 -> L(<<Dc("Dict", <<"y", "x">>, <<Leaf(3), a>>), D(<<"zz", "a b", "m">>, <<Leaf(0), b, Leaf(4)>>)>>)
Shapes3 == IF Light THEN {1, 2} ELSE 1..5
Shape3(s, a, b, c) ==
    CASE s = 1 -> L(<<a, b, c>>)
      [] s = 2 -> D(<<"x", "y">>, <<a, L(<<b, D(<<"z">>, <<c>>)>>)>>)
      [] s = 3 -> L(<<a, L(<<b, c>>), Leaf(3)>>)
      [] s = 4 -> D(<<"z", "y", "x">>, <<a, L(<<b, Leaf(1)>>), c>>)                      \* first met = "z", not the smallest key
      [] s = 5 -> Dc("odict", <<"y", "x">>, <<L(<<a, Leaf(2)>>), Dc("Dict", <<"w", "u">>, <<b, c>>)>>)

\* every shape over two timestamps; beyond that the flat list and one nested shape (the laws do not depend on the shape)
Pairs   == IF NP = 0 THEN {} ELSE {Shape2(s, a, b) : s \in Shapes2, a \in SerU(1, IF NP < 2 THEN NP ELSE 2), b \in SerU(2, IF NP < 2 THEN NP ELSE 2)}
                                  \cup {Shape2(s, a, b) : s \in (IF Light THEN {1} ELSE {1, 4}), a \in SerU(1, NP), b \in SerU(2, NP)}
Triples == IF NT = 0 THEN {} ELSE (IF Light THEN {} ELSE {Shape3(1, a, b, c) : a \in SerU(1, NT), b \in SerU(2, NT), c \in SerU(3, NT)})
                                  \cup {Shape3(s, a, b, c) : s \in Shapes3, a \in SerU(1, NT), b \in SerU(2, NT), c \in SerU(3, 1)}
Frames  == IF NF = 0 THEN {} ELSE {Shape3(s, a, b, c) : s \in (IF Light THEN {1} ELSE {1, 2}), a \in FrU(1, NF), b \in FrU(2, NF),
                                                          c \in {MkS({1}, LAMBDA x : VFlt(7, 1))} \cup (IF Light THEN {} ELSE {Leaf(1)})}
Arrays  == IF NA = 0 THEN {} ELSE {Shape2(s, a, b) : s \in {1, 2, 3}, a \in ArrU(1, NA), b \in ArrU(2, NA)}
                                  \cup {Shape3(1, a, b, c) : a \in ArrU(1, NA), b \in ArrU(2, NA), c \in ArrU(3, NA)}
\* column-set shapes: three frames on the fixed indices {1,2}, {2,3}, {1,2,3}; the first / the last multi-column frame is
\* not always the first / last frame; equal-sized sets that overlap (ab, bc), are disjoint (ab, cd), identical (ab, ab),
\* nested (abc, bc), single columns (p, q: not "multi-column", they keep theirs)
CF(i, I, C) == MkF(I, C, LAMBDA c, x : IF i = 2 /\ c = "c" /\ x = 2 THEN NaNC ELSE VFlt(100 * i + 10 * ColNo(c) + x, 1))
\* (abd, acd: as many columns, the same first and the same last one, another one in between)
CSets1 == {{"a", "b"}, {"a", "b", "c"}, {"a", "b", "d"}, {"p"}}
CSets2 == {{"b", "c"}, {"c", "d"}, {"a", "b"}, {"a", "c", "d"}, {"q"}}
CSets3 == {{"a", "c"}, {"b", "c"}, {"q"}}
ShapeC(s) == CASE s = 1 -> 1 [] s = 2 -> 4 [] s = 3 -> 5
ColFrames == IF NC = 0 THEN {} ELSE {Shape3(ShapeC(s), CF(1, {1, 2}, C1), CF(2, {2, 3}, C2), CF(3, {1, 2, 3}, C3))
                                     : s \in 1..NC, C1 \in CSets1, C2 \in CSets2, C3 \in CSets3}
\* irregular indices with a common span
SpanU(i) == UNION {{MkS({1, NS} \cup J, LAMBDA x : IF x \in M THEN NaNC ELSE VFlt(10 * i + x, 1)) : M \in {{}, {2}}} : J \in SUBSET (2..(NS - 1))}
Spans == IF NS = 0 THEN {} ELSE {Shape2(s, a, b) : s \in {1, 7}, a \in SpanU(1), b \in SpanU(2)}
                                \cup (IF Light THEN {} ELSE {Shape3(4, a, b, c) : a \in SpanU(1), b \in SpanU(2), c \in {MkS({1, 2, NS}, LAMBDA x : VFlt(30 + x, 1)), MkS({1, NS - 1, NS}, LAMBDA x : VFlt(30 + x, 1))}})
Trees == Pairs \cup Triples \cup Frames \cup Arrays \cup ColFrames \cup Spans
NX == Max({NP, NT, NF, NS, IF NC > 0 THEN 3 ELSE 0})
Hows == {"ij", "oj", "lj", "rj"}
IsArrays(tr) == TsLeaves(tr) = <<>> /\ ArrLeaves(tr) # <<>>
Pols(tr) == IF IsArrays(tr) THEN {[how |-> h, t |-> <<>>] : h \in Hows} \cup {[how |-> "ex", t |-> <<>>, n |-> n] : n \in (IF Light THEN {0, NA + 1} ELSE 0..(NA + 1))}
            ELSE {[how |-> h, t |-> <<>>] : h \in Hows} \cup {[how |-> "ex", t |-> Asc(I)] : I \in (IF Light THEN {{2, NX + 1}} ELSE {{}, {1, NX}, {2, NX + 1}})}
Methods == {"none", "ffill", "bfill"}
\* explicit column sets: some frames have some of them; a single column; one nobody has
ExCols == IF Light THEN {<<"a", "c">>} ELSE {<<"a", "c">>, <<"b">>, <<"c", "d", "e">>}
\* (the frames over all indices and NaN masks meet four of the column policies, the column-set shapes meet them all)
ColPols(tr) == IF MultiLeaves(tr) = <<>> THEN {ColPol("ij")}
               ELSE IF tr \in Frames THEN {ColPol("ij"), ColPol("oj"), ColPol("rj"), NoCols}
               ELSE {ColPol(h) : h \in Hows} \cup {NoCols} \cup {ColEx(cs) : cs \in ExCols}

Init == tree \in Trees /\ pol \in Pols(tree) /\ m \in Methods /\ colpol \in ColPols(tree) /\ done = FALSE /\ res = <<>>
InitGen == tree \in Trees /\ pol = [how |-> "ij", t |-> <<>>] /\ m = "none" /\ colpol = ColPol("ij") /\ done = FALSE /\ res = <<>>
\* collections without frames have one reading only
ReadingsOf(tr) == IF \E i \in 1..Len(TsLeaves(tr)) : IsF(TsLeaves(tr)[i]) THEN Readings ELSE {"row"}
Eval == /\ done = FALSE /\ done' = TRUE /\ UNCHANGED <<tree, pol, m, colpol>>
        /\ res' = [rd \in ReadingsOf(tree) |-> SyncX(tree, pol, m, colpol, rd)]
Expect(p, mm, cp) == [pol |-> p, m |-> mm, cols |-> cp,
                      sync |-> SetToSeq(SyncOutcomesX(tree, p, mm, cp)),
                      index |-> JointOutcome(tree, p)]
EvalGen == done = FALSE /\ done' = TRUE /\ UNCHANGED <<tree, pol, m, colpol, res>> /\ PrintT(ToJson([tree |-> tree,
                                  exp |-> SetToSeq({Expect(p, mm, cp) : p \in Pols(tree), mm \in Methods, cp \in ColPols(tree)})]))

\* ---- the clauses of C03, on the law-level operators -----------------------------------------
\* (checked on the states after Eval, i.e. by TLC's parallel workers)
CellOf(o, c, x) == IF IsS(o) THEN SVal(o, x) ELSE FVal(o, c, x)
ColsOfObj(o) == IF IsS(o) THEN {""} ELSE Cols(o)
\* P(ins, outs, I, rd): the timeseries of the collection before and after, in the order met
ForReadings(P(_, _, _, _)) ==
    (done /\ TsLeaves(tree) # <<>>) =>
        LET ins == TsLeaves(tree)  I == IndexOf(tree, pol) IN
        \A rd \in DOMAIN res : LET outs == TsLeaves(res[rd]) IN P(ins, outs, I, rd)

\* every timeseries ends on the joint index
OnJointIndex == ForReadings(LAMBDA ins, outs, I, rd : Len(outs) = Len(ins) /\ \A i \in 1..Len(ins) : Times(outs[i]) = I)
\* at each surviving timestamp a series keeps exactly its original value; without a method
\* timestamps it lacked are NaN
ValuesIntact == ForReadings(LAMBDA ins, outs, I, rd : \A i \in 1..Len(ins) :
    LET a == ins[i]  b == outs[i] IN
    \A c \in ColsOfObj(a) \cap ColsOfObj(b) : \A x \in I :
        /\ (x \in Times(a) /\ (m = "none" \/ ~IsNaN(CellOf(a, c, x)))) => CellOf(b, c, x) = CellOf(a, c, x)
        /\ (x \notin Times(a) /\ m = "none") => IsNaN(CellOf(b, c, x)))
\* a filled cell is the latest observation not after t (ffill) / the earliest not before t (bfill)
AsOfJoin == ForReadings(LAMBDA ins, outs, I, rd : m # "none" => \A i \in 1..Len(ins) : IsS(ins[i]) =>
    LET a == ins[i]  b == outs[i] IN
    \A x \in I :
        LET seen == {u \in Times(a) : ~IsNaN(SVal(a, u)) /\ (IF m = "ffill" THEN u <= x ELSE u >= x)} IN
        IF seen = {} THEN IsNaN(SVal(b, x))
        ELSE \E u \in seen : SVal(b, x) = SVal(a, u) /\ \A w \in seen : (IF m = "ffill" THEN w <= u ELSE w >= u))
\* multi-column frames end on the common column set, a column they lacked is NaN; others keep theirs
ColumnsAligned == ForReadings(LAMBDA ins, outs, I, rd : Recolumns(tree, colpol) =>
    LET C == ColsOfX(tree, colpol) IN
    \A i \in 1..Len(ins) :
        LET a == ins[i]  b == outs[i] IN
        IF IsMulti(a) THEN /\ IsF(b) /\ Cols(b) = C
                           /\ \A c \in Cols(b) \ Cols(a) : \A x \in I : IsNaN(FVal(b, c, x))
        ELSE b.k = a.k /\ (IsF(a) => b.c = a.c))
\* the common column set, said once more without the operators of the law: a column is in the result of every
\* multi-column frame iff all of them had it (ij) / one of them had it (oj) / the first one met had it (lj) / the last
\* one met had it (rj) / it was asked for (explicit)
ColumnPolicy == ForReadings(LAMBDA ins, outs, I, rd : Recolumns(tree, colpol) =>
    LET mi == {i \in 1..Len(ins) : IsMulti(ins[i])}
        first == CHOOSE i \in mi : \A j \in mi : i <= j
        last  == CHOOSE i \in mi : \A j \in mi : i >= j
    IN  \A i \in mi : \A c \in Range(ColU) :
            (c \in Cols(outs[i])) <=> CASE colpol.how = "ij" -> \A j \in mi : c \in Cols(ins[j])
                                         [] colpol.how = "oj" -> \E j \in mi : c \in Cols(ins[j])
                                         [] colpol.how = "lj" -> c \in Cols(ins[first])
                                         [] colpol.how = "rj" -> c \in Cols(ins[last])
                                         [] colpol.how = "ex" -> \E k \in 1..Len(colpol.c) : colpol.c[k] = c)
\* a dict comes back as a dict of the same class with the same keys in the same (insertion) order, at every level;
\* in particular sorting the keys is a change of structure whenever they were not sorted
DictOrderKept == done => \A rd \in DOMAIN res : DictNodes(res[rd]) = DictNodes(tree)
\* container structure preserved, non-timeseries members passed through (identity)
StructureKept == done => \A rd \in DOMAIN res : Skeleton(res[rd]) = Skeleton(tree)
\* synchronising twice changes nothing (under the "row" reading of a fill a frame that lost columns may
\* have a new all-NaN row, which a second fill treats differently: excluded)
Idempotent == done => \A rd \in DOMAIN res :
                  (rd = "cell" \/ m = "none" \/ ~Recolumns(tree, colpol)) => SyncX(res[rd], pol, m, colpol, rd) = res[rd]
\* ij within lj, rj within oj
PolicyOrder == (done /\ TsLeaves(tree) # <<>>) =>
                   LET S(h) == IndexOf(tree, [how |-> h, t |-> <<>>]) IN
                   S("ij") \subseteq S("lj") /\ S("ij") \subseteq S("rj") /\ S("lj") \cup S("rj") \subseteq S("oj")
\* the two readings of "observation" of a frame differ only where a row is partly NaN
NoPartRow(f) == \A u \in Times(f) : RowIsNaN(f, u) \/ \A j \in 1..Len(f.c) : ~IsNaN(f.v[j][Pos(f, u)])
ReadingsAgree == (done /\ \A i \in 1..Len(TsLeaves(tree)) : IsF(TsLeaves(tree)[i]) => NoPartRow(TsLeaves(tree)[i]))
                 => \A r1, r2 \in DOMAIN res : res[r1] = res[r2]
\* mechanism of the code: drop the NaN rows, then plain as-of reindex (pandas reindex(method))
DropNaN(s) == LET keep == {u \in Times(s) : ~IsNaN(SVal(s, u))} IN MkS(keep, LAMBDA u : SVal(s, u))
PlainAsOf(s, I, mm) == MkS(I, LAMBDA x : LET ok == {u \in Times(s) : IF mm = "ffill" THEN u <= x ELSE u >= x}
                                        IN  IF ok = {} THEN NaNC ELSE SVal(s, IF mm = "ffill" THEN Max(ok) ELSE Min(ok)))
MechanismIsLaw == ForReadings(LAMBDA ins, outs, I, rd : m # "none" =>
                      \A i \in 1..Len(ins) : IsS(ins[i]) => PlainAsOf(DropNaN(ins[i]), I, m) = outs[i])
\* the per-column call discipline of presync shows exactly the columns of the synchronised frames
PerColumnIsWhole == ForReadings(LAMBDA ins, outs, I, rd : Recolumns(tree, colpol) =>
    LET plain == SyncX(tree, pol, m, NoCols, rd) IN
    \A c \in ColsOfX(tree, colpol) :
        LET view == TsLeaves(ColView(plain, c, FALSE)) IN
        \A i \in 1..Len(outs) : IsMulti(ins[i]) => view[i] = AsSeries(outs[i], c))

\* ---- bare arrays -----------------------------------------------------------------------------
ArraysAlignedAtEnd == (done /\ IsArrays(tree)) =>
    LET arrs == ArrLeaves(tree)
        n    == JointLen(pol, [i \in 1..Len(arrs) |-> Len(arrs[i].v)])
        out  == ArrLeaves(res["row"])
    IN  \A i \in 1..Len(arrs) :
        LET a == arrs[i].v  b == out[i].v IN
        /\ Len(b) = n
        /\ m = "none" => \A j \in 0..(n - 1) :       \* j-th cell from the end
               IF j < Len(a) THEN b[n - j] = a[Len(a) - j] ELSE IsNaN(b[n - j])
        /\ m = "none" => out[i] = AlignEndMech(arrs[i], n)
=============================================================================
