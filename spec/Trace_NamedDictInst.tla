------------------------- MODULE Trace_NamedDictInst -------------------------
(* Trace validation for extension X04-c, the life of an instance: every line of the log is ONE       *)
(* recorded history  [decl, fns, events]  on a real instance of a real named_dict class:              *)
(*   [op |-> "new", call, out]              the construction                                          *)
(*   [op |-> "set", key, value, out]        x[key] = value  or  x.key = value; out = the items after  *)
(*   [op |-> "del", key, out]               del x[key]                                                *)
(*   [op |-> "rebuild", out, src_same]      type(x)(x); the new instance replaces x when it succeeds; *)
(*                                          src_same = 1 when x itself was left as it was             *)
(* Every event also carries  now = the items the live instance holds after it (after a rebuild that   *)
(* raised: the source, which lives on).  One TLC behaviour per history; cur = the items the instance  *)
(* holds; each event is judged from the state that was observed before it, so that one deviation      *)
(* (reported where it happens) does not make the rest of the history look wrong.                      *)
EXTENDS NamedDict, Batch, SequencesExt
VARIABLE cur

Report(v) == IF v = "" THEN TRUE ELSE Reject(1000 * c + l + 1, v)
Got(e) == [kind |-> e.out.kind, cls |-> e.out.cls, items |-> SeqSet(e.out.items)]
Follow(e) == cur' = SeqSet(e.now)
H == Obs[c]

Init == c \in 1..N /\ l = 0 /\ cur = {}
Next == /\ l < Len(H.events)
        /\ LET e == H.events[l + 1] IN
              \/ /\ e.op = "new"
                 /\ Report(IF Got(e) \in Outcomes(H.fns, H.decl, e.call) THEN "" ELSE "construct_outcome")
              \/ /\ e.op = "set"
                 /\ Report(IF Got(e) = SetItem(SetToSeq(cur), e.key, e.value).out THEN "" ELSE "item_assignment")
              \/ /\ e.op = "del"
                 /\ Report(IF Got(e) = DelItem(SetToSeq(cur), e.key).out THEN "" ELSE "item_deletion")
              \/ /\ e.op = "rebuild"
                 /\ Report(IF Got(e) \notin Rebuilds(H.fns, H.decl, SetToSeq(cur)) THEN "rebuild_outcome"
                           ELSE IF e.src_same # 1 THEN "rebuild_changed_its_source" ELSE "")
        /\ Follow(H.events[l + 1])
        /\ l' = l + 1 /\ c' = c
=============================================================================
