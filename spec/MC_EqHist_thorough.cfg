CONSTANTS Depth = 5
          Record = FALSE
          Wide = TRUE
          Full = FALSE
INIT Init
NEXT Next
INVARIANT StateOK
INVARIANT SelfNow
INVARIANT SessionsCollide
INVARIANT InLaw
