CONSTANTS Depth = 5
          Record = FALSE
          Wide = TRUE
INIT Init
NEXT Next
INVARIANT StateOK
INVARIANT SelfNow
