CONSTANTS Ks = {2, 3}
          Lean = FALSE
INIT Init
NEXT Next
INVARIANT WellFormed
INVARIANT LawListby
INVARIANT LawUnlist
INVARIANT LawGroupby
INVARIANT LawUngroup
INVARIANT LawPivot
INVARIANT LawWide
INVARIANT AgreeSplit
INVARIANT AgreeOther
