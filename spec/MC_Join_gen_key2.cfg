CONSTANTS MaxRows = 2
          Shape = "key"
INIT Init
NEXT NextGen
