CONSTANTS MaxRows = 2
          Shape = "key"
INIT Init
NEXT NextGen
INVARIANT LeftJoinDecomposition
INVARIANT Symmetric
INVARIANT ClassesOK
INVARIANT RowsOK
INVARIANT SlotInvisible
