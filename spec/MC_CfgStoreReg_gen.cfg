CONSTANTS Names = {"x", "y", "CFG"}
          ItemKeys = {"a"}
          ItemVals = {1, 2}
          MaxDepth = 2
          MaxLen = 3
          Menu = "gen"
INIT Init
NEXT NextGen
