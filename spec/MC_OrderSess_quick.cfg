CONSTANTS MaxSteps = 2
          Shape = "free"
          SeedNames = {"num", "mixed", "dup", "real"}
          ErrOnly = {}
          Hist = FALSE
INIT Init
NEXT Next
INVARIANT CallLaw
INVARIANT Idempotent
INVARIANT FrameLaw
