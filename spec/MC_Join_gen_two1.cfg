CONSTANTS MaxRows = 1
          Shape = "two"
INIT Init
NEXT NextGen
