CONSTANTS Scope = "quick"
          Mech = "tag"
          Loose = FALSE
          PlanSet = {"SEFI"}
INIT Init
NEXT Next
INVARIANT StepLaw
