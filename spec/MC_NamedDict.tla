---------------------------- MODULE MC_NamedDict ----------------------------
(* Extension X04-c on the specification, and the source of its S2C replay.                          *)
(*                                                                                               *)
(* CASES  (Strata: "calls" / "types" / "casts" / "both" / "decl"): one behaviour                     *)
(*        (decl, call) --Eval--> done  per combination of the stratum's universe.                   *)
(*        MC  (MC_NamedDict_quick.cfg, NEXT Eval): the law is non-empty, single-valued              *)
(*            outside the named deviations, refined by the mechanism (the generated __init__),      *)
(*            position = keyword = mapping, an explicit default = an omitted one, instances hold    *)
(*            every declared key and satisfy every check.                                           *)
(*        GEN (MC_NamedDict_gen.cfg, NEXT EvalGen): prints every case with the outcome(s)           *)
(*            the law admits; the function tables are printed once (ASSUME).                        *)
(* HISTORIES (INIT InitInst): construct,      then up to MaxOps item assignments / deletions /       *)
(*        rebuilds of the class from the instance; every expanded state prints its history with     *)
(*        the outcome the law admits after each step.                                               *)
EXTENDS NamedDict, Json, SequencesExt, FiniteSetsExt

CONSTANTS Big, Strata, MaxOps      \* Strata: which universes of cases (a set of names, see below)
VARIABLES decl, call, done, items, hist
vars == <<decl, call, done, items, hist>>

\* ---- values and user functions -------------------------------------------------------------------------------
D2000 == <<"d", <<730120, 0, 0>>>>                     \* datetime(2000, 1, 1)
V5 == {VInt(1), VInt(2), VStr("1"), VStr("x"), None}
V3 == {VInt(1), VStr("x"), None}
V2 == {VInt(2), VStr("1")}
FNS == <<
  [name |-> "harness.x_ndfuncs.bump",   rows |-> << <<VInt(1), VInt(2)>>, <<VInt(2), VInt(3)>> >>,          other |-> Raises("TypeError")],
  [name |-> "harness.x_ndfuncs.picky",  rows |-> << <<VInt(1), VInt(1)>>, <<VStr("1"), VInt(1)>> >>,        other |-> Raises("KeyError")],
  [name |-> "harness.x_ndfuncs.word",   rows |-> << <<None, None>> >>,                                      other |-> VStr("w")],
  [name |-> "harness.x_ndfuncs.is_one", rows |-> << <<VInt(1), VBool(TRUE)>>, <<VStr("1"), VStr("yes")>> >>, other |-> VInt(0)],
  [name |-> "harness.x_ndfuncs.fussy",  rows |-> << <<VInt(1), VInt(1)>>, <<VInt(2), None>> >>,             other |-> Raises("TypeError")]
>>
ASSUME PrintT(ToJson([tables |-> FNS]))

CastNames == {"int", "str", "float", "harness.x_ndfuncs.bump", "harness.x_ndfuncs.picky", "harness.x_ndfuncs.word"}
TypeNames == {"int", "str", "datetime.datetime", "harness.x_ndfuncs.is_one", "harness.x_ndfuncs.fussy"}

\* ---- universes ------------------------------------------------------------------------------------------------
SeqsUpTo(S, n) == UNION {[1..k -> S] : k \in 0..n}
\* dicts over at most n of the names (in the order given by the sequence names), values from S
DictsOver(names, S, n) ==
    {SelectSeq([i \in DOMAIN names |-> IF names[i] \in D THEN <<names[i], f[names[i]]>> ELSE <<"", None>>], LAMBDA kv : kv[1] # "")
        : D \in {D \in SUBSET SeqSet(names) : Cardinality(D) <= n}, f \in [SeqSet(names) -> S]}
AB  == <<"a", "b">>
ABC == <<"a", "b", "c">>
MkDecl(k, d, t, c) == [keys |-> k, defaults |-> d, types |-> t, casts |-> c]
Args(p, k) == [form |-> "args", pos |-> p, kw |-> k]
Mapping(k) == [form |-> "mapping", pos |-> <<>>, kw |-> k]

\* "calls": no casts, no checks; every way of handing over the values
DeclsCalls == {MkDecl(AB, d, <<>>, <<>>) : d \in {<<>>, << <<"b", VInt(2)>> >>, << <<"a", VStr("1")>>, <<"b", VInt(2)>> >>}}
              \cup {MkDecl(ABC, d, <<>>, <<>>) : d \in {<<>>, << <<"c", VInt(2)>> >>, << <<"c", VInt(2)>>, <<"b", VStr("1")>> >>}}
CallsFor(d) == IF Len(d.keys) = 2
               THEN {Args(p, k) : p \in SeqsUpTo(V3, 3), k \in DictsOver(<<"a", "b", "z">>, V2, 2)}
                    \cup {Mapping(k) : k \in DictsOver(<<"b", "a", "z">>, V3, 3)}
               ELSE {Args(p, k) : p \in SeqsUpTo(V2, 4), k \in DictsOver(<<"c", "a", "z">>, {VInt(1)}, 2)}
                    \cup {Mapping(k) : k \in DictsOver(<<"a", "b", "c">>, {VInt(1), None}, 3)}

\* "types" / "casts" / "both": two keys, the values by position (b possibly left to its default)
DefsB == {<<>>, << <<"b", VInt(2)>> >>, << <<"b", VStr("1")>> >>}
PosCalls(Va, Vb) == {Args(<<va>>, <<>>) : va \in Va} \cup {Args(<<va, vb>>, <<>>) : va \in Va, vb \in Vb}
DeclsTypes == {MkDecl(AB, d, t, <<>>) : d \in DefsB, t \in DictsOver(<<"b", "a">>, TypeNames, 2)}
DeclsCasts == {MkDecl(AB, d, <<>>, c) : d \in DefsB, c \in DictsOver(<<"b", "a">>, CastNames, 2)}
DeclsBoth  == {MkDecl(AB, d, t, c) : d \in IF Big THEN DefsB ELSE {<<>>, << <<"b", VStr("1")>> >>}, t \in DictsOver(AB, TypeNames, 1) \ {<<>>}, c \in DictsOver(AB, CastNames, 1) \ {<<>>}}

\* "decl": which declarations are accepted
DeclsDecl == {MkDecl(k, d, t, <<>>) : k \in {<<"a">>, AB, ABC}, d \in DictsOver(<<"c", "a", "z", "b">>, {VInt(2)}, 3),
                                      t \in {<<>>, << <<"a", "int">> >>, << <<"a", "no_such_type">> >>}}
              \cup {MkDecl(AB, <<>>, <<>>, c) : c \in {<< <<"a", "no_such_cast">> >>, << <<"b", "harness.x_ndfuncs.bump">> >>}}
              \* a default need not be a number: a date, a string, None
              \cup {MkDecl(AB, << <<"b", v>> >>, t, <<>>) : v \in {D2000, VStr("x"), None}, t \in {<<>>, << <<"b", "datetime.datetime">> >>}}

Decls(st) == CASE st = "calls" -> DeclsCalls
               [] st = "types" -> DeclsTypes
               [] st = "casts" -> DeclsCasts
               [] st = "both"  -> DeclsBoth
               [] st = "decl"  -> DeclsDecl
Calls(st, d) == CASE st = "calls" -> CallsFor(d)
                  [] st = "types" -> PosCalls(V5 \cup {D2000}, IF Big THEN V5 \cup {D2000} ELSE {VInt(1), VStr("x"), D2000})
                  [] st = "casts" -> PosCalls(V5, IF Big THEN V5 ELSE {VInt(2), VStr("1"), None})
                  [] st = "both"  -> PosCalls(V5, {VInt(1), VStr("x")})
                  [] st = "decl"  -> {Args(<<>>, <<>>)}

Init == /\ \E st \in Strata : decl \in Decls(st) /\ call \in Calls(st, decl)
        /\ done = FALSE /\ items = <<>> /\ hist = <<>>
Eval == done = FALSE /\ done' = TRUE /\ UNCHANGED <<decl, call, items, hist>>

OutJson(o) == [kind |-> o.kind, cls |-> o.cls, items |-> SetToSeq(o.items)]
Want == IF DeclOutcome(FNS, decl) # "class" THEN <<>>
        ELSE SetToSeq({OutJson(o) : o \in Outcomes(FNS, decl, call)})
EvalGen == Eval /\ PrintT(ToJson([decl |-> decl, call |-> call, declares |-> DeclOutcome(FNS, decl), want |-> Want,
                                  loose |-> IF DeclOutcome(FNS, decl) = "class" /\ Cardinality(Outcomes(FNS, decl, call)) > 1 THEN 1 ELSE 0]))

\* ---- the laws on the law ------------------------------------------------------------------------------------------
InDom == DeclInDomain(FNS, decl)
O(c)  == Outcomes(FNS, decl, c)
NonEmpty == InDom => O(call) # {}
Loose == PosKwConflict(decl, call) \/ ExtraPositional(decl, call) \/ Len(decl.casts) > 1 \/ Len(decl.types) > 1
SingleValued == (InDom /\ ~Loose) => Cardinality(O(call)) = 1
MechRefines  == InDom => MechOutcome(FNS, decl, call) \in O(call)
PositionIsKeyword == (InDom /\ call.form = "args" /\ call.kw = <<>> /\ Len(call.pos) <= Len(decl.keys))
                        => O(call) = O(Args(<<>>, PosPart(decl, call)))
MappingIsKeywords == (InDom /\ call.form = "mapping") => O(call) = O(Args(<<>>, call.kw))
DefaultIsExplicit == (InDom /\ call.form = "args" /\ ~ExtraPositional(decl, call))
                        => \A i \in DOMAIN decl.defaults :
                              LET k == decl.defaults[i][1] IN
                              (~DHas(call.kw, k) /\ ~DHas(PosPart(decl, call), k))
                                 => O(call) = O(Args(call.pos, Append(call.kw, decl.defaults[i])))
HoldsAllKeys == InDom => \A o \in O(call) : o.kind = "inst" => SeqSet(decl.keys) \subseteq {kv[1] : kv \in o.items}
ChecksHold   == InDom => \A o \in O(call) : o.kind = "inst" =>
                   \A i \in DOMAIN decl.types : \E kv \in o.items : kv[1] = decl.types[i][1] /\ CheckResult(FNS, decl.types[i][2], kv[2]) = Okay
KeepsExtras  == InDom => \A o \in O(call) : o.kind = "inst" =>
                   \A i \in DOMAIN call.kw : call.kw[i][1] \notin SeqSet(decl.keys) => call.kw[i] \in o.items

\* ---- instance histories --------------------------------------------------------------------------------------------
InstDecls == {MkDecl(AB, << <<"b", VInt(2)>> >>, << <<"a", "int">> >>, << <<"a", "int">> >>),
              MkDecl(AB, <<>>, << <<"b", "str">> >>, <<>>),
              MkDecl(AB, << <<"b", VInt(1)>> >>, <<>>, << <<"b", "harness.x_ndfuncs.bump">> >>)}
InstCalls == {Args(<<VStr("1")>>, <<>>), Args(<<VInt(1), VStr("x")>>, <<>>), Args(<<VInt(2)>>, << <<"z", None>> >>)}
IKeys == {"a", "b", "z"}

InitInst == /\ decl \in InstDecls /\ call \in InstCalls
            /\ \E o \in Outcomes(FNS, decl, call) : o.kind = "inst"
            /\ done = FALSE /\ hist = <<>>
            /\ items = MechOutcome(FNS, decl, call).items        \* a set of pairs; turned into a dict below
\* the instance's items as a dict in a fixed order (the order is not observable through equality)
AsDict(s) == SetToSeq(s)
Step(e, r) == /\ hist' = Append(hist, [e EXCEPT !.want = SetToSeq({OutJson(o) : o \in r.outs})])
              /\ items' = r.items
              /\ UNCHANGED <<decl, call, done>>
ISet == \E k \in IKeys, v \in V3 :
          LET r == SetItem(AsDict(items), k, v) IN
          Step([op |-> "set", key |-> k, value |-> v, want |-> 0], [items |-> AsMap(r.items), outs |-> {r.out}])
IDel == \E k \in IKeys :
          LET r == DelItem(AsDict(items), k) IN
          Step([op |-> "del", key |-> k, want |-> 0], [items |-> AsMap(r.items), outs |-> {r.out}])
\* rebuilding: the new instance replaces the old one when it succeeds (single-valued here: no deviation applies to a mapping)
IRebuild == LET outs == Rebuilds(FNS, decl, AsDict(items)) IN
            /\ Cardinality(outs) = 1
            /\ LET o == CHOOSE o \in outs : TRUE IN
               Step([op |-> "rebuild", want |-> 0], [items |-> IF o.kind = "inst" THEN o.items ELSE items, outs |-> outs])
NextInst == Len(hist) < MaxOps /\ (ISet \/ IDel \/ IRebuild)
NextInstGen == /\ PrintT(ToJson([decl |-> decl, call |-> call, start |-> SetToSeq(MechOutcome(FNS, decl, call).items), hist |-> hist]))
               /\ NextInst
\* laws of the instance machine
ItemsAreADict == \A x, y \in items : x[1] = y[1] => x = y
OnlyTargetChanges == [][\A kv \in items : (hist' # hist /\ hist'[Len(hist')].op \in {"set", "del"} /\ kv[1] # hist'[Len(hist')].key) => kv \in items']_vars
=============================================================================
