CONSTANTS Family = "mix"
 Depth = 2
INIT Init
NEXT Next
INVARIANT HeapIsHistory
INVARIANT CallsOwnNothing
INVARIANT OnCurrentIndex
INVARIANT SameObjectSameResult
INVARIANT SpellingIrrelevant
INVARIANT LastIsLastPlace
