CONSTANTS Family = "share"
 Depth = 2
INIT Init
NEXT Next
INVARIANT HeapIsHistory
INVARIANT CallsOwnNothing
INVARIANT OnCurrentIndex
INVARIANT SpellingIrrelevant
INVARIANT LastIsLastPlace
