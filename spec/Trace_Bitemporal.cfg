CONSTANTS Dates = {1}
          Stamps = {1}
          Vals = {1}
          MaxMerges = 0
          Stable = TRUE
          Zones = {0}
          ZoneAware = TRUE
INIT Init
NEXT Next
