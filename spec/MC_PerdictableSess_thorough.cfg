CONSTANT SSizes <- SS_mc_thorough
INIT Init
NEXT Next
INVARIANT FollowsEdit
INVARIANT EditIsLocal
INVARIANT OptionsAreNotInputs
INVARIANT CopyIsLaw
