INIT Init
NEXT Next
