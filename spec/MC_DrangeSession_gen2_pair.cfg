\* S2C generator (thorough): scripts of family pair
CONSTANTS Variant = "code"
          MaxCalls = 2
          Scope = "thorough"
          Family = "pair"
INIT InitScript
NEXT NextScript
