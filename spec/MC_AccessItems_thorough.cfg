CONSTANTS Wide = TRUE
INIT Init
NEXT Eval
INVARIANT DefaultOnlyOnFailure
INVARIANT NoArgsSpellings
INVARIANT ItemIsAttr
INVARIANT ChainIsStepwise
INVARIANT BaseThenAttrs
INVARIANT DefaultMeansNoError
INVARIANT RelabelIsFunction
INVARIANT RelabelNonEmpty
INVARIANT RelabelKeepsValues
INVARIANT InvertIsPartition
INVARIANT FirstLastUnique
INVARIANT MechIsAdmitted
INVARIANT OpenShowsLeaves
INVARIANT NothingLost
