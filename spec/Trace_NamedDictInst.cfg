INIT Init
NEXT Next
