---------------------------- MODULE MC_Calendar ----------------------------
(* Property C05 on the specification.  One behaviour  (c, t) --Eval--> done  per calendar      *)
(* configuration c and day t:                                                                  *)
(*   holidays  = every subset of an HW-day window (HW = 7: Thu..Wed, HW = 10: Tue..Thu) that    *)
(*               contains a whole weekend and a month end (anchors: 2000-01-31, a Monday,      *)
(*               2000-04-30, a Sunday, and the year end 1999-12-31, a Friday),                 *)
(*   weekend   \in {Sat-Sun, Fri-Sat, Sun, none},  adj \in {f, p, m},                          *)
(*   range     = the window widened by a margin <<before, after>> (<<21, 21>>: every n \in       *)
(*               -NMax..NMax stays inside; <<2, 2>>: the edges of the claimed domain are        *)
(*               exercised; <<0, 0>>: the FIRST and the LAST day of the range can be holidays;  *)
(*               <<3, 4>>, <<4, 0>>, <<0, 3>>: the range begins / ends on a weekend day),       *)
(*   t         = every day of the window +- TPad days that lies in the range.                  *)
(* The quick configurations take a seeded 1-in-MCMod sample of the configurations of every      *)
(* family (more families, fewer members of each); the thorough ones are exhaustive.             *)
(* Invariants (evaluated on the final state of each behaviour, so that the parallel workers    *)
(* share them): the laws of the statement hold for the law level (the oracle is consistent),   *)
(* and the mechanism of the code (guarded loops, table path, loop path) equals the law level   *)
(* on the claimed domain - and beyond the range answers as the law counts or refuses.           *)
(* The generator configurations print, for a seeded 1-in-GenMod sample of the configurations,  *)
(* one SESSION on one calendar object per (c, t): every posed query about t (inside the domain: *)
(* the answer; beyond the range: the answer by counting or a refusal), the day carried by the   *)
(* realisation the case names, then - the table built - phase 2 (`after`): the table-free       *)
(* questions again under another realisation.                                                   *)
EXTENDS Calendar, TLC, Json, FiniteSetsExt, IOUtils
CONSTANTS HW,          \* width of the holiday window: 7 or 10
          Margins,     \* the margins <<before, after>> of the calendar's range around the window: numbers in MarginMenu
          MCMod,       \* model checking: only configurations whose number is 0 modulo MCMod (1 = all)
          Anchors,     \* subset of {1, 2, 3}
          NMax,        \* n ranges over -NMax..NMax
          GenMod,      \* generator: print only configurations whose number is 0 modulo GenMod
          TPad         \* t ranges over the holiday window and TPad days on either side

VARIABLES c, t, done
vars == <<c, t, done>>

MonthEnd(k) == CASE k = 1 -> Ord(2000, 1, 31) [] k = 2 -> Ord(2000, 4, 30) [] k = 3 -> Ord(1999, 12, 31)
Before == IF HW = 7 THEN 4 ELSE 6
WinLo(k) == MonthEnd(k) - Before
WinHi(k) == WinLo(k) + HW - 1
Weekends == {{5, 6}, {4, 5}, {6}, {}}
MarginMenu == <<<<21, 21>>, <<2, 2>>, <<0, 0>>, <<3, 4>>, <<4, 0>>, <<0, 3>>>>
\* (the extra field w0, the first day of the holiday window, only places t)
Configs == UNION {{[hol |-> h, wk |-> w, adj |-> a, lo |-> WinLo(k) - MarginMenu[m][1], hi |-> WinHi(k) + MarginMenu[m][2], w0 |-> WinLo(k)] :
                       h \in SUBSET (WinLo(k)..WinHi(k)), w \in Weekends, a \in {"f", "p", "m"}, m \in Margins} : k \in Anchors}
Seed == atoi(IOEnv.C05_SEED)
CfgNoOf(x) == SumSet(x.hol) + 7 * Cardinality(x.wk) + (CASE x.adj = "f" -> 0 [] x.adj = "p" -> 1 [] x.adj = "m" -> 2) + x.lo + 3 * x.hi
Sampled(x, mod) == (CfgNoOf(x) + Seed) % mod = 0
Ns == (0 - NMax)..NMax
Advs == {"", "f", "p", "m"}

Init == /\ c \in {x \in Configs : Sampled(x, MCMod)}
        /\ t \in (c.w0 - TPad)..(c.w0 + HW - 1 + TPad)
        /\ InRange(c, t)
        /\ done = FALSE
Eval == done = FALSE /\ done' = TRUE /\ UNCHANGED <<c, t>>

\* ---- the queries about day t (u ranges over a few days after t) ---------------------------
Q(op, n, u, a) == [op |-> op, t |-> t, n |-> n, u |-> u, a |-> a]
Us == {t, t + 1, t + 2, t + 4, t + 6}
\* drange also backwards and over degenerate ranges (t = u; t, u adjusting to one business day; u < t)
UsD == Us \cup {t - 1, t - 2, t - 3}
\* the calendar's own convention c.adj ranges over f, p, m; for the model checker a passed convention is asked for on
\* a few queries of each operation that takes one (the mechanism treats "adj or self.adj" in one place)
Expl == {"f", "p", "m"}
Core == {Q("is_bday", 0, 0, ""), Q("is_holiday", 0, 0, "")}
        \cup {Q("adjust", 0, 0, a) : a \in Advs}
        \cup {Q("add", n, 0, "") : n \in Ns}
        \cup {Q(op, n, 0, "") : op \in {"add_inv", "bdays_add"}, n \in Ns \cap {-8, -3, -2, -1, 0, 1, 2, 3, 8}}
        \cup {Q("add_split", n, 0, "") : n \in Ns \cap {-3, -2, 2, 3}}
        \cup {Q("dt_bump", n, 0, "") : n \in Ns \cap {-3, -2, -1, 0, 1, 2, 3}}
        \cup {Q("bump0", n, 0, "") : n \in {-1, 1}}
        \cup {Q("add_twice", n, 0, "") : n \in {-1, 1}}
        \cup {Q("bdays", 0, u, "") : u \in Us}
        \cup {Q("drange", 0, u, "") : u \in UsD}
        \cup {Q("clock_diff", 0, u, "") : u \in Us}
WithAdj(A) == {Q("add", n, 0, a) : n \in Ns \cap {-5, -3, -2, -1, 0, 1, 2, 3, 5}, a \in A}
              \cup {Q("dt_bump", n, 0, a) : n \in {-2, -1, 1, 2}, a \in A}
              \cup {Q(op, n, 0, a) : op \in {"add_inv", "bdays_add", "add_split"}, n \in {-3, -2, 2, 3}, a \in A}
              \cup {Q("bump0", n, 0, a) : n \in {-1, 1}, a \in A}
              \cup {Q("add_twice", n, 0, a) : n \in {-1, 1}, a \in A}
              \cup {Q("bdays", 0, u, a) : u \in {t + 1, t + 4}, a \in A}
QueriesMC == Core \cup {Q("add", n, 0, a) : n \in {-2, -1, 1, 2}, a \in Expl} \cup {Q("bdays", 0, t + 4, a) : a \in Expl}
                  \cup {Q("dt_bump", 2, 0, "p"), Q("dt_bump", -1, 0, "f"), Q("bump0", 1, 0, "p"), Q("add_twice", 1, 0, "p"), Q("add_split", -3, 0, "f")}
\* the generator asks every operation that takes a per-call convention with a passed one, on the loop path (|n| <= 1)
\* and on the table path (|n| >= 2): two of the three conventions per day, rotating with the day, so that over the
\* configurations (c.adj \in f, p, m) the passed convention agrees with and differs from the calendar's own
Rot == <<{"f", "p"}, {"p", "m"}, {"m", "f"}>>[(t % 3) + 1]
Queries == Core \cup WithAdj(Rot)
InDom == {q \in Queries : InDomain(c, q)}
\* what the generator asks: every posed, pinned query - inside the claimed domain (an answer is owed) and beyond the range
\* (the adjusted day, an intermediate day or the result leaves [lo, hi]: the answer by counting, or a refusal)
Asked == {q \in Queries : Posed(c, q) /\ Pinned(c, q)}
\* the realisation of the day(s) of each case rotates with the case (about half of them midnight datetimes)
RealSeq  == <<"dt", "tod", "dt", "ts", "dt", "tstod", "dt", "date", "tod">>
RealSeq2 == <<"tod", "tstod", "date", "ts", "tod">>
RealOf(q)  == RealSeq[((q.t + 3 * q.n + q.u + (IF q.a = "" THEN 0 ELSE 4) + 9000) % 9) + 1]
RealOf2(q) == RealSeq2[((q.t + q.n + 9000) % 5) + 1]
\* phase 2 of the session on the one calendar object: once the table has been built by the cases, the questions that
\* never need it are asked again, the day carried by another realisation - same answers (no memory, no index lookups of stamps)
AfterOps == {"is_bday", "is_holiday", "adjust", "add", "bump0"}
After == {q \in Asked : q.op \in AfterOps /\ ~Populates(q)}

\* ---- the laws of the statement, on the law level -------------------------------------------
AdjustLaw == ~done \/
    /\ IsBday(c, AdjF(c, t)) /\ AdjF(c, t) >= t /\ \A d \in t..(AdjF(c, t) - 1) : ~IsBday(c, d)
    /\ IsBday(c, AdjP(c, t)) /\ AdjP(c, t) <= t /\ \A d \in (AdjP(c, t) + 1)..t : ~IsBday(c, d)
    /\ IsBday(c, t) => AdjF(c, t) = t /\ AdjP(c, t) = t /\ AdjM(c, t) = t
    /\ AdjM(c, t) \in {AdjF(c, t), AdjP(c, t)}
    /\ SameMonth(AdjF(c, t), t) => AdjM(c, t) = AdjF(c, t)
    /\ ~SameMonth(AdjF(c, t), t) => AdjM(c, t) = AdjP(c, t)
    /\ (SameMonth(AdjF(c, t), t) \/ SameMonth(AdjP(c, t), t)) => SameMonth(AdjM(c, t), t)     \* stays in the month when it can
AddLaw == ~done \/ \A n \in Ns :
    LET a == c.adj  b == Adjust(c, t, a)  r == AddCount(c, t, n, a) IN
    /\ IsBday(c, r)
    /\ CountB(c, b, r) = n                                  \* exactly |n| business days strictly between/at the end
    /\ Bdays(c, t, r, a) = n                                \* bdays(t, add(t, n)) == n
    /\ IsBday(c, t) => AddCount(c, r, 0 - n, a) = t         \* add(add(t, n), -n) == t
    /\ AddCount(c, t, 0, a) = b
    /\ n > 0 => AddCount(c, t, n, a) = AddCount(c, AddCount(c, t, n - 1, a), 1, a)
    /\ n < 0 => AddCount(c, t, n, a) = AddCount(c, AddCount(c, t, n + 1, a), -1, a)
DrangeLaw == ~done \/ \A u \in UsD :
    LET s == DrangeB(c, t, u)  x == Adjust(c, t, c.adj)  y == Adjust(c, u, c.adj) IN
    /\ \A i \in 1..(Len(s) - 1) : s[i] < s[i + 1]
    /\ \A i \in 1..Len(s) : IsBday(c, s[i])
    /\ \A d \in x..y : IsBday(c, d) => \E i \in 1..Len(s) : s[i] = d    \* exactly the business days between the adjusted endpoints
    /\ t <= u => x <= y                                     \* adjust is monotone
    /\ x <= y => s[1] = x /\ s[Len(s)] = y /\ Len(s) = CountB(c, x, y) + 1
    /\ x > y => s = <<>>
    /\ t = u => s = <<x>>                                   \* a single-day range lists the adjusted day
    /\ \A i \in 1..Len(s) : s[i] = AddCount(c, x, i - 1, c.adj)

\* ---- the mechanism of the code equals the law level on the claimed domain ------------------
MechanismIsLaw == ~done \/ LET tab == BTable(c) IN \A q \in QueriesMC : (InDomain(c, q) /\ Pinned(c, q)) => MechAnswer(c, tab, q) \in AcceptedAnswers(c, q)
\* ... and beyond the range it answers as the law level counts, or refuses (RefusalBeyondRange); it never hangs
\* (with the wide margin <<21, 21>> every question of the menu stays inside - see the header -, so there is nothing to evaluate)
Wide == c.w0 - c.lo >= 21 /\ c.hi - (c.w0 + HW - 1) >= 21
BeyondIsLawOrRefusal == ~done \/ Wide \/ LET tab == BTable(c) IN \A q \in QueriesMC : (Posed(c, q) /\ Pinned(c, q) /\ ~InDomain(c, q)) =>
                            LET m == MechAnswer(c, tab, q) IN m \in AcceptedAnswers(c, q) \/ MRefused(m)
\* the two paths of add agree wherever both are defined: the table path asked for |n| <= 1 and the
\* loop path composed for |n| = 2
PathsAgree == ~done \/ LET tab == BTable(c)  a == c.adj IN
    /\ \A n \in {-1, 0, 1} : InDomain(c, Q("add", n, 0, a)) => AddTable(c, tab, t, n, a) = AddLoop(c, t, n, a)
    /\ \A s \in {-1, 1} : InDomain(c, Q("add_twice", s, 0, a)) =>
           AddLoop(c, AddLoop(c, t, s, a), s, a) = AddTable(c, tab, t, 2 * s, a)
\* the table is the increasing enumeration of the business days of the range, and dt2int inverts it
TableLaw == ~done \/ LET tab == BTable(c) IN
    /\ \A i \in 1..Len(tab) : IsBday(c, tab[i]) /\ InRange(c, tab[i]) /\ PosIn(tab, tab[i]) = i
    /\ \A i \in 1..(Len(tab) - 1) : tab[i] < tab[i + 1] /\ tab[i + 1] = AdjF(c, tab[i] + 1)
    /\ (IsBday(c, t) <=> PosIn(tab, t) # 0)
MonthNoIsMonthOf == ~done \/ \A d \in {t - 31, t - 1, t, t + 1, t + 31} : MonthNo(d) = MonthOf(d)
\* vacuity guards: the window really straddles a weekend and a month end
Straddles == \A k \in Anchors : /\ \E d \in WinLo(k)..(WinHi(k) - 1) : ~SameMonth(d, d + 1)
                                /\ {Weekday(d) : d \in WinLo(k)..WinHi(k)} = 0..6

\* ---- S2C generator: every in-domain pinned query about (c, t) with the expected answer -------
\* (a seeded 1-in-GenMod sample of the configurations; each case is <<op, n, u, a, accepted answers>>)
\* each case is <<op, n, u, a, accepted answers, accepted refusals (none inside the domain), realisation>>
CaseOf(q, r) == <<q.op, q.n, q.u, q.a, SetToSeq(AcceptedAnswers(c, q)), SetToSeq(RefusalsFor(c, q)), r>>
Emit == [cfg |-> [hol |-> SetToSortSeq(c.hol, <), wk |-> SetToSortSeq(c.wk, <), adj |-> c.adj, lo |-> c.lo, hi |-> c.hi],
         t |-> t,
         cases |-> SetToSeq({CaseOf(q, RealOf(q)) : q \in Asked}),
         after |-> IF \E q \in Asked : Populates(q) /\ InDomain(c, q) THEN SetToSeq({CaseOf(q, RealOf2(q)) : q \in After}) ELSE <<>>]
EvalGen == Eval /\ (Sampled(c, GenMod) => PrintT(ToJson(Emit)))
=============================================================================
