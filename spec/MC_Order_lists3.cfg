CONSTANTS MaxLen = 3
          Mode = "lists"
INIT Init
NEXT Next
INVARIANT SortLaws
