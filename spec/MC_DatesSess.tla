---------------------------- MODULE MC_DatesSess ----------------------------
(* Property C04 over SESSIONS: a call of dt() / ymd() has no memory.                             *)
(*                                                                                               *)
(* The statement gives every spelling ONE meaning (Dates!Denote).  It therefore also says what   *)
(* a call returns after any other calls in the same process: the same.  This module is the       *)
(* session state machine - one action per public call (CallDt, CallYmd), the state is the        *)
(* history of calls made on one calendar day - whose law is                                      *)
(*        the outcome of the i-th call  =  Dates!Expected(that call)            (Wants)          *)
(* (the arguments of dt() - strings, numbers, datetime / numpy / pandas scalars - are immutable, *)
(* so the caller has no actions of his own between the calls).                                   *)
(*                                                                                               *)
(* Which histories?  Those in which the second call COLLIDES with the first on something a       *)
(* process-level memo / "already parsed" marker could be keyed on (KeyClasses): the very same    *)
(* argument in the other dialect or through the other entry point, the same integers in another  *)
(* rendering, the same day with another (or no) time of day, another form with the same integer  *)
(* part / the same digits / the same day, a number with a fraction of a day before the plain     *)
(* integer - plus, in turn over the days, every ordered pair of spelling classes.  Succ builds   *)
(* them by construction from the first call; EveryKeyExposed proves, for every day, that for     *)
(* every key class of the catalogue the generated sessions contain a pair that a memo on that    *)
(* key would get wrong (so catching such a memo does not depend on the order of unrelated        *)
(* cases), and FullKeyIsLaw that a memo keyed on the whole call is harmless.                     *)
(*                                                                                               *)
(* A call is [op, form, tl, wr, dl, ti, v]: entry point, form, amount of time written, writer    *)
(* convention, dialect, index of the time of day in SessTods, index of the rendering (opaque to  *)
(* the specification: only "the same" / "another" rendering matters; NV = how many there are).   *)
EXTENDS Dates, TLC, Json, SequencesExt, FiniteSets
CONSTANTS SessYears,    \* years whose days carry sessions
          DayMod,       \* every DayMod-th day of them
          MaxLen,       \* calls per session (printed when the history has this length)
          Rot           \* "any other spelling class" successors per call

VARIABLES day, hist
vars == <<day, hist>>

SessTods == << <<10, 20, 30, 50>>, <<23, 59, 59, 999999>>, <<20, 30, 40, 500000>>, <<12, 0, 0, 7000>>, <<0, 0, 0, 120000>> >>
NT == Len(SessTods)
StringForms == {"iso_str", "yyyymmdd_str", "monthname_str", "numeric_str", "dt2str"}
NumberForms == {"yyyymmdd_int", "yyyymmdd_str", "yyyymmdd_frac", "ordinal_int", "ordinal_frac"}
FD == <<1, 2, 3, 4, 5, 7, 8, 9>>
\* how many renderings the driver has for a spelling class (harness: props/c04.py variants())
NV(fo, tl) == CASE fo = "numeric_str" -> 8
                [] fo = "monthname_str" -> 15
                [] fo = "iso_str" /\ tl > 0 -> (IF tl = 4 \/ tl > 10 THEN 3 ELSE 2)
                [] OTHER -> 1
Other(dl) == IF dl = "uk" THEN "us" ELSE "uk"
Mk(op, fo, tl, wr, dl, ti, v) == [op |-> op, form |-> fo, tl |-> tl, wr |-> wr, dl |-> dl, ti |-> ti, v |-> v]

\* what is written, and what must come back - whatever was called before
F(c, o) == LET cv == FastYMD(o) IN
           CASE c.form = "yyyymmdd_frac" -> <<cv[1] * 10000 + cv[2] * 100 + cv[3], ((c.ti - 1) % 3) + 1, 4>>
             [] c.form = "ordinal_frac"  -> <<o, ((c.ti - 1) % 3) + 1, 4>>
             [] OTHER -> Spell(c.form, cv[1], cv[2], cv[3], SessTods[c.ti], c.wr, c.tl)
Want(c, o) == Expected(c.op, c.form, F(c, o), c.dl)
Wants(h, o) == [i \in 1..Len(h) |-> Want(h[i].c, o)]

\* ---- the calls of a day --------------------------------------------------------------------
\* strings write the seconds with the day's number of decimals (all of FracDigits in turn over the days)
DayTls(fo, o) == IF fo \in {"iso_str", "monthname_str", "numeric_str"} THEN {0, 2, 3, 4, 10 + FD[(o % 8) + 1]} ELSE Tls(fo)
Spellable(o, fo) == fo \notin NsForms \/ YearOf(o) <= 2261
Firsts(o) == UNION {UNION {{Mk("dt", fo, tl, wr, dl, (o % NT) + 1, (o + tl) % NV(fo, tl)) :
                               dl \in (IF fo \in StringForms THEN Dialects ELSE {IF o % 2 = 0 THEN "uk" ELSE "us"}), wr \in Wrs(fo)}
                           : tl \in DayTls(fo, o)} : fo \in {x \in Forms : Spellable(o, x)}}
Noise(o)  == {Mk("dt", fo, 0, "-", IF o % 2 = 0 THEN "uk" ELSE "us", (o % NT) + 1, 0) : fo \in NoiseForms}
FirstSeq(o) == SetToSeq(Firsts(o))

\* value collisions between forms: <<form, tl>> of the second call
OtherForms(c) == CASE c.form = "yyyymmdd_int" -> {<<"yyyymmdd_str", 0>>}
                   [] c.form = "yyyymmdd_str" -> {<<"yyyymmdd_int", 0>>, <<"iso_str", 3>>}
                   [] c.form = "iso_str" -> {<<"yyyymmdd_str", 0>>, <<"dt2str", 4>>}
                   [] c.form = "dt2str" -> {<<"iso_str", 0>>}
                   [] c.form = "date" -> {<<"datetime", 4>>}
                   [] c.form = "datetime" -> {<<"date", 0>>, <<"pd_timestamp", c.tl>>}
                   [] c.form = "pd_timestamp" -> {<<"datetime", 0>>}
                   [] c.form = "np_D" -> {<<"np_us", 4>>}
                   [] c.form = "np_us" -> {<<"np_D", 0>>, <<"np_s", 3>>}
                   [] c.form = "ordinal_int" -> {<<"yyyymmdd_int", 0>>}
                   [] OTHER -> {}
\* the successors of a call: <<class of the collision, second call>>
Succ(c, o) ==
    LET od == Other(c.dl)
        t2 == (c.ti % NT) + 1
        nv == NV(c.form, c.tl)
        sq == FirstSeq(o)
        is == {i \in 1..Len(sq) : sq[i] = [c EXCEPT !.ti = (o % NT) + 1, !.v = (o + c.tl) % nv]}
        at == IF is = {} THEN 0 ELSE CHOOSE i \in is : TRUE IN
    IF c.form = "yyyymmdd_frac" THEN {<<"int_part", Mk(op, fo, 0, "-", c.dl, c.ti, 0)>> : op \in {"dt", "ymd"}, fo \in {"yyyymmdd_int", "yyyymmdd_str"}}
    ELSE IF c.form = "ordinal_frac" THEN {<<"int_part", Mk(op, "ordinal_int", 0, "-", c.dl, c.ti, 0)>> : op \in {"dt", "ymd"}}
    ELSE IF c.op = "ymd" THEN {<<"other_op", [c EXCEPT !.op = "dt"]>>}
    ELSE {<<"other_dialect", [c EXCEPT !.dl = od]>>, <<"other_op", [c EXCEPT !.op = "ymd"]>>}
         \cup (IF nv > 1 THEN {<<"other_rendering", [c EXCEPT !.dl = od, !.v = (c.v + 1) % nv]>>} ELSE {})
         \cup {<<"other_time", [c EXCEPT !.tl = tl2, !.ti = t2, !.v = c.v % NV(c.form, tl2)]>> :
                   tl2 \in {x \in DayTls(c.form, o) : x # c.tl \/ c.tl > 0}}
         \cup {<<"other_form", Mk("dt", p[1], p[2], "-", c.dl, IF p[2] = c.tl THEN c.ti ELSE t2, 0)>> : p \in OtherForms(c)}
         \cup {<<"any_class", [sq[((at + (o \div DayMod) * Rot + r) % Len(sq)) + 1] EXCEPT !.ti = t2]>> : r \in 1..Rot}

\* ---- the machine ---------------------------------------------------------------------------
Days == {o \in UNION {FastOrd(y, 1, 1)..FastOrd(y, 12, 31) : y \in SessYears} : o % DayMod = 0}
Cands == IF hist = <<>> THEN {<<"first", c>> : c \in Firsts(day) \cup Noise(day)} \cup {<<"first", [c EXCEPT !.op = "ymd"]>> : c \in Firsts(day)}
         ELSE Succ(hist[Len(hist)].c, day)
Row(h, o) == [i \in 1..Len(h) |-> [cls |-> h[i].cls, op |-> h[i].c.op, form |-> h[i].c.form, tl |-> h[i].c.tl, wr |-> h[i].c.wr,
                                   dl |-> h[i].c.dl, v |-> h[i].c.v, f |-> F(h[i].c, o), want |-> Want(h[i].c, o),
                                   cl |-> Clause(h[i].c.op, h[i].c.form, h[i].c.wr, h[i].c.dl, Denote(h[i].c.form, F(h[i].c, o), h[i].c.dl))]]
Emit(h) == LET cv == FastYMD(day) IN PrintT(ToJson([k |-> "sess", y |-> cv[1], m |-> cv[2], d |-> cv[3], calls |-> Row(h, day)]))
Call(op) == /\ Len(hist) < MaxLen
            /\ \E x \in Cands : /\ x[2].op = op
                                /\ hist' = Append(hist, [cls |-> x[1], c |-> x[2]])
                                /\ Len(hist') = MaxLen => Emit(hist')
            /\ UNCHANGED day
CallDt  == Call("dt")
CallYmd == Call("ymd")
Init == day \in Days /\ hist = <<>>
Next == CallDt \/ CallYmd

\* ---- the catalogue of memo keys, and what the generated sessions prove about them ----------
Key(K, c, o) ==
    LET f == F(c, o) IN
    CASE K = "full"         -> <<c.form, f, c.v, c.dl, c.op>>
      [] K = "no_op"        -> <<c.form, f, c.v, c.dl, "*">>
      [] K = "no_dialect"   -> <<c.form, f, c.v, "*", c.op>>
      [] K = "no_rendering" -> <<c.form, f, -1, "*", c.op>>        \* a normalised string, shared by the dialects
      [] K = "no_time"      -> <<c.form, <<o>>, -1, c.dl, c.op>>    \* the date part of the argument
      [] K = "int_part"     -> IF c.form \in NumberForms THEN <<"number", <<f[1]>>, -1, "*", c.op>> ELSE <<c.form, f, c.v, c.dl, c.op>>
KeyClasses == {"no_op", "no_dialect", "no_rendering", "no_time", "int_part"}
\* a memo keyed on K answers with what the first call with the same key returned
MechAnswers(K, h, o) == [i \in 1..Len(h) |-> Want(h[CHOOSE j \in 1..i : Key(K, h[j].c, o) = Key(K, h[i].c, o)
                                                     /\ \A jj \in 1..(j - 1) : Key(K, h[jj].c, o) # Key(K, h[i].c, o)].c, o)]
FullKeyIsLaw == MechAnswers("full", hist, day) = Wants(hist, day)
Exposes(K, A, B, o) == /\ Key(K, A, o) = Key(K, B, o)
                       /\ Want(B, o) # Unpinned
                       /\ ~SameOutcome(Want(A, o), Want(B, o))
\* (a numeric string means the same in both dialects when day = month: nothing to expose on those 12 days)
EveryKeyExposed ==
    hist = <<>> => LET cv == FastYMD(day) IN
        \A K \in KeyClasses : (K \in {"no_dialect", "no_rendering"} /\ cv[2] = cv[3]) \/
            \E x \in Cands : \E y \in Succ(x[2], day) : Exposes(K, x[2], y[2], day)
\* every generated call is inside the domain of the property (or a noise call)
InDomain == \A i \in 1..Len(hist) : Want(hist[i].c, day) # Undefined
=============================================================================
