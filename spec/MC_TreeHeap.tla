---------------------------- MODULE MC_TreeHeap ----------------------------
(* Property C15, the non-destruction clause and the merge law, on an implementation-shaped      *)
(* model with ALIASING.  Tree.tla treats trees as values; here dicts are OBJECTS on a heap.     *)
(*                                                                                              *)
(* The operands are a DAG of objects (Tree.tla, "Trees as DAGs"): objs[i] is a node, a cell is  *)
(* a leaf or <<"ref", j>> with j > i.  One object may hang under two keys, at two depths, in t  *)
(* and in u at once; u may be t itself or a branch of t (and the other way round).  The law     *)
(* level sees the UNFOLDED trees T and U.  On the heap of the run the operand object i is named *)
(* <<"o", <<"i">>>>, the dicts made by the call <<"r", path>> (copies) and <<"n", path>> (new). *)
(* tree_update(t, u) is modelled step by step as the code does it:                              *)
(*    Copy        Deep = FALSE: copy.copy of the root - the nested dicts are SHARED with t;     *)
(*                Deep = TRUE: _tree_copy, every branch copied, once per place it hangs in      *)
(*    InsertItem  one action per item of u: walk down, creating dicts on demand, write the leaf *)
(* The items come from the walk of u: Walk = "unfold" is tree_items (a shared object is walked  *)
(* wherever it hangs); Walk = "once" is a walk that remembers the objects it has seen and skips *)
(* them the second time (a recursion guard that is never popped).                               *)
(* ResultIsMerge: the result is Merge(T, U, ign).  OperandsIntact: "neither t nor u (at any     *)
(* depth) is modified" = every operand OBJECT is what it was.  TLC refutes OperandsIntact for   *)
(* Deep = FALSE and ResultIsMerge for Walk = "once" (both registered as must-fail: the design-  *)
(* level counterparts of what the replay finds in such code) and proves both for the code as it *)
(* is (Deep = TRUE, Walk = "unfold") within the constants.                                      *)
(* The same initial states with NEXT NextGen are the S2C generator for operands with aliasing.  *)
EXTENDS Tree, TLC, Json
CONSTANTS Deep,     \* FALSE: copy.copy of the root; TRUE: every branch copied (the code today)
          Walk,     \* "unfold" (tree_items today) | "once" (visited-set guard)
          Size      \* "tiny" | "std" | "wide": universe of operand heaps

VARIABLES objs, rt, ru, ign, heap, todo, pc
vars == <<objs, rt, ru, ign, heap, todo, pc>>

KeyOrder == <<"a", "ab">>
Key  == {"a", "ab"}
\* heaps of 4 objects (wide) carry one kind of leaf, the smaller ones two
LeafFor(N) == IF Size = "tiny" \/ N = 4 THEN {VInt(1)} ELSE {None, VInt(1)}
NSet == CASE Size = "tiny" -> {3} [] Size = "std" -> {2, 3} [] Size = "wide" -> {2, 3, 4}
IgnU == IF Size = "tiny" THEN {{}} ELSE {{}, {None}}

\* every acyclic heap of N non-empty objects: object i refers to later objects only
Cells(i, N) == LeafFor(N) \cup {RefCell(j) : j \in (i + 1)..N}
Nodes(i, N) == UNION {[S -> Cells(i, N)] : S \in (SUBSET Key) \ {{}}}
RECURSIVE HeapsFrom(_, _)
HeapsFrom(i, N) == IF i > N THEN {<<>>} ELSE {<<n>> \o rest : n \in Nodes(i, N), rest \in HeapsFrom(i + 1, N)}

IsRef(c) == c[1] = "ref"
Ref(n)   == <<"ref", n>>
PutK(f, k, v) == [x \in DOMAIN f \cup {k} |-> IF x = k THEN v ELSE f[x]]
Join(f, g)    == [x \in DOMAIN f \cup DOMAIN g |-> IF x \in DOMAIN g THEN g[x] ELSE f[x]]

\* the operand objects on the heap of the run
OName(i) == <<"o", <<ToString(i)>>>>
ONode(i) == [k \in DOMAIN objs[i] |-> IF IsRefCell(objs[i][k]) THEN Ref(OName(objs[i][k][2])) ELSE objs[i][k]]
OperandHeap == [n \in {OName(i) : i \in 1..Len(objs)} |-> ONode(CHOOSE i \in 1..Len(objs) : OName(i) = n)]
T == Unfold(objs, rt)
U == Unfold(objs, ru)

\* a tree loaded as fresh objects, one per place (path): what _tree_copy makes
PathPrefixes(tr) == UNION {{SubSeq(p, 1, n) : n \in 0..Len(p)} : p \in TPaths(tr)}
BranchPaths(tr)  == {<<>>} \cup {q \in PathPrefixes(tr) : IsBranch(TGet(tr, q))}
NodeOf(tag, tr, p) == LET sub == TGet(tr, p) IN
    [k \in KeysOf(sub) |-> IF IsBranch(Kids(sub)[k]) THEN Ref(<<tag, p \o <<k>>>>) ELSE Kids(sub)[k]]
Load(tag, tr) == [n \in {<<tag, p>> : p \in BranchPaths(tr)} |-> NodeOf(tag, tr, n[2])]

RECURSIVE Deref(_, _)
Deref(h, n) == Branch([k \in DOMAIN h[n] |-> IF IsRef(h[n][k]) THEN Deref(h, h[n][k][2]) ELSE h[n][k]])

\* the walk that skips an object it has already seen anywhere: <<items, seen>>
RECURSIVE WalkOnce(_, _, _)
WalkOnce(i, seen, ord) ==
    IF i \in seen THEN <<<<>>, seen>>
    ELSE FoldLeft(LAMBDA acc, k :
                    IF k \notin DOMAIN objs[i] THEN acc
                    ELSE IF IsRefCell(objs[i][k])
                         THEN LET r == WalkOnce(objs[i][k][2], acc[2], ord) IN
                              <<acc[1] \o [n \in 1..Len(r[1]) |-> <<<<k>> \o r[1][n][1], r[1][n][2]>>], r[2]>>
                         ELSE <<Append(acc[1], <<<<k>>, objs[i][k]>>), acc[2]>>,
                  <<<<>>, seen \cup {i}>>, ord)

R == <<"r", <<>>>>
InitArgs == /\ \E N \in NSet : objs \in HeapsFrom(1, N)
            /\ rt \in 1..Len(objs) /\ ru \in 1..Len(objs) /\ (rt = 1 \/ ru = 1)
            /\ HeapOk(objs, {rt, ru}) /\ AllReachable(objs, {rt, ru})
            /\ ign \in IgnU
Init == /\ InitArgs
        /\ heap = OperandHeap
        /\ todo = (IF Walk = "once" THEN WalkOnce(ru, {}, KeyOrder)[1] ELSE ItemsSeq(U, KeyOrder))
        /\ pc = "copy"

\* tree = copy(tree)            (Deep = FALSE)   |   tree = _tree_copy(tree, types)   (Deep = TRUE)
Copy == /\ pc = "copy" /\ pc' = "insert"
        /\ heap' = IF Deep THEN Join(heap, Load("r", T)) ELSE PutK(heap, R, heap[OName(rt)])
        /\ UNCHANGED <<objs, rt, ru, ign, todo>>

\* _tree_setitem(tree, item, base, ignore, types)
RECURSIVE HeapInsert(_, _, _, _, _)
HeapInsert(h, obj, path, leaf, pre) ==
    LET k == Head(path)  node == h[obj] IN
    IF Len(path) = 1
    THEN IF k \in DOMAIN node /\ leaf \in ign THEN h ELSE PutK(h, obj, PutK(node, k, leaf))
    ELSE IF k \in DOMAIN node /\ IsRef(node[k]) THEN HeapInsert(h, node[k][2], Tail(path), leaf, pre \o <<k>>)
         ELSE LET new == <<"n", pre \o <<k>>>>
                  h2  == PutK(PutK(h, obj, PutK(node, k, Ref(new))), new, <<>>)
              IN  HeapInsert(h2, new, Tail(path), leaf, pre \o <<k>>)
InsertItem == /\ pc = "insert" /\ todo # <<>>
              /\ heap' = HeapInsert(heap, R, Head(todo)[1], Head(todo)[2], <<>>)
              /\ todo' = Tail(todo)
              /\ UNCHANGED <<objs, rt, ru, ign, pc>>
Return == pc = "insert" /\ todo = <<>> /\ pc' = "done" /\ UNCHANGED <<objs, rt, ru, ign, heap, todo>>
Next == Copy \/ InsertItem \/ Return

ResultIsMerge  == pc = "done" => Deref(heap, R) = Merge(T, U, ign)
\* every operand object is what it was, references included (so the unfolded t and u are what they were)
OperandsIntact == \A i \in 1..Len(objs) : heap[OName(i)] = ONode(i)
\* the same, looked at when the call returns (the must-fail runs use this form, so that every action has been
\* taken by the time TLC stops at the refutation)
OperandsIntactAtReturn == pc = "done" => OperandsIntact
\* the walk of a DAG is the walk of its unfolding, and the single-tree laws hold for unfoldings
UnfoldedLaws   == pc = "copy" => /\ WellFormed(T) /\ WellFormed(U)
                                 /\ FromItems(TItems(U)) = U
                                 /\ Merge(U, U, ign) = U
                                 /\ (Walk = "unfold" /\ ~Shared(objs, {ru})) => WalkOnce(ru, {}, KeyOrder)[1] = todo

\* --- S2C generator: every operand heap with the outcome the law expects ------------------------
Gen == /\ pc = "copy" /\ pc' = "done"
       /\ PrintT(ToJson([op |-> "hupdate", objs |-> objs, rt |-> rt, ru |-> ru, ign |-> ign,
                         out |-> Merge(T, U, ign), shared |-> Shared(objs, {rt, ru})]))
       /\ IF rt = ru /\ ign = {}
          THEN PrintT(ToJson([op |-> "hitems", objs |-> objs, rt |-> rt, t |-> T, items |-> TItems(T), shared |-> Shared(objs, {rt})]))
          ELSE TRUE
       /\ UNCHANGED <<objs, rt, ru, ign, heap, todo>>
NextGen == Gen
=============================================================================
