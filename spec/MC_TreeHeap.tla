---------------------------- MODULE MC_TreeHeap ----------------------------
(* Property C15, the non-destruction clause, on an implementation-shaped model with ALIASING.   *)
(* Tree.tla treats trees as values; here the dicts are objects on a heap, named after where     *)
(* they come from:  <<"t", path>> the dict at `path` of the left operand, <<"u", path>> of the  *)
(* update, <<"r", path>> / <<"n", path>> dicts made by the call.  A dict maps a key to a leaf   *)
(* or to <<"ref", name>>.  tree_update(t, u) is modelled step by step as the code does it:      *)
(*    Copy        the root of t is copied (Deep = FALSE: copy.copy - the nested dicts are        *)
(*                SHARED with t; Deep = TRUE: every branch is copied, the proposed repair)       *)
(*    InsertItem  one action per item of u: walk down, creating dicts on demand, write the leaf  *)
(* ResultIsMerge holds either way.  OperandsIntact is the clause "neither t nor u (at any depth) *)
(* is modified": TLC refutes it for Deep = FALSE (the run is registered as must-fail and is the  *)
(* design-level counterpart of the violation the replay finds in the code) and proves it for     *)
(* Deep = TRUE within the constants.                                                             *)
EXTENDS Tree, TLC
CONSTANTS Deep,     \* FALSE: copy.copy of the root (the code today); TRUE: every branch copied (the repair)
          Size      \* "tiny" | "std" | "wide": universe of operands

VARIABLES t, u, ign, heap, todo, pc
vars == <<t, u, ign, heap, todo, pc>>

KeyOrder == <<"a", "ab">>
U    == CASE Size = "tiny" -> RootU({"a"}, {None, VInt(1)}, 2)
          [] Size = "std"  -> RootU({"a", "ab"}, {None, VInt(1)}, 2)
          [] Size = "wide" -> RootU({"a", "ab"}, {None, VInt(1), VStr("s")}, 2)
IgnU == IF Size = "wide" THEN {{}, {None}} ELSE {{}}

IsRef(c) == c[1] = "ref"
Ref(n)   == <<"ref", n>>
PutK(f, k, v) == [x \in DOMAIN f \cup {k} |-> IF x = k THEN v ELSE f[x]]

PathPrefixes(tr)    == UNION {{SubSeq(p, 1, n) : n \in 0..Len(p)} : p \in TPaths(tr)}
BranchPaths(tr) == {<<>>} \cup {q \in PathPrefixes(tr) : IsBranch(TGet(tr, q))}
NodeOf(tag, tr, p) == LET sub == TGet(tr, p) IN
    [k \in KeysOf(sub) |-> IF IsBranch(Kids(sub)[k]) THEN Ref(<<tag, p \o <<k>>>>) ELSE Kids(sub)[k]]
Names(tag, tr) == {<<tag, p>> : p \in BranchPaths(tr)}
Load(tag, tr)  == [n \in Names(tag, tr) |-> NodeOf(tag, tr, n[2])]
Join(f, g)     == [x \in DOMAIN f \cup DOMAIN g |-> IF x \in DOMAIN g THEN g[x] ELSE f[x]]

RECURSIVE Deref(_, _)
Deref(h, n) == Branch([k \in DOMAIN h[n] |-> IF IsRef(h[n][k]) THEN Deref(h, h[n][k][2]) ELSE h[n][k]])

R == <<"r", <<>>>>
Init == /\ t \in U /\ u \in U /\ ign \in IgnU
        /\ heap = Join(Load("t", t), Load("u", u))
        /\ todo = ItemsSeq(u, KeyOrder) /\ pc = "copy"

\* tree = copy(tree)            (today)      |   tree = _tree_copy(tree, types)   (repair)
Copy == /\ pc = "copy" /\ pc' = "insert"
        /\ heap' = IF Deep THEN Join(heap, Load("r", t)) ELSE PutK(heap, R, heap[<<"t", <<>>>>])
        /\ UNCHANGED <<t, u, ign, todo>>

\* _tree_setitem(tree, item, base, ignore, types)
RECURSIVE HeapInsert(_, _, _, _, _)
HeapInsert(h, obj, path, leaf, pre) ==
    LET k == Head(path)  node == h[obj] IN
    IF Len(path) = 1
    THEN IF k \in DOMAIN node /\ leaf \in ign THEN h ELSE PutK(h, obj, PutK(node, k, leaf))
    ELSE IF k \in DOMAIN node /\ IsRef(node[k]) THEN HeapInsert(h, node[k][2], Tail(path), leaf, pre \o <<k>>)
         ELSE LET new == <<"n", pre \o <<k>>>>
                  h2  == PutK(PutK(h, obj, PutK(node, k, Ref(new))), new, <<>>)
              IN  HeapInsert(h2, new, Tail(path), leaf, pre \o <<k>>)
InsertItem == /\ pc = "insert" /\ todo # <<>>
              /\ heap' = HeapInsert(heap, R, Head(todo)[1], Head(todo)[2], <<>>)
              /\ todo' = Tail(todo)
              /\ UNCHANGED <<t, u, ign, pc>>
Return == pc = "insert" /\ todo = <<>> /\ pc' = "done" /\ UNCHANGED <<t, u, ign, heap, todo>>
Next == Copy \/ InsertItem \/ Return

ResultIsMerge  == pc = "done" => Deref(heap, R) = Merge(t, u, ign)
OperandsIntact == Deref(heap, <<"t", <<>>>>) = t /\ Deref(heap, <<"u", <<>>>>) = u
=============================================================================
