INIT Init
NEXT Next
