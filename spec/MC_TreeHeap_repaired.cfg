CONSTANTS Deep = TRUE
          Size = "std"
INIT Init
NEXT Next
INVARIANT ResultIsMerge
INVARIANT OperandsIntact
