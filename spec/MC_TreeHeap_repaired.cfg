CONSTANTS Deep = TRUE
          Walk = "unfold"
          Size = "std"
INIT Init
NEXT Next
INVARIANT ResultIsMerge
INVARIANT OperandsIntact
INVARIANT UnfoldedLaws
