CONSTANTS Worlds <- WorldsAll
          Starts = {6}
          Horizon = 19
          MaxStep = 2
          CutLag = 2
          ExpLag = 3
          Ns = {0, 2}
          EmptyAsNone = TRUE
          LiveRule = "post"
          MaxTrunc = 1
          TruncBack = {3}
          Depth = 4
INIT MCInit
NEXT MCNext
