CONSTANTS HW = 5
          Margin = 9
          Marks = {0, 1, 28800, 46800, 81000, 86399}
          WeekendNos = {1, 2, 3, 4}
          OwnAdjs = {"m", "f"}
          TPad = 2
          GenMod = 8
INIT Init
NEXT EvalGen
