------------------------------ MODULE DictableX ------------------------------
(* Extension X02: a second session state machine over the heap model of property C01             *)
(* (Dictable.tla): a heap of table objects, registers that name them, the outcome of the last     *)
(* call.  The actions are the public dictable calls that no listed property covers:               *)
(*   NewX        the construction forms (records, header + rows, values + name, DataFrame, zips)   *)
(*   Extend      dictable(d, extra = ..)                      allocates, d unchanged              *)
(*   Get GetAttr TupleGet Apply IfElse Repr DictConcat DictConcatRows     reads: nothing changes  *)
(*   Call        d(c = v, e = f, ..)                           allocates                          *)
(*   DoX Relabel Unpivot Xyz                                   allocate                           *)
(*   UpdateFrom  d.update(other table)                         in place, other unchanged          *)
(*   IfNone      d.if_none(..)   in place + alias where the columns exist, allocates otherwise     *)
(*   SetCol DelCol Copy          (C01's, to mix with)                                              *)
(* out is <<"ok", 0>>, <<"exc", class>> or <<"val", value>> (what a read returned).               *)
(* hist records the calls; model-checking configurations hide it with a VIEW, generator            *)
(* configurations print it together with the state the specification expects.                      *)
EXTENDS DictableXOps, Json
CONSTANTS MaxDepth, MaxRowsC, LawDepth      \* the laws over the live tables are evaluated after at most LawDepth calls

VARIABLES heap, reg, out, hist
vars == <<heap, reg, out, hist>>

\* ---- the machine ---------------------------------------------------------------------------------
Live == {r \in Regs : reg[r] # 0}
T(r) == heap[reg[r]]
XOutOf(res) == IF res.ok THEN XOutOk ELSE XOutExc(res.err)
Alloc(rd, res, h) ==
    /\ hist' = Append(hist, h)
    /\ out' = XOutOf(res)
    /\ IF res.ok THEN heap' = Append(heap, res.t) /\ reg' = [reg EXCEPT ![rd] = Len(heap) + 1]
       ELSE UNCHANGED <<heap, reg>>
\* res.t is the target afterwards also when the call was rejected half way (UpdateT keeps the earlier assignments)
InPlace(r, res, h) ==
    /\ hist' = Append(hist, h)
    /\ out' = XOutOf(res)
    /\ heap' = [heap EXCEPT ![reg[r]] = res.t]
    /\ UNCHANGED reg
Read(q, h) ==
    /\ hist' = Append(hist, h)
    /\ out' = IF q.ok THEN XOutVal(q.v) ELSE XOutExc(q.err)
    /\ UNCHANGED <<heap, reg>>

\* ---- menus -----------------------------------------------------------------------------------------
XF(kind, args) == [kind |-> kind, args |-> args]
XG(kind, extras) == [kind |-> kind, extras |-> extras]
XVZ == VInt(0)
XSeeds == <<
    [kind |-> "cols", how |-> "dict", cols |-> <<"a", "b">>, args |-> <<<<"l", <<V1, None>>>>, <<"l", <<VX, None>>>>>>],
    [kind |-> "recs", recs |-> <<<<<<"b", V1>>, <<"a", V2>>>>, <<<<"a", None>>, <<"b", VX>>>>>>],             \* same keys: sorted
    [kind |-> "recs", recs |-> <<<<<<"b", VX>>, <<"a", V1>>>>>>],                                          \* one record: its own order
    [kind |-> "rows", how |-> "header", hdrs |-> <<"b", "a">>, rows |-> <<<<V1, V2>>, <<None, VX>>>>],       \* dictable([['b','a'], [1,2], [None,'x']])
    [kind |-> "rows", how |-> "frame", hdrs |-> <<"c", "a">>, rows |-> <<<<V1, VX>>, <<V2, VX>>>>],          \* DataFrame
    [kind |-> "frame", hdrs |-> <<"c", "a">>, rows |-> <<<<V1, VX>>, <<V2, VX>>>>, index |-> "a"],           \* DataFrame indexed by a
    [kind |-> "cols", how |-> "zip", cols |-> <<"c", "a">>, args |-> <<<<"l", <<V1, V2, None>>>>, <<"s", VX>>>>],   \* dictable(zip(names, values))
    [kind |-> "rows", how |-> "ziprows", hdrs |-> <<"a", "c">>, rows |-> <<<<V1, VX>>, <<V2, None>>>>],       \* dictable(zip(*columns), names)
    [kind |-> "recs", recs |-> <<>>],                                                                      \* dictable([])
    [kind |-> "rows", how |-> "plain", hdrs |-> <<"a", "b">>, rows |-> <<>>],                                \* columns, no rows
    [kind |-> "cols", how |-> "dict", cols |-> <<"x", "y", "z">>,
        args |-> <<<<"l", <<V1, V2, V1>>>>, <<"l", <<VStr("p"), VStr("p"), VStr("q")>>>>, <<"l", <<V1, None, VX>>>>>>],   \* long form
    [kind |-> "cols", how |-> "dict", cols |-> <<"x", "p", "q">>, args |-> <<<<"l", <<V1, V2>>>>, <<"l", <<V1, V2>>>>, <<"l", <<VX, None>>>>>>],   \* wide form
    [kind |-> "cols", how |-> "dict", cols |-> <<"a", "b">>, args |-> <<<<"l", <<VNaN(1), V2>>>>, <<"l", <<None, VInf(1)>>>>>>],
    [kind |-> "cols", how |-> "dict", cols |-> <<"a">>, args |-> <<<<"l", <<V1, V2, V1, V2, V1, V2, None>>>>>>],          \* seven rows
    [kind |-> "cols", how |-> "zip", cols |-> <<"key", "a">>, args |-> <<<<"l", <<VX, V2>>>>, <<"l", <<V1, None>>>>>>],     \* a column called 'key'
    [kind |-> "single", name |-> "ab", vals |-> <<V1, None>>],                                               \* dictable([1, None], 'ab')
    [kind |-> "single", name |-> "ab", vals |-> <<>>],                                                       \* dictable([], 'ab'): still ONE column
    [kind |-> "rows", how |-> "header", hdrs |-> <<"a", "b">>, rows |-> <<>>],                                 \* dictable([['a','b']]): a header and no rows
    [kind |-> "cols", how |-> "dict", cols |-> <<"x", "w", "y", "z">>,
        args |-> <<<<"l", <<V1, V1, V2, V1>>>>, <<"l", <<V2, V1, V1, V2>>>>, <<"l", <<VStr("q"), VStr("p"), VStr("p"), VStr("q")>>>>, <<"l", <<VX, None, V1, V2>>>>>>]   \* long form, two x columns, a repeated cell
>>
GetMenu     == <<<<"a", None>>, <<"q", None>>, <<"zz", V2>>>>
GetAttrMenu == <<<<"a", <<>>>>, <<"zz", <<>>>>, <<"zz", <<V2>>>>, <<"q", <<None>>>>>>
TupleMenu   == <<<<<<"c", "a">>, <<"c", "b">>>>, <<<<"c", "a">>, <<"c", "zz">>>>, <<<<"c", "a">>, <<"f", XF("tuple", <<"b">>)>>>>,
                 <<<<"f", XF("ident", <<"zz">>)>>, <<"c", "zz">>>>, <<<<"c", "x">>>>>>
ApplyMenu   == <<[fn |-> XF("tuple", <<"a", "b">>), defs |-> <<>>], [fn |-> XF("tuple", <<"a", "w">>), defs |-> <<<<"w", V2>>>>],
                 [fn |-> XF("tuple", <<"a", "b">>), defs |-> <<<<"b", V2>>>>], [fn |-> XF("ident", <<"key">>), defs |-> <<>>],
                 [fn |-> XF("const", <<>>), defs |-> <<>>]>>
IfElseMenu  == <<[cond |-> <<"c", "a">>, a |-> <<"c", "b">>, b |-> <<"f", XF("tuple", <<"a">>)>>, defs |-> <<>>],
                 [cond |-> <<"f", XF("isnone", <<"a">>)>>, a |-> <<"c", "a">>, b |-> <<"c", "zz">>, defs |-> <<>>],
                 [cond |-> <<"c", "a">>, a |-> <<"f", XF("tuple", <<"a", "w">>)>>, b |-> <<"c", "b">>, defs |-> <<<<"w", V2>>>>],
                 [cond |-> <<"c", "zz">>, a |-> <<"c", "a">>, b |-> <<"c", "a">>, defs |-> <<>>]>>
CallMenu    == <<<<<<"c", <<"f", XF("tuple", <<"a", "b">>)>>>>>>,
                 <<<<"e", <<"f", XF("list", <<"c">>)>>>>, <<"c", <<"f", XF("tuple", <<"a", "b">>)>>>>>>,       \* e needs c: c first whatever the keyword order
                 <<<<"a", <<"f", XF("tuple", <<"a">>)>>>>, <<"c", <<"f", XF("ident", <<"b">>)>>>>>>,             \* a reads itself, c is independent
                 <<<<"a", <<"f", XF("tuple", <<"a">>)>>>>, <<"b", <<"f", XF("tuple", <<"b">>)>>>>>>,             \* two self-readers: refused
                 <<<<"e", <<"f", XF("list", <<"c">>)>>>>, <<"c", <<"s", V2>>>>>>,                               \* a function reads a constant of the same call
                 <<<<"c", <<"l", <<V1, V2>>>>>>>>,
                 <<<<"c", <<"f", XF("ident", <<"key">>)>>>>>>,                                                \* the hidden default key = 'c'
                 <<<<"c", <<"f", XF("ident", <<"zz">>)>>>>>>,                                                 \* TypeError
                 <<<<"c", <<"f", XF("ident", <<"e">>)>>>>, <<"e", <<"f", XF("ident", <<"c">>)>>>>>>,            \* a cycle
                 <<<<"z", <<"f", XF("tuple", <<"x", "z">>)>>>>, <<"y", <<"s", VStr("q")>>>>>> >>
IfNoneMenu  == <<[none |-> <<"none">>, kws |-> <<<<"a", <<"s", V2>>>>>>],
                 [none |-> <<"none">>, kws |-> <<<<"a", <<"f", XF("tuple", <<"key", "b">>)>>>>>>],
                 [none |-> <<"none">>, kws |-> <<<<"a", <<"s", V2>>>>, <<"c", <<"s", VX>>>>>>],               \* fills a in the operand, then goes on with a new table
                 [none |-> <<"none">>, kws |-> <<<<"c", <<"s", VX>>>>, <<"a", <<"s", V2>>>>>>],               \* new table first: the operand stays
                 [none |-> <<"nan">>, kws |-> <<<<"a", <<"s", XVZ>>>>, <<"b", <<"s", XVZ>>>>>>],
                 [none |-> <<"vals", <<V1, VX>>>>, kws |-> <<<<"a", <<"s", None>>>>, <<"b", <<"s", None>>>>>>],
                 [none |-> <<"isstr">>, kws |-> <<<<"b", <<"f", XF("ident", <<"zz">>)>>>>>>],                  \* TypeError only if some b is a string
                 [none |-> <<"none">>, kws |-> <<<<"z", <<"f", XF("ident", <<"x">>)>>>>>>],
                 [none |-> <<"none">>, kws |-> <<<<"a", <<"f", XF("list", <<"key">>)>>>>>>],                    \* key: the row's cell if there is such a column, else 'a'
                 [none |-> <<"none">>, kws |-> <<>>]>>
DoMenu      == <<[fs |-> <<XG("tuple", <<"a">>)>>, cs |-> <<"a", "b">>, star |-> TRUE],                         \* b's step sees the new a
                 [fs |-> <<XG("tuple", <<>>), XG("list", <<>>)>>, cs |-> <<"a">>, star |-> TRUE],
                 [fs |-> <<XG("zero", <<>>)>>, cs |-> <<>>, star |-> FALSE],                                    \* d.do(f, []): nothing
                 [fs |-> <<XG("tuple", <<"b">>)>>, cs |-> <<>>, star |-> TRUE],                                 \* all columns
                 [fs |-> <<XG("zero", <<>>)>>, cs |-> <<"x", "z">>, star |-> FALSE],
                 [fs |-> <<XG("tuple", <<"zz">>)>>, cs |-> <<"a">>, star |-> TRUE]>>
RelabelMenu == <<[kind |-> "map", how |-> "kw", pairs |-> <<<<"a", "b">>>>],                                   \* onto an existing column
                 [kind |-> "map", how |-> "dict", pairs |-> <<<<"b", "a">>>>],
                 [kind |-> "map", how |-> "kw", pairs |-> <<<<"a", "d">>, <<"zz", "y">>>>],
                 [kind |-> "map", how |-> "dict", pairs |-> <<<<"p", "z">>, <<"x", "q">>>>],
                 [kind |-> "fn", fn |-> "double"], [kind |-> "fn", fn |-> "const_k"], [kind |-> "fn", fn |-> "ab_to_c"],
                 [kind |-> "fnmap", fn |-> "double", pairs |-> <<<<"b", "aa">>>>],
                 [kind |-> "prefix", s |-> "x_"], [kind |-> "suffix", s |-> "_x"],
                 [kind |-> "list", names |-> <<"p", "q">>], [kind |-> "list", names |-> <<"y">>]>>
UnpivotMenu == <<[xs |-> <<"x">>, y |-> "y", z |-> "z", ysel |-> <<>>], [xs |-> <<"a">>, y |-> "y", z |-> "z", ysel |-> <<>>],
                 [xs |-> <<"x">>, y |-> "k", z |-> "v", ysel |-> <<"q">>], [xs |-> <<"x", "p">>, y |-> "y", z |-> "z", ysel |-> <<>>],
                 [xs |-> <<"zz">>, y |-> "y", z |-> "z", ysel |-> <<>>], [xs |-> <<"a">>, y |-> "a", z |-> "z", ysel |-> <<>>],
                 [xs |-> <<"a">>, y |-> "y", z |-> "z", ysel |-> <<"zz">>]>>
XyzMenu     == <<[xs |-> <<"x">>, y |-> "y", z |-> <<"c", "z">>, agg |-> "none"],
                 [xs |-> <<"x">>, y |-> "y", z |-> <<"f", XF("tuple", <<"x", "z">>)>>, agg |-> "last"],
                 [xs |-> <<"x">>, y |-> "y", z |-> <<"c", "zz">>, agg |-> "len"],
                 [xs |-> <<"x">>, y |-> "y", z |-> <<"c", "z">>, agg |-> "len"],
                 [xs |-> <<"x">>, y |-> "y", z |-> <<"c", "z">>, agg |-> "first"],
                 [xs |-> <<"x", "w">>, y |-> "y", z |-> <<"c", "z">>, agg |-> "none"],
                 [xs |-> <<"w", "x">>, y |-> "y", z |-> <<"f", XF("coalesce", <<"z", "y">>)>>, agg |-> "last"]>>
ConcatMenu  == <<<<<<<<"a", V1>>, <<"b", V2>>>>, <<<<"a", VX>>, <<"c", None>>>>>>,                             \* different keys
                 <<<<<<"b", V1>>, <<"a", V2>>>>, <<<<"a", VX>>, <<"b", None>>>>>>,
                 <<<<<<"b", V1>>, <<"a", V2>>>>>>, <<>>>>
ExtendMenu  == <<<<<<"c", <<"s", V2>>>>>>, <<<<"a", <<"s", V2>>>>, <<"c", <<"l", <<V1, V2>>>>>>>>, <<<<"c", <<"l", <<V1, V2, VX>>>>>>>>>>
SetMenu     == <<<<"a", <<"s", V2>>>>, <<"c", <<"l", <<V1, None>>>>>>, <<"y", <<"s", VStr("p")>>>>>>

\* ---- the actions: one public call each ------------------------------------------------------------------
More == Len(hist) < MaxDepth          \* a session has at most MaxDepth calls
NewX    == More /\ \E rd \in (IF Live = {} THEN {"r1"} ELSE {"r1", "r2"}) : \E k \in DOMAIN XSeeds :      \* the first table goes to r1 (the registers are alike)
               Alloc(rd, XConstruct(XSeeds[k]), [op |-> "NewX", rd |-> rd, seed |-> XSeeds[k]])
Extend  == More /\ \E r \in Live : \E k \in DOMAIN ExtendMenu :
               Alloc(NextReg(r), XExtendT(T(r), ExtendMenu[k]), [op |-> "Extend", r |-> r, rd |-> NextReg(r), extra |-> ExtendMenu[k]])
Get     == More /\ \E r \in Live : \E k \in DOMAIN GetMenu :
               Read(XGetT(T(r), GetMenu[k][1], GetMenu[k][2]), [op |-> "Get", r |-> r, c |-> GetMenu[k][1], dflt |-> GetMenu[k][2]])
GetAttr == More /\ \E r \in Live : \E k \in DOMAIN GetAttrMenu :
               Read(XGetAttrT(T(r), GetAttrMenu[k][1], GetAttrMenu[k][2]), [op |-> "GetAttr", r |-> r, c |-> GetAttrMenu[k][1], dflt |-> GetAttrMenu[k][2]])
TupleGet == More /\ \E r \in Live : \E k \in DOMAIN TupleMenu :
               Read(XTupleGetT(T(r), TupleMenu[k]), [op |-> "TupleGet", r |-> r, items |-> TupleMenu[k]])
Apply   == More /\ \E r \in Live : \E k \in DOMAIN ApplyMenu :
               Read(XApplyT(T(r), ApplyMenu[k].fn, ApplyMenu[k].defs), [op |-> "Apply", r |-> r, fn |-> ApplyMenu[k].fn, defs |-> ApplyMenu[k].defs])
IfElse  == More /\ \E r \in Live : \E k \in DOMAIN IfElseMenu : LET m == IfElseMenu[k] IN
               Read(XIfElseT(T(r), m.cond, m.a, m.b, m.defs), [op |-> "IfElse", r |-> r, cond |-> m.cond, a |-> m.a, b |-> m.b, defs |-> m.defs])
Repr    == More /\ \E r \in Live : Read(XReprT(T(r)), [op |-> "Repr", r |-> r])
DictConcat == More /\ \E k \in DOMAIN ConcatMenu : Read(XQOk(XDictConcatV(ConcatMenu[k])), [op |-> "DictConcat", recs |-> ConcatMenu[k]])
DictConcatRows == More /\ \E r \in Live : Read(XQOk(XDictConcatRowsV(T(r))), [op |-> "DictConcatRows", r |-> r])
Call    == More /\ \E r \in Live : \E k \in DOMAIN CallMenu :
               Alloc(NextReg(r), XCallT(T(r), CallMenu[k]), [op |-> "Call", r |-> r, rd |-> NextReg(r), kws |-> CallMenu[k]])
DoX     == More /\ \E r \in Live : \E k \in DOMAIN DoMenu : LET m == DoMenu[k] IN
               /\ Range(m.cs) \subseteq ColSet(T(r))
               /\ Alloc(NextReg(r), XDoXT(T(r), m.fs, m.cs, m.star), [op |-> "DoX", r |-> r, rd |-> NextReg(r), fs |-> m.fs, cs |-> m.cs, star |-> m.star])
Relabel == More /\ \E r \in Live : \E k \in DOMAIN RelabelMenu :
               Alloc(NextReg(r), XRelabelT(T(r), RelabelMenu[k]), [op |-> "Relabel", r |-> r, rd |-> NextReg(r), form |-> RelabelMenu[k]])
Unpivot == More /\ \E r \in Live : \E k \in DOMAIN UnpivotMenu : LET m == UnpivotMenu[k] IN
               Alloc(NextReg(r), XUnpivotT(T(r), m.xs, m.y, m.z, m.ysel), [op |-> "Unpivot", r |-> r, rd |-> NextReg(r), xs |-> m.xs, y |-> m.y, z |-> m.z, ysel |-> m.ysel])
Xyz     == More /\ \E r \in Live : \E k \in DOMAIN XyzMenu : LET m == XyzMenu[k] IN
               /\ XyzDomain(T(r), m.xs, m.y)
               /\ Alloc(NextReg(r), XyzT(T(r), m.xs, m.y, m.z, m.agg), [op |-> "Xyz", r |-> r, rd |-> NextReg(r), xs |-> m.xs, y |-> m.y, z |-> m.z, agg |-> m.agg])
UpdateFrom == More /\ \E r \in Live, r2 \in Live :
               InPlace(r, XUpdateFromT(T(r), T(r2)), [op |-> "UpdateFrom", r |-> r, r2 |-> r2])
IfNone  == More /\ \E r \in Live : \E k \in DOMAIN IfNoneMenu :
               LET m == IfNoneMenu[k]   res == XIfNoneT(T(r), m.none, m.kws)   rd == NextReg(r) IN
               /\ hist' = Append(hist, [op |-> "IfNone", r |-> r, rd |-> rd, none |-> m.none, kws |-> m.kws])
               /\ out' = IF res.err = "ok" THEN XOutOk ELSE XOutExc(res.err)
               /\ IF res.err # "ok" THEN heap' = [heap EXCEPT ![reg[r]] = res.self] /\ reg' = reg
                  ELSE IF res.alias THEN heap' = [heap EXCEPT ![reg[r]] = res.self] /\ reg' = [reg EXCEPT ![rd] = reg[r]]
                  ELSE heap' = Append([heap EXCEPT ![reg[r]] = res.self], res.res) /\ reg' = [reg EXCEPT ![rd] = Len(heap) + 1]
SetCol  == More /\ \E r \in Live : \E k \in DOMAIN SetMenu :
               LET res == SetColT(T(r), SetMenu[k][1], SetMenu[k][2]) IN
               InPlace(r, IF res.ok THEN res ELSE [ok |-> FALSE, t |-> T(r), err |-> res.err], [op |-> "SetCol", r |-> r, c |-> SetMenu[k][1], arg |-> SetMenu[k][2]])
DelCol  == More /\ \E r \in Live, c \in {"a", "y"} :
               LET res == DelColT(T(r), c) IN
               InPlace(r, IF res.ok THEN res ELSE [ok |-> FALSE, t |-> T(r), err |-> res.err], [op |-> "DelCol", r |-> r, c |-> c])
Copy    == More /\ \E r \in Live : Alloc(NextReg(r), Ok(T(r)), [op |-> "Copy", r |-> r, rd |-> NextReg(r)])

Init == heap = <<>> /\ reg = [r \in Regs |-> 0] /\ out = XOutOk /\ hist = <<>>
Next == NewX \/ Extend \/ Get \/ GetAttr \/ TupleGet \/ Apply \/ IfElse \/ Repr \/ DictConcat \/ DictConcatRows
        \/ Call \/ DoX \/ Relabel \/ Unpivot \/ Xyz \/ UpdateFrom \/ IfNone \/ SetCol \/ DelCol \/ Copy
Bound == Len(hist) <= MaxDepth /\ \A o \in 1..Len(heap) : Len(heap[o].rows) <= MaxRowsC
View == <<heap, reg, out>>

\* ---- properties ------------------------------------------------------------------------------------------
ExcClasses == {"ValueError", "KeyError", "IndexError", "TypeError", "AttributeError"}
TypeOK == /\ \A r \in Regs : reg[r] \in 0..Len(heap)
          /\ out[1] \in {"ok", "exc", "val"}
          /\ out[1] = "exc" => out[2] \in ExcClasses
          /\ out[1] = "ok" => out = XOutOk
AllRectangular == \A o \in 1..Len(heap) : /\ Rectangular(heap[o])
                                          /\ heap[o].cols = <<>> => heap[o].rows = <<>>
                                          /\ Cardinality(Range(heap[o].cols)) = Len(heap[o].cols)
\* frame conditions
ReadOps   == {"Get", "GetAttr", "TupleGet", "Apply", "IfElse", "Repr", "DictConcat", "DictConcatRows"}
InPlaces  == {"UpdateFrom", "IfNone", "SetCol", "DelCol"}
\* a call changes at most one existing object: the target of an in-place call
OnlyTargetChanges == [][\A o \in 1..Len(heap) : heap'[o] # heap[o] => Last(hist').op \in InPlaces /\ o = reg[Last(hist').r]]_vars
\* reads change nothing at all; allocating calls leave every register but their destination alone
ReadsChangeNothing == [][Last(hist').op \in ReadOps => heap' = heap /\ reg' = reg]_vars
OthersKeepTheirObject == [][\A r \in Regs : reg'[r] # reg[r] => (r = Last(hist').rd /\ out' = XOutOk)]_vars
\* a rejected call leaves the state alone, except the two that work column by column in place
RejectedLeavesState == [][(out'[1] = "exc" /\ Last(hist').op \notin {"UpdateFrom", "IfNone"}) => (heap' = heap /\ reg' = reg)]_vars
\* objects are never dropped, a call allocates at most one
HeapGrowsByAtMostOne == [][Len(heap') \in {Len(heap), Len(heap) + 1} /\ (Len(heap') > Len(heap) => reg'[Last(hist').rd] = Len(heap'))]_vars
\* if_none returns its operand exactly when every named column exists (and then nothing is allocated)
IfNoneAlias == [][(Last(hist').op = "IfNone" /\ out' = XOutOk) =>
                     LET h == Last(hist') IN
                     (reg'[h.rd] = reg[h.r]) <=> (XNames(h.kws) \subseteq ColSet(heap[reg[h.r]]))]_vars
\* laws over the live tables
Shallow == Len(hist) <= LawDepth
CallMatchesLaw == Shallow => \A r \in Live : \A k \in DOMAIN CallMenu :
                     LET law == XCallLaw(T(r), CallMenu[k]) IN
                     /\ XCallT(T(r), CallMenu[k]) \in law
                     /\ (\E x \in law : x.ok) => Cardinality(law) = 1                 \* CallConfluent
ReadLengths == Shallow => \A r \in Live : /\ \A k \in DOMAIN GetMenu : Len(Pay(XGetT(T(r), GetMenu[k][1], GetMenu[k][2]).v)) = NR(T(r))
                               /\ \A k \in DOMAIN ApplyMenu : LET q == XApplyT(T(r), ApplyMenu[k].fn, ApplyMenu[k].defs) IN q.ok => Len(Pay(q.v)) = NR(T(r))
RelabelKeepsRows == Shallow => \A r \in Live : \A k \in DOMAIN RelabelMenu :
                     LET u == XRelabelT(T(r), RelabelMenu[k]).t IN
                     /\ NR(u) = NR(T(r))
                     /\ Len(u.cols) <= Len(T(r).cols)
                     /\ \A c \in ColSet(u) : \E c0 \in ColSet(T(r)) : \A i \in 1..NR(u) : u.rows[i][c] = T(r).rows[i][c0]
UnpivotShape == Shallow => \A r \in Live : \A k \in DOMAIN UnpivotMenu : LET m == UnpivotMenu[k]  u == XUnpivotT(T(r), m.xs, m.y, m.z, m.ysel) IN
                     u.ok => NR(u.t) = NR(T(r)) * (IF m.ysel = <<>> THEN Cardinality(ColSet(T(r)) \ Range(m.xs)) ELSE Len(m.ysel))
\* pivoting and un-pivoting again gives back every (x, y, z) of a table whose (x, y) are unique
PivotRoundTrip == Shallow => \A r \in Live :
                     LET t == T(r) IN
                     (XyzDomain(t, <<"x">>, "y") /\ HasCol(t, "z") /\ Len(t.cols) = 3
                        /\ \A i, j \in 1..NR(t) : (t.rows[i].x = t.rows[j].x /\ t.rows[i].y = t.rows[j].y) => i = j)
                     => LET p == XyzT(t, <<"x">>, "y", <<"c", "z">>, "last").t
                            u == XUnpivotT(p, <<"x">>, "y", "z", <<>>).t IN
                        \A i \in 1..NR(t) : \E j \in 1..NR(u) : u.rows[j] = t.rows[i]

\* ---- what a state looks like from outside (the S2C expectation) -----------------------------------------------
Observe(t) == [cols |-> t.cols, rows |-> IF t.cols = <<>> THEN <<>> ELSE t.rows, len |-> NR(t), shape |-> <<NR(t), Len(t.cols)>>]
Snapshot == [hist |-> hist, out |-> out,
             regs |-> [r \in Regs |-> IF reg[r] = 0 THEN [live |-> FALSE] ELSE [live |-> TRUE, obj |-> reg[r], table |-> Observe(T(r))]]]
Emit == PrintT(ToJson(Snapshot))
GenBound == Bound /\ (hist # <<>> => Emit)
SimBound == Bound /\ (Len(hist) = MaxDepth => Emit)
=============================================================================
