CONSTANTS MaxDepth = 3
          MaxRowsC = 8
          LawDepth = 2
INIT Init
NEXT Next
VIEW View
CONSTRAINT Bound
INVARIANT TypeOK
INVARIANT AllRectangular
INVARIANT CallMatchesLaw
INVARIANT ReadLengths
INVARIANT RelabelKeepsRows
INVARIANT UnpivotShape
INVARIANT PivotRoundTrip
PROPERTY OnlyTargetChanges
PROPERTY ReadsChangeNothing
PROPERTY OthersKeepTheirObject
PROPERTY RejectedLeavesState
PROPERTY HeapGrowsByAtMostOne
PROPERTY IfNoneAlias
