CONSTANTS MaxLen = 4
          Mode = "big"
INIT Init
NEXT NextGen
