------------------------------- MODULE MC_FillX -------------------------------
(* Property C12, the corners MC_Fill's universe (NaN masks over position codes, an increasing     *)
(* index, the default arguments of nona) cannot reach.  One behaviour per case, as in MC_Fill;    *)
(* three families of cases, told apart by `fam`:                                                  *)
(*   "cells"   df_fillna on frames whose cells are NaN / a position code / a STRANGE float `sp`   *)
(*             (+-inf, -0.0, 0, the largest double, a subnormal, fractions, negative numbers): sp *)
(*             is an observation like any other - never filled, never rewritten, copied by fills  *)
(*   "labels"  df_fillna on frames whose row labels repeat or are not increasing; the statement   *)
(*             is positional ("consecutive positions", "rows", "leading"), labels play no part.   *)
(*             Methods whose boundary the code looks up BY LABEL (fnna, ffill_na, ffill_0) are    *)
(*             exercised on strictly increasing labels only (assumption IncreasingIndex: there    *)
(*             label order and position coincide; elsewhere the statement's wording is silent).   *)
(*   "nona"    the function nona(x, value = v, edge): every spelling of NaN, the numbers 0 / -0.0 *)
(*             / 7 / +-inf / a value of the data, edge in {None, 1, -1}                            *)
(* The same run is the generator of the S2C replay: Eval prints every case with the outcomes the  *)
(* specification admits (want; wantA = the admitted cell matrices for a numpy array).             *)
EXTENDS Fill, TLC, Json, SequencesExt
CONSTANTS MaxLenX, MaxRowsX,        \* cells / nona: vectors <= MaxLenX, frames <= MaxRowsX x 2
          MaxLenL, MaxRowsL,        \* labels
          MaxListX, MaxListL, LimsX,
          SpecialsX,                \* the strange floats of the "cells" family
          NonaCells,                \* the third cell kind of the "nona" family (beside NaN and position codes)
          LabelKinds, AllSpells, Emit

VARIABLES fam, f, ms, lim, par, done, outs
vars == <<fam, f, ms, lim, par, done, outs>>
NoPar == [v |-> NaN, edge |-> 0, spell |-> "", lab |-> "", sp |-> NaN]

Code(j, i) == 100 * j + i
\* kinds: one function [1..n -> 0..2] per column; 0 = NaN, 1 = position code, 2 = the frame's strange value sp
KFrame(n, kinds, sp) ==
    [rows |-> Idx(n),
     cols |-> [j \in 1..Len(kinds) |-> [i \in 1..n |-> CASE kinds[j][i] = 0 -> NaN [] kinds[j][i] = 1 -> Code(j, i) [] OTHER -> sp]]]
KFrames(sp, L1, R2) ==
    UNION {{KFrame(n, <<k>>, sp) : k \in [1..n -> 0..2]} : n \in 0..L1}
    \cup UNION {{KFrame(n, <<k1, k2>>, sp) : k1 \in [1..n -> 0..2], k2 \in [1..n -> 0..2]} : n \in 0..R2}
HasCell(g, c) == \E j \in 1..NCols(g), i \in 1..NRows(g) : g.cols[j][i] = c

CONSTV  == 7
Methods == {<<"ffill", 0>>, <<"bfill", 0>>, <<"const", CONSTV>>, <<"nona", 0>>, <<"fnna", 0>>,
            <<"ffill_na", 0>>, <<"ffill_0", 0>>}
LabelFree == {<<"ffill", 0>>, <<"bfill", 0>>, <<"const", CONSTV>>, <<"nona", 0>>}
ListsOver(M, L) == UNION {[1..k -> M] : k \in 0..L}

\* row labels by kind (label codes; the driver renders a code as a date / integer / float / string label)
Lab(kind, n) ==
    CASE kind = "dup"   -> [i \in 1..n |-> (i + 1) \div 2]         \* 1 1 2 2 3 ..   repeated, sorted
      [] kind = "same"  -> [i \in 1..n |-> 1]                      \* one label for every row
      [] kind = "rev"   -> [i \in 1..n |-> n + 1 - i]              \* decreasing
      [] kind = "mixed" -> [i \in 1..n |-> ((i - 1) % 2) + 1]      \* 1 2 1 2 ..     repeated, unsorted
      [] kind = "gaps"  -> [i \in 1..n |-> 3 * i - 1]              \* increasing with gaps
Increasing(kind) == kind = "gaps"
BFrames(L1, R2) ==
    UNION {{KFrame(n, <<k>>, 0) : k \in [1..n -> 0..1]} : n \in 1..L1}
    \cup UNION {{KFrame(n, <<k1, k2>>, 0) : k1 \in [1..n -> 0..1], k2 \in [1..n -> 0..1]} : n \in 1..R2}

\* how the caller may spell `value`: every NaN object is a NaN; a number may be a Python int / float or a numpy scalar;
\* "cell" = an element read from the data (its first cell that is the value, if there is one)
NaNSpells == {"default", "np.nan", "float", "math", "np.float64", "np.float32", "negative", "computed", "cell"}
NumSpells(v) == IF v >= 0 THEN {"int", "float", "np.float64", "cell"} ELSE {"float", "np.float64", "cell"}
\* every spelling without an edge; with an edge the default and one explicit spelling (AllSpells: every one)
SpellsAt(v, e) ==
    LET all == IF v = NaN THEN NaNSpells ELSE NumSpells(v) IN
    IF e = 0 \/ AllSpells THEN all ELSE all \cap {"default", "float"}
Twin(c) == CASE c = 0 -> NegZero [] c = NegZero -> 0 [] c = PInf -> NInf [] c = NInf -> PInf [] OTHER -> 0

\* values for the configuration files (negative literals cannot be written there)
SpecialsAll  == Specials \cup {NegInt(3), 0}      \* 0: an observation that is falsy (and what ffill_0 writes)
NonaCellsQ   == {0, PInf, CONSTV}
NonaCellsAll == {0, NegZero, PInf, NInf, CONSTV}

InitCells ==
    /\ fam = "cells"
    /\ \E sp \in SpecialsX : par = [NoPar EXCEPT !.sp = sp] /\ f \in {g \in KFrames(sp, MaxLenX, MaxRowsX) : HasCell(g, sp)}
    /\ ms \in ListsOver(Methods, MaxListX) /\ lim \in LimsX
InitLabels ==
    /\ fam = "labels"
    /\ \E kind \in LabelKinds, g \in BFrames(MaxLenL, MaxRowsL) :
          /\ par = [NoPar EXCEPT !.lab = kind]
          /\ f = [g EXCEPT !.rows = Lab(kind, NRows(g))]
          /\ ms \in (IF Increasing(kind) THEN ListsOver(Methods, MaxListX) ELSE ListsOver(LabelFree, MaxListL))
    /\ lim \in LimsX
InitNona ==
    /\ fam = "nona"
    /\ \E sp \in NonaCells :
          /\ f \in KFrames(sp, MaxLenX, MaxRowsX)
          /\ \E v \in {NaN, sp, Twin(sp), Code(1, 1)}, e \in {0, 1, -1} :
                \E s \in SpellsAt(v, e) : par = [NoPar EXCEPT !.v = v, !.edge = e, !.spell = s, !.sp = sp]
    /\ ms = <<>> /\ lim = 0
Init == (InitCells \/ InitLabels \/ InitNona) /\ done = FALSE /\ outs = {}

Want == IF fam = "nona" THEN NonaValueOutcomes(f, par.v, par.edge) ELSE Fillna(f, ms, lim)
WantA == IF fam = "nona" THEN {g.cols : g \in NonaValueArray(f, par.v, par.edge)} ELSE {g.cols : g \in Want}
Eval ==
    /\ done = FALSE /\ done' = TRUE /\ outs' = Want /\ UNCHANGED <<fam, f, ms, lim, par>>
    /\ Emit => PrintT(ToJson([fam |-> fam, f |-> f, ms |-> ms, lim |-> lim, par |-> par,
                              want |-> SetToSeq(Want), wantA |-> SetToSeq(WantA)]))
Next == Eval

n0 == NRows(f)
Has(name) == \E x \in 1..Len(ms) : ms[x][1] = name
RowSet(g) == {g.rows[k] : k \in 1..NRows(g)}
\* ---------------------------------------------------------------------------------------------
\* "cells": a strange float is an observation like any other
\* ---------------------------------------------------------------------------------------------
Rename(g, a, b) == [rows |-> g.rows, cols |-> [j \in 1..NCols(g) |-> [i \in 1..NRows(g) |-> IF g.cols[j][i] = a THEN b ELSE g.cols[j][i]]]]
FRESH == 999
\* data independence: writing an ordinary number in place of sp commutes with every method list
XValueBlind == (done /\ fam = "cells" /\ par.sp # 0) => Fillna(Rename(f, par.sp, FRESH), ms, lim) = {Rename(g, par.sp, FRESH) : g \in outs}
\* df_fillna never changes a non-NaN cell - whatever float it holds (rows of results are positions here)
XNonNaNKept == (done /\ fam = "cells") => \A g \in outs : \A k \in 1..NRows(g), j \in 1..NCols(f) :
    f.cols[j][g.rows[k]] # NaN => g.cols[j][k] = f.cols[j][g.rows[k]]
\* sp never appears from nowhere: a cell that holds sp in the result held sp or NaN in the input, and in the latter case
\* the nearest valid neighbour on the side the list fills from holds sp
XSpecialFromNeighbour == (done /\ fam = "cells") => \A g \in outs : \A k \in 1..NRows(g), j \in 1..NCols(f) :
    LET r == g.rows[k]  s == f.cols[j] IN
    (g.cols[j][k] = par.sp /\ s[r] = NaN /\ par.sp # 0) =>
        \E p \in 1..n0 : /\ s[p] = par.sp /\ p # r
                         /\ \A q \in 1..n0 : ((p < q /\ q < r) \/ (r < q /\ q < p)) => s[q] = NaN
                         /\ p < r => (Has("ffill") \/ Has("ffill_na") \/ Has("ffill_0"))
                         /\ p > r => Has("bfill")
\* ... and it IS a valid observation: a single unlimited ffill / bfill copies it into the NaN next to it
XSpecialIsObservation == (done /\ fam = "cells" /\ lim = 0) =>
    /\ ms = <<<<"ffill", 0>>>> => \A g \in outs, j \in 1..NCols(f), i \in 2..n0 :
          (f.cols[j][i - 1] = par.sp /\ f.cols[j][i] = NaN) => g.cols[j][i] = par.sp
    /\ ms = <<<<"bfill", 0>>>> => \A g \in outs, j \in 1..NCols(f), i \in 1..(n0 - 1) :
          (f.cols[j][i + 1] = par.sp /\ f.cols[j][i] = NaN) => g.cols[j][i] = par.sp
\* a row that holds sp is not "entirely NaN": nona / fnna keep it
XSpecialRowStays == (done /\ fam = "cells" /\ ms \in {<<<<"nona", 0>>>>, <<<<"fnna", 0>>>>}) =>
    \A g \in outs, i \in 1..n0 : (\E j \in 1..NCols(f) : f.cols[j][i] = par.sp) => i \in RowSet(g)
\* ---------------------------------------------------------------------------------------------
\* "labels": the result on a relabelled frame is the relabelled result
\* ---------------------------------------------------------------------------------------------
XLabelBlind == (done /\ fam = "labels") =>
    outs = {[g EXCEPT !.rows = [k \in 1..NRows(g) |-> f.rows[g.rows[k]]]] : g \in Fillna([f EXCEPT !.rows = Idx(n0)], ms, lim)}
XLabelShape == (done /\ fam = "labels") => \A g \in outs :
    /\ WellFormed(g) /\ NCols(g) = NCols(f) /\ NRows(g) <= n0
    /\ (~Has("nona") /\ ~Has("fnna")) => g.rows = f.rows
\* ---------------------------------------------------------------------------------------------
\* "nona": exactly the rows that are entirely the value go (all of them / the trailing / the leading ones)
\* ---------------------------------------------------------------------------------------------
GoneRow(i) == IF par.v = NaN THEN AllNaN(f, i) ELSE \A j \in 1..NCols(f) : SameNumber(f.cols[j][i], par.v)
Exact(g) ==     \* the rows of g (positions) against GoneRow, stated without DropRows
    LET K == {i \in 1..n0 : ~GoneRow(i)} IN
    RowSet(g) = IF par.edge = 0 \/ K = {} THEN K ELSE IF par.edge = 1 THEN 1..MaxS(K) ELSE MinS(K)..n0
XNonaExact == (done /\ fam = "nona") => Exact(NonaValue(f, par.v, par.edge)) /\ NonaValue(f, par.v, par.edge) \in outs
XNonaCells == (done /\ fam = "nona") => \A g \in outs :
    /\ WellFormed(g) /\ NCols(g) = NCols(f) /\ \A k \in 1..(NRows(g) - 1) : g.rows[k] < g.rows[k + 1]
    /\ \A k \in 1..NRows(g), j \in 1..NCols(f) : g.rows[k] \in 1..n0 /\ g.cols[j][k] = f.cols[j][g.rows[k]]
\* every NaN asks for the same thing as the default argument: the 'nona' of the statement
XNonaNaN == (done /\ fam = "nona" /\ par.v = NaN) => outs = {NonaFn(f, par.edge)}
\* a value that does not occur removes nothing; the twins 0 / -0.0 remove the same rows
XNonaAbsent == (done /\ fam = "nona" /\ par.v # NaN /\ ~IsInfinite(par.v) /\ ~HasCell(f, par.v) /\ ~HasCell(f, Twin(par.v))) => outs = {f}
XNonaZero == (done /\ fam = "nona" /\ par.v \in {0, NegZero}) => outs = {NonaValue(f, Twin(par.v), par.edge)}
\* edge: the three results are nested, and removing again removes nothing more
XNonaEdge == (done /\ fam = "nona") =>
    LET all == NonaValue(f, par.v, 0)  e == NonaValue(f, par.v, par.edge) IN
    /\ RowSet(all) \subseteq RowSet(e) /\ NonaValue(e, par.v, par.edge) = e /\ NonaValue(e, par.v, 0) = all
XFewOutcomes == done => (outs # {} /\ Cardinality(outs) <= 16)
=============================================================================
