------------------------------- MODULE MC_Slice -------------------------------
(* Property C13 on the specification.  One behaviour per case  cs --Eval--> done; the clauses    *)
(* are examined in the done-state (so that TLC's workers share the work).                       *)
(*   kind "date": a series on a subset of NPts index points (the even positions of the grid      *)
(*                1..2*NPts+1), bounds anywhere on the grid (before / on / between / after the   *)
(*                index points) or None, the four bracket pairs;                                 *)
(*   kind "tod" : a series on a subset of NDays x NSlots intraday points, bounds = times of day  *)
(*                on a grid twice as fine, including windows that wrap past midnight;            *)
(*   kind "stitch": k series over p index points with k increasing or decreasing bounds and      *)
(*                n in 1..k, for every <<k, p>> in StitchCfg; action Again continues a stitch    *)
(*                case as a session of calls on the same lists (every invariant holds again).   *)
(* EvalGen prints every case with the outcome the specification expects (S2C).                   *)
EXTENDS Slice, TLC, Json
CONSTANTS NPts, NDays, NSlots, StitchCfg

VARIABLES kind, s, lb, ub, oc, ubs, n, done, res     \* res: the expected result, computed once by Eval
vars == <<kind, s, lb, ub, oc, ubs, n, done, res>>
\* the case as one record (s = the series of a slice case, the list of series of a stitch case)
cs == [kind |-> kind, s |-> s, ss |-> s, lb |-> lb, ub |-> ub, oc |-> oc, ubs |-> ubs, n |-> n]

B   == 100
OCs == {<<"[", "]">>, <<"[", ")">>, <<"(", "]">>, <<"(", ")">>}
SeriesOn(T, code) == LET ts == SetToSortSeq(T, <) IN
    [rows |-> ts, cols |-> <<[i \in 1..Len(ts) |-> code + ts[i]]>>]
TwoCols(T) == LET ts == SetToSortSeq(T, <) IN
    [rows |-> ts, cols |-> <<[i \in 1..Len(ts) |-> ts[i]], [i \in 1..Len(ts) |-> 5000 + ts[i]]>>]

DatePts == {2 * i : i \in 1..NPts}
TodPts  == {d * B + 2 * g : d \in 1..NDays, g \in 1..NSlots}
InitDate == /\ kind = "date" /\ \E T \in SUBSET DatePts : s = TwoCols(T)
            /\ lb \in 0..(2 * NPts + 1) /\ ub \in 0..(2 * NPts + 1) /\ oc \in OCs /\ ubs = <<>> /\ n = 0
InitTod  == /\ kind = "tod" /\ \E T \in SUBSET TodPts : s = TwoCols(T)
            /\ lb \in 0..(2 * NSlots + 1) /\ ub \in 0..(2 * NSlots + 1) /\ oc \in OCs /\ ubs = <<>> /\ n = 0
InitStitch == \E kp \in StitchCfg :
            /\ kind = "stitch" /\ lb = 0 /\ ub = 0 /\ oc = <<"(", "]">>
            /\ \E Ts \in [1..kp[1] -> SUBSET {2 * i : i \in 1..kp[2]}] : s = [i \in 1..kp[1] |-> SeriesOn(Ts[i], 1000 * i)]
            /\ ubs \in {v \in [1..kp[1] -> 1..(2 * kp[2] + 1)] : Increasing(v) \/ Decreasing(v)}
            /\ n \in 1..kp[1]

\* named stitch universes (a cfg file cannot write sets of tuples)
StitchSmall == {<<1, 3>>, <<2, 3>>, <<3, 2>>}
StitchMid   == {<<1, 4>>, <<2, 4>>, <<3, 3>>}
StitchBig   == {<<1, 4>>, <<2, 4>>, <<3, 3>>, <<4, 2>>}
NoStitch    == {}

Init == (InitDate \/ InitTod \/ InitStitch) /\ done = FALSE /\ res = <<>>

IsSlice  == cs.kind \in {"date", "tod"}
IsStitch == cs.kind = "stitch"
Sl(xl, xu, xo) == Slice(s, xl, xu, xo, kind, B)
Out   == res
UbsI  == IF Increasing(cs.ubs) THEN cs.ubs ELSE Rev(cs.ubs)      \* the bounds / series in increasing order
SsI   == IF Increasing(cs.ubs) THEN cs.ss ELSE Rev(cs.ss)
Fr    == res
Eval  == /\ done = FALSE /\ done' = TRUE
         /\ res' = IF IsSlice THEN Sl(lb, ub, oc) ELSE Stitch(s, ubs, n)
         /\ UNCHANGED <<kind, s, lb, ub, oc, ubs, n>>

\* a session: the caller stitches again, with another n, handing over the same two lists
Again == /\ done /\ IsStitch
         /\ \E m \in 1..Len(ubs) : m # n /\ n' = m /\ res' = Stitch(s, ubs, m)
         /\ UNCHANGED <<kind, s, lb, ub, oc, ubs, done>>
Next  == Eval \/ Again
\* no call touches its arguments (so every call of a session means what the caller wrote)
ArgsFrame == [][s' = s /\ ubs' = ubs /\ lb' = lb /\ ub' = ub /\ oc' = oc]_vars

EvalGen == Eval /\ PrintT(ToJson(
    IF IsSlice THEN [kind |-> cs.kind, B |-> B, s |-> cs.s, lb |-> cs.lb, ub |-> cs.ub, oc |-> cs.oc,
                     wraps |-> Wraps(cs.lb, cs.ub, cs.kind), want |-> res']
    ELSE [kind |-> "stitch", ss |-> cs.ss, ubs |-> cs.ubs, n |-> cs.n, ubsI |-> UbsI, want |-> res']))

RowSet(f) == RangeOf(f.rows)
KeyOf(t)  == Key(t, cs.kind, B)

\* ---- one slice -------------------------------------------------------------------------------
\* the result is a sub-series: rows in order, each with the values it had
SliceSub == (done /\ IsSlice) =>
    /\ WellFormed(Out) /\ NCols(Out) = NCols(cs.s)
    /\ \A k \in 1..NRows(Out) : \E i \in 1..NRows(cs.s) :
          cs.s.rows[i] = Out.rows[k] /\ \A j \in 1..NCols(cs.s) : cs.s.cols[j][i] = Out.cols[j][k]
\* a missing bound is unbounded
Unbounded == (done /\ IsSlice /\ cs.lb = 0 /\ cs.ub = 0) => Out = cs.s
OneSided  == (done /\ IsSlice) =>
    /\ cs.ub = 0 /\ cs.lb # 0 => RowSet(Out) = {t \in RowSet(cs.s) : IF Closed(cs.oc[1]) THEN KeyOf(t) >= cs.lb ELSE KeyOf(t) > cs.lb}
    /\ cs.lb = 0 /\ cs.ub # 0 => RowSet(Out) = {t \in RowSet(cs.s) : IF Closed(cs.oc[2]) THEN KeyOf(t) <= cs.ub ELSE KeyOf(t) < cs.ub}
\* two bounds = the intersection of the two one-sided slices, or their union when the window wraps
TwoSided  == (done /\ IsSlice /\ cs.lb # 0 /\ cs.ub # 0) =>
    LET L == RowSet(Sl(cs.lb, 0, cs.oc))  U == RowSet(Sl(0, cs.ub, cs.oc)) IN
    RowSet(Out) = IF cs.kind = "tod" /\ cs.lb > cs.ub THEN L \cup U ELSE L \cap U
\* a closed bracket adds exactly the rows on the bound to what the open bracket gives
Brackets  == (done /\ IsSlice /\ (cs.lb = 0 \/ cs.ub = 0 \/ cs.lb < cs.ub \/ Wraps(cs.lb, cs.ub, cs.kind))) =>
    RowSet(Out) = RowSet(Sl(cs.lb, cs.ub, <<"(", ")">>))
                  \cup (IF Closed(cs.oc[1]) /\ cs.lb # 0 THEN {t \in RowSet(cs.s) : KeyOf(t) = cs.lb} ELSE {})
                  \cup (IF Closed(cs.oc[2]) /\ cs.ub # 0 THEN {t \in RowSet(cs.s) : KeyOf(t) = cs.ub} ELSE {})
\* consecutive "(]" slices partition the series
Partition == (done /\ IsSlice /\ cs.lb # 0 /\ cs.ub # 0 /\ cs.lb <= cs.ub) =>
    LET hc == <<"(", "]">>
        a == RowSet(Sl(0, cs.lb, hc))  b == RowSet(Sl(cs.lb, cs.ub, hc))  c == RowSet(Sl(cs.ub, 0, hc)) IN
    a \cup b \cup c = RowSet(cs.s) /\ a \cap b = {} /\ a \cap c = {} /\ b \cap c = {}
\* a wrapping window is the complement of the window between its end and its start, brackets flipped
WrapComplement == (done /\ IsSlice /\ Wraps(cs.lb, cs.ub, cs.kind)) =>
    LET flipped == <<IF Closed(cs.oc[2]) THEN "(" ELSE "[", IF Closed(cs.oc[1]) THEN ")" ELSE "]">> IN
    RowSet(Out) = RowSet(cs.s) \ RowSet(Sl(cs.ub, cs.lb, flipped))
\* mechanism of today's wrap-around branch: right for the default brackets "(]" ...
WrapMechDefault == (done /\ IsSlice /\ Wraps(cs.lb, cs.ub, cs.kind) /\ cs.oc = <<"(", "]">>) =>
    WrapAsCoded(cs.s, cs.lb, cs.ub, cs.oc, cs.kind, B) = Out
\* ... and wrong for the others (checked with must_fail in MC_Slice_wrapmech.cfg)
WrapMechIsLaw == (done /\ IsSlice /\ Wraps(cs.lb, cs.ub, cs.kind)) =>
    WrapAsCoded(cs.s, cs.lb, cs.ub, cs.oc, cs.kind, B) = Out

\* ---- stitching -------------------------------------------------------------------------------
\* each timestamp at most once, in time order, n columns
StitchOnce == (done /\ IsStitch) => (WellFormed(Fr) /\ NCols(Fr) = cs.n)
\* with one column the result is the concatenation of the "(]" slices between consecutive bounds
StitchN1 == (done /\ IsStitch /\ cs.n = 1) =>
    Fr = ConcatFrames([i \in 1..Len(UbsI) |-> Slice(SsI[i], LoOf(UbsI, i), UbsI[i], <<"(", "]">>, "date", B)], 1)
\* column j, where it has data, is the one-column stitching of series j, j+1, .. at the same bounds
StitchColumn == (done /\ IsStitch) => \A j \in 1..cs.n :
    LET k == Len(UbsI)
        colj == KeepRows([rows |-> Fr.rows, cols |-> <<Fr.cols[j]>>], LAMBDA r : Fr.cols[j][r] # NaN) IN
    colj = StitchInc(SubSeq(SsI, j, k), SubSeq(UbsI, 1, k - j + 1), 1)
\* every row comes from one of the series that may supply it, none is invented or lost
StitchRows == (done /\ IsStitch) =>
    RowSet(Fr) = {t \in UNION {RowSet(SsI[i]) : i \in 1..Len(SsI)} :
                     \E i \in 1..Len(UbsI) : InInterval(t, UbsI, i) /\ \E j \in 0..(cs.n - 1) : i + j <= Len(SsI) /\ HasT(SsI[i + j], t)}
\* decreasing lists are reversed together with the series
StitchReverse == (done /\ IsStitch) => Stitch(Rev(cs.ss), Rev(cs.ubs), cs.n) = Fr
\* unstitching: stitching the recovered series again reproduces the frame; the recovered series
\* are parts of the original ones
RoundTrip == (done /\ IsStitch) => IsUnstitch(Unstitch(Fr, UbsI, cs.n), Fr, UbsI, cs.n)
Recovers  == (done /\ IsStitch) => \A i \in 1..Len(UbsI) :
    LET u == Unstitch(Fr, UbsI, cs.n)[i] IN
    /\ \A r \in 1..NRows(u) : HasT(SsI[i], u.rows[r]) /\ ValAt(SsI[i], u.rows[r]) = u.cols[1][r]
    /\ \A t \in RowSet(SsI[i]) : (\E x \in 1..i : i - x < cs.n /\ InInterval(t, UbsI, x)) => HasT(u, t)
=============================================================================
