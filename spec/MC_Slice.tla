------------------------------- MODULE MC_Slice -------------------------------
(* Property C13 on the specification.  One behaviour per case  cs --Eval--> done; the clauses    *)
(* are examined in the done-state (so that TLC's workers share the work).                       *)
(*   kind "date": a series on a subset of NPts index points (the even positions of the grid      *)
(*                1..2*NPts+1), bounds anywhere on the grid (before / on / between / after the   *)
(*                index points) or None, the four bracket pairs; and series on NDup points that  *)
(*                carry up to MaxMult rows per timestamp (sorted index with repeated stamps);    *)
(*   kind "tod" : a series on a subset of NDays x NSlots intraday points, bounds = times of day  *)
(*                on a grid twice as fine, including windows that wrap past midnight; and series *)
(*                with repeated timestamps on NDupSlots points of day 1 + one of day 2;          *)
(*   kind "ltod": an index in a time zone z of ZoneCfg: day 1 is the day the clocks change       *)
(*                (rows at NZE elapsed slots around the change), day 2 an ordinary day (NZ2);    *)
(*                every row carries its local wall-clock time of day, bounds = times of day;     *)
(*   kind "stitch": k series over p index points with k increasing or decreasing bounds and      *)
(*                n in 1..k, for every <<k, p>> in StitchCfg; action Again continues a stitch    *)
(*                case as a session of calls on the same lists (every invariant holds again);    *)
(*                for <<k, p>> in StitchNaNCfg the series also record a missing value (NaN) at    *)
(*                one of the index points: a row is a row whatever its value;                    *)
(*   kind "stitchdup": one-column stitching of series with repeated timestamps (StitchDupCfg).   *)
(* EvalGen prints every case with the outcome the specification expects (S2C).                   *)
EXTENDS Slice, TLC, Json
CONSTANTS NPts, NDays, NSlots, StitchCfg, NDup, MaxMult, NDupSlots, ZoneCfg, NZE, NZ2, StitchDupCfg, StitchNaNCfg

VARIABLES kind, s, lb, ub, oc, ubs, n, done, res, z     \* res: the expected result, computed once by Eval
vars == <<kind, s, lb, ub, oc, ubs, n, done, res, z>>
\* the case as one record (s = the series of a slice case, the list of series of a stitch case)
cs == [kind |-> kind, s |-> s, ss |-> s, lb |-> lb, ub |-> ub, oc |-> oc, ubs |-> ubs, n |-> n]

B   == 100
OCs == {<<"[", "]">>, <<"[", ")">>, <<"(", "]">>, <<"(", ")">>}
NoZone == [kind |-> "n", G |-> 0, H |-> 0]
SeriesOn(T, code) == LET ts == SetToSortSeq(T, <) IN
    [rows |-> ts, cols |-> <<[i \in 1..Len(ts) |-> code + ts[i]]>>]
SeriesOnNaN(T, code, np) == LET ts == SetToSortSeq(T, <) IN
    [rows |-> ts, cols |-> <<[i \in 1..Len(ts) |-> IF ts[i] = np THEN NaN ELSE code + ts[i]]>>]
TwoCols(T) == LET ts == SetToSortSeq(T, <) IN
    [rows |-> ts, cols |-> <<[i \in 1..Len(ts) |-> ts[i]], [i \in 1..Len(ts) |-> 5000 + ts[i]]>>]
\* a sorted index in which point p occurs m[p] times; the cells are position codes, so that it shows
\* WHICH of the rows with equal timestamps came back
RECURSIVE Repeat(_, _)
Repeat(ts, m) == IF ts = <<>> THEN <<>> ELSE [k \in 1..m[Head(ts)] |-> Head(ts)] \o Repeat(Tail(ts), m)
DupRows(m) == Repeat(SetToSortSeq(DOMAIN m, <), m)
DupCols(m, code) == LET ts == DupRows(m) IN
    [rows |-> ts, cols |-> <<[i \in 1..Len(ts) |-> code + i], [i \in 1..Len(ts) |-> 5000 + code + i]>>]
DupOne(m, code)  == LET ts == DupRows(m) IN [rows |-> ts, cols |-> <<[i \in 1..Len(ts) |-> code + i]>>]
Mults(P) == {m \in [P -> 0..MaxMult] : \E p \in P : m[p] >= 2}

DatePts == {2 * i : i \in 1..NPts}
TodPts  == {d * B + 2 * g : d \in 1..NDays, g \in 1..NSlots}
InitDate == /\ kind = "date" /\ \E T \in SUBSET DatePts : s = TwoCols(T)
            /\ lb \in 0..(2 * NPts + 1) /\ ub \in 0..(2 * NPts + 1) /\ oc \in OCs /\ ubs = <<>> /\ n = 0 /\ z = NoZone
InitTod  == /\ kind = "tod" /\ \E T \in SUBSET TodPts : s = TwoCols(T)
            /\ lb \in 0..(2 * NSlots + 1) /\ ub \in 0..(2 * NSlots + 1) /\ oc \in OCs /\ ubs = <<>> /\ n = 0 /\ z = NoZone
InitDateDup == /\ kind = "date" /\ \E m \in Mults({2 * i : i \in 1..NDup}) : s = DupCols(m, 100)
            /\ lb \in 0..(2 * NDup + 1) /\ ub \in 0..(2 * NDup + 1) /\ oc \in OCs /\ ubs = <<>> /\ n = 0 /\ z = NoZone
InitTodDup  == /\ kind = "tod" /\ \E m \in Mults({B + 2 * g : g \in 1..NDupSlots} \cup {2 * B + 2}) : s = DupCols(m, 100)
            /\ lb \in 0..(2 * NDupSlots + 1) /\ ub \in 0..(2 * NDupSlots + 1) /\ oc \in OCs /\ ubs = <<>> /\ n = 0 /\ z = NoZone
\* an index in a time zone: the instants, and next to them the wall-clock time of day of every row
ZLo(zz) == IF zz.G > 2 THEN zz.G - 2 ELSE 1                 \* the first slot looked at: two before the change
ZonePts(zz) == {B + e : e \in ZLo(zz)..(ZLo(zz) + NZE - 1)} \cup {2 * B + e : e \in (ZLo(zz) + 1)..(ZLo(zz) + NZ2)}
ZoneTop(zz) == ZLo(zz) + NZE + zz.H                            \* bounds up to one slot past the latest wall-clock reading
ZoneFrame(T, zz) == LET f == TwoCols(T) IN
    [rows |-> f.rows, cols |-> f.cols,
     tod  |-> [i \in 1..Len(f.rows) |-> IF f.rows[i] \div B = 1 THEN LocalTod(zz, f.rows[i] % B) ELSE f.rows[i] % B]]
InitZone == /\ kind = "ltod" /\ z \in ZoneCfg /\ \E T \in SUBSET ZonePts(z) : s = ZoneFrame(T, z)
            /\ lb \in 0..ZoneTop(z) /\ ub \in 0..ZoneTop(z) /\ oc \in OCs /\ ubs = <<>> /\ n = 0
InitStitch == \E kp \in StitchCfg :
            /\ kind = "stitch" /\ lb = 0 /\ ub = 0 /\ oc = <<"(", "]">> /\ z = NoZone
            /\ \E Ts \in [1..kp[1] -> SUBSET {2 * i : i \in 1..kp[2]}] : s = [i \in 1..kp[1] |-> SeriesOn(Ts[i], 1000 * i)]
            /\ ubs \in {v \in [1..kp[1] -> 1..(2 * kp[2] + 1)] : Increasing(v) \/ Decreasing(v)}
            /\ n \in 1..kp[1]
InitStitchNaN == \E kp \in StitchNaNCfg :
            /\ kind = "stitch" /\ lb = 0 /\ ub = 0 /\ oc = <<"(", "]">> /\ z = NoZone
            /\ \E Ts \in [1..kp[1] -> SUBSET {2 * i : i \in 1..kp[2]}], np \in {2 * i : i \in 1..kp[2]} :
                  /\ \E i \in 1..kp[1] : np \in Ts[i]
                  /\ s = [i \in 1..kp[1] |-> SeriesOnNaN(Ts[i], 1000 * i, np)]
            /\ ubs \in {v \in [1..kp[1] -> 1..(2 * kp[2] + 1)] : Increasing(v) \/ Decreasing(v)}
            /\ n \in 1..kp[1]
InitStitchDup == \E kp \in StitchDupCfg :
            /\ kind = "stitchdup" /\ lb = 0 /\ ub = 0 /\ oc = <<"(", "]">> /\ z = NoZone /\ n = 1
            /\ \E ms \in [1..kp[1] -> [{2 * i : i \in 1..kp[2]} -> 0..2]] :
                  /\ \E i \in 1..kp[1] : \E p \in DOMAIN ms[i] : ms[i][p] >= 2
                  /\ s = [i \in 1..kp[1] |-> DupOne(ms[i], 1000 * i)]
            /\ ubs \in {v \in [1..kp[1] -> 1..(2 * kp[2] + 1)] : Increasing(v) \/ Decreasing(v)}

\* named universes (a cfg file cannot write sets of tuples / records)
StitchSmall == {<<1, 3>>, <<2, 3>>, <<3, 2>>}
StitchMid   == {<<1, 4>>, <<2, 4>>, <<3, 3>>}
StitchBig   == {<<1, 4>>, <<2, 4>>, <<3, 3>>, <<4, 2>>}
NoStitch    == {}
NaNStitchSmall == {<<2, 2>>}
NaNStitchBig   == {<<2, 2>>, <<3, 2>>, <<2, 3>>}
DupStitchSmall == {<<2, 2>>}
DupStitchBig   == {<<1, 3>>, <<2, 2>>, <<3, 2>>}
\* zones, in slots of the grid: H = 1 (a slot is the size of the clock change), the clocks go forward when
\* 1 / 2 slots have elapsed (Europe/London, America/New_York with one-hour slots) and back when 2 / 3 have
\* (Europe/London, Australia/Sydney); H = 2 (a slot is half the change): forward after 2 / 4, back after 4 / 6
ZonesQuick == {[kind |-> "s", G |-> 2, H |-> 1], [kind |-> "f", G |-> 3, H |-> 1]}
ZonesBig   == {[kind |-> "s", G |-> 2, H |-> 1], [kind |-> "s", G |-> 3, H |-> 1],
               [kind |-> "f", G |-> 3, H |-> 1], [kind |-> "f", G |-> 4, H |-> 1],
               [kind |-> "s", G |-> 3, H |-> 2], [kind |-> "f", G |-> 5, H |-> 2],
               [kind |-> "s", G |-> 5, H |-> 1], [kind |-> "f", G |-> 5, H |-> 1]}      \* the last two: half-hour change (Lord Howe)
NoZones    == {}

Init == (InitDate \/ InitTod \/ InitDateDup \/ InitTodDup \/ InitZone \/ InitStitch \/ InitStitchNaN \/ InitStitchDup) /\ done = FALSE /\ res = <<>>

IsSlice  == cs.kind \in {"date", "tod", "ltod"}
IsStitch == cs.kind = "stitch"
IsStitchDup == cs.kind = "stitchdup"
NaNFree  == \A i \in 1..Len(cs.ss) : ~(NaN \in RangeOf(cs.ss[i].cols[1]))      \* no series records a missing value
Sl(xl, xu, xo) == Slice(s, xl, xu, xo, kind, B)
Out   == res
UbsI  == IF Increasing(cs.ubs) THEN cs.ubs ELSE Rev(cs.ubs)      \* the bounds / series in increasing order
SsI   == IF Increasing(cs.ubs) THEN cs.ss ELSE Rev(cs.ss)
Fr    == res
\* one column: the concatenation of the "(]" slices between consecutive bounds
Stitch1(ss, ubsI) == ConcatFrames([i \in 1..Len(ubsI) |-> Slice(ss[i], LoOf(ubsI, i), ubsI[i], <<"(", "]">>, "date", B)], 1)
Eval  == /\ done = FALSE /\ done' = TRUE
         /\ res' = IF IsSlice THEN Sl(lb, ub, oc) ELSE IF IsStitchDup THEN Stitch1(SsI, UbsI) ELSE Stitch(s, ubs, n)
         /\ UNCHANGED <<kind, s, lb, ub, oc, ubs, n, z>>

\* a session: the caller stitches again, with another n, handing over the same two lists
Again == /\ done /\ IsStitch
         /\ \E m \in 1..Len(ubs) : m # n /\ n' = m /\ res' = Stitch(s, ubs, m)
         /\ UNCHANGED <<kind, s, lb, ub, oc, ubs, done, z>>
Next  == Eval \/ Again
\* no call touches its arguments (so every call of a session means what the caller wrote)
ArgsFrame == [][s' = s /\ ubs' = ubs /\ lb' = lb /\ ub' = ub /\ oc' = oc]_vars

\* mechanism models that this case tells apart from the law (the driver insists that each is told apart somewhere)
Tells(r) == (IF cs.kind = "ltod" /\ SliceElapsed(cs.s, cs.lb, cs.ub, cs.oc, B) # r THEN <<"elapsed">> ELSE <<>>)
         \o (IF cs.kind = "date" /\ SliceTrimOne(cs.s, cs.lb, cs.ub, cs.oc) # r THEN <<"trimone">> ELSE <<>>)
EvalGen == Eval /\ PrintT(ToJson(
    IF cs.kind = "ltod" THEN [kind |-> cs.kind, B |-> B, s |-> cs.s, lb |-> cs.lb, ub |-> cs.ub, oc |-> cs.oc, z |-> z,
                              wraps |-> Wraps(cs.lb, cs.ub, cs.kind), want |-> res', tells |-> Tells(res')]
    ELSE IF IsSlice THEN [kind |-> cs.kind, B |-> B, s |-> cs.s, lb |-> cs.lb, ub |-> cs.ub, oc |-> cs.oc,
                     wraps |-> Wraps(cs.lb, cs.ub, cs.kind), want |-> res', tells |-> Tells(res')]
    ELSE IF IsStitchDup THEN [kind |-> "stitchdup", ss |-> cs.ss, ubs |-> cs.ubs, n |-> 1]
    ELSE [kind |-> "stitch", ss |-> cs.ss, ubs |-> cs.ubs, n |-> cs.n, ubsI |-> UbsI, want |-> res']))

\* the rows of the series by position; the first column identifies the row (all its cells are different)
AllIx     == 1..NRows(cs.s)
KeyI(i)   == KeyAt(cs.s, i, cs.kind, B)
IxOf(f)   == {i \in AllIx : \E k \in 1..NRows(f) : f.cols[1][k] = cs.s.cols[1][i]}
OutIx     == IxOf(Out)
RowSet(f) == RangeOf(f.rows)

\* ---- one slice -------------------------------------------------------------------------------
\* the result is a sub-series: the kept rows in order, each once, each with the values it had
SliceSub == (done /\ IsSlice) =>
    LET O == OutIx IN
    /\ SortedFrame(Out) /\ NCols(Out) = NCols(cs.s)
    /\ Out = KeepRows(cs.s, LAMBDA i : i \in O)
\* a missing bound is unbounded
Unbounded == (done /\ IsSlice /\ cs.lb = 0 /\ cs.ub = 0) => Out = KeepRows(cs.s, LAMBDA i : TRUE)
OneSided  == (done /\ IsSlice) =>
    /\ cs.ub = 0 /\ cs.lb # 0 => OutIx = {i \in AllIx : IF Closed(cs.oc[1]) THEN KeyI(i) >= cs.lb ELSE KeyI(i) > cs.lb}
    /\ cs.lb = 0 /\ cs.ub # 0 => OutIx = {i \in AllIx : IF Closed(cs.oc[2]) THEN KeyI(i) <= cs.ub ELSE KeyI(i) < cs.ub}
\* two bounds = the intersection of the two one-sided slices, or their union when the window wraps
TwoSided  == (done /\ IsSlice /\ cs.lb # 0 /\ cs.ub # 0) =>
    LET L == IxOf(Sl(cs.lb, 0, cs.oc))  U == IxOf(Sl(0, cs.ub, cs.oc)) IN
    OutIx = IF TodMode(cs.kind) /\ cs.lb > cs.ub THEN L \cup U ELSE L \cap U
\* a closed bracket adds exactly the rows on the bound to what the open bracket gives
Brackets  == (done /\ IsSlice /\ (cs.lb = 0 \/ cs.ub = 0 \/ cs.lb < cs.ub \/ Wraps(cs.lb, cs.ub, cs.kind))) =>
    OutIx = IxOf(Sl(cs.lb, cs.ub, <<"(", ")">>))
                  \cup (IF Closed(cs.oc[1]) /\ cs.lb # 0 THEN {i \in AllIx : KeyI(i) = cs.lb} ELSE {})
                  \cup (IF Closed(cs.oc[2]) /\ cs.ub # 0 THEN {i \in AllIx : KeyI(i) = cs.ub} ELSE {})
\* consecutive "(]" slices partition the series
Partition == (done /\ IsSlice /\ cs.lb # 0 /\ cs.ub # 0 /\ cs.lb <= cs.ub) =>
    LET hc == <<"(", "]">>
        a == IxOf(Sl(0, cs.lb, hc))  b == IxOf(Sl(cs.lb, cs.ub, hc))  c == IxOf(Sl(cs.ub, 0, hc)) IN
    a \cup b \cup c = AllIx /\ a \cap b = {} /\ a \cap c = {} /\ b \cap c = {}
\* a wrapping window is the complement of the window between its end and its start, brackets flipped
WrapComplement == (done /\ IsSlice /\ Wraps(cs.lb, cs.ub, cs.kind)) =>
    LET flipped == <<IF Closed(cs.oc[2]) THEN "(" ELSE "[", IF Closed(cs.oc[1]) THEN ")" ELSE "]">> IN
    OutIx = AllIx \ IxOf(Sl(cs.ub, cs.lb, flipped))
\* rows with equal timestamps are all inside or all outside; so are rows with the same time of day on
\* different days, or on the two sides of a clock change, when the bounds are times of day
DupTogether == (done /\ IsSlice) => LET O == OutIx IN \A i, j \in AllIx : cs.s.rows[i] = cs.s.rows[j] => (i \in O <=> j \in O)
SameTodTogether == (done /\ IsSlice /\ TodMode(cs.kind)) => LET O == OutIx IN \A i, j \in AllIx : KeyI(i) = KeyI(j) => (i \in O <=> j \in O)
\* only the wall clock matters: an index in a time zone is cut like the naive index that shows the same wall-clock times
LocalClock == (done /\ cs.kind = "ltod") =>
    OutIx = {i \in AllIx : InSlice(B * (cs.s.rows[i] \div B) + cs.s.tod[i], cs.lb, cs.ub, cs.oc, "tod", B)}
\* mechanism of today's wrap-around branch: right for the default brackets "(]" ...
WrapMechDefault == (done /\ cs.kind = "tod" /\ Wraps(cs.lb, cs.ub, cs.kind) /\ cs.oc = <<"(", "]">>) =>
    WrapAsCoded(cs.s, cs.lb, cs.ub, cs.oc, cs.kind, B) = Out
\* ... and wrong for the others (checked with must_fail in MC_Slice_wrapmech.cfg)
WrapMechIsLaw == (done /\ cs.kind = "tod" /\ Wraps(cs.lb, cs.ub, cs.kind)) =>
    WrapAsCoded(cs.s, cs.lb, cs.ub, cs.oc, cs.kind, B) = Out
\* the two re-implementations agree with the law away from their blind spots: elapsed time = time of day
\* on ordinary days, and taking one row off is enough while timestamps are not repeated
ElapsedOrdinary == (done /\ cs.kind = "ltod" /\ \A i \in AllIx : cs.s.rows[i] \div B # 1) =>
    SliceElapsed(cs.s, cs.lb, cs.ub, cs.oc, B) = Out
TrimOneUnique == (done /\ cs.kind = "date" /\ ~HasDupRows(cs.s)) => SliceTrimOne(cs.s, cs.lb, cs.ub, cs.oc) = Out

\* ---- stitching -------------------------------------------------------------------------------
\* each timestamp at most once, in time order, n columns
StitchOnce == (done /\ IsStitch) => (WellFormed(Fr) /\ NCols(Fr) = cs.n)
\* with one column the result is the concatenation of the "(]" slices between consecutive bounds
StitchN1 == (done /\ IsStitch /\ cs.n = 1) => Fr = Stitch1(SsI, UbsI)
\* column j, where it has data, is the one-column stitching of series j, j+1, .. at the same bounds
StitchColumn == (done /\ IsStitch /\ NaNFree) => \A j \in 1..cs.n :
    LET k == Len(UbsI)
        colj == KeepRows([rows |-> Fr.rows, cols |-> <<Fr.cols[j]>>], LAMBDA r : Fr.cols[j][r] # NaN) IN
    colj = StitchInc(SubSeq(SsI, j, k), SubSeq(UbsI, 1, k - j + 1), 1)
\* every row comes from one of the series that may supply it, none is invented or lost
StitchRows == (done /\ IsStitch) =>
    RowSet(Fr) = {t \in UNION {RowSet(SsI[i]) : i \in 1..Len(SsI)} :
                     \E i \in 1..Len(UbsI) : InInterval(t, UbsI, i) /\ \E j \in 0..(cs.n - 1) : i + j <= Len(SsI) /\ HasT(SsI[i + j], t)}
\* decreasing lists are reversed together with the series
StitchReverse == (done /\ IsStitch) => Stitch(Rev(cs.ss), Rev(cs.ubs), cs.n) = Fr
\* unstitching: stitching the recovered series again reproduces the frame; the recovered series
\* are parts of the original ones
RoundTrip == (done /\ IsStitch /\ NaNFree) => IsUnstitch(Unstitch(Fr, UbsI, cs.n), Fr, UbsI, cs.n)
Recovers  == (done /\ IsStitch /\ NaNFree) => \A i \in 1..Len(UbsI) :
    LET u == Unstitch(Fr, UbsI, cs.n)[i] IN
    /\ \A r \in 1..NRows(u) : HasT(SsI[i], u.rows[r]) /\ ValAt(SsI[i], u.rows[r]) = u.cols[1][r]
    /\ \A t \in RowSet(SsI[i]) : (\E x \in 1..i : i - x < cs.n /\ InInterval(t, UbsI, x)) => HasT(u, t)
\* a row is a row whatever its value: which timestamps are shown does not depend on the values recorded, and a
\* recorded NaN is shown as NaN where the value would have been
StitchValueBlind == (done /\ IsStitch) =>
    LET Fill(x) == [rows |-> x.rows, cols |-> <<[r \in 1..NRows(x) |-> IF x.cols[1][r] = NaN THEN 7 ELSE x.cols[1][r]]>>]
        G == Stitch([i \in 1..Len(cs.ss) |-> Fill(cs.ss[i])], cs.ubs, cs.n)
    IN  /\ Fr.rows = G.rows
        /\ \A j \in 1..cs.n : \A r \in 1..NRows(Fr) : Fr.cols[j][r] = (IF G.cols[j][r] = 7 THEN NaN ELSE G.cols[j][r])
\* repeated timestamps: the concatenation of the slices is one of the admitted results, and so is the one that
\* shows every timestamp once; a result that keeps a row of the wrong series on a bound is not
StitchDupLaw == (done /\ IsStitchDup) =>
    /\ StitchDupOK(SsI, UbsI, Fr)
    /\ StitchDupOK(SsI, UbsI, KeepRows(Fr, LAMBDA r : r = 1 \/ Fr.rows[r] # Fr.rows[r - 1]))
StitchDupStrict == (done /\ IsStitchDup /\ Len(UbsI) >= 2) =>
    LET lo == UbsI[1]
        intruder == [rows |-> <<lo>>, cols |-> <<<<1>>>>]          \* a row on the first bound that series 1 does not have
    IN  ~StitchDupOK(SsI, UbsI, ConcatFrames(<<KeepRows(Fr, LAMBDA r : Fr.rows[r] <= lo), intruder, KeepRows(Fr, LAMBDA r : Fr.rows[r] > lo)>>, 1))
=============================================================================
