CONSTANTS MaxDepth = 5
          MaxRowsC = 12
INIT Init
NEXT NextSharedAll
CONSTRAINT SharedBound
