INIT Init
NEXT Next
