------------------------------ MODULE MC_SyncSess ------------------------------
(* Property C03 over SESSIONS (SyncSess.tla): the caller's heap (timeseries objects, a container   *)
(* that refers to them - possibly to one object several times -, the fill-method object spelled     *)
(* as None / str / list / tuple) as a state machine:                                               *)
(*   Call(api, how, cols)   one public call on (container, policy, method object): leaves the heap  *)
(*                          as it is; its outcome is the law of SyncLaw.tla on the heap of NOW       *)
(*   Edit(..)               the caller's in-place edits between calls (re-date / append / drop /     *)
(*                          overwrite a cell of an operand, change or clear its method list, put     *)
(*                          another object into its container, edit the result of the latest call)   *)
(* MC  : the invariants below on every reachable state (the law has no memory and is blind to the    *)
(*       realisation - which objects share an Index object, which object sits in two places).        *)
(* S2C : every session of Depth steps that ends with a call is printed (initial heap with the        *)
(*       realisation `share`, the steps, the heap the law expects at the end); the driver builds the  *)
(*       heap ONCE, replays the steps on these very objects, records outcome and heap after every    *)
(*       step, and Trace_Sync judges the record (api = "session").                                  *)
(* Families (constant Family) keep the enumeration directed:                                       *)
(*   "args"   three series, list / dict / nested container, the method object in all spellings,      *)
(*            two calls sharing every argument object                                               *)
(*   "share"  S1, S2 and S1x = "S1 * 2" ON S1's INDEX OBJECT; containers over all orders / repeats   *)
(*            of the slots (same object twice, >= 3 inputs, 4 inputs); every api x join policy        *)
(*   "frames" F1, F2, F1x sharing index and columns objects; row policy x column policy              *)
(*   "edit"   call ; in-place edit ; the same / a colliding call                                     *)
(*   "mix"    everything (simulation of longer sessions in the thorough tier)                        *)
EXTENDS SyncSess, TLC, Json
CONSTANTS Family, Depth
VARIABLES heap0,    \* the initial heap and its realisation: [ops, share, cont, meth]
          heap,     \* the heap now, as the law has it: [ops, cont, meth]
          hist      \* the steps so far
vars == <<heap0, heap, hist>>

\* ---- universes ---------------------------------------------------------------------------------
S1  == MkS({1, 2, 3}, LAMBDA x : IF x = 2 THEN NaNC ELSE VFlt(10 + x, 1))
S2  == MkS({2, 3, 4}, LAMBDA x : IF x = 3 THEN NaNC ELSE VFlt(20 + x, 1))
S3  == MkS({3, 4, 5}, LAMBDA x : IF x = 4 THEN NaNC ELSE VFlt(30 + x, 1))
S1x == MkS({1, 2, 3}, LAMBDA x : IF x = 2 THEN NaNC ELSE VFlt(2 * (10 + x), 1))         \* "S1 * 2"
ColN(c) == CHOOSE j \in 1..Len(ColU) : ColU[j] = c
F1  == MkF({1, 2, 3}, {"a", "b", "c"}, LAMBDA c, x : IF x = 2 /\ c = "b" THEN NaNC ELSE VFlt(100 + 10 * ColN(c) + x, 1))
F2  == MkF({2, 3, 4}, {"b", "c", "d"}, LAMBDA c, x : VFlt(200 + 10 * ColN(c) + x, 1))
F1x == MkF({1, 2, 3}, {"a", "b", "c"}, LAMBDA c, x : IF x = 2 /\ c = "b" THEN NaNC ELSE VFlt(2 * (100 + 10 * ColN(c) + x), 1))

\* <<ops, share>>
Heaps == CASE Family = "args"   -> {<<<<S1, S2, S3>>, <<1, 2, 3>>>>}
           [] Family = "share"  -> {<<<<S1, S2, S1x>>, <<1, 2, 1>>>>}
           [] Family = "frames" -> {<<<<F1, F2, F1x>>, <<1, 2, 1>>>>}
           [] Family = "edit"   -> {<<<<S1, S2, S3>>, <<1, 2, 3>>>>, <<<<S1, S2, S1x>>, <<1, 2, 1>>>>}
           [] Family = "mix"    -> {<<<<S1, S2, S3>>, <<1, 2, 3>>>>, <<<<S1, S2, S1x>>, <<1, 2, 1>>>>, <<<<S1, S2, S1x>>, <<1, 2, 3>>>>,
                                    <<<<F1, F2, F1x>>, <<1, 2, 1>>>>, <<<<F1, S2, F2>>, <<1, 2, 3>>>>}
\* the places of the container, as slot numbers (0 = a member that is no timeseries)
Orders == CASE Family = "args"   -> {<<1, 2, 3>>}
            [] Family = "share"  -> {<<1, 2, 3>>, <<3, 2, 1>>, <<1, 3, 2>>, <<2, 1, 3>>, <<1, 2, 1>>, <<1, 1, 2>>, <<2, 1, 1>>,
                                     <<1, 2, 3, 2>>, <<2, 1, 2, 3>>, <<1, 0, 2, 3>>}
            [] Family = "frames" -> {<<1, 2, 3>>, <<3, 2, 1>>, <<1, 2, 1>>, <<2, 1, 1>>, <<1, 2, 3, 2>>}
            [] Family = "edit"   -> {<<1, 2, 3>>, <<1, 2, 1>>}
            [] Family = "mix"    -> {<<1, 2, 3>>, <<3, 2, 1>>, <<1, 2, 1>>, <<2, 1, 1>>, <<1, 0, 2, 3>>, <<1, 2, 3, 2>>, <<3, 1>>}
Place(n) == IF n = 0 THEN [k |-> "x", id |-> 1] ELSE Ref(n)
Keys == <<"y", "x", "z", "u">>          \* insertion order, not sorted; all of them parameter names of the recorder
Shapes == IF Family \in {"args", "mix"} THEN {"l", "d", "n"} ELSE {"l", "d"}
Cont(sh, ord) ==
    LET items == [i \in 1..Len(ord) |-> Place(ord[i])] IN
    CASE sh = "l" -> [k |-> "l", items |-> items]
      [] sh = "d" -> [k |-> "d", cls |-> "dict", keys |-> SubSeq(Keys, 1, Len(ord)), items |-> items]
      \* nested: the first member, then a list of the others, in a dict
      [] sh = "n" -> [k |-> "d", cls |-> "dict", keys |-> <<"y", "x">>, items |-> <<items[1], [k |-> "l", items |-> Tail(items)]>>]
Meths == CASE Family = "args" -> {NoMeth, MethStr("ffill"), MethList(<<"ffill">>), MethTuple(<<"ffill">>), MethList(<<"bfill">>), MethTuple(<<"bfill">>)}
           [] Family = "mix"  -> {NoMeth, MethStr("bfill"), MethList(<<"ffill">>), MethTuple(<<"ffill">>), MethList(<<"bfill">>)}
           [] OTHER           -> {NoMeth, MethList(<<"ffill">>)}

Hows == {"ij", "oj", "lj", "rj"}
Pol(h) == IF h = "ex1" THEN [how |-> "ex", t |-> <<>>, slot |-> 1]         \* the explicit index = the caller's object of slot 1
          ELSE IF h = "ex3" THEN [how |-> "ex", t |-> <<>>, slot |-> 3] ELSE [how |-> h, t |-> <<>>]
HowsX == Hows \cup {"ex1", "ex3"}
CallStep(api, how, cols) == [op |-> "call", api |-> api, pol |-> Pol(how), cols |-> ColPol(cols)]
HasFrames == \E i \in 1..Len(heap.ops) : IsF(heap.ops[i])
\* the calls of the family (frames: the column policy matters and df_sync / presync take it)
Calls == CASE Family = "args"   -> {CallStep(a, "oj", "ij") : a \in {"sync", "reindex", "presync"}} \cup {CallStep("sync", "rj", "ij")}
           [] Family = "frames" -> {CallStep(a, h, c) : a \in {"sync", "presync"}, h \in {"ij", "rj"}, c \in Hows}
           [] Family = "mix"    -> IF HasFrames THEN {CallStep(a, h, c) : a \in {"sync", "presync"}, h \in {"oj", "rj"}, c \in {"ij", "rj", "lj"}}
                                                    \cup {CallStep("reindex", h, "ij") : h \in Hows}
                                   ELSE {CallStep(a, h, "ij") : a \in {"sync", "reindex", "presync", "index"}, h \in HowsX}
           [] OTHER             -> {CallStep(a, h, "ij") : a \in {"sync", "reindex", "presync", "index"}, h \in (IF Family = "edit" THEN Hows \cup {"ex1"} ELSE HowsX)}
\* (df_index takes no method: only in sessions without one, so that a session is not printed twice)
CallOk(st) == st.api = "index" => (heap.meth = NoMeth \/ Family \in {"edit", "mix"})
\* a call that collides with an earlier one on whatever a memo could be keyed on: the same call again, the same policy
\* through another entry point, the same entry point under the mirrored policy
NextApi(a) == CASE a = "sync" -> "presync" [] a = "presync" -> "reindex" [] a = "reindex" -> "index" [] a = "index" -> "sync"
Mirror(h) == CASE h = "ij" -> "oj" [] h = "oj" -> "ij" [] h = "lj" -> "rj" [] h = "rj" -> "lj" [] h = "ex" -> "oj"
Colliding(c) == {c, [c EXCEPT !.api = NextApi(c.api)], [c EXCEPT !.pol = Pol(Mirror(c.pol.how))]}
LastCall == LET cs == SelectSeq(hist, IsCall) IN cs[Len(cs)]

Edits == {[op |-> "redate", slot |-> s] : s \in {1, 3}}
         \cup {[op |-> "append", slot |-> 1, x |-> 7], [op |-> "drop", slot |-> 2, p |-> 2], [op |-> "drop", slot |-> 3, p |-> 1],
               [op |-> "setcell", slot |-> 1, p |-> 1], [op |-> "methset", v |-> "bfill"], [op |-> "methclear"],
               [op |-> "contset", p |-> 3, n |-> 1], [op |-> "contset", p |-> 1, n |-> 2], [op |-> "resedit"]}
\* the result of a call can be edited only once there is one (df_sync / df_reindex return the collection)
EditOk(st) == st.op = "resedit" => (hist # <<>> /\ IsCall(hist[Len(hist)]) /\ hist[Len(hist)].api \in {"sync", "reindex"})

Init == \E hp \in Heaps, sh \in Shapes, ord \in Orders, mo \in Meths :
            /\ heap0 = [ops |-> hp[1], share |-> hp[2], cont |-> Cont(sh, ord), meth |-> mo]
            /\ heap = [ops |-> hp[1], cont |-> Cont(sh, ord), meth |-> mo]
            /\ hist = <<>>
Do(st) == /\ Len(hist) < Depth
          /\ StepEnabled(heap, st)
          /\ heap' = HeapStep(heap, st)
          /\ hist' = Append(hist, st)
          /\ UNCHANGED heap0
Call == \E st \in Calls : CallOk(st) /\ Do(st)
\* "edit": call ; edit ; colliding call.   "mix": anything, but an edit is followed by a call.
CallAgain == Family = "edit" /\ Len(hist) = 2 /\ \E st \in Colliding(LastCall) : Do(st)
Edit == /\ Len(hist) < Depth - 1 /\ hist # <<>>
        /\ \E st \in Edits : EditOk(st) /\ Do(st)
Next == IF Family = "edit" THEN (Len(hist) = 0 /\ Call) \/ (Len(hist) = 1 /\ Edit) \/ CallAgain
        ELSE IF Family = "mix" THEN Call \/ Edit
        ELSE Call

Emit == (Len(hist) = Depth /\ IsCall(hist[Depth])) => PrintT(ToJson([heap |-> heap0, steps |-> hist, final |-> heap]))
NextGen == Next /\ Emit'

\* ---- invariants ----------------------------------------------------------------------------------
LawFor(h, hw) == SyncX(TreeOf(h), Pol(hw), MethOf(h.meth), ColPol("ij"), "row")
H0 == [ops |-> heap0.ops, cont |-> heap0.cont, meth |-> heap0.meth]
\* the bookkeeping of SyncSess!HeapAfter is this state machine
HeapIsHistory == heap = HeapAfter(H0, hist, Len(hist))
\* calls (and edits of a result) leave the heap alone: the heap is a function of the caller's own edits only
CallsOwnNothing == LET edits == SelectSeq(hist, LAMBDA st : st.op \notin {"call", "resedit"}) IN heap = HeapAfter(H0, edits, Len(edits))
\* every timeseries of the collection ends on the joint index OF THE INDICES THE OPERANDS HAVE NOW, and
\* one object placed twice comes back equal at both places
OnCurrentIndex == \A hw \in Hows :
                      LET ins == TsLeaves(TreeOf(heap))  outs == TsLeaves(LawFor(heap, hw))  rs == Refs(heap.cont) IN
                      /\ ins # <<>> => \A i \in 1..Len(outs) : Times(outs[i]) = Joint(hw, [j \in 1..Len(ins) |-> Times(ins[j])])
                      /\ \A i, j \in 1..Len(rs) : rs[i] = rs[j] => outs[i] = outs[j]
\* the spelling of the method (str / list / tuple) is no part of the outcome; an emptied list is no method
SpellingIrrelevant == /\ \A ty \in {"str", "list", "tuple"} : MethOf([heap.meth EXCEPT !.ty = ty]) = MethOf(heap.meth)
                      /\ heap.meth.v = <<>> => LawFor(heap, "oj") = LawFor([heap EXCEPT !.meth = NoMeth], "oj")
\* "last" is the last PLACE of the collection, whatever objects sit at the other places
LastIsLastPlace == LET ins == TsLeaves(TreeOf(heap)) IN
                   ins # <<>> => /\ IndexOf(TreeOf(heap), Pol("rj")) = Times(heap.ops[Refs(heap.cont)[Len(Refs(heap.cont))]])
                                 /\ IndexOf(TreeOf(heap), Pol("lj")) = Times(heap.ops[Refs(heap.cont)[1]])
=============================================================================
