CONSTANTS Strata = {"prefix", "sep", "replace", "split", "chars", "bbg", "num", "misc"}
          NumLen = 4
INIT Init
NEXT EvalGen
