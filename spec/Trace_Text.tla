----------------------------- MODULE Trace_Text -----------------------------
(* Trace validation for extension X08: each line of the log is one observation of the real code.                              *)
(*   area "text": one call of a text helper or of as_float - the case c (the shapes of MC_Text), the outcome out (value or     *)
(*                exception class) and, where a list was handed in, that list afterwards.                                       *)
(*   area "log":  one HISTORY of get_logger / message calls on fresh names: steps = <<[call, obs], ..>>, nfiles.                *)
(*   area "key":  one HISTORY of calls of one cached function: steps = <<[call, obs, after], ..>>.                              *)
(*   area "path": one call of path_name / path_dirname / path_join: c, out = [kind "val", v the string] or [kind "exc", cls].   *)
(*   area "fs":   one HISTORY of mkdir / dictdir calls (and files written by the harness) in a fresh directory: steps.          *)
(*   area "csv":  one table written as csv text and read back: c = [t, fname, form], out.                                       *)
(* A line outside the domain in which the specification speaks is answered "outside_domain" (counted by the driver, never a     *)
(* violation).  The features of the input that findings are filed under ride on the clause after a ":" (they decide nothing).   *)
(* (Batch declares the variables c and l: the call of a line is o.c.)                                                           *)
EXTENDS TextNum, TextLog, TextKey, TextPath, TextFs, TextCsv, Batch

\* ":n" negative power of ten, ":s" negative exponent, ":ns" both (TextNum!Tags)
TagSuffix(x) == LET t == Tags(x) IN IF t.negpower + t.scineg = 0 THEN "" ELSE ":" \o (IF t.negpower = 1 THEN "n" ELSE "") \o (IF t.scineg = 1 THEN "s" ELSE "")
TextLine(o) ==
    IF ~AllInDomain(o.c) THEN "outside_domain"
    ELSE IF o.out \notin AllWant(o.c) THEN AllClause(o.c, o.out) \o TagSuffix(o.c)
    ELSE IF "after" \in DOMAIN o /\ o.after # o.c.vs THEN "argument_changed"
    ELSE ""

PathLine(o) ==
    IF ~PathCallInDomain(o.c) THEN "outside_domain"
    ELSE LET t == PathTags(o.c)
             feat == IF t.backslash + t.early = 0 THEN "" ELSE ":" \o (IF t.backslash = 1 THEN "backslash" ELSE "") \o (IF t.early = 1 THEN "early" ELSE "") IN
         IF o.out.kind = "exc" THEN o.c.op \o "_raised" \o feat
         ELSE IF o.out.v # PathWant(o.c) THEN o.c.op \o "_result" \o feat
         ELSE ""

CsvLineVerdict(o) ==
    LET v == CsvVerdict(o.c, o.out)  t == CsvTags(o.c) IN
    IF v \in {"", "outside_domain"} \/ t.norows + t.capital + t.cr = 0 THEN v
    ELSE v \o ":" \o (IF t.norows = 1 THEN "norows" ELSE "") \o (IF t.capital = 1 THEN "capital" ELSE "") \o (IF t.cr = 1 THEN "cr" ELSE "")

Verdict(o) ==
    CASE o.area = "text" -> TextLine(o)
      [] o.area = "log"  -> LgJudge(<<>>, o.steps, o.nfiles)
      [] o.area = "key"  -> KyJudge(<<>>, o.steps)
      [] o.area = "path" -> PathLine(o)
      [] o.area = "fs"   -> FsJudge([dirs |-> {}, files |-> {}], o.steps)
      [] o.area = "csv"  -> CsvLineVerdict(o)
      [] OTHER -> "unknown_area"

Init == BatchInit
Next == BatchNext(Verdict)
=============================================================================
