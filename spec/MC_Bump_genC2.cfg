\* S2C generator, compound tenors (pairs over Parts + Triples): start days Jul 1999 - Jun 2001, at midnight and 09:30
CONSTANTS Years = {}
          NMax = 60
          GenY = 1999
          GenM0 = 7
          GenM1 = 30
INIT InitGenC
NEXT GenC
