------------------------------ MODULE JoinMech ------------------------------
(* Mechanism model of a whole dictable.join / dictable.xor call, shaped like the code:           *)
(* both sides are grouped by their key tuples (_listby as in MergeJoin.tla)      , the two group  *)
(* lists are merged by two cursors, every matched pair of groups is multiplied out l-major, key   *)
(* columns are filled from the group key, the other columns from the rows, same-named non-key     *)
(* columns by the mode.  Compared with the law level (JoinCalls!CallVerdict) only inside TLC.     *)
(*                                                                                                *)
(* Variant describes what the call does when both operands are the SAME object:                   *)
(*   "plain"            nothing special (today's code)                                            *)
(*   "reuse_guarded"    the left grouping is reused for the right side when lcols = rcols: still  *)
(*                      a refinement of the law                                                   *)
(*   "reuse_unguarded"  the left grouping is reused whenever other is self: breaks the law as     *)
(*                      soon as the two key expressions differ (the configuration that uses it    *)
(*                      must FAIL - it documents why the operand shapes are enumerated)           *)
EXTENDS JoinCalls, Order, FiniteSetsExt
CONSTANT Variant

\* _listby as in MergeJoin.tla (variant "fixed": rows whose keys rank equal under cmp form one run):
\* stable sort of the (key, row number) pairs by cmp, then run-length grouping; a run shows its latest key
GPairCmp(p, q) == LET cc == CmpModel(p[1], q[1]) IN IF cc # 0 THEN cc ELSE Sign(p[2] - q[2])
RECURSIVE GRuns(_, _, _)
GRuns(ps, k, acc) ==
    IF k > Len(ps) THEN acc
    ELSE IF acc # <<>> /\ (PyEq(ps[k][1], Last(acc)[1]) \/ CmpModel(ps[k][1], Last(acc)[1]) = 0)
         THEN GRuns(ps, k + 1, Front(acc) \o <<<<ps[k][1], Last(acc)[2] \o <<ps[k][2]>>>>>>)
         ELSE GRuns(ps, k + 1, acc \o <<<<ps[k][1], <<ps[k][2]>>>>>>)
GListby(keys) == GRuns(StableSort(GPairCmp, [i \in 1..Len(keys) |-> <<keys[i], i>>]), 1, <<>>)

KeyTup(row, ks) == VTup(Key(row, ks))                                       \* what self[by] yields for a row
Groups(t, ks) == GListby([i \in 1..NRows(t) |-> KeyTup(t.rows[i], ks)])   \* runs <<key, <<row numbers>>>> in cmp order
RightGroups(x, y, lk, rk, alias) ==
    CASE Variant = "plain" -> Groups(y, rk)
      [] Variant = "reuse_guarded" -> IF alias /\ lk = rk THEN Groups(x, lk) ELSE Groups(y, rk)
      [] Variant = "reuse_unguarded" -> IF alias THEN Groups(x, lk) ELSE Groups(y, rk)

\* the two cursors; acc collects <<key of the left run, left row numbers, right row numbers>>
RECURSIVE Merge(_, _, _, _, _)
Merge(lg, rg, l, r, acc) ==
    IF l > Len(lg) \/ r > Len(rg) THEN acc
    ELSE LET c == CmpModel(lg[l][1], rg[r][1]) IN
         IF c = -1 THEN Merge(lg, rg, l + 1, r, acc)
         ELSE IF c = 1 THEN Merge(lg, rg, l, r + 1, acc)
         ELSE Merge(lg, rg, l + 1, r + 1, Append(acc, <<lg[l][1], lg[l][2], rg[r][2]>>))
Matches(x, y, lk, rk, alias) == Merge(Groups(x, lk), RightGroups(x, y, lk, rk, alias), 1, 1, <<>>)

RECURSIVE Flatten(_)
Flatten(ss) == IF ss = <<>> THEN <<>> ELSE Head(ss) \o Flatten(Tail(ss))
\* [.. for l in lid for r in rid]
Product(lid, rid) == [n \in 1..(Len(lid) * Len(rid)) |-> <<lid[((n - 1) \div Len(rid)) + 1], rid[((n - 1) % Len(rid)) + 1]>>]

MechJoinRows(x, y, lk, rk, mode, alias) ==
    LET kn == KeyNames(lk, rk)
        ms == IF Len(lk) = 0
              THEN << <<VTup(<<>>), [i \in 1..NRows(x) |-> i], [j \in 1..NRows(y) |-> j]>> >>     \* no key: one group a side
              ELSE Matches(x, y, lk, rk, alias)
        RowOf(m, li, ri) ==
            [c \in JoinCols(x, y, lk, rk) |->
                IF c \in kn THEN Pay(m[1])[CHOOSE k \in 1..Len(lk) : KeyName(lk, rk, k) = c]
                ELSE IF c \in ColSet(x) /\ c \in ColSet(y) THEN Combine(mode, x.rows[li][c], y.rows[ri][c])
                ELSE IF c \in ColSet(x) THEN x.rows[li][c] ELSE y.rows[ri][c]]
        Expand(m) == LET ps == Product(m[2], m[3]) IN [n \in 1..Len(ps) |-> RowOf(m, ps[n][1], ps[n][2])]
    IN  Flatten([n \in 1..Len(ms) |-> Expand(ms[n])])
\* xor: the rows of the kept side whose run found no partner
MechXorRows(x, y, lk, rk, alias) ==
    LET ms == Matches(x, y, lk, rk, alias)
        hit == UNION {Range(ms[n][2]) : n \in 1..Len(ms)}
    IN  SelectSeq([i \in 1..NRows(x) |-> i], LAMBDA i : i \notin hit)
MechXorTable(x, y, lk, rk, alias) ==
    LET is == MechXorRows(x, y, lk, rk, alias) IN [i \in 1..Len(is) |-> x.rows[is[i]]]

Table(cols, rows) == [kind |-> "table", cols |-> cols, rows |-> rows]
MechJoin(x, y, lk, rk, mode, alias) ==
    IF ~KeyNameOK(lk, rk) THEN [kind |-> "exc", cls |-> "ValueError"]
    ELSE Table(SetToSeq(JoinCols(x, y, lk, rk)), MechJoinRows(x, y, lk, rk, mode, alias))
MechXor(x, y, lk, rk, mode, alias) ==
    IF Len(lk) = 0 THEN Table(x.cols, x.rows)                                  \* return self.copy()
    ELSE IF mode = "r" THEN Table(y.cols, MechXorTable(y, x, rk, lk, alias))
    ELSE Table(x.cols, MechXorTable(x, y, lk, rk, alias))
\* x.join(y, ..) + x.xor(y, ..): concatenation, missing columns filled with None
MechLeftJoin(x, y, lk, rk, mode, alias) ==
    LET j == MechJoin(x, y, lk, rk, mode, alias)
        q == MechXor(x, y, lk, rk, "l", alias)
    IN  IF j.kind # "table" THEN j
        ELSE Table(j.cols, j.rows \o [i \in 1..Len(q.rows) |-> [c \in Range(j.cols) |-> IF c \in ColSet(x) THEN q.rows[i][c] ELSE None]])
MechCall(op, x, y, lk, rk, mode, alias) ==
    CASE op = "join" -> MechJoin(x, y, lk, rk, mode, alias)
      [] op = "xor" -> MechXor(x, y, lk, rk, mode, alias)
      [] op = "leftjoin" -> MechLeftJoin(x, y, lk, rk, mode, alias)
=============================================================================
