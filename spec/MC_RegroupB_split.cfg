CONSTANTS Ks = {2}
          Lean = TRUE
INIT Init
NEXT Next
INVARIANT NeverSplit
