------------------------------- MODULE MC_Roll -------------------------------
(* Extension X03-b/c on the specification: the caller's session (RollSession) in small worlds.   *)
(* Model checking: all histories (the state is what is on file, the clock and the last call).    *)
(* Generation (S2C): `hist` records the steps with the outcome the specification expects after   *)
(* each load; a history is printed when it has Depth steps.                                      *)
EXTENDS RollSession, Json
CONSTANTS Depth
VARIABLES hist

W(lives, r0) == [lives |-> lives, rolls0 |-> r0]
\* four contracts one after the other; the caller writes no roll dates / rolls two of them early himself
WA == W(<<<<1, 6>>, <<2, 10>>, <<5, 14>>, <<8, 18>>>>, <<0, 0, 0, 0>>)
WB == W(<<<<1, 6>>, <<2, 10>>, <<5, 14>>, <<8, 18>>>>, <<4, 0, 12, 0>>)
\* a contract that never trades in the middle of the chain, short overlaps
WC == W(<<<<2, 6>>, <<1, 0>>, <<6, 11>>, <<10, 18>>>>, <<0, 0, 0, 0>>)
\* three long contracts that start together
WD == W(<<<<1, 7>>, <<1, 12>>, <<2, 18>>>>, <<0, 0, 0>>)
\* the second contract stops trading before the first one does (it is never the front contract)
WE == W(<<<<1, 12>>, <<3, 9>>, <<5, 18>>>>, <<0, 0, 0>>)
WorldsSmall == {WA, WB}
WorldsOne   == {WA}
WorldsAll   == {WA, WB, WC, WD, WE}

MCInit == Init /\ hist = <<>>
Step(act) == hist' = Append(hist, act)
MCLoad(d, kp) == Load(d, kp) /\ Step([act |-> "load", d |-> d, keep |-> kp, now |-> now', call |-> call', want |-> out'])
MCTrunc(t, h) == TruncAt(t, h) /\ Step([act |-> "trunc", t |-> t, head |-> h])
MCNext == /\ Len(hist) < Depth
          /\ \/ \E d \in 0..MaxStep, kp \in BOOLEAN : MCLoad(d, kp)
             \/ \E t \in TruncDays, h \in BOOLEAN : MCTrunc(t, h)
          /\ Len(hist') = Depth => PrintT(ToJson([w |-> w, n |-> n, hist |-> hist']))
\* model checking hides the history
NoHist == <<w, n, now, data, rolls, call, out, keep, daily, truncs>>
MCSpecNext == Next /\ UNCHANGED hist
=============================================================================
