------------------------------ MODULE MC_TextPath ------------------------------
(* X08-c (path algebra, csv round trip) on the specification, and the source of its S2C replay.  One behaviour               *)
(* c --Eval--> done per case; the generator prints every case of the domain with the outcome the specification expects         *)
(* (for csv: the TEXT to be put into the file and the table / lines that must come back).                                      *)
EXTENDS TextPath, TextCsv, TLC, Json, FiniteSets
CONSTANTS PathLen, Strata
VARIABLES c, done
vars == <<c, done>>

SeqsUpTo(S, k) == UNION {[1..m -> S] : m \in 0..k}
P4 == SeqsUpTo({97, 47, 92, 46}, PathLen)
P2 == SeqsUpTo({97, 47, 92}, 2)
Q2 == SeqsUpTo({97, 47}, 2)
PathCases == {[area |-> "path", op |-> o, p |-> p] : o \in {"path_name", "path_dirname"}, p \in P4}
             \cup {[area |-> "path", op |-> "path_join", ps |-> <<a, b>>] : a \in P2, b \in P2}
             \cup {[area |-> "path", op |-> "path_join", ps |-> <<a, b, d>>] : a \in Q2, b \in Q2, d \in Q2}

Cells1 == {<<>>, <<120>>, <<44>>, <<34>>, <<120, 10, 121>>, <<32, 120>>, <<34, 44, 34>>}
Cells2 == {<<>>, <<120>>, <<44, 34>>, <<13, 10>>}
Rows(S, w, k) == UNION {[1..m -> [1..w -> S]] : m \in 0..k}
Tables == {[cols |-> <<<<97>>>>, rows |-> r] : r \in Rows(Cells1, 1, 2)} \cup {[cols |-> <<<<97>>, <<98, 32, 99>>>>, rows |-> r] : r \in Rows(Cells2, 2, 2)}
CsvCases == {[area |-> "csv", t |-> t, fname |-> <<116>>, form |-> f] : t \in Tables, f \in {"path", "noext", "list", "dict", "dictable"}}
            \cup {[area |-> "csv", t |-> t, fname |-> <<84, 97, 98>>, form |-> f] : t \in {t \in Tables : Len(t.rows) = 1}, f \in {"path", "dictable"}}

Universe == (IF "path" \in Strata THEN PathCases ELSE {}) \cup (IF "csv" \in Strata THEN CsvCases ELSE {})
InDomain(x) == IF x.area = "path" THEN PathCallInDomain(x) ELSE CsvInDomain(x.t)
Init == c \in Universe /\ done = FALSE
Eval == done = FALSE /\ done' = TRUE /\ UNCHANGED c
EvalGen == /\ Eval
           /\ IF ~InDomain(c) THEN TRUE
              ELSE IF c.area = "path" THEN PrintT(ToJson([case |-> c, want |-> PathWant(c), tags |-> PathTags(c)]))
              ELSE PrintT(ToJson([case |-> c, text |-> CsvText(c.t), tags |-> CsvTags([t |-> c.t, fname |-> c.fname]),
                                  rows |-> CsvAllRows(c.t), data |-> [k \in DOMAIN c.t.cols |-> CsvColumn(c.t, k)]]))

\* ---- the laws ---------------------------------------------------------------------------------------------------
IsP(o) == done /\ c.area = "path" /\ c.op = o /\ InDomain(c)
NoDouble(s) == \A i \in 2..(Len(s) - 1) : ~(s[i] = 47 /\ s[i + 1] = 47)
CanonLaws == IsP("path_name") =>
                LET k == PCanon(c.p) IN
                /\ PCanon(k) = k /\ ~PHasBackslash(k) /\ NoDouble(k)
                /\ PSquash(k) = PSquash(PFwd(c.p))                                 \* nothing but separators is touched
                /\ (PLead(PFwd(c.p)) = 2) = (Len(k) >= 2 /\ k[1] = 47 /\ k[2] = 47)  \* //server stays //server
                /\ (~PHasBackslash(c.p) /\ NoDouble(c.p) /\ PLead(c.p) < 3 /\ ~(Len(c.p) >= 2 /\ c.p[1] # 47 /\ c.p[2] = 47 /\ Len(c.p) >= 3 /\ c.p[3] = 47)) => k = c.p
DirLaws == IsP("path_dirname") =>
                LET d == PDir(c.p)  k == PCanon(c.p) IN
                /\ PCanon(d) = d /\ PDir(PFwd(c.p)) = d /\ PDir(k) = d           \* canonical, and blind to the spelling
                /\ Len(d) <= Len(k) /\ SubSeq(k, 1, Len(d)) = d                 \* a prefix of the path
                /\ (\A i \in DOMAIN c.p : c.p[i] \notin {47, 92}) => d = <<>>   \* a bare name has no directory
                /\ PDir(d) = d \/ Len(PDir(d)) < Len(d)
JoinLaws == IsP("path_join") =>
                LET j == PJoin(c.ps) IN
                /\ PCanon(j) = j
                /\ Len(c.ps) = 3 => PJoin(<<PJoin(<<c.ps[1], c.ps[2]>>), c.ps[3]>>) = j     \* join is associative
                /\ (Len(c.ps) = 2 /\ c.ps[1] # <<>> /\ c.ps[2] # <<>> /\ \A i \in DOMAIN c.ps[2] : c.ps[2][i] \notin {47, 92}) =>
                        (PDir(j) = PCanon(PRStrip(PFwd(c.ps[1]))) \/ (\A i \in DOMAIN c.ps[1] : c.ps[1][i] \in {47, 92}))   \* the directory of dir/name is dir
                /\ (Len(c.ps) = 2 /\ c.ps[2] = <<>> /\ c.ps[1] # <<>>) => j[Len(j)] = 47
\* the csv text: as many lines as rows plus the header, as many separators per line as columns less one, quotes in pairs
RECURSIVE Scan(_, _, _, _)
Scan(s, inq, lines, seps) == IF s = <<>> THEN <<inq, lines, seps>>
                             ELSE IF s[1] = 34 THEN Scan(Tail(s), ~inq, lines, seps)
                             ELSE IF ~inq /\ s[1] = 10 THEN Scan(Tail(s), inq, lines + 1, seps)
                             ELSE IF ~inq /\ s[1] = 44 THEN Scan(Tail(s), inq, lines, seps + 1)
                             ELSE Scan(Tail(s), inq, lines, seps)
CsvShape == (done /\ c.area = "csv" /\ InDomain(c)) =>
                LET r == Scan(CsvText(c.t), FALSE, 0, 0) IN
                /\ r[1] = FALSE /\ r[2] = Len(c.t.rows) + 1 /\ r[3] = (Len(c.t.rows) + 1) * (Len(c.t.cols) - 1)
                /\ \A a \in DOMAIN c.t.rows : CsvLine(c.t.rows[a]) # <<13, 10>>                   \* no line is blank
=============================================================================
