----------------------------- MODULE Trace_Frames -----------------------------
(* Trace validation for extension X06.  One line of the log = one observation of the real code:  *)
(*   a call of the family X06-a  (op = concat1, concat0, as_series, column, columns, recolumn,      *)
(*        np_reindex, drop_dup, mask2v, apply, sf):  case = the call as a record of Frames!Expect,  *)
(*        out = the encoded outcome, after = the case projected again after the call;             *)
(*   a call of the family X06-b  (op = gap, deal, degap), same layout, judged by FramesGap;         *)
(*   op = "gaphist": the history of a caller who degaps what he keeps every time a row arrives:    *)
(*        g = his max_gap, steps = <<[t = the stamp that arrived, kept = the stamps he holds         *)
(*        afterwards, vals = their values]>> (the value recorded at stamp t is 100 + t);            *)
(*   op = "fold":  reducer / reducing on a sequence: fn, xs, dflt, kw, out = [v, calls, origin]      *)
(*        (calls = the calls of f that were observed, in order; seen = FALSE when f is a method of  *)
(*        a pandas object whose calls cannot be observed);                                           *)
(*   op = "foldhist": ONE reducing object called again and again: obj, steps = <<[call, out, same]>> *)
(*        (same: the object's own attributes are what they were before the call).                   *)
EXTENDS FramesGap, FramesFold, Batch

\* ---- outcomes ---------------------------------------------------------------------------------------
SameValue(w, g, heads) ==
    /\ g.k = w.k
    /\ IF w.k = "pf" /\ ~heads THEN g.t = w.t /\ g.v = w.v /\ Len(g.h) = Len(w.h) ELSE g = w
\* which part of a timeseries result differs
Why(w, g, op) ==
    IF g.k # w.k THEN op \o "_kind"
    ELSE IF w.k \in {"s", "pf"} /\ g.t # w.t THEN op \o "_index"
    ELSE IF w.k = "pf" /\ g.h # w.h THEN op \o "_headers"
    ELSE op \o "_values"
Judge(w, out, op) ==
    IF w.kind = "exc" THEN (IF out.kind = "exc" /\ out.cls = w.cls THEN "" ELSE op \o "_should_raise")
    ELSE IF out.kind = "exc" THEN op \o "_raised"
    ELSE IF w.kind = "oneof" THEN (IF \E q \in 1..Len(w.vs) : out.v = w.vs[q] THEN "" ELSE op \o "_result")
    ELSE IF SameValue(w.v, out.v, IF "heads" \in DOMAIN w THEN w.heads ELSE TRUE) THEN "" ELSE Why(w.v, out.v, op)
JudgeAny(ws, out, op) ==
    IF \E q \in 1..Len(ws) : Judge(ws[q], out, op) = "" THEN "" ELSE Judge(ws[1], out, op)

FramesVerdict(o) ==
    IF ~CallDomain(o.case) THEN "outside_domain"
    ELSE IF o.after # o.case THEN "operand_changed"
    ELSE Judge(Expect(o.case), o.out, o.case.op)
GapVerdict(o) ==
    IF ~GapCallDomain(o.case) THEN "outside_domain"
    ELSE IF o.after # o.case THEN "operand_changed"
    ELSE JudgeAny(GapExpect(o.case).vs, o.out, o.case.op)

\* ---- the history of degapping -----------------------------------------------------------------------
RECURSIVE HistOK(_, _, _, _, _)
HistOK(steps, i, keptS, g, r) ==
    \/ i > Len(steps)
    \/ LET k2 == DegapSet(keptS \cup {steps[i].t}, g, r) IN
       /\ steps[i].kept = Asc(k2)
       /\ steps[i].vals = [q \in 1..Len(steps[i].kept) |-> VFlt(100 + steps[i].kept[q], 1)]
       /\ HistOK(steps, i + 1, k2, g, r)
GapHistVerdict(o) ==
    IF ~(o.g >= 1 /\ \A i, j \in 1..Len(o.steps) : (i # j => o.steps[i].t # o.steps[j].t) /\ o.steps[i].t >= 1) THEN "outside_domain"
    ELSE IF \E r \in GapReadings : HistOK(o.steps, 1, {}, o.g, r) THEN "" ELSE "gaphist_kept"

\* ---- folds ----------------------------------------------------------------------------------------------
FoldVerdict(o) ==
    IF ~(o.fn \in Fns) THEN "outside_domain"
    ELSE IF o.after # o.xs THEN "operand_changed"
    ELSE IF o.out.kind = "exc" THEN "fold_raised"
    ELSE IF o.out.seen /\ o.out.calls # Calls(o.fn, o.xs, o.kw) THEN "fold_calls"
    ELSE IF o.out.v # Fold(o.fn, o.xs, o.dflt, o.kw) THEN "fold_result"
    ELSE IF o.out.origin # Origin(o.xs) THEN "fold_identity" ELSE ""
StepVerdict(fn, st) ==
    IF ~FoldCallDomain(st.call) THEN "outside_domain"
    ELSE IF st.out.kind = "exc" THEN "foldhist_raised"
    ELSE IF st.out.calls # CallLog(fn, st.call) THEN "foldhist_calls"
    ELSE IF st.out.v # CallLaw(fn, st.call) THEN "foldhist_result"
    ELSE IF ~st.same THEN "foldhist_object_changed" ELSE ""
FoldHistVerdict(o) ==
    LET bad == SelectSeq([i \in 1..Len(o.steps) |-> i], LAMBDA i : StepVerdict(o.obj.fn, o.steps[i]) # "")
    IN  IF ~(o.obj.fn \in Fns) THEN "outside_domain" ELSE IF bad = <<>> THEN "" ELSE StepVerdict(o.obj.fn, o.steps[bad[1]])

Verdict(o) ==
    IF o.op \in FrameOps THEN FramesVerdict(o)
    ELSE IF o.op \in GapOps THEN GapVerdict(o)
    ELSE IF o.op = "gaphist" THEN GapHistVerdict(o)
    ELSE IF o.op = "fold" THEN FoldVerdict(o)
    ELSE IF o.op = "foldhist" THEN FoldHistVerdict(o)
    ELSE "unknown_op"

Init == BatchInit
Next == BatchNext(Verdict)
=============================================================================
