\* the clauses on the operators of OpsLaw.tla (fill methods, comparisons with no data, lists of denominators)
CONSTANTS NS = 2
 NT = 2
 NF = 1
 Fill = FALSE
INIT Init
NEXT Eval
INVARIANT OpsAgrees
INVARIANT CmpNoData
INVARIANT FillNumber
INVARIANT FillAsOf
INVARIANT DivZeroFilled
INVARIANT DivListZero
