CONSTANT FixedCode = TRUE
INIT LongInit
NEXT LongNext
