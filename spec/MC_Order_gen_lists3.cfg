CONSTANTS MaxLen = 3
          Mode = "lists"
INIT Init
NEXT NextGen
