CONSTANTS Family = "frames"
 Depth = 1
INIT Init
NEXT NextGen
INVARIANT HeapIsHistory
