------------------------------ MODULE Trace_Sync ------------------------------
(* Trace validation for property C03: each line of the log is one public call                   *)
(*   df_index(tree, how) / df_reindex(tree, index, method) / df_sync(tree, join, method, columns)*)
(*   / presync(recorder, index, method, columns)(...)                                            *)
(* on a real collection, with the collection before (tree) and after (after) the call, the      *)
(* policy, and the encoded outcome: the returned collection, the exception class, or - for      *)
(* presync - the argument collections the decorated function was called with.                   *)
(* o.cols is a column policy record [how, c] (SyncLaw.tla).  Dict containers are projected with   *)
(* their class and their keys in the order of iteration (presync: the order in which the          *)
(* decorated function received its keyword arguments) and are compared as they are: nothing is    *)
(* brought into a canonical key order.                                                            *)
EXTENDS SyncLaw, Batch

(* api = "history": one line is a whole history of calls / derivations on ONE presync-decorated   *)
(* function object (o.dec = its decoration, o.hist = the steps, o.out.steps[n] = what the decorated *)
(* function received at step n); the policy in force at each call is the one of the state machine  *)
(* of SyncLaw.tla (decoration, call-time overrides for that call only, derived objects).            *)
CP(o) == IF o.api = "reindex" THEN NoCols ELSE o.cols
\* the observed calls `got` are exactly the calls of S (up to the named deviation PseudoSeries)
Explains(S, got) == (\A w \in S : \E g \in got : ShapeOnly(g) = ShapeOnly(w) /\ TreeMatches(w, g))
                    /\ (\A g \in got : \E w \in S : ShapeOnly(g) = ShapeOnly(w) /\ TreeMatches(w, g))
GotAt(o, n) == LET cs == o.out.steps[n].calls IN {cs[i] : i \in 1..Len(cs)}
ExplainedUnder(o, n, p) == \E S \in CallOutcomes(o.tree, p) : Explains(S, GotAt(o, n))
HistVerdict(o) ==
    LET calls == {n \in 1..Len(o.hist) : o.hist[n].op = "call"}
        bad == {n \in calls : o.out.steps[n].kind # "calls" \/ ~ExplainedUnder(o, n, InForce(o.dec, o.hist, n))}
    IN  IF bad = {} THEN ""
        ELSE LET n == CHOOSE x \in bad : \A y \in bad : x <= y IN
             IF o.out.steps[n].kind # "calls" THEN "presync_history_raised"
             \* would the overrides of an earlier call, had they stayed in force, explain what was received?
             ELSE IF \E k \in calls : k < n /\ ExplainedUnder(o, n, Effective(InForce(o.dec, o.hist, k), o.hist[n].ov))
             THEN "presync_policy_leaked"
             ELSE "presync_history"
Verdict(o) ==
    IF \E i \in 1..Len(TsLeaves(o.tree)) : ~WellFormed(TsLeaves(o.tree)[i]) THEN "malformed_observation"
    ELSE IF o.after # o.tree THEN "operand_changed"
    ELSE IF o.out.kind = "exc" THEN "raised"
    ELSE CASE o.api = "index" ->
                IF o.out.v.k = JointOutcome(o.tree, o.pol).k /\ o.out.v = JointOutcome(o.tree, o.pol) THEN "" ELSE "joint_index"
           [] o.api \in {"sync", "reindex"} ->
                LET want == SyncOutcomesX(o.tree, o.pol, o.m, CP(o))
                    got  == o.out.v
                IN  IF \E w \in want : ShapeOnly(w) = ShapeOnly(got) /\ w = got THEN ""
                    ELSE WhyNotX(SyncX(o.tree, o.pol, o.m, CP(o), "row"), got)
           [] o.api = "presync" ->
                LET want == PresyncOutcomesX(o.tree, o.pol, o.m, o.cols)
                    got  == {o.out.calls[i] : i \in 1..Len(o.out.calls)}
                IN  IF \E S \in want : Explains(S, got) THEN ""
                    ELSE IF Cardinality(got) = 1 /\ MultiLeaves(o.tree) = <<>>
                         THEN "presync_" \o WhyNotX(Collapse(SyncX(o.tree, o.pol, o.m, NoCols, "row")), Collapse(CHOOSE g \in got : TRUE))
                         ELSE IF \A g \in got : ShapeOnly(Reorder(g, o.tree)) = ShapeOnly(o.tree) /\ ShapeOnly(g) # ShapeOnly(o.tree)
                         THEN "presync_dict_order"
                         ELSE "presync_calls"
           [] o.api = "history" -> HistVerdict(o)
           [] OTHER -> "unknown_api"

Init == BatchInit
Next == BatchNext(Verdict)
=============================================================================
