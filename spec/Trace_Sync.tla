------------------------------ MODULE Trace_Sync ------------------------------
(* Trace validation for property C03: each line of the log is one public call                   *)
(*   df_index(tree, how) / df_reindex(tree, index, method) / df_sync(tree, join, method, columns)*)
(*   / presync(recorder, index, method, columns)(...)                                            *)
(* on a real collection, with the collection before (tree) and after (after) the call, the      *)
(* policy, and the encoded outcome: the returned collection, the exception class, or - for      *)
(* presync - the argument collections the decorated function was called with.                   *)
EXTENDS Series, Batch

Verdict(o) ==
    IF \E i \in 1..Len(TsLeaves(o.tree)) : ~WellFormed(TsLeaves(o.tree)[i]) THEN "malformed_observation"
    ELSE IF o.after # o.tree THEN "operand_changed"
    ELSE IF o.out.kind = "exc" THEN "raised"
    ELSE CASE o.api = "index" ->
                IF o.out.v.k = JointOutcome(o.tree, o.pol).k /\ o.out.v = JointOutcome(o.tree, o.pol) THEN "" ELSE "joint_index"
           [] o.api \in {"sync", "reindex"} ->
                LET want == SyncOutcomes(o.tree, o.pol, o.m, IF o.api = "reindex" THEN "none" ELSE o.cols)
                    got  == Canon(o.out.v, o.tree)
                IN  IF \E w \in want : ShapeOnly(w) = ShapeOnly(got) /\ w = got THEN ""
                    ELSE WhyNot(Sync(o.tree, o.pol, o.m, IF o.api = "reindex" THEN "none" ELSE o.cols, "row"), got)
           [] o.api = "presync" ->
                LET want == PresyncOutcomes(o.tree, o.pol, o.m, o.cols)
                    got  == {Canon(o.out.calls[i], o.tree) : i \in 1..Len(o.out.calls)}
                    ok(S) == (\A w \in S : \E g \in got : ShapeOnly(g) = ShapeOnly(w) /\ TreeMatches(w, g))
                             /\ (\A g \in got : \E w \in S : ShapeOnly(g) = ShapeOnly(w) /\ TreeMatches(w, g))
                IN  IF \E S \in want : ok(S) THEN ""
                    ELSE IF Cardinality(got) = 1 /\ MultiLeaves(o.tree) = <<>>
                         THEN "presync_" \o WhyNot(Collapse(Sync(o.tree, o.pol, o.m, "none", "row")), Collapse(CHOOSE g \in got : TRUE))
                         ELSE "presync_calls"
           [] OTHER -> "unknown_api"

Init == BatchInit
Next == BatchNext(Verdict)
=============================================================================
