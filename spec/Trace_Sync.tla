------------------------------ MODULE Trace_Sync ------------------------------
(* Trace validation for property C03: each line of the log is one public call                   *)
(*   df_index(tree, how) / df_reindex(tree, index, method) / df_sync(tree, join, method, columns)*)
(*   / presync(recorder, index, method, columns)(...)                                            *)
(* on a real collection, with the collection before (tree) and after (after) the call, the      *)
(* policy, and the encoded outcome: the returned collection, the exception class, or - for      *)
(* presync - the argument collections the decorated function was called with.                   *)
(* o.cols is a column policy record [how, c] (SyncLaw.tla).  Dict containers are projected with   *)
(* their class and their keys in the order of iteration (presync: the order in which the          *)
(* decorated function received its keyword arguments) and are compared as they are: nothing is    *)
(* brought into a canonical key order.                                                            *)
EXTENDS SyncLaw, Batch

CP(o) == IF o.api = "reindex" THEN NoCols ELSE o.cols
Verdict(o) ==
    IF \E i \in 1..Len(TsLeaves(o.tree)) : ~WellFormed(TsLeaves(o.tree)[i]) THEN "malformed_observation"
    ELSE IF o.after # o.tree THEN "operand_changed"
    ELSE IF o.out.kind = "exc" THEN "raised"
    ELSE CASE o.api = "index" ->
                IF o.out.v.k = JointOutcome(o.tree, o.pol).k /\ o.out.v = JointOutcome(o.tree, o.pol) THEN "" ELSE "joint_index"
           [] o.api \in {"sync", "reindex"} ->
                LET want == SyncOutcomesX(o.tree, o.pol, o.m, CP(o))
                    got  == o.out.v
                IN  IF \E w \in want : ShapeOnly(w) = ShapeOnly(got) /\ w = got THEN ""
                    ELSE WhyNotX(SyncX(o.tree, o.pol, o.m, CP(o), "row"), got)
           [] o.api = "presync" ->
                LET want == PresyncOutcomesX(o.tree, o.pol, o.m, o.cols)
                    got  == {o.out.calls[i] : i \in 1..Len(o.out.calls)}
                    ok(S) == (\A w \in S : \E g \in got : ShapeOnly(g) = ShapeOnly(w) /\ TreeMatches(w, g))
                             /\ (\A g \in got : \E w \in S : ShapeOnly(g) = ShapeOnly(w) /\ TreeMatches(w, g))
                IN  IF \E S \in want : ok(S) THEN ""
                    ELSE IF Cardinality(got) = 1 /\ MultiLeaves(o.tree) = <<>>
                         THEN "presync_" \o WhyNotX(Collapse(SyncX(o.tree, o.pol, o.m, NoCols, "row")), Collapse(CHOOSE g \in got : TRUE))
                         ELSE IF \A g \in got : ShapeOnly(Reorder(g, o.tree)) = ShapeOnly(o.tree) /\ ShapeOnly(g) # ShapeOnly(o.tree)
                         THEN "presync_dict_order"
                         ELSE "presync_calls"
           [] OTHER -> "unknown_api"

Init == BatchInit
Next == BatchNext(Verdict)
=============================================================================
