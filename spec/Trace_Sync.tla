------------------------------ MODULE Trace_Sync ------------------------------
(* Trace validation for property C03: each line of the log is one public call                   *)
(*   df_index(tree, how) / df_reindex(tree, index, method) / df_sync(tree, join, method, columns)*)
(*   / presync(recorder, index, method, columns)(...)                                            *)
(* on a real collection, with the collection before (tree) and after (after) the call, the      *)
(* policy, and the encoded outcome: the returned collection, the exception class, or - for      *)
(* presync - the argument collections the decorated function was called with.                   *)
(* o.cols is a column policy record [how, c] (SyncLaw.tla).  Dict containers are projected with   *)
(* their class and their keys in the order of iteration (presync: the order in which the          *)
(* decorated function received its keyword arguments) and are compared as they are: nothing is    *)
(* brought into a canonical key order.                                                            *)
EXTENDS SyncSess, Batch

(* api = "history": one line is a whole history of calls / derivations on ONE presync-decorated   *)
(* function object (o.dec = its decoration, o.hist = the steps, o.out.steps[n] = what the decorated *)
(* function received at step n); the policy in force at each call is the one of the state machine  *)
(* of SyncLaw.tla (decoration, call-time overrides for that call only, derived objects).            *)
CP(o) == IF o.api = "reindex" THEN NoCols ELSE o.cols
\* the observed calls `got` are exactly the calls of S (up to the named deviation PseudoSeries)
Explains(S, got) == (\A w \in S : \E g \in got : ShapeOnly(g) = ShapeOnly(w) /\ TreeMatches(w, g))
                    /\ (\A g \in got : \E w \in S : ShapeOnly(g) = ShapeOnly(w) /\ TreeMatches(w, g))
GotAt(o, n) == LET cs == o.out.steps[n].calls IN {cs[i] : i \in 1..Len(cs)}
ExplainedUnder(o, n, p) == \E S \in CallOutcomes(o.tree, p) : Explains(S, GotAt(o, n))
HistVerdict(o) ==
    LET calls == {n \in 1..Len(o.hist) : o.hist[n].op = "call"}
        bad == {n \in calls : o.out.steps[n].kind # "calls" \/ ~ExplainedUnder(o, n, InForce(o.dec, o.hist, n))}
    IN  IF bad = {} THEN ""
        ELSE LET n == CHOOSE x \in bad : \A y \in bad : x <= y IN
             IF o.out.steps[n].kind # "calls" THEN "presync_history_raised"
             \* would the overrides of an earlier call, had they stayed in force, explain what was received?
             ELSE IF \E k \in calls : k < n /\ ExplainedUnder(o, n, Effective(InForce(o.dec, o.hist, k), o.hist[n].ov))
             THEN "presync_policy_leaked"
             ELSE "presync_history"
\* one public call on the collection `tree` with its encoded outcome `out`: "" or the clause that fails
CallVerdict(api, tree, pol, m, cols, out) ==
    IF out.kind = "exc" THEN "raised"
    ELSE CASE api = "index" ->
                IF out.v.k = JointOutcome(tree, pol).k /\ out.v = JointOutcome(tree, pol) THEN "" ELSE "joint_index"
           [] api \in {"sync", "reindex"} ->
                LET cp   == IF api = "reindex" THEN NoCols ELSE cols
                    want == SyncOutcomesX(tree, pol, m, cp)
                    got  == out.v
                IN  IF \E w \in want : ShapeOnly(w) = ShapeOnly(got) /\ w = got THEN ""
                    ELSE WhyNotX(SyncX(tree, pol, m, cp, "row"), got)
           [] api = "presync" ->
                LET want == PresyncOutcomesX(tree, pol, m, cols)
                    got  == {out.calls[i] : i \in 1..Len(out.calls)}
                IN  IF \E S \in want : Explains(S, got) THEN ""
                    ELSE IF Cardinality(got) = 1 /\ MultiLeaves(tree) = <<>>
                         THEN "presync_" \o WhyNotX(Collapse(SyncX(tree, pol, m, NoCols, "row")), Collapse(CHOOSE g \in got : TRUE))
                         ELSE IF \A g \in got : ShapeOnly(Reorder(g, tree)) = ShapeOnly(tree) /\ ShapeOnly(g) # ShapeOnly(tree)
                         THEN "presync_dict_order"
                         ELSE "presync_calls"
           [] OTHER -> "unknown_api"

(* api = "session": one line is a whole session on ONE heap of caller-owned objects (SyncSess.tla): o.heap = the     *)
(* initial heap (with its realisation `share`), o.steps = the steps, o.out.steps[n] = [out |-> the encoded outcome    *)
(* of step n (calls only), heap |-> the caller's objects as observed after step n].  The heap the law expects after    *)
(* step n is HeapAfter(.., n): calls leave it as it is, the caller's edits act on it.  A call is judged against the    *)
(* law on the heap of that moment.                                                                                  *)
SessHeap0(o) == [ops |-> o.heap.ops, cont |-> o.heap.cont, meth |-> o.heap.meth]
SessStepVerdict(o, n) ==
    LET st     == o.steps[n]
        before == HeapAfter(SessHeap0(o), o.steps, n - 1)
        after  == HeapStep(before, st)
        seen   == o.out.steps[n].heap
    IN  IF ~StepEnabled(before, st) THEN "malformed_observation"
        ELSE IF st.op = "call" THEN
            IF seen.meth # after.meth THEN "method_argument_changed"
            ELSE IF seen.cont # after.cont THEN "container_changed"
            ELSE IF seen.ops # after.ops THEN "operand_changed"
            ELSE LET v == CallVerdict(st.api, TreeOf(before), SessPol(before, st), MethOf(before.meth), st.cols, o.out.steps[n].out) IN
                 IF v = "" THEN ""
                 \* would the heap as it was before an earlier step, or the method object as it was then, explain the outcome?
                 ELSE IF \E k \in 0..(n - 2) : LET old == HeapAfter(SessHeap0(o), o.steps, k) IN
                             old # before /\ CallVerdict(st.api, TreeOf(old), SessPol(old, st), MethOf(old.meth), st.cols, o.out.steps[n].out) = ""
                      THEN "session_memory"
                 ELSE "session_" \o v
        ELSE IF seen # after THEN (IF st.op = "resedit" THEN "result_aliases_argument" ELSE "malformed_observation")
        ELSE ""
SessVerdict(o) ==
    IF \E i \in 1..Len(o.heap.ops) : ~WellFormed(o.heap.ops[i]) THEN "malformed_observation"
    ELSE LET bad == {n \in 1..Len(o.steps) : SessStepVerdict(o, n) # ""} IN
         IF bad = {} THEN "" ELSE SessStepVerdict(o, CHOOSE x \in bad : \A y \in bad : x <= y)

Verdict(o) ==
    IF o.api = "session" THEN SessVerdict(o)
    ELSE IF \E i \in 1..Len(TsLeaves(o.tree)) : ~WellFormed(TsLeaves(o.tree)[i]) THEN "malformed_observation"
    ELSE IF o.after # o.tree THEN "operand_changed"
    ELSE IF o.api = "history" THEN HistVerdict(o)
    ELSE CallVerdict(o.api, o.tree, o.pol, o.m, CP(o), o.out)

Init == BatchInit
Next == BatchNext(Verdict)
=============================================================================
