CONSTANTS Wide = FALSE
          Nest = FALSE
INIT InitToday
NEXT Eval
INVARIANT TodayInModel
INVARIANT TodaySymmetric
