------------------------------ MODULE OrderBig ------------------------------
(* Property C07, numbers of large magnitude.                                                   *)
(*                                                                                             *)
(* TLC's integers are 32-bit, so the values of spec/Values.tla stop at 2^31 and at floats      *)
(* whose exact ratio has small terms.  The cmp laws are quantified over ALL ints and floats,   *)
(* and the interesting ones sit far outside: ints beyond 2^53 (several ints share one double), *)
(* floats at the edge of integer precision, huge and tiny floats, their negatives.  Such a     *)
(* number crosses the boundary as its exact binary expansion                                   *)
(*     <<"x", <<kind, sign, e, bits>>>>   =   sign * 2^e * (1.b2 b3 ...)  in binary            *)
(* kind "i" (an int) or "f" (a finite float), sign in {-1, 1}, bits = <<1, b2, b3, ...>> from  *)
(* the leading one down to the last one (no trailing zeros).  The drivers render it from       *)
(* Python's exact int / float.as_integer_ratio(); the exact order and numeric equality are     *)
(* decided HERE (sign, then exponent, then bits), as are all axioms over the observed matrix.  *)
(*                                                                                             *)
(* Law level (what the statement pins on such numbers):                                        *)
(*   - numerically equal ints and floats compare 0;                                            *)
(*   - NaN ranks above every finite number;                                                    *)
(*   - two floats follow Python's native order (the interpretation recorded for C07: scalars   *)
(*     of one kind follow their native order);                                                 *)
(*   - a pair with an int in it never compares AGAINST the exact order; it may compare 0       *)
(*     although the numbers differ (named deviation CoarseTie: the statement does not say that *)
(*     unequal ints compare non-zero; a cmp that compares ints after conversion to double, as  *)
(*     the code did until repair f59ec17, ties 2^53 and 2^53 + 1 and is a lawful preorder).  Which ties are lawful is then settled by the preorder       *)
(*     axioms themselves: transitivity over all triples together with the strictly ordered     *)
(*     floats of the universe forbids a tie that spans two different doubles, and forbids      *)
(*     "2^53 ~ 2.0^53 ~ 2^53+1 but 2^53 < 2^53+1".                                             *)
(* Mechanism level: CmpModelExact = CmpModel with numbers compared exactly (the code today: an *)
(* int only ranks as a float); CmpModelX = every int converted to the nearest double first     *)
(* (round to nearest, ties to even, 53 bits; beyond the doubles: the infinity of the sign) -   *)
(* the code before the repair, coarser and also lawful;                                         *)
(* CmpModelFast = the tempting variant that compares two ints exactly and everything else      *)
(* through the doubles, which MC_Order shows to break transitivity.                            *)
EXTENDS Order

IsX(v)   == Tag(v) = "x"
XKind(v) == Pay(v)[1]
VX(kind, sign, e, bits) == <<"x", <<kind, sign, e, bits>>>>
XAbs(k) == IF k < 0 THEN -k ELSE k

\* ---- exact normal form <<sign, e, bits>> of every finite number ----------------------------
RECURSIVE XBitsOf(_)
XBitsOf(k) == IF k = 0 THEN <<>> ELSE Append(XBitsOf(k \div 2), k % 2)          \* k > 0, leading bit first
RECURSIVE XStrip(_)
XStrip(b) == IF b # <<>> /\ b[Len(b)] = 0 THEN XStrip(SubSeq(b, 1, Len(b) - 1)) ELSE b
XZero == <<0, 0, <<>>>>
\* a finite float <<"f", <<p, q>>>> is a dyadic rational: q is a power of two
XNF(v) == CASE Tag(v) = "x" -> <<Pay(v)[2], Pay(v)[3], Pay(v)[4]>>
            [] Tag(v) \in {"i", "b"} -> IF Pay(v) = 0 THEN XZero
                                        ELSE LET b == XBitsOf(XAbs(Pay(v))) IN <<Sign(Pay(v)), Len(b) - 1, XStrip(b)>>
            [] Tag(v) = "f" -> LET p == Pay(v)[1]  q == Pay(v)[2] IN
                               IF p = 0 THEN XZero
                               ELSE LET b == XBitsOf(XAbs(p)) IN <<Sign(p), Len(b) - Len(XBitsOf(q)), XStrip(b)>>
\* lexicographic order of two bit strings, a proper prefix being smaller (not recursive: an int may have thousands of bits)
XBitsCmp(a, b) == LET n == IF Len(a) < Len(b) THEN Len(a) ELSE Len(b) IN
                  IF \A k \in 1..n : a[k] = b[k] THEN Sign(Len(a) - Len(b))
                  ELSE LET k == CHOOSE k \in 1..n : a[k] # b[k] /\ \A j \in 1..(k - 1) : a[j] = b[j] IN Sign(a[k] - b[k])
XNFCmp(a, b) == IF a[1] # b[1] THEN Sign(a[1] - b[1])
                ELSE IF a[1] = 0 THEN 0
                ELSE a[1] * (IF a[2] # b[2] THEN Sign(a[2] - b[2]) ELSE XBitsCmp(a[3], b[3]))
IsFinNumber(v) == Tag(v) \in {"i", "f", "x"}
IsFloatKind(v) == Tag(v) = "f" \/ (IsX(v) /\ XKind(v) = "f")
IsIntKind(v)   == Tag(v) = "i" \/ (IsX(v) /\ XKind(v) = "i")
ExactCmp(u, v) == XNFCmp(XNF(u), XNF(v))                \* the exact order of two finite numbers

\* the encoding itself: a malformed x value is a harness error, reported as such
XWellFormed(v) == LET p == Pay(v) IN
    /\ p[1] \in {"i", "f"} /\ p[2] \in {-1, 1}
    /\ Len(p[4]) >= 1 /\ p[4][1] = 1 /\ p[4][Len(p[4])] = 1 /\ \A k \in 1..Len(p[4]) : p[4][k] \in {0, 1}
    /\ (p[1] = "i" => p[3] >= Len(p[4]) - 1)                                              \* an integer
    /\ (p[1] = "f" => Len(p[4]) <= 53 /\ p[3] <= 1023 /\ p[3] - (Len(p[4]) - 1) >= -1074)  \* a double
RECURSIVE XAllWellFormed(_)
XAllWellFormed(v) == CASE Tag(v) = "x" -> XWellFormed(v)
                       [] Tag(v) \in {"t", "l"} -> \A k \in 1..Len(Pay(v)) : XAllWellFormed(Pay(v)[k])
                       [] Tag(v) = "m" -> \A k \in 1..Len(Pay(v)) : XAllWellFormed(Pay(v)[k][2])
                       [] OTHER -> TRUE

\* ---- what the statement pins about single entries with such a number ------------------------
PinnedBig(u, v) == (IsX(u) \/ IsX(v)) /\ (IsFinNumber(u) \/ IsNaN(u)) /\ (IsFinNumber(v) \/ IsNaN(v))
CoarseTie(u, v) == IsIntKind(u) \/ IsIntKind(v)          \* named deviation, see the header
AllowedBig(u, v) == IF IsNaN(u) THEN {1} ELSE IF IsNaN(v) THEN {-1}
                    ELSE LET c == ExactCmp(u, v) IN
                         IF c = 0 THEN {0} ELSE IF CoarseTie(u, v) THEN {c, 0} ELSE {c}
NotPinnedBig(vals, M) == {<<i, j>> \in Idx(vals) \X Idx(vals) :
                            M[i][j] \in {-1, 0, 1} /\ PinnedBig(vals[i], vals[j]) /\ M[i][j] \notin AllowedBig(vals[i], vals[j])}

\* the clauses about single entries for one row i of the matrix (same bodies as Order!RaisedAt, NotAntisym,
\* NotPinned, restricted to pairs <<i, j>> so that a row costs n and not n^2 evaluations)
RowPairs(vals, i) == {<<i, j>> : j \in Idx(vals)}
RaisedRow(vals, M, i)    == {w \in RowPairs(vals, i) : M[w[1]][w[2]] \notin {-1, 0, 1}}
NotAntisymRow(vals, M, i) == {w \in RowPairs(vals, i) : M[w[1]][w[2]] \in {-1, 0, 1} /\ M[w[2]][w[1]] \in {-1, 0, 1} /\ M[w[1]][w[2]] # -M[w[2]][w[1]]}
NotPinnedRow(vals, M, i) == {w \in RowPairs(vals, i) : M[w[1]][w[2]] \in {-1, 0, 1} /\ Pinned(vals[w[1]], vals[w[2]]) /\ M[w[1]][w[2]] # PinnedValue(vals[w[1]], vals[w[2]])}
NotPinnedBigRow(vals, M, i) == {w \in RowPairs(vals, i) : M[w[1]][w[2]] \in {-1, 0, 1} /\ PinnedBig(vals[w[1]], vals[w[2]])
                                                           /\ M[w[1]][w[2]] \notin AllowedBig(vals[w[1]], vals[w[2]])}

\* ---- equality as a dict / set sees it (explicit value orders of dictable.sort) ---------------
SameForSetX(u, v) == IF IsX(u) \/ IsX(v)
                     THEN (Tag(u) \in {"i", "f", "x", "b"}) /\ (Tag(v) \in {"i", "f", "x", "b"}) /\ XNF(u) = XNF(v)
                     ELSE SameForSet(u, v)

\* ---- sorting a table on key columns -----------------------------------------------------------
\* cmp may tie two numbers that differ (CoarseTie).  A table may then be ordered by cmp itself (ties keep
\* the original order) or by cmp refined with the exact numeric order on exactly those ties - Python's own
\* order, which sort() uses when it can.  Both are "ordered by the key columns, ties keep original order";
\* the refinement is only ever consulted for a pair with an x number in it.
RefinedCmp(c, u, v) == IF c = 0 /\ (IsX(u) \/ IsX(v)) /\ IsFinNumber(u) /\ IsFinNumber(v) THEN ExactCmp(u, v) ELSE c

\* ---- the documented mechanism with the conversion to double made explicit --------------------
\* nearest double of a normal form (ints only: 53 significant bits, ties to even; exponent 1024 and more = no double)
XInc(b, e) == IF \A k \in 1..Len(b) : b[k] = 1 THEN <<e + 1, <<1>>>>
              ELSE LET z == CHOOSE k \in 1..Len(b) : b[k] = 0 /\ \A j \in (k + 1)..Len(b) : b[j] = 1
                   IN <<e, Append(SubSeq(b, 1, z - 1), 1)>>
XRound(nf) == IF Len(nf[3]) <= 53 THEN nf
              ELSE LET head == SubSeq(nf[3], 1, 53)
                       rest == SubSeq(nf[3], 54, Len(nf[3]))
                       up   == rest[1] = 1 /\ (Len(rest) > 1 \/ head[53] = 1)
                   IN IF up THEN LET r == XInc(head, nf[2]) IN <<nf[1], r[1], r[2]>>
                      ELSE <<nf[1], nf[2], XStrip(head)>>
AsDouble(v) == IF IsIntKind(v) THEN XRound(XNF(v)) ELSE XNF(v)
IsNumberX(v) == IsNumber(v) \/ IsX(v)
\* how = "double": every int is converted to the nearest double first, an int beyond the doubles ranks with the infinity
\*                 of its sign (the code before f59ec17);  "exact": numbers are compared exactly (the code today);
\*       "fast":   two ints exactly, everything else through the doubles - the variant that is NOT a preorder
XVal(how, v)   == IF how = "exact" THEN XNF(v) ELSE AsDouble(v)
XClass(how, v) == IF IsNaN(v) THEN 3 ELSE IF IsInf(v) THEN (IF Pay(v) > 0 THEN 2 ELSE 0)
                  ELSE LET d == XVal(how, v) IN IF how # "exact" /\ d[2] >= 1024 THEN (IF d[1] > 0 THEN 2 ELSE 0) ELSE 1
NumCmpX(how, u, v) == IF how = "fast" /\ IsIntKind(u) /\ IsIntKind(v) THEN ExactCmp(u, v)
                      ELSE IF XClass(how, u) # XClass(how, v) THEN Sign(XClass(how, u) - XClass(how, v))
                      ELSE IF XClass(how, u) # 1 THEN 0
                      ELSE XNFCmp(XVal(how, u), XVal(how, v))
TypeRankX(v) == IF IsX(v) THEN 4 ELSE TypeRank(v)
RECURSIVE CmpModelG(_, _, _), CmpArrG(_, _, _, _)
CmpArrG(how, xs, ys, k) == IF k > Len(xs) THEN 0
                           ELSE LET c == CmpModelG(how, xs[k], ys[k]) IN IF c # 0 THEN c ELSE CmpArrG(how, xs, ys, k + 1)
CmpModelG(how, u, v) ==
    IF PyIs(u, v) /\ ~IsNaN(u) THEN 0
    ELSE IF TypeRankX(u) # TypeRankX(v) THEN Sign(TypeRankX(u) - TypeRankX(v))
    ELSE IF Len0(u) # Len0(v) THEN Sign(Len0(u) - Len0(v))
    ELSE CASE Tag(u) = "n" -> 0
           [] Tag(u) = "b" -> Sign(Pay(u) - Pay(v))
           [] Tag(u) \in {"d", "date"} -> DateCmp(OrdDPay(u), OrdDPay(v))
           [] Tag(u) = "s" -> StrCmp(Pay(u), Pay(v))
           [] IsNumberX(u) -> NumCmpX(how, u, v)
           [] Tag(u) \in {"t", "l"} -> CmpArrG(how, Pay(u), Pay(v), 1)
           [] Tag(u) = "m" -> LET ku == [i \in 1..Len(Pay(u)) |-> VStr(Pay(u)[i][1])]
                                  kv == [i \in 1..Len(Pay(v)) |-> VStr(Pay(v)[i][1])]
                                  c  == CmpArrG(how, ku, kv, 1)
                              IN IF c # 0 THEN c
                                 ELSE CmpArrG(how, [i \in 1..Len(Pay(u)) |-> Pay(u)[i][2]], [i \in 1..Len(Pay(v)) |-> Pay(v)[i][2]], 1)
CmpModelX(u, v)     == CmpModelG("double", u, v)
CmpModelExact(u, v) == CmpModelG("exact", u, v)
CmpModelFast(u, v)  == CmpModelG("fast", u, v)
=============================================================================
