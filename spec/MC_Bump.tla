------------------------------- MODULE MC_Bump -------------------------------
(* Property C09 on the specification.  One state per (start day o, count n); the days come in    *)
(* blocks (one TLC behaviour per block and n, walking the block day by day):                     *)
(*   "b"  two weeks of start days       - business-day laws, closed formula = unit steps = count *)
(*   "f"  three start days x 4 times of day (inside the invariants) - fixed units are exact       *)
(*   "m"  every day of the years Years   - month / quarter / year units                           *)
(* The generator configurations (MC_Bump_gen*.cfg) enumerate (t, bump) with the instant the       *)
(* specification expects, for replay into the real dt_bump (S2C).                                 *)
EXTENDS Bump, TLC, Json
CONSTANTS Years,      \* years of the "m" blocks
          NMax,       \* n ranges over -NMax..NMax
          GenY, GenM0, GenM1  \* the generators' start days: first of month GenM0 to the last of month GenM1 (> 12 runs on) of year GenY

VARIABLES blk, o, n, done
vars == <<blk, o, n, done>>

NRange == (-NMax)..NMax
W0     == Ord(2000, 1, 3)                       \* a Monday
Blocks == {<<"b", W0, W0 + 13>>, <<"f", W0 + 4, W0 + 6>>} \cup {<<"m", Ord(y, 1, 1), Ord(y, 12, 31)>> : y \in Years}
NormDur(e) == <<e[1] + (e[2] \div 1000000), e[2] % 1000000>>      \* <<seconds, 0 <= microseconds < 10^6>>
TimesOfDay == {<<0, 0>>, <<1, 1>>, <<43200, 500000>>, <<86399, 999999>>}

Init == blk \in Blocks /\ o = blk[2] /\ n \in NRange /\ done = FALSE
Next == o < blk[3] /\ o' = o + 1 /\ UNCHANGED <<blk, n, done>>

IsB == blk[1] = "b"
IsF == blk[1] = "f"
IsM == blk[1] = "m"

\* ------------------------------------------------------------------------- business days ---
Anchor         == Weekday(W0) = 0
ClosedIsStep   == IsB => BDayClosed(o, n) = BDayStep(o, n)
StepIsCount    == IsB => BDayStep(o, n) = BDayLaw(o, n)
LandsOnWeekday == IsB => IsWeekday(BDayStep(o, n))
WeekendRolls   == IsB /\ ~IsWeekday(o) => /\ Weekday(RollFwd(o)) = 0 /\ RollFwd(o) - o \in {1, 2}
                                           /\ BDayStep(o, n) = BDayStep(RollFwd(o), n)
DirectionB     == IsB /\ IsWeekday(o) => Sign(BDayStep(o, n) - o) = Sign(n)
MonotoneB      == IsB => BDayStep(o, n) <= BDayStep(o + 1, n)
ComposeB       == IsB /\ IsWeekday(o) =>
                     \A b \in NRange : Sign(b) * Sign(n) >= 0 => BDayStep(BDayStep(o, n), b) = BDayStep(o, n + b)
RoundTripB     == IsB /\ IsWeekday(o) => BDayStep(BDayStep(o, n), -n) = o
\* the displacement depends on the weekday only (the abstraction bulk observations are grouped by)
PeriodicB      == IsB => BDayStep(o + 7, n) = BDayStep(o, n) + 7 /\ BDayStep(o + 146097, n) = BDayStep(o, n) + 146097

\* --------------------------------------------------------------------------- fixed units ---
FixedExact     == IsF => \A tod \in TimesOfDay : \A u \in FixedUnits :
                     LET t == <<o, tod[1], tod[2]>>  r == AddUnit(t, n, u)
                     IN  IsInstant(r) /\ NormDur(Elapsed(t, r)) = <<n * UnitSeconds(u), 0>>
IntTdExact     == IsF => \A tod \in TimesOfDay :
                     LET t == <<o, tod[1], tod[2]>> IN
                     /\ Apply(t, <<"int", n>>) = AddUnit(t, n, "d")
                     /\ Apply(t, <<"td", <<n, 0, 0>>>>) = AddUnit(t, n, "d")
                     /\ \A x \in {<<0, 1, 0>>, <<n, 3600, 250000>>, <<-1, 86399, 999999>>, <<0, 0, 1>>, <<-n, 0, 999999>>} :
                           LET r == Apply(t, <<"td", x>>) IN
                           IsInstant(r) /\ NormDur(Elapsed(t, r)) = <<x[1] * 86400 + x[2], x[3]>>
FixedRoundTrip == IsF => \A tod \in TimesOfDay : \A u \in FixedUnits :
                     LET t == <<o, tod[1], tod[2]>> IN
                     /\ AddUnit(AddUnit(t, n, u), -n, u) = t
                     /\ Apply(Apply(t, <<"int", n>>), <<"int", -n>>) = t
                     /\ Apply(Apply(t, <<"td", <<n, 3600, 250000>>>>), <<"td", <<-n - 1, 82799, 750000>>>>) = t
UnitsAgree     == IsF => \A tod \in TimesOfDay : LET t == <<o, tod[1], tod[2]>> IN
                     /\ AddUnit(t, n, "w") = AddUnit(t, 7 * n, "d")
                     /\ AddUnit(t, 24 * n, "h") = AddUnit(t, n, "d")
                     /\ AddUnit(t, 60 * n, "n") = AddUnit(t, n, "h")
                     /\ AddUnit(t, 60 * n, "s") = AddUnit(t, n, "n")
KeepsClockB    == IsF => \A tod \in TimesOfDay : AddUnit(<<o, tod[1], tod[2]>>, n, "b") = <<BDayStep(o, n), tod[1], tod[2]>>

\* --------------------------------------------------------------------------- month units ---
KSet == {n, 3 * n, 12 * n}
\* the closed-form calendar of Bump agrees with Civil (itself checked over the whole cycle by MC_Civil)
ClosedCivil    == IsM => /\ CivilOf(o) = YMD(o)
                         /\ LET c == CivilOf(o) IN OrdOf(c[1], c[2], c[3]) = o /\ Ord(c[1], c[2], c[3]) = o
MonthMechIsLaw == IsM => \A k \in KSet : AddMonthsMech(o, k) = AddMonths(o, k)
\* the statement, clause by clause, on civil dates
MonthKeepsDay  == IsM => \A k \in KSet :
                     LET c == CivilOf(o)  r == CivilOf(AddMonths(o, k))  ym == NormYM(c[1], c[2] + k) IN
                     IF c[3] <= DIM(ym[1], ym[2]) THEN r = <<ym[1], ym[2], c[3]>>
                     ELSE LET nx == NormYM(ym[1], ym[2] + 1) IN r = <<nx[1], nx[2], c[3] - DIM(ym[1], ym[2])>>
MonthShapeIsLaw == IsM => \A k \in KSet :
                     LET c == CivilOf(o)  r == CivilOf(AddMonths(o, k))  ym == NormYM(c[1], c[2] + k) IN
                     MonthShape(c[2], c[3], k, IsLeap(ym[1])) = <<r[1] - c[1], r[2], r[3]>>
YearIsTwelve   == IsM => AddYears(o, n) = AddMonths(o, 12 * n)
RoundTripM     == IsM /\ CivilOf(o)[3] <= 28 => \A k \in KSet : AddMonths(AddMonths(o, k), -k) = o
DirectionM     == IsM => \A k \in KSet : Sign(AddMonths(o, k) - o) = Sign(k)

\* ------------------------------------------------------------------------ generators -------
\* S2C: every (start, bump) of a window with the instant the specification expects
GenDays == LET a == NormYM(GenY, GenM0)  b == NormYM(GenY, GenM1) IN Ord(a[1], a[2], 1)..Ord(b[1], b[2], DIM(b[1], b[2]))

InitGenU == blk = <<"u", 0, 0>> /\ o \in GenDays /\ n \in NRange /\ done = FALSE
GenU == /\ done = FALSE /\ done' = TRUE /\ UNCHANGED <<blk, o, n>>
        /\ PrintT(ToJson([o |-> o, n |-> n,
                          unit |-> [u \in Units |-> AddUnit(Midnight(o), n, u)],
                          int  |-> Apply(Midnight(o), <<"int", n>>),
                          td   |-> Apply(Midnight(o), <<"td", <<n, 0, 0>>>>),
                          intraday |-> [i \in 1..2 |->
                               LET tod == IF i = 1 THEN <<34200, 0>> ELSE <<86399, 999999>>
                                   t == <<o, tod[1], tod[2]>> IN
                               [t |-> t, unit |-> [u \in FixedUnits \cup {"b"} |-> AddUnit(t, n, u)],
                                int |-> Apply(t, <<"int", n>>),
                                td  |-> [bump |-> <<n, 3600, 250000>>, out |-> Apply(t, <<"td", <<n, 3600, 250000>>>>)]]]]))

\* compound tenors: all ordered pairs over Parts, and a list of three-part tenors
Parts == <<<<1, "y">>, <<-3, "m">>, <<2, "d">>, <<-1, "b">>, <<7, "b">>, <<1, "q">>, <<-2, "w">>,
           <<36, "h">>, <<-90, "n">>, <<45, "s">>, <<1, "m">>, <<-1, "y">>, <<0, "b">>>>
Triples == << <<<<1, "y">>, <<-3, "m">>, <<2, "d">>>>,      \* '1y-3m2d'
              <<<<1, "m">>, <<1, "m">>, <<-2, "m">>>>,
              <<<<-1, "q">>, <<1, "b">>, <<12, "h">>>>,
              <<<<2, "d">>, <<-1, "b">>, <<1, "m">>>>,
              <<<<1, "b">>, <<1, "b">>, <<-2, "b">>>>,
              <<<<60, "m">>, <<-5, "y">>, <<1, "d">>>>,
              <<<<-1, "w">>, <<7, "d">>, <<1, "s">>>>,
              <<<<1, "y">>, <<1, "q">>, <<1, "m">>>>,
              <<<<30, "n">>, <<-1800, "s">>, <<5, "b">>>>,
              <<<<-1, "m">>, <<3, "d">>, <<-4, "h">>>> >>
Tenors == {<<Parts[i], Parts[j]>> : i, j \in 1..Len(Parts)} \cup {Triples[i] : i \in 1..Len(Triples)}
GenStarts == {Midnight(d) : d \in GenDays} \cup {<<d, 34200, 0>> : d \in GenDays}
\* (TLC variables are untyped: in this generator o holds the start instant and n the tenor)
InitGenC == /\ blk = <<"c", 0, 0>> /\ done = FALSE
            /\ o \in GenStarts /\ n \in Tenors /\ TenorInDomain(o, n)
GenC == /\ done = FALSE /\ done' = TRUE /\ UNCHANGED <<blk, o, n>>
        /\ PrintT(ToJson([t |-> o, tenor |-> n, out |-> ApplyTenor(o, n)]))
=============================================================================
