CONSTANTS Fam = "pivot"
          NameIds = {1, 3, 4, 6}
          Rows = 3
          Rich = FALSE
INIT Init
NEXT NextGen
INVARIANT ListbyLaw
INVARIANT UnlistLaw
INVARIANT GroupbyLaw
INVARIANT UngroupLaw
INVARIANT PivotLaw
INVARIANT UnpivotLaw
