\* S2C generator + clauses on every history: probe histories of 3 steps (call ; call ; first argument again | call ; edit ; call on a list)
CONSTANTS Variant = "code"
          MaxSteps = 3
          MaxLen = 4
          Shape = "probe"
          Scope = "quick"
          Emitting = TRUE
INIT Init
NEXT Next
INVARIANT ArgumentsUntouched
INVARIANT ResultIsLaw
INVARIANT NoMemory
INVARIANT SpellingIrrelevant
INVARIANT RealisationIrrelevant
INVARIANT ListIsCompound
