------------------------------ MODULE NamedDict ------------------------------
(* Extension X04-c: named_dict(name, keys, defaults, types, casts) of pyg_base - a generated dict  *)
(* class with declared keys, default values for the last keys, a cast and a check per key.          *)
(*                                                                                               *)
(* LAW LEVEL (from the docstring, the tests and the property statement):                           *)
(*  declaration   defaults may be given for the LAST keys only (else ValueError); a type or cast    *)
(*                that names nothing makes the declaration fail (NameError).                        *)
(*  construction  by position (argument i is key i), by keyword, or from ONE mapping; a declared   *)
(*                key that is not supplied takes its default; a declared key without value =>      *)
(*                ValueError; undeclared keywords are kept as extra items; then every cast is      *)
(*                applied (its exception propagates), then every check: a type must hold           *)
(*                (isinstance, else TypeError), a predicate must be truthy (else ValueError, its    *)
(*                own exception propagates).  The instance holds exactly these items, attribute k   *)
(*                = item k, and the mapping handed in is left as it was.                            *)
(*  afterwards    the instance is a plain dict: item / attribute assignment stores the value as    *)
(*                it is (no cast, no check), deletion removes the key (even a declared one);        *)
(*                building the class again from the instance applies the whole construction again.  *)
(* Where the statement is silent the specification admits every reasonable outcome (named          *)
(* deviations PosKwConflict, ExtraPositional, WhichFailure below).                                  *)
(*                                                                                               *)
(* Casts and checks are the USER'S functions: the law is parametric in them.  They are given as     *)
(* finite tables `fns` (value -> result or exception, plus what happens for any other value); the  *)
(* driver builds real callables from the very tables the specification prints.  Only Python's own   *)
(* int / str / float / isinstance are axiomatised here, on the value universe in use.               *)
EXTENDS Values, TLC

\* ---- dicts: sequences of <<key, value>> with distinct keys; equal as mappings ------------------------
DKeys(d)   == {d[i][1] : i \in DOMAIN d}
DHas(d, k) == \E i \in DOMAIN d : d[i][1] = k
DGet(d, k) == d[CHOOSE i \in DOMAIN d : d[i][1] = k][2]
DSet(d, k, v) == IF DHas(d, k) THEN [i \in DOMAIN d |-> IF d[i][1] = k THEN <<k, v>> ELSE d[i]]
                 ELSE Append(d, <<k, v>>)
DDel(d, k) == SelectSeq(d, LAMBDA kv : kv[1] # k)
RECURSIVE DUpdate(_, _)
DUpdate(d, e) == IF e = <<>> THEN d ELSE DUpdate(DSet(d, e[1][1], e[1][2]), Tail(e))
AsMap(d)   == {d[i] : i \in DOMAIN d}
Distinct(d) == \A i, j \in DOMAIN d : d[i][1] = d[j][1] => i = j
SeqSet(q) == {q[i] : i \in DOMAIN q}

\* ---- results of user functions: a value, or Raises(cls) = <<"exc", cls>> -------------------------------
IsExc(r) == r[1] = "exc"
Truthy(v) == CASE Tag(v) = "n" -> FALSE
               [] Tag(v) \in {"b", "i"} -> Pay(v) # 0
               [] Tag(v) = "s" -> Pay(v) # ""
               [] OTHER -> TRUE

HasFn(fns, name) == \E i \in DOMAIN fns : fns[i].name = name
FnOf(fns, name)  == fns[CHOOSE i \in DOMAIN fns : fns[i].name = name]
Apply(fns, name, v) == LET t == FnOf(fns, name) IN
                       IF \E i \in DOMAIN t.rows : t.rows[i][1] = v
                       THEN t.rows[CHOOSE i \in DOMAIN t.rows : t.rows[i][1] = v][2]
                       ELSE t.other

\* ---- Python's own: int(), str(), float(), isinstance ----------------------------------------------------
\* decimal strings and the integers they spell (the universe in use)
Numerals == {<<"0", 0>>, <<"1", 1>>, <<"2", 2>>, <<"3", 3>>, <<"7", 7>>, <<"10", 10>>}
SpellsInt(s) == \E n \in Numerals : n[1] = s
IntOf(s) == (CHOOSE n \in Numerals : n[1] = s)[2]
Spelled(k) == \E n \in Numerals : n[2] = k
StrOf(k) == (CHOOSE n \in Numerals : n[2] = k)[1]
BuiltinCasts == {"int", "str", "float"}
BuiltinCast(name, v) ==
    CASE name = "int" ->
            (CASE Tag(v) = "i" -> v
               [] Tag(v) = "b" -> VInt(Pay(v))
               [] Tag(v) = "s" -> IF SpellsInt(Pay(v)) THEN VInt(IntOf(Pay(v))) ELSE Raises("ValueError")
               [] OTHER -> Raises("TypeError"))
      [] name = "float" ->
            (CASE Tag(v) \in {"i", "b"} -> VFlt(Pay(v), 1)
               [] Tag(v) = "f" -> v
               [] Tag(v) = "s" -> IF SpellsInt(Pay(v)) THEN VFlt(IntOf(Pay(v)), 1) ELSE Raises("ValueError")
               [] OTHER -> Raises("TypeError"))
      [] name = "str" ->
            (CASE Tag(v) = "s" -> v
               [] Tag(v) = "n" -> VStr("None")
               [] Tag(v) = "i" /\ Spelled(Pay(v)) -> VStr(StrOf(Pay(v)))
               [] OTHER -> <<"unspecified", 0>>)            \* outside the universe: the driver never asks
BuiltinTypes == {"int", "str", "float", "datetime.datetime"}
InstanceOf(name, v) == CASE name = "int" -> Tag(v) \in {"i", "b"}
                         [] name = "str" -> Tag(v) = "s"
                         [] name = "float" -> Tag(v) \in {"f", "nan", "inf"}
                         [] name = "datetime.datetime" -> Tag(v) = "d"

Known(fns, name) == name \in BuiltinCasts \/ name \in BuiltinTypes \/ HasFn(fns, name)
CastResult(fns, name, v) == IF name \in BuiltinCasts THEN BuiltinCast(name, v) ELSE Apply(fns, name, v)
Okay == <<"ok", "">>
CheckResult(fns, name, v) ==
    IF name \in BuiltinTypes THEN (IF InstanceOf(name, v) THEN Okay ELSE Raises("TypeError"))
    ELSE LET r == Apply(fns, name, v) IN
         IF IsExc(r) THEN r ELSE IF Truthy(r) THEN Okay ELSE Raises("ValueError")

\* ---- outcomes ----------------------------------------------------------------------------------------------
Exc(cls)    == [kind |-> "exc", cls |-> cls, items |-> {}]
Inst(items) == [kind |-> "inst", cls |-> "", items |-> items]
ExcOf(r)    == Exc(r[2])

\* ---- the declaration: decl = [keys, defaults, types, casts] (the last three: dicts) -------------------------
LastKeys(keys, n) == {keys[i] : i \in {i \in DOMAIN keys : i > Len(keys) - n}}
DeclOutcome(fns, decl) ==
    IF Len(decl.defaults) > 0 /\ DKeys(decl.defaults) # LastKeys(decl.keys, Len(decl.defaults)) THEN "ValueError"
    ELSE IF \E i \in DOMAIN decl.types : ~Known(fns, decl.types[i][2]) THEN "NameError"
    ELSE IF \E i \in DOMAIN decl.casts : ~Known(fns, decl.casts[i][2]) THEN "NameError"
    ELSE "class"
\* the domain of the construction laws: a declaration that succeeds, casts and checks on declared keys
DeclInDomain(fns, decl) == /\ DeclOutcome(fns, decl) = "class"
                           /\ DKeys(decl.types) \subseteq SeqSet(decl.keys)
                           /\ DKeys(decl.casts) \subseteq SeqSet(decl.keys)

\* ---- construction ---------------------------------------------------------------------------------------------
\* everything after the values have been assigned to names: defaults, missing keys, casts, checks.
\* WhichFailure (named deviation): when several casts (or several checks) fail, the statement does not say
\* whose exception is seen: any of them is admitted.  Casts come before checks.
Build(fns, decl, sup) ==
    LET full == DUpdate(decl.defaults, sup) IN
    IF SeqSet(decl.keys) \ DKeys(full) # {} THEN {Exc("ValueError")}
    ELSE LET cast(i) == CastResult(fns, decl.casts[i][2], DGet(full, decl.casts[i][1]))
             castfail == {cast(i) : i \in {i \in DOMAIN decl.casts : IsExc(cast(i))}} IN
         IF castfail # {} THEN {ExcOf(r) : r \in castfail}
         ELSE LET casted(k) == \E i \in DOMAIN decl.casts : decl.casts[i][1] = k
                  full2 == [i \in DOMAIN full |-> IF casted(full[i][1])
                                                 THEN <<full[i][1], CastResult(fns, DGet(decl.casts, full[i][1]), full[i][2])>>
                                                 ELSE full[i]]
                  check(i) == CheckResult(fns, decl.types[i][2], DGet(full2, decl.types[i][1]))
                  checkfail == {check(i) : i \in {i \in DOMAIN decl.types : check(i) # Okay}} IN
              IF checkfail # {} THEN {ExcOf(r) : r \in checkfail}
              ELSE {Inst(AsMap(full2))}

\* call = [form |-> "args", pos, kw]  or  [form |-> "mapping", pos |-> <<>>, kw]  (kw: a dict)
Min2(a, b) == IF a < b THEN a ELSE b
PosPart(decl, call) == [i \in 1..Min2(Len(call.pos), Len(decl.keys)) |-> <<decl.keys[i], call.pos[i]>>]
\* PosKwConflict (named deviation): a key given both by position and by keyword - either value, or TypeError
PosKwConflict(decl, call)   == call.form = "args" /\ \E i \in DOMAIN PosPart(decl, call) : DHas(call.kw, decl.keys[i])
\* ExtraPositional (named deviation): more positional arguments than keys - ignored, or TypeError
ExtraPositional(decl, call) == call.form = "args" /\ Len(call.pos) > Len(decl.keys)
Outcomes(fns, decl, call) ==
    IF call.form = "mapping" THEN Build(fns, decl, call.kw)
    ELSE Build(fns, decl, DUpdate(call.kw, PosPart(decl, call)))
         \cup (IF PosKwConflict(decl, call) THEN Build(fns, decl, DUpdate(PosPart(decl, call), call.kw)) \cup {Exc("TypeError")} ELSE {})
         \cup (IF ExtraPositional(decl, call) THEN {Exc("TypeError")} ELSE {})

\* ---- mechanism: the generated __init__ as it is written --------------------------------------------------------
\* positional values are zipped onto the keys and override the keywords, what is beyond the keys is dropped;
\* defaults fill what is not there; casts run in the order of the casts dict, the first failure is seen;
\* then the checks in the order of the types dict
RECURSIVE CastLoop(_, _, _, _)
CastLoop(fns, decl, d, i) ==
    IF i > Len(decl.casts) THEN [ok |-> TRUE, d |-> d, exc |-> ""]
    ELSE LET r == CastResult(fns, decl.casts[i][2], DGet(d, decl.casts[i][1])) IN
         IF IsExc(r) THEN [ok |-> FALSE, d |-> d, exc |-> r[2]]
         ELSE CastLoop(fns, decl, DSet(d, decl.casts[i][1], r), i + 1)
RECURSIVE CheckLoop(_, _, _, _)
CheckLoop(fns, decl, d, i) ==
    IF i > Len(decl.types) THEN ""
    ELSE LET r == CheckResult(fns, decl.types[i][2], DGet(d, decl.types[i][1])) IN
         IF r # Okay THEN r[2] ELSE CheckLoop(fns, decl, d, i + 1)
MechOutcome(fns, decl, call) ==
    LET sup  == IF call.form = "mapping" THEN call.kw ELSE DUpdate(call.kw, PosPart(decl, call))
        full == DUpdate(sup, SelectSeq(decl.defaults, LAMBDA kv : ~DHas(sup, kv[1]))) IN
    IF SeqSet(decl.keys) \ DKeys(full) # {} THEN Exc("ValueError")
    ELSE LET c == CastLoop(fns, decl, full, 1) IN
         IF ~c.ok THEN Exc(c.exc)
         ELSE LET e == CheckLoop(fns, decl, c.d, 1) IN
              IF e # "" THEN Exc(e) ELSE Inst(AsMap(c.d))

\* ---- the instance afterwards: a plain dict ------------------------------------------------------------------------
\* state: items (a dict).  Each operation yields [items' , outcome]
SetItem(items, k, v) == [items |-> DSet(items, k, v), out |-> Inst(AsMap(DSet(items, k, v)))]
DelItem(items, k)    == IF DHas(items, k) THEN [items |-> DDel(items, k), out |-> Inst(AsMap(DDel(items, k)))]
                        ELSE [items |-> items, out |-> Exc("KeyError")]
\* building the class again from the instance: the whole construction, from the mapping of its items
Rebuilds(fns, decl, items) == Outcomes(fns, decl, [form |-> "mapping", pos |-> <<>>, kw |-> items])
=============================================================================
