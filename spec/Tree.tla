-------------------------------- MODULE Tree --------------------------------
(* Property C15: trees of nested dicts.                                                        *)
(*                                                                                             *)
(* A tree is a tagged value in the style of Values.tla:                                        *)
(*    a leaf    is any value of Values.tla whose tag is not "m"  (None, int, str, list ...)    *)
(*    a branch  is <<"m", f>> with f a function  key (string) -> tree                          *)
(* On the wire (JSON) a branch is ["m", {key: subtree, ...}], which the Json module reads as   *)
(* exactly this pair; the empty branch is written ["m", []] by TLC.                            *)
(* The property speaks of trees "with non-empty branches": only the root may be empty.         *)
(*                                                                                             *)
(* Law level (written from the property statement):                                            *)
(*    TItems(t)         the set of <<path, leaf>> pairs of t                                   *)
(*    TGet(t, path)     the node at the end of path                                            *)
(*    FromItems(S)      the tree whose items are S                                             *)
(*    Merge(t, u, ign)  recursive merge: u's leaves override (unless ignored and present),     *)
(*                      branches on both sides merge, everything else of t is kept             *)
(*    ToTable / FromTable for path patterns                                                    *)
(* Mechanism level (shaped like the code, compared with the law level inside TLC only):        *)
(*    ItemsSeq/KeysSeq/ValuesSeq  three separate depth-first recursions                        *)
(*    Insert            path insertion creating branches on demand (_tree_setitem)             *)
(*    MergeByInsertion  flatten(update) inserted item by item                                  *)
(*    Match             the recursive pattern matcher of tree_to_table                         *)
EXTENDS Values, SequencesExt

IsBranch(t) == Tag(t) = "m"
IsLeaf(t)   == Tag(t) # "m"
Kids(t)     == Pay(t)
KeysOf(t)   == DOMAIN Pay(t)
Branch(f)   == <<"m", f>>
EmptyTree   == Branch(<<>>)

\* ------------------------------------------------------------------------------------------
\* The universe of trees of bounded depth
\* ------------------------------------------------------------------------------------------
RECURSIVE TreeU(_, _, _)
TreeU(Key, Leaf, d) ==
    IF d = 0 THEN Leaf
    ELSE LET Sub == TreeU(Key, Leaf, d - 1)
         IN  Leaf \cup {Branch(f) : f \in UNION {[S -> Sub] : S \in (SUBSET Key) \ {{}}}}
\* what the public functions take: a dict, possibly the empty one
RootU(Key, Leaf, d) == {EmptyTree} \cup {t \in TreeU(Key, Leaf, d) : IsBranch(t)}

RECURSIVE NonEmptyBelow(_)
NonEmptyBelow(t) == IsLeaf(t) \/ (KeysOf(t) # {} /\ \A k \in KeysOf(t) : NonEmptyBelow(Kids(t)[k]))
\* the domain of the property: a dict whose nested branches are all non-empty
WellFormed(t) == IsBranch(t) /\ \A k \in KeysOf(t) : NonEmptyBelow(Kids(t)[k])

\* ------------------------------------------------------------------------------------------
\* Flatten / rebuild (law level)
\* ------------------------------------------------------------------------------------------
RECURSIVE TItems(_)
TItems(t) == IF IsLeaf(t) THEN {<<<<>>, t>>}
             ELSE UNION {{<<<<k>> \o it[1], it[2]>> : it \in TItems(Kids(t)[k])} : k \in KeysOf(t)}
TPaths(t)  == {it[1] : it \in TItems(t)}

Absent == <<"absent", 0>>
RECURSIVE TGet(_, _)
TGet(t, path) == IF path = <<>> THEN t
                 ELSE IF IsBranch(t) /\ Head(path) \in KeysOf(t) THEN TGet(Kids(t)[Head(path)], Tail(path))
                 ELSE Absent
Present(t, path) == TGet(t, path) # Absent

Conflicts(p, q) == IsPrefix(p, q) \/ IsPrefix(q, p)
\* a set of items that can be the items of a tree: no path is a prefix of (or equal to) another
PrefixFree(S) == \A x \in S, y \in S : x # y => ~Conflicts(x[1], y[1])

RECURSIVE FromItems(_)
FromItems(S) ==
    IF \E it \in S : it[1] = <<>> THEN (CHOOSE it \in S : it[1] = <<>>)[2]
    ELSE Branch([k \in {it[1][1] : it \in S} |->
                    FromItems({<<Tail(it[1]), it[2]>> : it \in {x \in S : x[1][1] = k}})])

\* ------------------------------------------------------------------------------------------
\* Merge (law level).  ign is a set of leaves.  Membership in an ignore list is decided by the
\* code with its own eq(); the leaf universes used here never mix bool/int/float, so it is
\* plain equality.
\* ------------------------------------------------------------------------------------------
RECURSIVE Merge(_, _, _)
Merge(t, u, ign) ==
    IF IsLeaf(u) THEN (IF u \in ign THEN t ELSE u)      \* both sides present: u's leaf overrides unless ignored
    ELSE IF IsLeaf(t) THEN u                             \* leaf-vs-branch conflict: u overrides
    ELSE Branch([k \in KeysOf(t) \cup KeysOf(u) |->
                    IF k \notin KeysOf(u) THEN Kids(t)[k]                 \* everything else of t is kept
                    ELSE IF k \notin KeysOf(t) THEN Kids(u)[k]            \* new in u (ignored leaves included: nothing to protect)
                    ELSE Merge(Kids(t)[k], Kids(u)[k], ign)])

\* the same on items: u's items, less the ignored ones that would hit something present in t,
\* override every item of t they conflict with
Effective(t, J, ign) == {jt \in J : ~(jt[2] \in ign /\ Present(t, jt[1]))}
OverridingUnion(I, J) == J \cup {it \in I : \A jt \in J : ~Conflicts(it[1], jt[1])}

\* a tree holding one leaf at the end of a (non-empty) path
RECURSIVE Single(_, _)
Single(path, leaf) == IF path = <<>> THEN leaf ELSE Branch([k \in {Head(path)} |-> Single(Tail(path), leaf)])

\* ------------------------------------------------------------------------------------------
\* Mechanism level: the code's recursions and its insertion loop
\* ------------------------------------------------------------------------------------------
\* depth-first walk in the order `ord` of the keys (a sequence containing every key once);
\* tree_items, tree_keys and tree_values are three separate recursions of this shape
RECURSIVE ItemsSeq(_, _)
ItemsSeq(t, ord) ==
    IF IsLeaf(t) THEN <<<<<<>>, t>>>>
    ELSE FoldLeft(LAMBDA acc, k : IF k \in KeysOf(t)
                                    THEN LET sub == ItemsSeq(Kids(t)[k], ord)
                                         IN  acc \o [i \in 1..Len(sub) |-> <<<<k>> \o sub[i][1], sub[i][2]>>]
                                    ELSE acc, <<>>, ord)
RECURSIVE KeysSeq(_, _)
KeysSeq(t, ord) ==
    IF IsLeaf(t) THEN <<<<>>>>
    ELSE FoldLeft(LAMBDA acc, k : IF k \in KeysOf(t)
                                    THEN LET sub == KeysSeq(Kids(t)[k], ord)
                                         IN  acc \o [i \in 1..Len(sub) |-> <<k>> \o sub[i]]
                                    ELSE acc, <<>>, ord)
RECURSIVE ValuesSeq(_, _)
ValuesSeq(t, ord) ==
    IF IsLeaf(t) THEN <<t>>
    ELSE FoldLeft(LAMBDA acc, k : IF k \in KeysOf(t) THEN acc \o ValuesSeq(Kids(t)[k], ord) ELSE acc, <<>>, ord)

\* _tree_setitem: walk down path[1..n-1] creating (or replacing a leaf by) an empty branch on
\* demand, then write the leaf unless it is ignored and the last key is already there
RECURSIVE Insert(_, _, _, _)
Insert(t, path, leaf, ign) ==
    LET k == Head(path)  has == k \in KeysOf(t) IN
    IF Len(path) = 1
    THEN IF has /\ leaf \in ign THEN t
         ELSE Branch([j \in KeysOf(t) \cup {k} |-> IF j = k THEN leaf ELSE Kids(t)[j]])
    ELSE LET sub == IF has /\ IsBranch(Kids(t)[k]) THEN Kids(t)[k] ELSE EmptyTree
         IN  Branch([j \in KeysOf(t) \cup {k} |-> IF j = k THEN Insert(sub, Tail(path), leaf, ign) ELSE Kids(t)[j]])

RECURSIVE InsertAll(_, _, _)
InsertAll(t, items, ign) == IF items = <<>> THEN t
                            ELSE InsertAll(Insert(t, Head(items)[1], Head(items)[2], ign), Tail(items), ign)
\* tree_update = flatten(update) inserted into a copy of tree
MergeByInsertion(t, u, ign, ord) == InsertAll(t, ItemsSeq(u, ord), ign)

\* ------------------------------------------------------------------------------------------
\* Trees as DAGs of dict OBJECTS (aliasing).  Python dicts are objects: the same dict can be
\* the value of two keys, sit at two depths, or hang in t and in u at once.  A heap is a
\* sequence of nodes (object i = objs[i]); a node maps a key to a cell; a cell is a leaf or
\* <<"ref", j>> = "the object j".  The property statement speaks of trees: the law level sees
\* the UNFOLDED tree of an object, and "neither t nor u (at any depth) is modified" speaks of
\* every object reachable from the operands (each node must be what it was, references included).
\* ------------------------------------------------------------------------------------------
IsRefCell(c) == c[1] = "ref"
RefCell(j)   == <<"ref", j>>
RefsOf(objs, i) == {objs[i][k][2] : k \in {x \in DOMAIN objs[i] : IsRefCell(objs[i][x])}}
\* references point to later objects only: the heap is acyclic and Unfold terminates
Acyclic(objs) == \A i \in 1..Len(objs) : RefsOf(objs, i) \subseteq (i + 1)..Len(objs)
RECURSIVE Unfold(_, _)
Unfold(objs, i) == Branch([k \in DOMAIN objs[i] |-> IF IsRefCell(objs[i][k]) THEN Unfold(objs, objs[i][k][2]) ELSE objs[i][k]])
RECURSIVE Reach(_, _)
Reach(objs, i) == {i} \cup UNION {Reach(objs, j) : j \in RefsOf(objs, i)}
\* the domain: acyclic, and below the roots every branch is non-empty (an empty dict may only be a root that hangs nowhere)
ReachAll(objs, roots) == UNION {Reach(objs, r) : r \in roots}
HeapOk(objs, roots) == /\ roots \subseteq 1..Len(objs) /\ Acyclic(objs)
                       /\ \A i \in ReachAll(objs, roots) : \A j \in RefsOf(objs, i) : DOMAIN objs[j] # {}
\* no garbage: every object of the heap is reachable from a root
AllReachable(objs, roots) == ReachAll(objs, roots) = 1..Len(objs)
\* an object that hangs in more than one place (or is both operands): what makes a heap more than a tree
RECURSIVE Occurrences(_, _, _)
Occurrences(objs, i, x) == (IF i = x THEN 1 ELSE 0)
                           + FoldSeq(LAMBDA k, n : n + (IF IsRefCell(objs[i][k]) THEN Occurrences(objs, objs[i][k][2], x) ELSE 0), 0, SetToSeq(DOMAIN objs[i]))
Shared(objs, roots) == \E x \in 1..Len(objs) : FoldSeq(LAMBDA r, n : n + Occurrences(objs, r, x), 0, SetToSeq(roots)) > 1

\* ------------------------------------------------------------------------------------------
\* Path patterns:  a pattern is a sequence of parts  <<"lit", s>>  |  <<"var", name>>
\* (written 's' and '%name' and joined by '/' in the code).  A row assigns a value to every
\* variable of the pattern.  A row instantiates the pattern to a sequence of values; all but
\* the last are the keys of a path, the last is the leaf.
\* ------------------------------------------------------------------------------------------
VarsOf(pat)  == {pat[i][2] : i \in {j \in 1..Len(pat) : pat[j][1] = "var"}}
Inst(pat, r) == [i \in 1..Len(pat) |-> IF pat[i][1] = "var" THEN r[pat[i][2]] ELSE VStr(pat[i][2])]
DistinctVars(pat) == \A i, j \in 1..Len(pat) : (pat[i][1] = "var" /\ pat[j][1] = "var" /\ i # j) => pat[i][2] # pat[j][2]

\* does the tree hold the instantiated pattern s?  s[1..n-1] must be the keys of a path of t
\* that ends in the leaf s[n] ...
AllKeys(s)   == \A i \in 1..Len(s) : IsStr(s[i])
PathOf(s)    == [i \in 1..(Len(s) - 1) |-> Pay(s[i])]
HoldsLeaf(t, s) == AllKeys(Front(s)) /\ TGet(t, PathOf(s)) = Last(s)
\* ... named deviation MatchesBranchKey: when the tree is deeper than the pattern the last part
\* of the pattern is matched against the KEYS of the branch found there (tree_to_table(school,
\* 'teachers/%subject') lists the subjects).  The property statement speaks only of the inverse
\* on full paths; this reading of shorter patterns is the documented behaviour and is accepted.
MatchesBranchKey(t, s) == /\ AllKeys(s)
                          /\ LET node == TGet(t, PathOf(s)) IN
                                node # Absent /\ IsBranch(node) /\ Pay(Last(s)) \in KeysOf(node)
Holds(t, s) == HoldsLeaf(t, s) \/ MatchesBranchKey(t, s)

\* the values a variable can possibly take: keys of t (as strings) and leaves of t
RECURSIVE AllKeysIn(_)
AllKeysIn(t) == IF IsLeaf(t) THEN {} ELSE KeysOf(t) \cup UNION {AllKeysIn(Kids(t)[k]) : k \in KeysOf(t)}
Atoms(t) == {VStr(k) : k \in AllKeysIn(t)} \cup {it[2] : it \in TItems(t)}

\* law level: the rows whose instantiation the tree holds
ToTable(t, pat) == {r \in [VarsOf(pat) -> Atoms(t)] : Holds(t, Inst(pat, r))}
ToTableExact(t, pat) == {r \in [VarsOf(pat) -> Atoms(t)] : HoldsLeaf(t, Inst(pat, r))}

\* the same set without enumerating assignments: the sequences of n values the tree holds,
\* cut down to those that agree with the literals of the pattern, read back as rows
HeldSeqs(t, n) ==
    {[i \in 1..n |-> IF i < n THEN VStr(it[1][i]) ELSE it[2]] : it \in {x \in TItems(t) : Len(x[1]) = n - 1}}
    \cup {[i \in 1..n |-> VStr(q[i])] : q \in {x \in TPaths(t) : Len(x) >= n}}                \* MatchesBranchKey
Fits(pat, s)  == \A i \in 1..Len(pat) : pat[i][1] = "lit" => s[i] = VStr(pat[i][2])
RowOf(pat, s) == [v \in VarsOf(pat) |-> s[CHOOSE i \in 1..Len(pat) : pat[i] = <<"var", v>>]]
ToTableFast(t, pat) == {RowOf(pat, s) : s \in {c \in HeldSeqs(t, Len(pat)) : Fits(pat, c)}}

\* the item (path, leaf) a row stands for, and the tree of a set of rows
RowItem(pat, r)     == LET s == Inst(pat, r) IN <<PathOf(s), Last(s)>>
RowOk(pat, r)       == Len(pat) >= 2 /\ AllKeys(Front(Inst(pat, r)))
UniquePaths(pat, R) == \A r1 \in R, r2 \in R : r1 # r2 => RowItem(pat, r1)[1] # RowItem(pat, r2)[1]
FromTable(R, pat)   == IF R = {} THEN EmptyTree ELSE FromItems({RowItem(pat, r) : r \in R})

\* a tree is shaped like the pattern when each of its items is the item of some row
Shaped(t, pat) == \A it \in TItems(t) : \E r \in ToTableExact(t, pat) : RowItem(pat, r) = it

\* mechanism: the recursive matcher of tree_to_table
Ext(r, v, x) == [y \in DOMAIN r \cup {v} |-> IF y = v THEN x ELSE r[y]]
RECURSIVE Match(_, _)
Match(t, pat) ==
    IF pat = <<>> THEN {<<>>}
    ELSE LET p == Head(pat)  rest == Tail(pat) IN
         IF IsBranch(t)
         THEN IF p[1] = "var"
              THEN UNION {{Ext(r, p[2], VStr(k)) : r \in Match(Kids(t)[k], rest)} : k \in KeysOf(t)}
              ELSE IF p[2] \in KeysOf(t) THEN Match(Kids(t)[p[2]], rest) ELSE {}
         ELSE IF rest # <<>> THEN {}
              ELSE IF p[1] = "var" THEN {[y \in {p[2]} |-> t]}
              ELSE IF t = VStr(p[2]) THEN {<<>>} ELSE {}

\* ------------------------------------------------------------------------------------------
\* SESSIONS: a caller who keeps its objects and goes on working with them.  The statement is
\* about every single call; a session turns that into: "a call has no memory and owns nothing
\* of the caller".  The caller owns
\*    objs    the heap of dict objects (as above).  A cell may also be an INLINE pure tree
\*            <<"m", f>>: a nested dict nobody else holds.  The RESULT of tree_update / Dict +
\*            dict / table_to_tree is a tree of its own at every depth: it joins the heap as ONE
\*            new object whose nested branches are inline - no cell of a result is a reference
\*            to an object the caller already had.
\*    paths   path objects [kind |-> "list" | "tuple" | "dotted", keys |-> <<k1, .., kn>>]:
\*            ['a', 'b'], ('a', 'b'), 'a.b' - the object handed to tree_getitem / tree_get /
\*            tree_setitem, kept by the caller and handed to the next call
\*    tabs    table objects [kind |-> "dict" | "list" | "dictable", rows |-> <<row, ..>>]: the
\*            spellings of the table argument of table_to_tree: ONE row as a dict, a list of
\*            row dicts, a dictable of rows
\* A step is a record with a field `kind`:
\*    public calls  get (tree_getitem / tree_get), setitem (tree_setitem, in place by design),
\*                  update, items, to_table, from_table
\*    the caller's own actions between calls  edit (obj[key] = cell), setpath (path[:] = keys on
\*                  a list path), setrow (row[var] = value in a row dict of a dict / list table)
\* SessOk = the step is inside the quantifier's domain, SessOut = what the call returns,
\* SessNext = what the caller's objects hold afterwards: for every call other than setitem the
\* pools are what they were, and the heap is what it was plus the result (update, from_table).
\* ------------------------------------------------------------------------------------------
SeqSet(q) == {q[i] : i \in 1..Len(q)}
InlineCells(objs) == UNION {{objs[i][x] : x \in {y \in DOMAIN objs[i] : IsBranch(objs[i][y])}} : i \in 1..Len(objs)}
InlineOk(objs) == \A cell \in InlineCells(objs) : KeysOf(cell) # {} /\ NonEmptyBelow(cell)
SessHeapOk(objs) == /\ Acyclic(objs) /\ InlineOk(objs)
                    /\ \A i \in 1..Len(objs) : \A j \in RefsOf(objs, i) : DOMAIN objs[j] # {}
\* tree_setitem walks down all keys but the last: the walk stays inside the object it was given
\* (what writing through a REFERENCE to another of the caller's dicts means for the trees that
\* share it is not pinned down by the statement)
RECURSIVE NoRefOnWalk(_, _)
NoRefOnWalk(f, q) == IF q = <<>> \/ Head(q) \notin DOMAIN f THEN TRUE
                     ELSE LET c == f[Head(q)] IN
                          IF IsRefCell(c) THEN FALSE ELSE IF IsBranch(c) THEN NoRefOnWalk(Kids(c), Tail(q)) ELSE TRUE
TableRows(tb) == SeqSet(tb.rows)
TableOk(tb, pat) == /\ Len(pat) >= 2 /\ DistinctVars(pat)
                    /\ Cardinality(TableRows(tb)) = Len(tb.rows)
                    /\ (tb.kind = "dict" => Len(tb.rows) = 1)
                    /\ \A r \in TableRows(tb) : DOMAIN r = VarsOf(pat) /\ RowOk(pat, r)
                    /\ UniquePaths(pat, TableRows(tb))

SessOk(s, c) ==
    LET no == Len(s.objs)  np == Len(s.paths)  nt == Len(s.tabs) IN
    CASE c.kind = "get"     -> /\ c.rt \in 1..no /\ c.p \in 1..np
                               /\ s.paths[c.p].keys \in TPaths(Unfold(s.objs, c.rt))
      [] c.kind = "setitem" -> /\ c.rt \in 1..no /\ c.p \in 1..np /\ s.paths[c.p].keys # <<>>
                               /\ NoRefOnWalk(s.objs[c.rt], Front(s.paths[c.p].keys))
      [] c.kind = "update"  -> /\ c.rt \in 1..no /\ c.ru \in 1..no
                               /\ WellFormed(Unfold(s.objs, c.rt)) /\ WellFormed(Unfold(s.objs, c.ru))
      [] c.kind = "items"   -> c.rt \in 1..no /\ WellFormed(Unfold(s.objs, c.rt))
      [] c.kind = "to_table" -> /\ c.rt \in 1..no /\ WellFormed(Unfold(s.objs, c.rt))
                                /\ DistinctVars(c.pat) /\ VarsOf(c.pat) # {}
      [] c.kind = "from_table" -> c.tb \in 1..nt /\ TableOk(s.tabs[c.tb], c.pat)
      [] c.kind = "edit"    -> /\ c.obj \in 1..no
                               /\ IsRefCell(c.cell) => (c.cell[2] \in (c.obj + 1)..no /\ DOMAIN s.objs[c.cell[2]] # {})
      [] c.kind = "setpath" -> c.p \in 1..np /\ s.paths[c.p].kind = "list"
      [] c.kind = "setrow"  -> /\ c.tb \in 1..nt /\ s.tabs[c.tb].kind \in {"dict", "list"}
                               /\ c.row \in 1..Len(s.tabs[c.tb].rows) /\ c.var \in DOMAIN s.tabs[c.tb].rows[c.row]
      [] OTHER -> FALSE

\* what the call returns (the caller's own actions return nothing: Nil)
SessNil == <<"nil", 0>>
SessOut(s, c) ==
    CASE c.kind = "get"     -> TGet(Unfold(s.objs, c.rt), s.paths[c.p].keys)
      [] c.kind = "setitem" -> None
      [] c.kind = "update"  -> Merge(Unfold(s.objs, c.rt), Unfold(s.objs, c.ru), SeqSet(c.ign))
      [] c.kind = "items"   -> Unfold(s.objs, c.rt)      \* the tree whose TItems are listed (and which items_to_tree rebuilds)
      [] c.kind = "to_table" -> ToTableFast(Unfold(s.objs, c.rt), c.pat)
      [] c.kind = "from_table" -> FromTable(TableRows(s.tabs[c.tb]), c.pat)
      [] OTHER -> SessNil

PutNode(objs, i, f) == [objs EXCEPT ![i] = f]
SessNext(s, c) ==
    CASE c.kind \in {"update", "from_table"} -> [s EXCEPT !.objs = Append(s.objs, Kids(SessOut(s, c)))]
      [] c.kind = "setitem" -> [s EXCEPT !.objs = PutNode(s.objs, c.rt,
                                   Kids(Insert(Branch(s.objs[c.rt]), s.paths[c.p].keys, c.leaf, SeqSet(c.ign))))]
      [] c.kind = "edit"    -> [s EXCEPT !.objs = PutNode(s.objs, c.obj,
                                   [x \in DOMAIN s.objs[c.obj] \cup {c.key} |-> IF x = c.key THEN c.cell ELSE s.objs[c.obj][x]])]
      [] c.kind = "setpath" -> [s EXCEPT !.paths = [s.paths EXCEPT ![c.p] = [kind |-> "list", keys |-> c.keys]]]
      [] c.kind = "setrow"  -> [s EXCEPT !.tabs = [s.tabs EXCEPT ![c.tb] =
                                   [kind |-> s.tabs[c.tb].kind,
                                    rows |-> [s.tabs[c.tb].rows EXCEPT ![c.row] =
                                                 [v \in DOMAIN s.tabs[c.tb].rows[c.row] |-> IF v = c.var THEN c.val ELSE s.tabs[c.tb].rows[c.row][v]]]]]]
      [] OTHER -> s
=============================================================================
