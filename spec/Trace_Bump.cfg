INIT Init
NEXT Next
