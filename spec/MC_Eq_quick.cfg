CONSTANTS Wide = FALSE
          Nest = FALSE
INIT Init
NEXT Eval
INVARIANT Reflexive
INVARIANT Symmetric
INVARIANT Transitive
INVARIANT TypeStrict
INVARIANT ShapeStrict
INVARIANT AgreesWithPy
INVARIANT PinSound
INVARIANT PinClosed
INVARIANT WhyTotal
INVARIANT Realisations
