CONSTANTS MaxDepth = 10
          MaxRowsC = 12
INIT Init
NEXT NextSim
CONSTRAINT SimBound
