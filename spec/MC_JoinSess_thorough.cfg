CONSTANTS MaxSteps = 3
          Stride = 4
          PoolStride = 97
          ZStride = 25
          Gen = FALSE
          Form = "pairs"
          Memo = "none"
          Variant = "plain"
SPECIFICATION Spec
INVARIANT TypeOK
INVARIANT SessionLaw
PROPERTY CallsLeavePool
