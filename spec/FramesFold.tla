------------------------------ MODULE FramesFold ------------------------------
(* Extension X06-c: reducer / reducing (_reducer.py) - the left fold the timeseries helpers are   *)
(* built on (joint indices = reducing('intersection' / 'union'), min_ / max_ / masks = reducer).   *)
(*                                                                                             *)
(* reducer(f, xs, default) is the left fold of f over xs WITHOUT a start value: the default for  *)
(* the empty sequence, the only member itself for a sequence of one (f is not called), and       *)
(* f(..f(f(x1, x2), x3).., xn) otherwise: n - 1 calls, call i receiving the result of call i - 1  *)
(* and member i + 1.  reducing(f) turns f into a function of a sequence (folded as above) or of    *)
(* two operands (one call of f); f may be the name of a method of the left operand; keyword        *)
(* arguments are handed to every call of f.                                                      *)
(*                                                                                             *)
(* Values: the tagged values of Values.tla (ints, tuples, lists, None) - f is drawn from a menu    *)
(* that contains the free constructor "pair" (f(a, b) = the tuple (a, b): the result spells out    *)
(* the order and nesting of the calls), the non-associative "sub", and, for lists of timeseries,   *)
(* the operators of Series.tla (add_ of C08) and unions / intersections of indices (C03).          *)
EXTENDS Series

NoKw == <<"nokw", 0>>                     \* no keyword argument
Idx(S) == [k |-> "idx", t |-> Asc(S)]     \* a pd.Index as the set of its stamps

\* one call f(a, b, **kw)
F(fn, a, b, kw) ==
    CASE fn = "pair"  -> IF kw = NoKw THEN VTup(<<a, b>>) ELSE VTup(<<a, b, kw>>)
      [] fn = "sub"   -> VInt(Pay(a) - Pay(b) - (IF kw = NoKw THEN 0 ELSE Pay(kw)))
      [] fn = "add"   -> VInt(Pay(a) + Pay(b) + (IF kw = NoKw THEN 0 ELSE Pay(kw)))
      [] fn = "cat"   -> VLst(Pay(a) \o Pay(b))
      [] fn = "tsadd" -> BinOp("add", a, b, IF kw = NoKw THEN "ij" ELSE kw[2], "ij")        \* kw = <<"join", "oj">>
      [] fn = "union" -> Idx(Range(a.t) \cup Range(b.t))
      [] fn = "inter" -> Idx(Range(a.t) \cap Range(b.t))
Fns == {"pair", "sub", "add", "cat", "tsadd", "union", "inter"}

RECURSIVE FoldFrom(_, _, _, _, _)
FoldFrom(fn, acc, xs, i, kw) == IF i > Len(xs) THEN acc ELSE FoldFrom(fn, F(fn, acc, xs[i], kw), xs, i + 1, kw)
Fold(fn, xs, dflt, kw) == IF xs = <<>> THEN dflt ELSE FoldFrom(fn, xs[1], xs, 2, kw)
\* the calls of f in the order in which they are made: <<left argument, right argument>>
RECURSIVE CallsFrom(_, _, _, _, _)
CallsFrom(fn, acc, xs, i, kw) == IF i > Len(xs) THEN <<>> ELSE <<[a |-> acc, b |-> xs[i]]>> \o CallsFrom(fn, F(fn, acc, xs[i], kw), xs, i + 1, kw)
Calls(fn, xs, kw) == IF xs = <<>> THEN <<>> ELSE CallsFrom(fn, xs[1], xs, 2, kw)
\* which object comes back: the default / the only member themselves, otherwise something f made
Origin(xs) == IF xs = <<>> THEN "default" ELSE IF Len(xs) = 1 THEN "member" ELSE "made"

\* a call of a reducing object: [form |-> "seq", xs, dflt, kw] | [form |-> "two", a, b, kw]
CallLaw(fn, c) == IF c.form = "seq" THEN Fold(fn, c.xs, c.dflt, c.kw) ELSE F(fn, c.a, c.b, c.kw)
CallLog(fn, c) == IF c.form = "seq" THEN Calls(fn, c.xs, c.kw) ELSE <<[a |-> c.a, b |-> c.b]>>
\* the mechanism of reducing.wrapped: the second positional argument decides (None = there is none); `mem` is
\* what an implementation might remember of earlier calls (the code remembers nothing: mem is ignored unless leaky)
Mech(fn, c, mem, leaky) ==
    LET kw == IF leaky /\ c.kw = NoKw THEN mem ELSE c.kw
        rhs == IF c.form = "seq" THEN None ELSE c.b
        lhs == IF c.form = "seq" THEN c.xs ELSE c.a
    IN  IF rhs = None THEN Fold(fn, lhs, IF c.form = "seq" THEN c.dflt ELSE None, kw) ELSE F(fn, lhs, rhs, kw)
\* named deviation NoneIsNoOperand: a second operand that is None cannot be told from "no second operand":
\* the statement speaks of two operands that are not None
FoldCallDomain(c) == c.form = "seq" \/ c.b # None
=============================================================================
