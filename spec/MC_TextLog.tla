------------------------------ MODULE MC_TextLog ------------------------------
(* X08-b (logger registry) on the specification, and the source of its S2C replay.  The law machine of TextLog runs     *)
(* next to a mechanism-shaped twin of the code (the registry of the logging package + the cache of names in front of    *)
(* it).  With Cached = FALSE the twin forgets to look into its cache: MC_TextLog_nocache.cfg must violate MechIsLaw.    *)
(* hist is carried in the generator configuration only (Gen = TRUE).                                                    *)
EXTENDS TextLog, TLC, Json
CONSTANTS MaxLen, NNames, Gen, Cached
NameMenu == << <<"A">>, <<"A", "B">>, <<"C">>, <<"A", "B", "D">> >>
Names == {NameMenu[i] : i \in 1..NNames}
VARIABLES reg, mech, n, hist
vars == <<reg, mech, n, hist>>

NFiles == 2
GetMenu == { [level |-> 20, console |-> TRUE,  file |-> 0], [level |-> 30, console |-> FALSE, file |-> 1],
             [level |-> 20, console |-> TRUE,  file |-> 2], [level |-> 10, console |-> FALSE, file |-> 0] }
Calls == {[op |-> "get", name |-> nm, level |-> m.level, console |-> m.console, file |-> m.file] : nm \in Names, m \in GetMenu}
         \cup {[op |-> "log", name |-> nm, level |-> lv, console |-> FALSE, file |-> 0] : nm \in Names, lv \in {20, 30}}

\* ---- the mechanism: mech = [py: the loggers of the logging package, in the order of their making, cache: names handed out]
MechGet(m, call) ==
    IF Cached /\ call.name \in m.cache THEN m
    ELSE LET i == LgIndex(m.py, call.name) IN
         [py |-> IF i = 0 THEN Append(m.py, [name |-> call.name, level |-> call.level, hs |-> LgHandlers(call)])
                 ELSE [m.py EXCEPT ![i] = [name |-> call.name, level |-> call.level, hs |-> m.py[i].hs \o LgHandlers(call)]],
          cache |-> m.cache \cup {call.name}]

Init == reg = <<>> /\ mech = [py |-> <<>>, cache |-> {}] /\ n = 0 /\ hist = <<>>
Do(call) == /\ n < MaxLen /\ LgEnabled(reg, call)
            /\ LET r == LgStep(reg, call, NFiles) IN
               /\ reg' = r[1]
               /\ hist' = IF Gen THEN Append(hist, [call |-> call, obs |-> r[2]]) ELSE hist
               /\ (Gen /\ n + 1 = MaxLen) => PrintT(ToJson([hist |-> hist', nfiles |-> NFiles]))
            /\ mech' = IF call.op = "get" THEN MechGet(mech, call) ELSE mech
            /\ n' = n + 1
Get == \E call \in Calls : call.op = "get" /\ Do(call)
Log == \E call \in Calls : call.op = "log" /\ Do(call)
Next == Get \/ Log

\* ---- the laws -------------------------------------------------------------------------------------------------
\* nothing that exists is ever touched again: an object handed out stays as it was made
Stable == [][\A i \in DOMAIN reg : i \in DOMAIN reg' /\ reg'[i] = reg[i]]_vars
OneObjectPerName == \A i, j \in DOMAIN reg : reg[i].name = reg[j].name => i = j
\* at most one handler per destination on a logger
NoDoubleHandlers == \A i \in DOMAIN reg : \A a, b \in DOMAIN reg[i].hs : reg[i].hs[a].dest = reg[i].hs[b].dest => a = b
\* a message below the level of its logger goes nowhere; one that reaches it is written by every handler of the logger; a
\* logger without ancestors writes it at most once per destination (a child whose ancestor writes to the same destination
\* shows it twice there: that is how the logging package propagates, and is what the law says)
OnceEach == \A i \in DOMAIN reg : \A lv \in {10, 20, 30, 40} :
               LET got == LgReached(reg, reg[i].name, lv) IN
               /\ (~\E j \in DOMAIN reg : IsAncestor(reg[j].name, reg[i].name)) => \A d \in 0..NFiles : Len(SelectSeq(got, LAMBDA h : h.dest = d)) <= 1
               /\ lv < reg[i].level => got = <<>>
               /\ lv >= reg[i].level => \A a \in DOMAIN reg[i].hs : \E k \in DOMAIN got : got[k] = reg[i].hs[a]
\* a child's message is also written by the handlers of its ancestors, never by anybody else's
OnlyTheFamily == \A i \in DOMAIN reg : \A lv \in {20, 40} : \A k \in DOMAIN LgReached(reg, reg[i].name, lv) :
               \E j \in DOMAIN reg : (j = i \/ IsAncestor(reg[j].name, reg[i].name)) /\ \E a \in DOMAIN reg[j].hs : reg[j].hs[a] = LgReached(reg, reg[i].name, lv)[k]
\* the code-shaped twin keeps the same loggers
MechIsLaw == mech.py = reg /\ mech.cache = {reg[i].name : i \in DOMAIN reg}
=============================================================================
