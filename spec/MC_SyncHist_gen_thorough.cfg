CONSTANTS Depth = 3
 MaxObjs = 3
INIT Init
NEXT NextGen
INVARIANT PolicyKept
INVARIANT ObjectsAreHistory
INVARIANT InForceLaw
INVARIANT DeriveLaw
