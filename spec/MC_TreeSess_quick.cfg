CONSTANTS Variant = "code"
          Size = "std"
          Depth = 2
          Hist = FALSE
INIT Init
NEXT Next
INVARIANT CallsAreLaw
INVARIANT PoolsUntouched
INVARIANT ResultsIndependent
INVARIANT HeapStaysOk
