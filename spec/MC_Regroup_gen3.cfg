CONSTANTS MaxRows = 3
          Wide = FALSE
INIT Init
NEXT NextGen
