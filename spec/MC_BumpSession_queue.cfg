\* must violate ArgumentsUntouched: the bumps consumed as a queue that is the caller's list
CONSTANTS Variant = "queue"
          MaxSteps = 3
          MaxLen = 4
          Shape = "probe"
          Scope = "quick"
          Emitting = FALSE
INIT Init
NEXT Next
INVARIANT ArgumentsUntouched
