CONSTANTS MaxSteps = 6
          Shape = "free"
          SeedNames = {"num", "nan", "mixed", "ties"}
          Hist = TRUE
INIT Init
NEXT NextSim
CONSTRAINT GenEmit
