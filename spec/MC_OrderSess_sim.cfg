CONSTANTS MaxSteps = 6
          Shape = "free"
          SeedNames = {"num", "nan", "mixed", "ties", "real"}
          ErrOnly = {}
          Hist = TRUE
INIT Init
NEXT NextSim
CONSTRAINT GenEmit
