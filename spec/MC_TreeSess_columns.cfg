CONSTANTS Variant = "columns"
          Size = "std"
          Depth = 3
          Hist = FALSE
INIT Init
NEXT Next
INVARIANT CallsAreLaw
