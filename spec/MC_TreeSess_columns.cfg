CONSTANTS Variant = "columns"
          Size = "std"
          Depth = 2
          Hist = FALSE
INIT Init
NEXT Next
INVARIANT CallsAreLaw
