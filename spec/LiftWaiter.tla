------------------------------ MODULE LiftWaiter ------------------------------
(* Property C19, schedule part: `await waiter(structure)` as a state machine.                  *)
(*                                                                                             *)
(* The structure holds awaitables: futures and running tasks, which make progress on their own, *)
(* and un-started coroutines, which only run once somebody awaits them.  The caller does not   *)
(* control the order in which they complete - and a coroutine may be unable to finish before   *)
(* another one has started.  The law: waiter STARTS every awaitable before it waits for any    *)
(* (action Start: all of them are concurrently pending), then one action Complete(i) per       *)
(* awaitable, enabled while i is pending, has started and what it depends on has started.  The *)
(* machine keeps `cur`, the structure with the results delivered so far put in place (position *)
(* by position, as the nested gathers of the code do), and returns it - action Return - only   *)
(* when nothing is pending.  Every behaviour is a schedule; TLC explores all n! of them.  The  *)
(* value returned is Subst(tree, all awaitables, V) whatever the order, and waiter returns.    *)
(*                                                                                             *)
(* Concurrent = FALSE is a mechanism model of a waiter that awaits its awaitables one after    *)
(* the other (each started only when all earlier ones are done): with inter-dependent          *)
(* coroutines it never returns - Termination fails, which is what MC_LiftWaiter_sequential.cfg *)
(* demonstrates (run with must_fail).                                                          *)
EXTENDS Lift
CONSTANTS Trees,        \* the structures explored
          V,            \* the result of each awaitable: a function id -> value
          Concurrent    \* TRUE: the law; FALSE: the sequential mechanism
VARIABLES tree, started, pending, cur, out, hist
vars == <<tree, started, pending, cur, out, hist>>

NotYet == <<"pending", 0>>

Init == /\ tree \in Trees
        /\ started = AwIds(tree) \ CoroIds(tree)        \* futures and tasks do not wait for waiter
        /\ pending = AwIds(tree)
        /\ cur = tree
        /\ out = NotYet
        /\ hist = <<>>

\* waiter is called: every awaitable is started before any is waited for
Start == /\ Concurrent /\ started # AwIds(tree)
         /\ started' = AwIds(tree)
         /\ UNCHANGED <<tree, pending, cur, out, hist>>
\* the sequential mechanism: the next coroutine is started when everything before it is done
StartSeq == /\ ~Concurrent
            /\ \E i \in AwIds(tree) \ started :
                  /\ \A j \in AwIds(tree) : j < i => j \notin pending
                  /\ started' = started \cup {i}
            /\ UNCHANGED <<tree, pending, cur, out, hist>>

CanComplete(i) == /\ i \in pending /\ out = NotYet
                  /\ i \in started /\ DepsOf(tree, i) \subseteq started
                  /\ Concurrent => started = AwIds(tree)
\* awaitable i delivers its result
Complete(i) == /\ CanComplete(i)
               /\ pending' = pending \ {i}
               /\ cur' = Fill(cur, i, V[i])
               /\ UNCHANGED <<tree, started, out, hist>>
\* the same, remembering the order (generator configurations only)
CompleteH(i) == /\ CanComplete(i)
                /\ pending' = pending \ {i}
                /\ cur' = Fill(cur, i, V[i])
                /\ hist' = Append(hist, i)
                /\ UNCHANGED <<tree, started, out>>
\* waiter returns
Return == /\ pending = {} /\ out = NotYet
          /\ out' = cur
          /\ UNCHANGED <<tree, started, pending, cur, hist>>

Next  == Start \/ (\E i \in AwIds(tree) : Complete(i)) \/ Return
NextH == Start \/ (\E i \in AwIds(tree) : CompleteH(i)) \/ Return
Spec  == Init /\ [][Next]_vars /\ WF_vars(Next)
NextSeq == StartSeq \/ (\E i \in AwIds(tree) : Complete(i)) \/ Return
SpecSeq == Init /\ [][NextSeq]_vars /\ WF_vars(NextSeq)

Done == out # NotYet

\* --- clauses ---------------------------------------------------------------------------------
PendingIsSubset  == pending \subseteq AwIds(tree) /\ (AwIds(tree) \ pending) \subseteq started
\* what has been delivered so far depends on *which* awaitables completed, not on their order
ProgressIsSet    == cur = Subst(tree, AwIds(tree) \ pending, V)
\* the result: every awaitable replaced by its value, same structure - for every schedule
OrderIndependent == Done => out = Subst(tree, AwIds(tree), V)
NothingLeft      == Done => AwIds(out) = {} /\ pending = {}
ShapeKept        == SameShape(tree, cur)
\* once everything has started, every pending awaitable may be the next to complete
AnyOrder         == (started = AwIds(tree) /\ out = NotYet) => \A i \in pending : ENABLED Complete(i)
NoEarlyReturn    == [][out' # out => pending = {}]_vars
Termination      == <>Done
=============================================================================
