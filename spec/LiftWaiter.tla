------------------------------ MODULE LiftWaiter ------------------------------
(* Property C19, schedule part: `await waiter(structure)` as a state machine.                  *)
(*                                                                                             *)
(* The structure holds awaitables (futures, coroutines, tasks).  The caller does not control   *)
(* the order in which they complete: one action Complete(i) per awaitable, enabled while i is  *)
(* pending.  The machine keeps `cur`, the structure with the results delivered so far put in   *)
(* place (position by position, as the nested gathers of the code do), and returns it - action *)
(* Return - only when nothing is pending.  Every behaviour is a schedule; TLC explores all n!  *)
(* of them.  The law: the value returned is Subst(tree, all awaitables, V) whatever the order. *)
EXTENDS Lift
CONSTANTS Trees,        \* the structures explored
          V             \* the result of each awaitable: a function id -> value
VARIABLES tree, pending, cur, out, hist
vars == <<tree, pending, cur, out, hist>>

NotYet == <<"pending", 0>>

Init == /\ tree \in Trees
        /\ pending = AwIds(tree)
        /\ cur = tree
        /\ out = NotYet
        /\ hist = <<>>

\* awaitable i delivers its result
Complete(i) == /\ i \in pending /\ out = NotYet
               /\ pending' = pending \ {i}
               /\ cur' = Fill(cur, i, V[i])
               /\ UNCHANGED <<tree, out, hist>>
\* the same, remembering the order (generator configurations only)
CompleteH(i) == /\ i \in pending /\ out = NotYet
                /\ pending' = pending \ {i}
                /\ cur' = Fill(cur, i, V[i])
                /\ hist' = Append(hist, i)
                /\ UNCHANGED <<tree, out>>
\* waiter returns
Return == /\ pending = {} /\ out = NotYet
          /\ out' = cur
          /\ UNCHANGED <<tree, pending, cur, hist>>

Next  == (\E i \in AwIds(tree) : Complete(i)) \/ Return
NextH == (\E i \in AwIds(tree) : CompleteH(i)) \/ Return
Spec  == Init /\ [][Next]_vars /\ WF_vars(Next)

Done == out # NotYet

\* --- clauses ---------------------------------------------------------------------------------
PendingIsSubset  == pending \subseteq AwIds(tree)
\* what has been delivered so far depends on *which* awaitables completed, not on their order
ProgressIsSet    == cur = Subst(tree, AwIds(tree) \ pending, V)
\* the result: every awaitable replaced by its value, same structure - for every schedule
OrderIndependent == Done => out = Subst(tree, AwIds(tree), V)
NothingLeft      == Done => AwIds(out) = {} /\ pending = {}
ShapeKept        == SameShape(tree, cur)
NoEarlyReturn    == [][out' # out => pending = {}]_vars
Termination      == <>Done
=============================================================================
