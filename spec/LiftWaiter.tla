------------------------------ MODULE LiftWaiter ------------------------------
(* Property C19, schedule part: `await waiter(structure)` as a state machine.                  *)
(*                                                                                             *)
(* The structure holds awaitables of every kind the language knows (Lift.tla, AllAwKinds):      *)
(* futures, running tasks, gather / shield futures, which make progress on their own           *)
(* (EagerKinds), and un-started coroutines and plain objects implementing __await__, which     *)
(* only run once somebody awaits them (LazyKinds); some need nobody's release and deliver the  *)
(* moment they are awaited (NowKinds: a finished future, an __await__ that returns a finished  *)
(* iterator, a coroutine that never suspends).  Next to them sit look-alikes that are not      *)
(* awaitable and are ordinary leaves.  The caller does not                                     *)
(* control the order in which they complete - and a coroutine may be unable to finish before   *)
(* another one has started.  The law: waiter STARTS every awaitable before it waits for any    *)
(* (action Start: all of them are concurrently pending), then one action Complete(i) per       *)
(* awaitable, enabled while i is pending, has started and what it depends on has started.  The *)
(* machine keeps `cur`, the structure with the results delivered so far put in place (position *)
(* by position, as the nested gathers of the code do), and returns it - action Return - only   *)
(* when nothing is pending.  Every behaviour is a schedule; TLC explores all n! of them.  The  *)
(* value returned is Subst(tree, all awaitables, V) whatever the order, and waiter returns.    *)
(*                                                                                             *)
(* Concurrent = FALSE is a mechanism model of a waiter that awaits its awaitables one after    *)
(* the other (each started only when all earlier ones are done): with inter-dependent          *)
(* coroutines it never returns - Termination fails, which is what MC_LiftWaiter_sequential.cfg *)
(* demonstrates (run with must_fail).                                                          *)
EXTENDS Lift
CONSTANTS Trees,        \* the structures explored
          V,            \* the result of each awaitable: a function id -> value
          Concurrent    \* TRUE: the law; FALSE: the sequential mechanism
VARIABLES tree, started, pending, cur, out, hist
vars == <<tree, started, pending, cur, out, hist>>

NotYet == <<"pending", 0>>

Init == /\ tree \in Trees
        /\ started = AwIds(tree) \ LazyIds(tree)        \* futures, tasks, gather / shield futures do not wait for waiter
        /\ pending = AwIds(tree)
        /\ cur = tree
        /\ out = NotYet
        /\ hist = <<>>

\* waiter is called: every awaitable is started before any is waited for
Start == /\ Concurrent /\ started # AwIds(tree)
         /\ started' = AwIds(tree)
         /\ UNCHANGED <<tree, pending, cur, out, hist>>
\* the sequential mechanism: the next coroutine is started when everything before it is done
StartSeq == /\ ~Concurrent
            /\ \E i \in AwIds(tree) \ started :
                  /\ \A j \in AwIds(tree) : j < i => j \notin pending
                  /\ started' = started \cup {i}
            /\ UNCHANGED <<tree, pending, cur, out, hist>>

CanComplete(i) == /\ i \in pending /\ out = NotYet
                  /\ i \in started /\ DepsOf(tree, i) \subseteq started
                  /\ Concurrent => started = AwIds(tree)
\* awaitable i delivers its result
Complete(i) == /\ CanComplete(i)
               /\ pending' = pending \ {i}
               /\ cur' = Fill(cur, i, V[i])
               /\ UNCHANGED <<tree, started, out, hist>>
\* the same, remembering the order in which the outside world released the awaitables that need a
\* release (generator configurations only; the NowKinds deliver unprompted, whenever)
CompleteH(i) == /\ CanComplete(i)
                /\ pending' = pending \ {i}
                /\ cur' = Fill(cur, i, V[i])
                /\ hist' = IF i \in NowIds(tree) THEN hist ELSE Append(hist, i)
                /\ UNCHANGED <<tree, started, out>>
\* waiter returns
Return == /\ pending = {} /\ out = NotYet
          /\ out' = cur
          /\ UNCHANGED <<tree, started, pending, cur, hist>>

Next  == Start \/ (\E i \in AwIds(tree) : Complete(i)) \/ Return
NextH == Start \/ (\E i \in AwIds(tree) : CompleteH(i)) \/ Return
Spec  == Init /\ [][Next]_vars /\ WF_vars(Next)
NextSeq == StartSeq \/ (\E i \in AwIds(tree) : Complete(i)) \/ Return
SpecSeq == Init /\ [][NextSeq]_vars /\ WF_vars(NextSeq)

Done == out # NotYet

\* --- clauses ---------------------------------------------------------------------------------
WellFormed       == AwWellFormed(tree)                   \* of the menus, not of waiter
PendingIsSubset  == pending \subseteq AwIds(tree) /\ (AwIds(tree) \ pending) \subseteq started
\* what has been delivered so far depends on *which* awaitables completed, not on their order
ProgressIsSet    == cur = Subst(tree, AwIds(tree) \ pending, V)
\* the result: every awaitable replaced by its value, same structure - for every schedule
OrderIndependent == Done => out = Subst(tree, AwIds(tree), V)
NothingLeft      == Done => AwIds(out) = {} /\ pending = {}
ShapeKept        == SameShape(tree, cur)
\* what is not awaitable - the look-alikes included - is where it was; a result is what the kind delivers
LooksUntouched   == LookLeaves(cur) = LookLeaves(tree) /\ (Done => LookLeaves(out) = LookLeaves(tree))
\* position by position: where the structure holds an awaitable - of whatever kind - the result holds
\* what awaiting it gives; where it holds a container, the same container; otherwise the same leaf
RECURSIVE Resolved(_, _)
Resolved(x, r) == IF IsAw(x) THEN r = Deliver(AwKind(x), V[AwId(x)])
                  ELSE IF IsCont(x) THEN /\ Tag(r) = Tag(x) /\ Width(r) = Width(x)
                                         /\ (IsMap(x) => \A k \in 1..Width(x) : Pay(r)[k][1] = Pay(x)[k][1])
                                         /\ \A k \in 1..Width(x) : Resolved(Child(x, k), Child(r, k))
                  ELSE r = x
EveryKindAwaited == Done => Resolved(tree, out)
\* once everything has started, every pending awaitable may be the next to complete
AnyOrder         == (started = AwIds(tree) /\ out = NotYet) => \A i \in pending : ENABLED Complete(i)
NoEarlyReturn    == [][out' # out => pending = {}]_vars
Termination      == <>Done
=============================================================================
