------------------------------- MODULE MC_Inc -------------------------------
(* Property C06 on the specification: for every small table and every condition of the menu   *)
(* the mechanism (sequential narrowing / negated conjunction) equals the law (filter by Sat), *)
(* inc and exc partition the rows in order, inc is idempotent, columns survive.               *)
(* The same state space, one behaviour  (t, cond) --Eval--> done,  is the source of the S2C    *)
(* replay: cfg MC_Inc_gen prints every case with the outcome the specification expects.        *)
EXTENDS Table, TLC, Json, SequencesExt
CONSTANTS MaxRows, Wide

VARIABLES t, cond, done
vars == <<t, cond, done>>

ValQ == {None, VInt(1), VNaN(1), VNaN(2), VStr("ab"), VStr("b")}
ValT == ValQ \cup {VFlt(1, 1), VInf(1)}      \* 8 values: 4 161 tables x ~90 conditions
Val  == IF Wide THEN ValT ELSE ValQ

Cols == <<"a", "b">>
RowU == [{"a", "b"} -> Val]
SeqsUpTo(S, n) == UNION {[1..k -> S] : k \in 0..n}
TableU == {[cols |-> Cols, rows |-> rs] : rs \in SeqsUpTo(RowU, MaxRows)}

CellConds == {<<"val", v>> : v \in Val \cup {VInt(3)}}
             \cup {<<"list", <<VInt(1), VStr("b")>>>>, <<"list", <<VNaN(1), None>>>>, <<"list", <<>>>>,
                   <<"list", <<VFlt(2, 1), VInt(7)>>>>}
             \cup {<<"re", r>> : r \in {"has_a", "starts_b", "any", "nothing"}}
FewConds  == {<<"val", None>>, <<"val", VNaN(2)>>, <<"val", VInt(1)>>, <<"list", <<VNaN(1), None>>>>, <<"re", "has_a">>}
CondU == {[kind |-> "kw", items |-> <<>>]}
         \cup {[kind |-> "kw", items |-> <<<<c, cc>>>>] : c \in {"a", "b"}, cc \in CellConds}
         \cup {[kind |-> "kw", items |-> <<<<"a", ca>>, <<"b", cb>>>>] : ca \in FewConds, cb \in FewConds}
         \cup {[kind |-> "pred", name |-> n] : n \in {"a_is_none", "a_eq_b", "b_is_str", "a_num_gt_1", "always", "never", "a_is_b"}}

Init == t \in TableU /\ cond \in CondU /\ done = FALSE
Eval == done = FALSE /\ done' = TRUE /\ UNCHANGED <<t, cond>>
EvalGen == Eval /\ PrintT(ToJson([t |-> t, cond |-> cond, inc |-> Inc(t, cond), exc |-> Exc(t, cond),
                                  find |-> [c \in {"a", "b"} |-> SetToSeq(FindOutcomes(t, c, cond))]]))

\* mechanism of exc: keep the rows for which the conjunction does not hold (and_ / _row_check)
ExcNeg(tt, cc) == [cols |-> tt.cols,
                   rows |-> SelectSeq(tt.rows, LAMBDA r : ~(\A k \in 1..Len(cc.items) : CellSat(r[cc.items[k][1]], cc.items[k][2])))]

MechanismIsLaw == (cond.kind = "kw" /\ ~NoCondition(cond)) => IncSeq(t, cond) = Inc(t, cond) /\ ExcNeg(t, cond) = Exc(t, cond)
\* partition: walking the table, each row is the next row of exactly one of inc / exc
RECURSIVE Interleaves(_, _, _)
Interleaves(rows, xs, ys) ==
    IF rows = <<>> THEN xs = <<>> /\ ys = <<>>
    ELSE IF Sat(Head(rows), cond) THEN xs # <<>> /\ Head(xs) = Head(rows) /\ Interleaves(Tail(rows), Tail(xs), ys)
         ELSE ys # <<>> /\ Head(ys) = Head(rows) /\ Interleaves(Tail(rows), xs, Tail(ys))
Partition   == ~NoCondition(cond) => Interleaves(t.rows, Inc(t, cond).rows, Exc(t, cond).rows)
Idempotent  == /\ Inc(Inc(t, cond), cond) = Inc(t, cond)
               /\ ~NoCondition(cond) => (NRows(Exc(Inc(t, cond), cond)) = 0 /\ NRows(Inc(Exc(t, cond), cond)) = 0)
KeepsCols   == Inc(t, cond).cols = t.cols /\ Exc(t, cond).cols = t.cols /\ Rectangular(Inc(t, cond))
NoCondIsId  == (cond.kind = "kw" /\ cond.items = <<>>) => Inc(t, cond) = t
FindSound   == \A c \in {"a", "b"} : LET f == FindOutcomes(t, c, cond) IN
                  f # {} /\ (f # {Raises("ValueError")} => \A v \in f : \E i \in 1..NRows(t) : t.rows[i][c] = v /\ Sat(t.rows[i], cond))
=============================================================================
