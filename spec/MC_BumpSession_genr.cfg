\* S2C generator: single calls, every realisation of the start x every realisation of the bump
CONSTANTS Variant = "code"
          MaxSteps = 3
          MaxLen = 4
          Shape = "probe"
          Scope = "quick"
          Emitting = TRUE
INIT InitR
NEXT NextR
