CONSTANTS HW = 4
          Margin = 8
          Marks = {0, 46800, 81000, 86399}
          WeekendNos = {1, 2, 3}
          OwnAdjs = {"m"}
          TPad = 1
          GenMod = 1
INIT Init
NEXT Eval
INVARIANT SessionsDisjoint
INVARIANT ClosedForms
INVARIANT TradingIffAgree
INVARIANT Bracket
INVARIANT Monotone
INVARIANT Idempotent
INVARIANT WholeDayIsAdjust
INVARIANT MechClosedIsLaw
INVARIANT TodayOffExactly
INVARIANT SpellingLaw
INVARIANT Shapes
