CONSTANT FixedCode = TRUE
INIT Init
NEXT Next
