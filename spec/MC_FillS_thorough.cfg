CONSTANTS MaxLenS = 4
          MaxRowsS = 2
          MaxListS = 2
          LimsS = {0, 1, 2}
          MaxCalls = 3
          Consume = FALSE
          Emit = FALSE
INIT Init
NEXT Next
INVARIANT SIntact
INVARIANT SChain
INVARIANT SShared
INVARIANT SRefines
INVARIANT SFew
