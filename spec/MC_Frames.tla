------------------------------ MODULE MC_Frames ------------------------------
(* Extension X06-a on the specification, and the source of its S2C cases.                       *)
(* One behaviour per case  cs --Eval--> done : a case is a record [op |-> .., arguments ..] of one  *)
(* of the functions of Frames.tla; the clauses are examined in the done-state.  EvalGen prints     *)
(* every case with the outcome the specification expects (S2C).                                   *)
(* Values identify (object, column, time): series i holds 10 i + t at time t, column j of frame i   *)
(* 100 i + 10 j + t, so "keeps exactly its original value" and "comes from input i" are checkable. *)
EXTENDS Frames, TLC, Json
CONSTANTS NS,       \* pairs of series over the stamps 1..NS (concatenation, stacking)
          NT,       \* frames / triples over 1..NT
          ND,       \* indices with repeated stamps: all sequences of length <= ND over the stamps 1..2 (3 when ND >= 4)
          SfTop,    \* sf: the integers 1..SfTop (and their eighths, and multiples)
          MaxNaN    \* pairs of series for concatenation: at most MaxNaN recorded NaN per series

VARIABLES cs, done
vars == <<cs, done>>

\* ---- universes ------------------------------------------------------------------------------
V(i, x) == VFlt(10 * i + x, 1)
W(i, j, x) == VFlt(100 * i + 10 * j + x, 1)
SerOn(i, I, M) == LET ts == Asc(I) IN Ser(ts, [r \in 1..Len(ts) |-> IF ts[r] \in M THEN NaNC ELSE V(i, ts[r])])
SerU(i, n) == UNION {{SerOn(i, I, M) : M \in SUBSET I} : I \in SUBSET (1..n)}
\* frames: column 2 is NaN on M
FrOn(i, I, hs, M) == LET ts == Asc(I) IN
    Frm(ts, hs, [j \in 1..Len(hs) |-> [r \in 1..Len(ts) |-> IF j = 2 /\ ts[r] \in M THEN NaNC ELSE W(i, j, ts[r])]])
FrU(i, n, hs) == UNION {{FrOn(i, I, hs, M) : M \in SUBSET I} : I \in SUBSET (1..n)}
PsU(i, n, h) == {Frm(s.t, <<h>>, <<s.v>>) : s \in SerU(i, n)}                        \* pseudo-series
Leaf(n) == [k |-> "x", id |-> n]
L(xs) == [k |-> "l", items |-> xs]
D(ks, xs) == [k |-> "d", keys |-> ks, items |-> xs]
AB == <<HS("a"), HS("b")>>
BC == <<HS("b"), HS("c")>>
ABC == <<HS("a"), HS("b"), HS("c")>>
PQ == <<HS("p"), HS("q")>>
NameU == <<"a", "b", "c", "d", "e">>

\* ---- df_concat side by side -------------------------------------------------------------------
ArrFor(xs, join) == Arr1([p \in 1..Cardinality(JointStamps(xs, join)) |-> V(7, p)])
FewNaN(s) == Cardinality({r \in 1..Len(s.v) : IsNaN(s.v[r])}) <= MaxNaN
CatPairs == {<<a, b>> : a \in {s \in SerU(1, NS) : FewNaN(s)}, b \in {s \in SerU(2, NS) : FewNaN(s)}}
CatMixed == {<<a, f>> : a \in SerU(1, NT), f \in FrU(2, NT, PQ)}
        \cup {<<f, a, Scal(V(9, 0))>> : a \in SerU(1, NT), f \in FrU(2, NT, PQ)}
        \cup {<<p, a, b>> : p \in PsU(3, 1, HS("p")), a \in SerU(1, NT), b \in SerU(2, NT)}
        \cup {<<f, g>> : f \in FrU(1, NT, AB), g \in FrU(2, NT, PQ)}
        \cup {<<f>> : f \in FrU(1, NT, AB)}
Joins == {"outer", "inner"}
NoFill == <<<<>>, 0>>
Methods == {NoFill, <<<<<<"ffill", 0>>>>, 0>>, <<<<<<"ffill", 0>>>>, 1>>, <<<<<<"bfill", 0>>>>, 0>>, <<<<<<"bfill", 0>>>>, 1>>,
            <<<<<<"ffill", 0>>, <<"bfill", 0>>>>, 0>>, <<<<<<"const", Zero>>>>, 0>>}
FewMethods == {NoFill, <<<<<<"ffill", 0>>>>, 0>>}
NamesFor(xs) == {[k |-> "none"], [k |-> "list", v |-> SubSeq(NameU, 1, Len(FlatCols(xs)))]}
                \cup (IF \A i \in 1..Len(xs) : IsFrm(xs[i]) THEN {[k |-> "map", from |-> <<"a", "q", "z">>, to |-> <<"x", "y", "w">>]} ELSE {})
\* pairs of series: every fill method (names only without a fill: naming and filling do not meet); the third operand may be a
\* bare array as long as the joint index.  Mixed operands: without a fill and with a forward fill.
InitConcat1 ==
    \/ \E xs \in CatPairs, j \in Joins, m \in Methods : \E nm \in NamesFor(xs), arr \in BOOLEAN :
          /\ (m # NoFill => nm.k = "none" /\ ~arr)
          /\ cs = [op |-> "concat1", xs |-> IF arr THEN xs \o <<ArrFor(xs, j)>> ELSE xs,
                   names |-> IF arr /\ nm.k = "list" THEN [k |-> "list", v |-> <<"a", "b", "c">>] ELSE nm, join |-> j, ms |-> m[1], lim |-> m[2]]
    \/ \E xs \in CatMixed, j \in Joins, m \in FewMethods : \E nm \in NamesFor(xs) :
          /\ (m # NoFill => nm.k = "none")
          /\ cs = [op |-> "concat1", xs |-> xs, names |-> nm, join |-> j, ms |-> m[1], lim |-> m[2]]

\* ---- df_concat stacked -------------------------------------------------------------------------
StackU == {<<a, b>> : a \in SerU(1, NT), b \in SerU(2, NT)}
          \cup {<<a, p>> : a \in SerU(1, NT), p \in PsU(2, NT, HS("p"))}
          \cup {<<p, q>> : p \in PsU(1, NT, HS("p")), q \in PsU(2, NT, HS("p"))}
          \cup {<<p, q>> : p \in PsU(1, NT, HS("p")), q \in PsU(2, NT, HS("q"))}
          \cup {<<f, g>> : f \in FrU(1, NT, AB), g \in FrU(2, NT, BC)}
          \cup {<<f, g>> : f \in FrU(1, NT, AB), g \in FrU(2, NT, AB)}
InitConcat0 == \E xs \in StackU, j \in Joins, nm \in {NoName, HS("z")} :
    /\ (IsWide(xs[1]) => nm = NoName) /\ (~IsWide(xs[1]) => j = "outer")
    /\ cs = [op |-> "concat0", xs |-> xs, name |-> nm, join |-> j]

\* ---- as_series -----------------------------------------------------------------------------------
AsMembers == SerU(1, 1) \cup PsU(2, 2, HS("p")) \cup PsU(3, 1, HS("q")) \cup {Leaf(1), Scal(V(5, 0))}
InitAsSeries ==
    \/ \E x \in SerU(1, NT) \cup PsU(2, NT, HS("p")) \cup FrU(3, 2, AB), col \in {NoName, HS("z")} :
          cs = [op |-> "as_series", form |-> "one", x |-> x, col |-> col, uc |-> FALSE]
    \/ \E a \in AsMembers, b \in PsU(4, 1, HS("p")) \cup PsU(4, 1, HS("q")) \cup SerU(4, 1) \cup {FrOn(4, {1}, AB, {})},
          col \in {NoName, HS("z")}, uc \in BOOLEAN :
          \E xs \in {<<a, b>>, <<b, a>>, <<a, b, a>>} : cs = [op |-> "as_series", form |-> "list", x |-> L(xs), col |-> col, uc |-> uc]

\* ---- df_column -----------------------------------------------------------------------------------
AAB == <<HS("a"), HS("a"), HS("b")>>
Mat(i, rows, w) == Arr2([j \in 1..w |-> [r \in 1..rows |-> W(i, j, r)]], rows)
ColSubjects == {FrOn(1, {1, 3}, ABC, {3}), FrOn(2, {1, 2}, AAB, {}), FrOn(3, {2}, <<HS("p")>>, {}), FrOn(1, {}, AB, {}),
                SerOn(4, {1, 2}, {2}), Mat(5, 2, 3), Mat(6, 2, 1), Leaf(2), Scal(V(5, 0)),
                L(<<FrOn(1, {1, 3}, ABC, {}), SerOn(4, {1}, {}), Leaf(1)>>),
                D(<<"x", "y">>, <<FrOn(1, {1}, AB, {}), L(<<FrOn(2, {2}, BC, {})>>)>>),
                L(<<FrOn(2, {1, 2}, AAB, {}), Mat(5, 2, 3)>>)}
InitColumn == \E x \in ColSubjects, name \in {NoName, HS("a"), HS("b"), HS("z")}, i \in -1..3, n \in {-1, 2, 3},
                 dflt \in {Scal(NaNC), Scal(Zero), Leaf(3)} :
    /\ TreeInColumnDomain(x, name, i, n)
    /\ (n # -1 => i # -1) /\ (name # NoName => i = -1)
    /\ cs = [op |-> "column", x |-> x, name |-> name, i |-> i, n |-> n, dflt |-> dflt]

\* ---- df_columns / df_recolumn --------------------------------------------------------------------
ColTrees == {L(<<FrOn(1, {1, 2}, ABC, {}), FrOn(2, {2}, BC, {2})>>),
             L(<<FrOn(1, {1}, BC, {}), FrOn(2, {1, 2}, ABC, {}), SerOn(3, {1}, {}), Leaf(1)>>),
             D(<<"x", "y">>, <<FrOn(1, {1}, AB, {}), L(<<FrOn(2, {2}, <<HS("c"), HS("d")>>, {}), FrOn(3, {1}, <<HS("p")>>, {})>>)>>),
             L(<<FrOn(2, {1, 2}, AAB, {}), FrOn(1, {1}, AB, {})>>),
             L(<<SerOn(3, {1}, {}), FrOn(3, {1}, <<HS("p")>>, {}), Leaf(1)>>),
             FrOn(1, {1, 2}, ABC, {1}),
             L(<<FrOn(1, {1}, <<HS("c"), HS("a")>>, {}), FrOn(2, {1}, <<HS("a"), HS("d"), HS("c")>>, {}), FrOn(3, {2}, <<HS("e"), HS("c"), HS("a")>>, {})>>)}
RecolNames == {<<"c", "r", "a">>, <<"b">>, <<>>, <<"a", "b", "c">>}
InitColumns == \E tree \in ColTrees, pol \in ColPolicies : cs = [op |-> "columns", tree |-> tree, pol |-> pol]
InitRecolumn == \E tree \in ColTrees :
    \* (as: the names are handed over as a list or as a pd.Index - the same names either way)
    \/ \E names \in RecolNames, as \in {"list", "index"} : cs = [op |-> "recolumn", tree |-> tree, names |-> names, pol |-> "given", as |-> as]
    \/ \E pol \in ColPolicies, as \in {"list", "index"} :
          ProperLeaves(tree) # <<>> /\ cs = [op |-> "recolumn", tree |-> tree, names |-> ColumnsLaw(tree, pol).c, pol |-> pol, as |-> as]

\* ---- np_reindex ----------------------------------------------------------------------------------
Arr(i, n) == Arr1([p \in 1..n |-> IF p = 2 THEN NaNC ELSE V(i, p)])
InitNpReindex == \E la \in 0..3, lt \in 0..4, two \in BOOLEAN, named \in BOOLEAN :
    /\ (named => two)
    /\ cs = [op |-> "np_reindex", a |-> IF two THEN Mat(5, la, 2) ELSE Arr(1, la), T |-> [p \in 1..lt |-> 2 * p + 1],
             names |-> IF named THEN <<"a", "b">> ELSE <<>>]

\* ---- df_drop_index_duplicates ----------------------------------------------------------------------
DupStamps == 1..(IF ND >= 4 THEN 3 ELSE 2)
DupIndices == UNION {[1..n -> DupStamps] : n \in 0..ND}
InitDropDup == \E t \in DupIndices, keep \in {"first", "last"}, wide \in BOOLEAN :
    cs = [op |-> "drop_dup", keep |-> keep,
          x |-> IF wide THEN Frm(t, AB, <<[r \in 1..Len(t) |-> W(1, 1, r)], [r \in 1..Len(t) |-> IF r = 2 THEN NaNC ELSE W(1, 2, r)]>>)
                ELSE Ser(t, [r \in 1..Len(t) |-> V(1, r)])]

\* ---- mask2v ----------------------------------------------------------------------------------------
Two == VFlt(2, 1)
Nine == VFlt(9, 1)
MaskCells == {NaNC, Zero, One, Two}
MaskSubjects == {Scal(c) : c \in MaskCells}
                \cup {Ser(<<1, 2, 4>>, <<a, b, c>>) : a, b, c \in MaskCells}
                \cup {Frm(<<1, 3>>, AB, <<<<a, NaNC>>, <<Zero, b>>>>) : a, b \in MaskCells}
                \cup {Arr1(<<a, b>>) : a, b \in MaskCells}
InitMask == \E x \in MaskSubjects, ms \in {<<NaNC>>, <<Zero>>, <<Zero, NaNC>>, <<One, Two>>, <<>>, <<Two, NaNC, Zero>>}, value \in {Zero, Nine, NaNC} :
    cs = [op |-> "mask2v", x |-> x, ms |-> ms, value |-> value, form |-> IF Len(ms) = 1 THEN "one" ELSE "list"]

\* ---- df_apply --------------------------------------------------------------------------------------
AggCellsU == {NaNC, Zero, VFlt(12, 1), VFlt(-24, 1)}
InitApply == \E a, b, c \in AggCellsU, d \in {NaNC, VFlt(12, 1)}, func \in ApplyFuncs, axis \in {0, 1}, exc \in {<<NaNC>>, <<Zero>>, <<Zero, NaNC>>, <<>>} :
    cs = [op |-> "apply", x |-> Frm(<<1, 2, 4>>, ABC, <<<<NaNC, a, NaNC>>, <<b, Zero, c>>, <<VFlt(36, 1), d, NaNC>>>>),
          func |-> func, axis |-> axis, exc |-> exc]

\* ---- sf ----------------------------------------------------------------------------------------------
SfCells == {NaNC, Zero} \cup {VFlt(k, 1) : k \in 1..SfTop} \cup {VFlt(-k, 1) : k \in {1, 5, 48, 96}}
           \cup {Num(k, 8) : k \in 1..SfTop} \cup {VFlt(10 * k + 5, 1) : k \in 1..SfTop} \cup {VFlt(125 * k, 1) : k \in 1..SfTop}
InitSf == \E c \in SfCells, n \in 1..3 : SfDomain(c, n) /\ cs = [op |-> "sf", c |-> c, n |-> n]

\* every enumerated case lies in the domain of the statement
AllInDomain == CallDomain(cs)

Init == /\ done = FALSE
        /\ \/ InitConcat1 \/ InitConcat0 \/ InitAsSeries \/ InitColumn \/ InitColumns \/ InitRecolumn
           \/ InitNpReindex \/ InitDropDup \/ InitMask \/ InitApply \/ InitSf

Eval == done = FALSE /\ done' = TRUE /\ UNCHANGED cs
EvalGen == Eval /\ PrintT(ToJson([case |-> cs, want |-> Expect(cs)]))

\* ---- the clauses -----------------------------------------------------------------------------------
Is(op) == done /\ cs.op = op
SerOps(xs) == {i \in 1..Len(xs) : IsSer(xs[i])}
\* side by side: the result lives on the union / intersection of the inputs' indices and has one column per input column
CatIndex == Is("concat1") => ConcatDomain(cs.xs, cs.names, cs.join) /\
    LET r == Concat1(cs.xs, cs.names, cs.join, cs.ms, cs.lim)  p == PdOf(cs.xs) IN
    /\ Increasing(r.t)
    /\ Range(r.t) = (IF cs.join = "outer" THEN UNION {Stamps(p[i]) : i \in 1..Len(p)} ELSE {x \in Stamps(p[1]) : \A i \in 1..Len(p) : x \in Stamps(p[i])})
    /\ Len(r.h) = Len(r.v) /\ \A j \in 1..Len(r.v) : Len(r.v[j]) = Len(r.t)
\* taking the column of a series input out again gives that input reindexed on the joint index (Series.tla's law of C03)
CatThenColumn == (Is("concat1") /\ cs.names.k = "list" /\ cs.ms = <<>>) => \A i \in SerOps(cs.xs) :
    LET r == Concat1(cs.xs, cs.names, cs.join, <<>>, 0)
        n == CHOOSE q \in 1..Len(FlatCols(cs.xs)) : FlatCols(cs.xs)[q] = <<i, 1>>
    IN  Column1(r, HS(cs.names.v[n]), -1, -1, Scal(NaNC)) = Val(ToS(ReindexS(cs.xs[i], JointStamps(cs.xs, cs.join), "none")))
\* the inner join is the outer join cut down to the common stamps
CatInnerIsOuterCut == (Is("concat1") /\ cs.ms = <<>> /\ ~\E i \in 1..Len(cs.xs) : IsArr1(cs.xs[i])) =>
    LET o == Concat1(cs.xs, cs.names, "outer", <<>>, 0)  J == JointStamps(cs.xs, "inner")
    IN  Concat1(cs.xs, cs.names, "inner", <<>>, 0) = KeepPos(o, {r \in 1..Len(o.t) : o.t[r] \in J})
\* on the outer join a forward / backward fill without limit is the as-of join of C03
CatFillIsAsOf == (Is("concat1") /\ cs.join = "outer" /\ cs.lim = 0 /\ cs.ms \in {<<<<"ffill", 0>>>>, <<<<"bfill", 0>>>>}) => \A i \in SerOps(cs.xs) :
    LET r == Concat1(cs.xs, cs.names, "outer", cs.ms, 0)
        n == CHOOSE q \in 1..Len(FlatCols(cs.xs)) : FlatCols(cs.xs)[q] = <<i, 1>>
    IN  r.v[n] = ReindexS(cs.xs[i], JointStamps(cs.xs, "outer"), cs.ms[1][1]).v
\* filling never touches a cell that holds a value, and a limit only takes fills away
CatFillKeeps == Is("concat1") =>
    LET raw == Concat1(cs.xs, cs.names, cs.join, <<>>, 0)  r == Concat1(cs.xs, cs.names, cs.join, cs.ms, cs.lim)
        nolim == Concat1(cs.xs, cs.names, cs.join, cs.ms, 0) IN
    \A j \in 1..Len(raw.v) : \A q \in 1..Len(raw.t) :
        /\ ~IsNaN(raw.v[j][q]) => r.v[j][q] = raw.v[j][q]
        /\ ~IsNaN(r.v[j][q]) => r.v[j][q] = nolim.v[j][q]
\* concatenating in two steps is concatenating at once (values; the headers of the second step are the first step's)
CatAssociates == (Is("concat1") /\ Len(cs.xs) = 3 /\ cs.ms = <<>> /\ ~IsArr1(cs.xs[3])) =>
    LET ab == Concat1(<<cs.xs[1], cs.xs[2]>>, [k |-> "none"], cs.join, <<>>, 0)
        two == Concat1(<<ab, cs.xs[3]>>, [k |-> "none"], cs.join, <<>>, 0)
        one == Concat1(cs.xs, [k |-> "none"], cs.join, <<>>, 0)
    IN  two.t = one.t /\ two.v = one.v
\* stacking: every row of every input, in input order; then keeping the last row of each stamp is an update of the
\* first input by the second
StackRows == Is("concat0") => StackDomain(cs.xs) /\
    LET r == Concat0(cs.xs, cs.name, cs.join) IN
    /\ r.t = cs.xs[1].t \o cs.xs[2].t
    /\ IsSer(r) \/ \A j \in 1..Len(r.v) : Len(r.v[j]) = Len(r.t)
StackThenDropIsUpdate == (Is("concat0") /\ ~IsWide(cs.xs[1])) =>
    LET r == DropDup(Concat0(cs.xs, cs.name, cs.join), "last")  a == cs.xs[1]  b == cs.xs[2] IN
    /\ Range(r.t) = Stamps(a) \cup Stamps(b) /\ Cardinality(Range(r.t)) = Len(r.t)
    /\ \A q \in 1..Len(r.t) : ColOf(r, 1)[q] = (IF r.t[q] \in Stamps(b) THEN ColOf(b, 1)[RowOf(b, r.t[q])] ELSE ColOf(a, 1)[RowOf(a, r.t[q])])
\* as_series: there and back again; converting twice is converting once; a proper frame is never touched
AsSeriesRoundTrip == (Is("as_series") /\ cs.form = "one") =>
    /\ AsSer1(AsSer1(cs.x, cs.col), cs.col) = AsSer1(cs.x, cs.col)
    /\ IsSer(cs.x) => AsSer1(AsSer1(cs.x, HS("z")), NoName) = cs.x
    /\ IsWide(cs.x) => AsSer1(cs.x, cs.col) = cs.x
AsSeriesList == (Is("as_series") /\ cs.form = "list") =>
    LET r == AsSerList(cs.x.items, cs.col, cs.uc) IN
    /\ Len(r) = Len(cs.x.items)
    /\ \A i \in 1..Len(r) : ~IsPd(cs.x.items[i]) => r[i] = cs.x.items[i]
    /\ (\E i \in 1..Len(r) : IsWide(cs.x.items[i])) => r = cs.x.items
    /\ (~\E i \in 1..Len(r) : IsWide(cs.x.items[i])) =>          \* afterwards the timeseries members are all of one kind, under one header
          \/ \A i \in 1..Len(r) : IsPd(r[i]) => IsSer(r[i])
          \/ \E h \in {HS("p"), HS("q"), HS("z")} : \A i \in 1..Len(r) : IsPd(r[i]) => IsPseudo(r[i]) /\ r[i].h = <<h>>
\* df_column: a column taken by name has the frame's index and that column's cells; a default only for a column that is not there
ColumnByName == (Is("column") /\ IsFrm(cs.x) /\ cs.name # NoName) =>
    LET out == Column1(cs.x, cs.name, cs.i, cs.n, cs.dflt) IN
    IF Len(cs.x.h) = 1 THEN out = Val(Ser(cs.x.t, cs.x.v[1]))
    ELSE IF cs.name \in Range(cs.x.h) THEN out.kind = "val" /\ IsSer(out.v) /\ out.v.t = cs.x.t
    ELSE out = Val(cs.dflt)
ColumnByPosition == (Is("column") /\ (IsFrm(cs.x) \/ IsArr2(cs.x)) /\ cs.name = NoName /\ cs.i # -1 /\ Width(cs.x) > 1) =>
    LET out == Column1(cs.x, NoName, cs.i, cs.n, cs.dflt) IN
    IF IsFrm(cs.x) /\ UniqueHeaders(cs.x) THEN out.kind = "exc"
    ELSE IF cs.n # -1 /\ cs.n # Width(cs.x) THEN out.kind = "exc"
    ELSE IF cs.i >= Width(cs.x) THEN out = Val(cs.dflt)
    ELSE out.kind = "val" /\ out.v.v = ColOf(cs.x, cs.i + 1)
ColumnPassesThrough == (Is("column") /\ ~IsCont(cs.x) /\ ~IsFrm(cs.x) /\ ~IsArr2(cs.x)) => Column1(cs.x, cs.name, cs.i, cs.n, cs.dflt) = Val(cs.x)
\* df_columns: the policies are ordered; df_recolumn onto the joint columns leaves every proper frame with exactly those
ColumnsOrdered == (Is("columns") /\ ProperLeaves(cs.tree) # <<>>) =>
    LET C(p) == JointCols(cs.tree, p)  fs == ProperLeaves(cs.tree) IN
    /\ C("ij") \subseteq C("lj") /\ C("ij") \subseteq C("rj") /\ C("lj") \subseteq C("oj") /\ C("rj") \subseteq C("oj")
    /\ \A i \in 1..Len(fs) : C("ij") \subseteq Range(ColNames(fs[i])) /\ Range(ColNames(fs[i])) \subseteq C("oj")
    /\ C("lj") = Range(ColNames(fs[1])) /\ C("rj") = Range(ColNames(fs[Len(fs)]))
RecolumnLaw == Is("recolumn") =>
    LET r == RecolumnTree(cs.tree, cs.names)  lw == Leaves(cs.tree)  lr == Leaves(r) IN
    /\ Len(lr) = Len(lw)
    /\ \A i \in 1..Len(lw) :
          IF IsProper(lw[i]) THEN /\ ColNames(lr[i]) = cs.names /\ lr[i].t = lw[i].t
                                  /\ \A j \in 1..Len(cs.names) :
                                        lr[i].v[j] = (IF HS(cs.names[j]) \in Range(lw[i].h) THEN lw[i].v[PosIn(lw[i].h, HS(cs.names[j]))] ELSE NaNs(Len(lw[i].t)))
          ELSE lr[i] = lw[i]
    /\ (\A i, j \in 1..Len(cs.names) : cs.names[i] = cs.names[j] => i = j) /\ Len(cs.names) > 1 => RecolumnTree(r, cs.names) = r
\* on a frame of Series.tla the law is C03's Recolumn (column order apart)
RecolumnIsSeriesLaw == (Is("recolumn") /\ Len(cs.names) > 1) => \A i \in 1..Len(Leaves(cs.tree)) :
    LET x == Leaves(cs.tree)[i] IN
    (IsProper(x) /\ Increasing(x.t)) => ToF(Recolumn1(x, cs.names)) = Recolumn(ToF(x), Range(cs.names))
\* np_reindex: aligned at the end, as C03 aligns bare arrays
NpReindexAtEnd == Is("np_reindex") =>
    LET r == NpReindex(cs.a, cs.T, cs.names)
        rows == IF IsArr2(cs.a) THEN cs.a.rows ELSE Len(cs.a.v)
        n == IF rows < Len(cs.T) THEN rows ELSE Len(cs.T) IN
    /\ Len(r.t) = n /\ \A q \in 1..n : r.t[q] = cs.T[Len(cs.T) - n + q]
    /\ IsArr1(cs.a) => r.v = AlignEnd(cs.a, n, "none").v
    /\ IsArr2(cs.a) => \A j \in 1..Len(cs.a.v) : r.v[j] = AlignEnd(Arr1(cs.a.v[j]), n, "none").v
\* duplicates: what stays is a sub-sequence of the rows, one row per stamp, the first / last of its stamp; dropping twice = once
DropDupLaw == Is("drop_dup") =>
    LET r == DropDup(cs.x, cs.keep)  col == ColOf(cs.x, 1)  rc == ColOf(r, 1)
        pos == [q \in 1..Len(r.t) |-> PosIn(col, rc[q])] IN          \* the cells of column 1 identify the rows
    /\ Range(r.t) = Range(cs.x.t) /\ Cardinality(Range(r.t)) = Len(r.t)
    /\ \A q \in 1..(Len(pos) - 1) : pos[q] < pos[q + 1]
    /\ \A q \in 1..Len(pos) : cs.x.t[pos[q]] = r.t[q] /\ ~\E p \in 1..Len(cs.x.t) : cs.x.t[p] = r.t[q] /\ (IF cs.keep = "first" THEN p < pos[q] ELSE p > pos[q])
    /\ DropDup(r, cs.keep) = r /\ DropDup(r, "first") = DropDup(r, "last")
    /\ (Cardinality(Range(cs.x.t)) = Len(cs.x.t)) => r = cs.x
\* mask2v: exactly the cells that equal a mask value change; several mask values = one after the other (unless the new value is itself masked)
MaskLaw == Is("mask2v") =>
    LET r == Mask2v(cs.x, cs.ms, cs.value)
        cells(o) == IF IsNumO(o) THEN <<o.v>> ELSE IF IsFrm(o) THEN FlattenSeq(o.v) ELSE o.v
        RECURSIVE Seqly(_, _)
        Seqly(o, ms) == IF ms = <<>> THEN o ELSE Seqly(Mask2v(o, <<Head(ms)>>, cs.value), Tail(ms)) IN
    /\ \A q \in 1..Len(cells(r)) : cells(r)[q] = (IF Masked(cells(cs.x)[q], cs.ms) THEN cs.value ELSE cells(cs.x)[q])
    /\ cs.ms = <<>> => r = cs.x
    /\ ~Masked(cs.value, cs.ms) => Seqly(cs.x, cs.ms) = r /\ Mask2v(r, cs.ms, cs.value) = r
\* df_apply: with NaN excluded, sum and mean are the aggregates of C08 (NaN where nobody has data); count is NaN instead of 0
ApplyIsAggregate == (Is("apply") /\ cs.exc = <<NaNC>>) =>
    LET r == ApplyLaw(cs.x, cs.func, cs.axis, cs.exc)
        group(q) == IF cs.axis = 0 THEN cs.x.v[q] ELSE [j \in 1..Len(cs.x.h) |-> cs.x.v[j][q]] IN
    \A q \in 1..Len(r.v) :
        /\ cs.func \in {"sum", "mean"} => r.v[q] = AggCell(cs.func, group(q))
        /\ cs.func = "count" => r.v[q] = (IF CountC(group(q)) = 0 THEN NaNC ELSE AggCell("count", group(q)))
ApplyNaNOnlyWhereNoEntry == Is("apply") =>
    LET r == ApplyLaw(cs.x, cs.func, cs.axis, cs.exc)
        group(q) == IF cs.axis = 0 THEN cs.x.v[q] ELSE [j \in 1..Len(cs.x.h) |-> cs.x.v[j][q]] IN
    \A q \in 1..Len(r.v) :
        /\ (cs.exc # <<>> /\ \A p \in 1..Len(group(q)) : Masked(group(q)[p], cs.exc)) => IsNaN(r.v[q])
        /\ (\E p \in 1..Len(group(q)) : IsV(group(q)[p]) /\ ~Masked(group(q)[p], cs.exc)) => IsV(r.v[q])
\* sf: some outcome is admitted; every admitted outcome is within half a unit, keeps the sign, and rounds to itself
SfLaw == Is("sf") =>
    LET outs == SfOutcomes(cs.c, cs.n) IN
    /\ outs # {} /\ Cardinality(outs) <= 4
    /\ IsV(cs.c) => \A y \in outs : /\ IsV(y) /\ (Nm(cs.c) > 0 => Nm(y) >= 0) /\ (Nm(cs.c) < 0 => Nm(y) <= 0)
                                    /\ 2 * Abs(Nm(y) * Dn(cs.c) - Nm(cs.c) * Dn(y)) <= Abs(Nm(cs.c)) * Dn(y)             \* |y - x| <= |x| / 2 (n >= 1)
                                    /\ (SfDomain(y, cs.n) /\ Nm(y) # 0) => y \in SfOutcomes(y, cs.n)
=============================================================================
