CONSTANTS NthYears = {1900, 1999, 2000, 2001, 2004, 2015, 2016, 2017, 2018, 2019, 2020, 2021, 2022, 2023, 2024, 2100, 2299}
          Days <- ThoroughDays
          GenDays <- QuickGenDays
          GenFams = {"gmon", "gnth", "gnum", "gnumb", "gnp", "gper", "gfmt"}
INIT Init
NEXT Next
INVARIANT MonthLaws
INVARIANT YmLaws
INVARIANT NthLaws
INVARIANT NumLaws
INVARIANT NumBorders
INVARIANT NpLaws
INVARIANT PeriodLaws
INVARIANT BumpLaws
INVARIANT FormatLaws
