CONSTANTS SessYears = {2000}
          DayMod = 2
          MaxLen = 2
          Rot = 2
INIT Init
NEXT Next
