------------------------------ MODULE MergeJoin ------------------------------
(* Mechanism model of dictable.join / dictable.xor: both sides are turned into sorted runs of    *)
(* equal keys (_listby: sort of (key, i) pairs + run-length grouping) and merged by two cursors. *)
(* One action per loop test / body of the code.  Parameterised by the equalities the code uses:  *)
(*   Variant = "orig"   grouping and matching by Python tuple ==  (NaN objects differ from each   *)
(*                      other) while ordering is by cmp (NaN objects rank equal): the cursors     *)
(*                      can stop advancing - Termination fails                                    *)
(*   Variant = "fixed"  grouping and matching by cmp(..) = 0                                      *)
(* Checked against the law level (Join.tla): the recorded matches are exactly the key-equal       *)
(* pairs, and the loop terminates.                                                                *)
EXTENDS Join, Order
CONSTANTS Variant, MaxRows
VARIABLES lkeys, rkeys,        \* the key tuple of every left / right row (inputs)
          lgr, rgr,            \* sorted runs: sequences of <<key, <<row indices>>>>
          l, r, res, pc
vars == <<lkeys, rkeys, lgr, rgr, l, r, res, pc>>

KeyU == {None, VInt(1), VFlt(1, 1), VInt(2), VNaN(1), VNaN(2), VStr("a"), <<"d", <<730120, 0, 0>>>>}
KeySeqs == UNION {[1..n -> {VTup(<<k>>) : k \in KeyU}] : n \in 0..MaxRows}

C(u, v) == CmpModel(u, v)
GroupEq(u, v) == IF Variant = "orig" THEN PyEq(u, v) ELSE PyEq(u, v) \/ C(u, v) = 0
MatchEq(u, v) == IF Variant = "orig" THEN PyEq(u, v) ELSE C(u, v) = 0

\* _listby: stable sort of (key, i) by cmp (ties by i), then run-length grouping with GroupEq
PairCmp(p, q) == LET cc == C(p[1], q[1]) IN IF cc # 0 THEN cc ELSE Sign(p[2] - q[2])
RECURSIVE Runs(_, _, _)
Runs(ps, k, acc) ==
    IF k > Len(ps) THEN acc
    ELSE IF acc # <<>> /\ GroupEq(ps[k][1], Last(acc)[1])
         THEN Runs(ps, k + 1, Front(acc) \o <<<<ps[k][1], Last(acc)[2] \o <<ps[k][2]>>>>>>)   \* prev = key: the run takes the latest key
         ELSE Runs(ps, k + 1, acc \o <<<<ps[k][1], <<ps[k][2]>>>>>>)
Listby(keys) == Runs(StableSort(PairCmp, [i \in 1..Len(keys) |-> <<keys[i], i>>]), 1, <<>>)

Init == /\ lkeys \in KeySeqs /\ rkeys \in KeySeqs
        /\ lgr = Listby(lkeys) /\ rgr = Listby(rkeys)
        /\ l = 1 /\ r = 1 /\ res = <<>> /\ pc = "outer"
InRange == l <= Len(lgr) /\ r <= Len(rgr)
Outer == pc = "outer" /\ pc' = (IF InRange THEN "skipl" ELSE "done") /\ UNCHANGED <<lkeys, rkeys, lgr, rgr, l, r, res>>
SkipL == /\ pc = "skipl"
         /\ IF InRange /\ C(lgr[l][1], rgr[r][1]) = -1 THEN l' = l + 1 /\ pc' = "skipl" ELSE l' = l /\ pc' = "skipr"
         /\ UNCHANGED <<lkeys, rkeys, lgr, rgr, r, res>>
SkipR == /\ pc = "skipr"
         /\ IF InRange /\ C(lgr[l][1], rgr[r][1]) = 1 THEN r' = r + 1 /\ pc' = "skipr" ELSE r' = r /\ pc' = "match"
         /\ UNCHANGED <<lkeys, rkeys, lgr, rgr, l, res>>
MatchStep == /\ pc = "match"
             /\ IF InRange /\ MatchEq(lgr[l][1], rgr[r][1])
                THEN res' = Append(res, <<lgr[l][2], rgr[r][2]>>) /\ l' = l + 1 /\ r' = r + 1
                ELSE UNCHANGED <<res, l, r>>
             /\ pc' = "outer" /\ UNCHANGED <<lkeys, rkeys, lgr, rgr>>
Next == Outer \/ SkipL \/ SkipR \/ MatchStep
Spec == Init /\ [][Next]_vars /\ WF_vars(Next)

Termination == <>(pc = "done")
\* refinement of the law level: at the end the recorded runs pair up exactly the key-equal rows
ResultPairs == UNION {{<<i, j>> : i \in Range(res[n][1]), j \in Range(res[n][2])} : n \in 1..Len(res)}
LawPairs == {p \in (1..Len(lkeys)) \X (1..Len(rkeys)) : KeyEq(lkeys[p[1]], rkeys[p[2]])}
RefinesJoin == pc = "done" => ResultPairs = LawPairs
\* xor's result (rows of the left side not consumed by a match) is the anti-join
RefinesXor == pc = "done" => (1..Len(lkeys)) \ {p[1] : p \in ResultPairs} = {i \in 1..Len(lkeys) : \A j \in 1..Len(rkeys) : ~KeyEq(lkeys[i], rkeys[j])}
\* never record a pair that is not key-equal
OnlyEqualPairs == ResultPairs \subseteq LawPairs
\* the runs partition the rows and every run is one KeyEq class in cmp order
RunsOK == /\ UNION {Range(lgr[n][2]) : n \in 1..Len(lgr)} = 1..Len(lkeys)
          /\ \A n \in 1..Len(lgr) : \A i \in Range(lgr[n][2]) : KeyEq(lkeys[i], lgr[n][1])
          /\ \A m, n \in 1..Len(lgr) : m # n => ~KeyEq(lgr[m][1], lgr[n][1])
=============================================================================
