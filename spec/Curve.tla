-------------------------------- MODULE Curve --------------------------------
(* Extension X03-a: `interpolate` - piecewise linear interpolation of values y given at knots x, *)
(* read at new points a.                                                                        *)
(*                                                                                              *)
(* A cell is NaN (<<"nan", 0>>) or an exact rational <<"f", <<p, q>>>> in lowest terms, q > 0.  *)
(* (The drivers choose knots, values and points that binary floating point represents and       *)
(* combines without rounding, and send them with float.as_integer_ratio.)                       *)
(*                                                                                              *)
(* Objects (records, k = kind):                                                                 *)
(*   [k |-> "c", v |-> cell]                              a scalar                              *)
(*   [k |-> "v", v |-> <<cell, ..>>]                       a vector (list / 1-d array)           *)
(*   [k |-> "m", v |-> <<row, ..>>]                        a matrix, row by row                  *)
(*   [k |-> "s", t |-> <<time, ..>>, v |-> <<cell, ..>>]   a dated series (times = integers)     *)
(*   [k |-> "f", t |-> times, c |-> labels, v |-> rows]    a dated frame, one row per time; the  *)
(*        labels of a frame of values are its knots (cells), those of a frame of points strings  *)
(*   [k |-> "none"]                                        knots not given (read from the frame) *)
(* The law level is Interp1 (one curve, one point) written from "linear interpolation between    *)
(* the neighbouring knots that carry a value"; Interp lifts it to the calling forms.            *)
EXTENDS Integers, Sequences, FiniteSets

\* ---------------------------------------------------------------------------------------------
\* cells and exact rational arithmetic
\* ---------------------------------------------------------------------------------------------
NaNC == <<"nan", 0>>
IsV(c)   == c[1] = "f"
IsNaN(c) == c[1] = "nan"
Nm(c) == c[2][1]
Dn(c) == c[2][2]
AbsI(n) == IF n < 0 THEN -n ELSE n
RECURSIVE GcdI(_, _)
GcdI(a, b) == IF b = 0 THEN a ELSE GcdI(b, a % b)
\* the rational p/q (q # 0) in lowest terms with a positive denominator
Q(p, q) == LET g == GcdI(AbsI(p), AbsI(q))
               s == IF q < 0 THEN -1 ELSE 1
           IN  <<"f", <<(s * p) \div g, (s * q) \div g>>>>
Lt(u, w) == Nm(u) * Dn(w) < Nm(w) * Dn(u)
Le(u, w) == Nm(u) * Dn(w) <= Nm(w) * Dn(u)
AddQ(u, w) == Q(Nm(u) * Dn(w) + Nm(w) * Dn(u), Dn(u) * Dn(w))
SubQ(u, w) == Q(Nm(u) * Dn(w) - Nm(w) * Dn(u), Dn(u) * Dn(w))
MulQ(u, w) == Q(Nm(u) * Nm(w), Dn(u) * Dn(w))
DivQ(u, w) == Q(Nm(u) * Dn(w), Dn(u) * Nm(w))                 \* w # 0
WellCell(c) == IsNaN(c) \/ (IsV(c) /\ Dn(c) > 0 /\ c = Q(Nm(c), Dn(c)))

\* ---------------------------------------------------------------------------------------------
\* the law: one curve (knots x, values y), one point a, one policy for points outside the knots
\*   fill = "nan"          no value outside the knots
\*          "extrapolate"  the first / last segment is continued
\*          "bound"        the value at the nearest end (flat)
\* A knot whose value is NaN is no knot.  A curve with fewer than two knots has no value anywhere.
\* The knots may come in any order (the code is told so with assume_sorted = False); they are
\* distinct.
\* ---------------------------------------------------------------------------------------------
Fills == {"nan", "extrapolate", "bound"}
Knots(x, y) == {i \in 1..Len(y) : IsV(y[i])}
ArgMax(x, S) == CHOOSE i \in S : \A j \in S : Le(x[j], x[i])
ArgMin(x, S) == CHOOSE i \in S : \A j \in S : Le(x[i], x[j])
\* the point at abscissa a of the straight line through knots i and j
Line(x, y, i, j, a) == AddQ(y[i], DivQ(MulQ(SubQ(y[j], y[i]), SubQ(a, x[i])), SubQ(x[j], x[i])))

\* the knots <<i, j>> whose chord gives the value at a (i = j: the point sits on knot i), <<>> when there is no value
Seg(x, y, a, fill) ==
    IF IsNaN(a) THEN <<>>
    ELSE LET K == Knots(x, y) IN
    IF Cardinality(K) < 2 THEN <<>>
    ELSE LET B == {i \in K : Le(x[i], a)}            \* knots at or below the point
             A == {i \in K : Le(a, x[i])}            \* knots at or above it
         IN  IF B # {} /\ A # {} THEN <<ArgMax(x, B), ArgMin(x, A)>>      \* the neighbouring knots
             ELSE CASE fill = "nan"   -> <<>>
                    [] fill = "bound" -> IF B = {} THEN <<ArgMin(x, K), ArgMin(x, K)>> ELSE <<ArgMax(x, K), ArgMax(x, K)>>
                    [] fill = "extrapolate" ->
                         IF B = {} THEN LET i == ArgMin(x, K) IN <<i, ArgMin(x, K \ {i})>>
                         ELSE LET j == ArgMax(x, K) IN <<ArgMax(x, K \ {j}), j>>

Interp1(x, y, a, fill) ==
    LET s == Seg(x, y, a, fill) IN
    IF s = <<>> THEN NaNC ELSE IF x[s[1]] = x[s[2]] THEN y[s[1]] ELSE Line(x, y, s[1], s[2], a)

\* ---------------------------------------------------------------------------------------------
\* Where does binary floating point evaluate the chord without rounding?  (This is about the
\* binding to the code, not about the law, which is exact everywhere.)  scipy evaluates
\*     slope * (a - x_i) + y_i                 with slope = (y_j - y_i) / (x_j - x_i)   (nan, bound)
\*     w * y_j + (1 - w) * y_i                 with w = (a - x_i) / (x_j - x_i)         (extrapolate)
\* which is exact when all numbers are dyadic rationals of a few bits and the quotient is one too.
\* Cases outside this domain are not replayed (S2C) and must not be drawn by the driver (C2S).
\* ---------------------------------------------------------------------------------------------
RECURSIVE IsPow2(_)
IsPow2(n) == n = 1 \/ (n > 1 /\ n % 2 = 0 /\ IsPow2(n \div 2))
Dyadic(c) == IsNaN(c) \/ IsPow2(Dn(c))
FloatExact1(x, y, a, fill) ==
    LET s == Seg(x, y, a, fill) IN
    /\ Dyadic(a) /\ \A i \in 1..Len(x) : Dyadic(x[i]) /\ Dyadic(y[i])
    /\ (s # <<>> /\ s[1] # s[2]) =>
          IF fill = "extrapolate" THEN Dyadic(DivQ(SubQ(a, x[s[1]]), SubQ(x[s[2]], x[s[1]])))
          ELSE Dyadic(DivQ(SubQ(y[s[2]], y[s[1]]), SubQ(x[s[2]], x[s[1]])))

\* ---------------------------------------------------------------------------------------------
\* mechanism of today's code (for increasing knots): mask the NaN values away, clip the point for
\* "bound", then scipy's interp1d: find the segment by bisection, clip the segment index, evaluate
\* slope * (a - x_lo) + y_lo, blank what lies outside unless extrapolating.  Compared with the law
\* inside TLC (MC_Curve: MechanismIsLaw).
\* ---------------------------------------------------------------------------------------------
Compress(s, y) == LET ix == SelectSeq([i \in 1..Len(y) |-> i], LAMBDA i : IsV(y[i])) IN [k \in 1..Len(ix) |-> s[ix[k]]]
MechInterp1(x, y, a, fill) ==
    IF IsNaN(a) THEN NaNC
    ELSE LET xs == Compress(x, y)  ys == Compress(y, y)  n == Len(xs) IN
    IF n < 2 THEN NaNC
    ELSE LET a1 == IF fill = "bound" THEN (IF Lt(xs[n], a) THEN xs[n] ELSE IF Lt(a, xs[1]) THEN xs[1] ELSE a) ELSE a
             cnt == Cardinality({k \in 1..n : Lt(xs[k], a1)})          \* searchsorted
             hi0 == IF cnt < 1 THEN 1 ELSE IF cnt > n - 1 THEN n - 1 ELSE cnt
             lo == hi0  hi == hi0 + 1
             slope == DivQ(SubQ(ys[hi], ys[lo]), SubQ(xs[hi], xs[lo]))
             val == AddQ(MulQ(slope, SubQ(a1, xs[lo])), ys[lo])
             outside == Lt(a1, xs[1]) \/ Lt(xs[n], a1)
         IN  IF outside /\ fill # "extrapolate" THEN NaNC ELSE val

\* ---------------------------------------------------------------------------------------------
\* the calling forms
\* ---------------------------------------------------------------------------------------------
C(c) == [k |-> "c", v |-> c]
V(s) == [k |-> "v", v |-> s]
M(r) == [k |-> "m", v |-> r]
NoKnots == [k |-> "none"]
TimesOf(o) == {o.t[i] : i \in 1..Len(o.t)}
PosOf(o, tm) == CHOOSE i \in 1..Len(o.t) : o.t[i] = tm
\* the knots that go with row i of the values
XRow(x, y, i) == CASE x.k = "v" -> x.v
                   [] x.k = "m" -> x.v[i]
                   [] x.k = "f" -> x.v[i]          \* a dated frame of knots on the dates of the values
                   [] x.k = "none" -> y.c         \* the labels of the frame of values
\* named deviation PerRowWhenLengthMatches: a vector of points whose length equals the number of
\* curves is read as one point per curve (documented by the examples of _interpolate), any other
\* vector as a list of points for every curve
PerRow(a, m) == a.k = "v" /\ Len(a.v) = m
\* rows of values y (m curves) read at a: a vector (one value per curve) or a matrix
Rows(a, yv, xr(_), F(_, _, _)) ==
    LET m == Len(yv) IN
    CASE a.k = "c"     -> [shape |-> "v", v |-> [i \in 1..m |-> F(xr(i), yv[i], a.v)]]
      [] PerRow(a, m)  -> [shape |-> "v", v |-> [i \in 1..m |-> F(xr(i), yv[i], a.v[i])]]
      [] a.k = "v"     -> [shape |-> "m", v |-> [i \in 1..m |-> [j \in 1..Len(a.v) |-> F(xr(i), yv[i], a.v[j])]]]
      [] a.k = "m"     -> [shape |-> "m", v |-> [i \in 1..m |-> [j \in 1..Len(a.v[i]) |-> F(xr(i), yv[i], a.v[i][j])]]]

AllNaN(n) == [j \in 1..n |-> NaNC]
InterpG(a, y, x, F(_, _, _)) ==
    CASE y.k = "v" ->
           (CASE a.k = "c" -> C(F(x.v, y.v, a.v))
              [] a.k = "v" -> V([j \in 1..Len(a.v) |-> F(x.v, y.v, a.v[j])])
              [] a.k = "m" -> M([i \in 1..Len(a.v) |-> [j \in 1..Len(a.v[i]) |-> F(x.v, y.v, a.v[i][j])]]))
      [] y.k = "m" ->
           LET r == Rows(a, y.v, LAMBDA i : XRow(x, y, i), F) IN IF r.shape = "v" THEN V(r.v) ELSE M(r.v)
      [] y.k = "f" /\ a.k \in {"c", "v", "m"} ->           \* plain points: the answer is dated like the values
           LET r == Rows(a, y.v, LAMBDA i : XRow(x, y, i), F) IN
           IF r.shape = "v" THEN [k |-> "s", t |-> y.t, v |-> r.v]
           ELSE [k |-> "f", t |-> y.t, c |-> <<>>, v |-> r.v]
      [] y.k = "f" /\ a.k \in {"s", "f"} ->                \* dated points: the answer is dated like the points;
           LET n == Len(a.t)                               \* a date without values has no curve
               yrow(i) == IF a.t[i] \in TimesOf(y) THEN y.v[PosOf(y, a.t[i])] ELSE AllNaN(Len(XRow(x, y, 1)))
               xr(i) == XRow(x, y, 1)                       \* (dated knots are not combined with dated points here)
           IN  IF a.k = "s"
               THEN [k |-> "s", t |-> a.t, v |-> [i \in 1..n |-> F(xr(i), yrow(i), a.v[i])]]
               ELSE [k |-> "f", t |-> a.t, c |-> a.c,
                     v |-> [i \in 1..n |-> [j \in 1..Len(a.v[i]) |-> F(xr(i), yrow(i), a.v[i][j])]]]

\* named deviation OneColumnFrameIsSeries: a dated frame of points with a single column is read as the dated series
\* of that column (the library-wide convention of pd2np), so the answer is a series too
AsPoints(a) == IF a.k = "f" /\ Len(a.c) = 1 THEN [k |-> "s", t |-> a.t, v |-> [i \in 1..Len(a.t) |-> a.v[i][1]]] ELSE a
Interp(a, y, x, fill) == InterpG(AsPoints(a), y, x, LAMBDA xr, yr, p : Interp1(xr, yr, p, fill))

\* every evaluation of the call lies where floating point is exact (see FloatExact1)
Yes == Q(1, 1)
AllYes(o) == CASE o.k = "c" -> o.v = Yes
               [] o.k \in {"v", "s"} -> \A i \in 1..Len(o.v) : o.v[i] = Yes
               [] o.k \in {"m", "f"} -> \A i \in 1..Len(o.v) : \A j \in 1..Len(o.v[i]) : o.v[i][j] = Yes
FloatExact(a, y, x, fill) ==
    AllYes(InterpG(AsPoints(a), y, x, LAMBDA xr, yr, p : IF FloatExact1(xr, yr, p, fill) THEN Yes ELSE NaNC))
=============================================================================
