-------------------------------- MODULE Curve --------------------------------
(* Extension X03-a: `interpolate` - piecewise linear interpolation of values y given at knots x, *)
(* read at new points a.                                                                        *)
(*                                                                                              *)
(* A cell is NaN (<<"nan", 0>>) or an exact rational <<"f", <<p, q>>>> in lowest terms, q > 0.  *)
(* (The drivers choose knots, values and points that binary floating point represents and       *)
(* combines without rounding, and send them with float.as_integer_ratio.)                       *)
(*                                                                                              *)
(* Objects (records, k = kind):                                                                 *)
(*   [k |-> "c", v |-> cell]                              a scalar                              *)
(*   [k |-> "v", v |-> <<cell, ..>>]                       a vector (list / 1-d array)           *)
(*   [k |-> "m", v |-> <<row, ..>>]                        a matrix, row by row                  *)
(*   [k |-> "s", t |-> <<time, ..>>, v |-> <<cell, ..>>]   a dated series (times = integers)     *)
(*   [k |-> "f", t |-> times, c |-> labels, v |-> rows]    a dated frame, one row per time; the  *)
(*        labels of a frame of values are its knots (cells), those of a frame of points strings  *)
(*   [k |-> "none"]                                        knots not given (read from the frame) *)
(* The law level is Interp1 (one curve, one point) written from "linear interpolation between    *)
(* the neighbouring knots that carry a value"; Interp lifts it to the calling forms.            *)
EXTENDS Integers, Sequences, FiniteSets

\* ---------------------------------------------------------------------------------------------
\* cells and exact rational arithmetic
\* ---------------------------------------------------------------------------------------------
NaNC == <<"nan", 0>>
IsV(c)   == c[1] = "f"
IsNaN(c) == c[1] = "nan"
Nm(c) == c[2][1]
Dn(c) == c[2][2]
AbsI(n) == IF n < 0 THEN -n ELSE n
RECURSIVE GcdI(_, _)
GcdI(a, b) == IF b = 0 THEN a ELSE GcdI(b, a % b)
\* the rational p/q (q # 0) in lowest terms with a positive denominator
Q(p, q) == LET g == GcdI(AbsI(p), AbsI(q))
               s == IF q < 0 THEN -1 ELSE 1
           IN  <<"f", <<(s * p) \div g, (s * q) \div g>>>>
Lt(u, w) == Nm(u) * Dn(w) < Nm(w) * Dn(u)
Le(u, w) == Nm(u) * Dn(w) <= Nm(w) * Dn(u)
AddQ(u, w) == Q(Nm(u) * Dn(w) + Nm(w) * Dn(u), Dn(u) * Dn(w))
SubQ(u, w) == Q(Nm(u) * Dn(w) - Nm(w) * Dn(u), Dn(u) * Dn(w))
MulQ(u, w) == Q(Nm(u) * Nm(w), Dn(u) * Dn(w))
DivQ(u, w) == Q(Nm(u) * Dn(w), Dn(u) * Nm(w))                 \* w # 0
WellCell(c) == IsNaN(c) \/ (IsV(c) /\ Dn(c) > 0 /\ c = Q(Nm(c), Dn(c)))

\* ---------------------------------------------------------------------------------------------
\* the law: one curve (knots x, values y), one point a, one policy for points outside the knots
\*   fill = "nan"          no value outside the knots
\*          "extrapolate"  the first / last segment is continued
\*          "bound"        the value at the nearest end (flat)
\* A knot whose value is NaN is no knot.  A curve with fewer than two knots has no value anywhere.
\* The knots may come in any order (the code is told so with assume_sorted = False); they are
\* distinct.
\* ---------------------------------------------------------------------------------------------
Fills == {"nan", "extrapolate", "bound"}
Knots(x, y) == {i \in 1..Len(y) : IsV(y[i])}
ArgMax(x, S) == CHOOSE i \in S : \A j \in S : Le(x[j], x[i])
ArgMin(x, S) == CHOOSE i \in S : \A j \in S : Le(x[i], x[j])
\* the point at abscissa a of the straight line through knots i and j
Line(x, y, i, j, a) == AddQ(y[i], DivQ(MulQ(SubQ(y[j], y[i]), SubQ(a, x[i])), SubQ(x[j], x[i])))

Interp1(x, y, a, fill) ==
    IF IsNaN(a) THEN NaNC
    ELSE LET K == Knots(x, y) IN
    IF Cardinality(K) < 2 THEN NaNC
    ELSE LET B == {i \in K : Le(x[i], a)}            \* knots at or below the point
             A == {i \in K : Le(a, x[i])}            \* knots at or above it
         IN  IF B # {} /\ A # {}
             THEN LET i == ArgMax(x, B)  j == ArgMin(x, A) IN
                  IF x[i] = x[j] THEN y[i] ELSE Line(x, y, i, j, a)
             ELSE CASE fill = "nan"   -> NaNC
                    [] fill = "bound" -> IF B = {} THEN y[ArgMin(x, K)] ELSE y[ArgMax(x, K)]
                    [] fill = "extrapolate" ->
                         IF B = {} THEN LET i == ArgMin(x, K)  j == ArgMin(x, K \ {i}) IN Line(x, y, i, j, a)
                         ELSE LET j == ArgMax(x, K)  i == ArgMax(x, K \ {j}) IN Line(x, y, i, j, a)

\* ---------------------------------------------------------------------------------------------
\* mechanism of today's code (for increasing knots): mask the NaN values away, clip the point for
\* "bound", then scipy's interp1d: find the segment by bisection, clip the segment index, evaluate
\* slope * (a - x_lo) + y_lo, blank what lies outside unless extrapolating.  Compared with the law
\* inside TLC (MC_Curve: MechanismIsLaw).
\* ---------------------------------------------------------------------------------------------
Compress(s, y) == LET ix == SelectSeq([i \in 1..Len(y) |-> i], LAMBDA i : IsV(y[i])) IN [k \in 1..Len(ix) |-> s[ix[k]]]
MechInterp1(x, y, a, fill) ==
    IF IsNaN(a) THEN NaNC
    ELSE LET xs == Compress(x, y)  ys == Compress(y, y)  n == Len(xs) IN
    IF n < 2 THEN NaNC
    ELSE LET a1 == IF fill = "bound" THEN (IF Lt(xs[n], a) THEN xs[n] ELSE IF Lt(a, xs[1]) THEN xs[1] ELSE a) ELSE a
             cnt == Cardinality({k \in 1..n : Lt(xs[k], a1)})          \* searchsorted
             hi0 == IF cnt < 1 THEN 1 ELSE IF cnt > n - 1 THEN n - 1 ELSE cnt
             lo == hi0  hi == hi0 + 1
             slope == DivQ(SubQ(ys[hi], ys[lo]), SubQ(xs[hi], xs[lo]))
             val == AddQ(MulQ(slope, SubQ(a1, xs[lo])), ys[lo])
             outside == Lt(a1, xs[1]) \/ Lt(xs[n], a1)
         IN  IF outside /\ fill # "extrapolate" THEN NaNC ELSE val

\* ---------------------------------------------------------------------------------------------
\* the calling forms
\* ---------------------------------------------------------------------------------------------
C(c) == [k |-> "c", v |-> c]
V(s) == [k |-> "v", v |-> s]
M(r) == [k |-> "m", v |-> r]
NoKnots == [k |-> "none"]
TimesOf(o) == {o.t[i] : i \in 1..Len(o.t)}
PosOf(o, tm) == CHOOSE i \in 1..Len(o.t) : o.t[i] = tm
\* the knots that go with row i of the values
XRow(x, y, i) == CASE x.k = "v" -> x.v
                   [] x.k = "m" -> x.v[i]
                   [] x.k = "f" -> x.v[i]          \* a dated frame of knots on the dates of the values
                   [] x.k = "none" -> y.c         \* the labels of the frame of values
\* named deviation PerRowWhenLengthMatches: a vector of points whose length equals the number of
\* curves is read as one point per curve (documented by the examples of _interpolate), any other
\* vector as a list of points for every curve
PerRow(a, m) == a.k = "v" /\ Len(a.v) = m
\* rows of values y (m curves) read at a: a vector (one value per curve) or a matrix
Rows(a, yv, xr(_), fill) ==
    LET m == Len(yv) IN
    CASE a.k = "c"     -> [shape |-> "v", v |-> [i \in 1..m |-> Interp1(xr(i), yv[i], a.v, fill)]]
      [] PerRow(a, m)  -> [shape |-> "v", v |-> [i \in 1..m |-> Interp1(xr(i), yv[i], a.v[i], fill)]]
      [] a.k = "v"     -> [shape |-> "m", v |-> [i \in 1..m |-> [j \in 1..Len(a.v) |-> Interp1(xr(i), yv[i], a.v[j], fill)]]]
      [] a.k = "m"     -> [shape |-> "m", v |-> [i \in 1..m |-> [j \in 1..Len(a.v[i]) |-> Interp1(xr(i), yv[i], a.v[i][j], fill)]]]

AllNaN(n) == [j \in 1..n |-> NaNC]
Interp(a, y, x, fill) ==
    CASE y.k = "v" ->
           (CASE a.k = "c" -> C(Interp1(x.v, y.v, a.v, fill))
              [] a.k = "v" -> V([j \in 1..Len(a.v) |-> Interp1(x.v, y.v, a.v[j], fill)])
              [] a.k = "m" -> M([i \in 1..Len(a.v) |-> [j \in 1..Len(a.v[i]) |-> Interp1(x.v, y.v, a.v[i][j], fill)]]))
      [] y.k = "m" ->
           LET r == Rows(a, y.v, LAMBDA i : XRow(x, y, i), fill) IN IF r.shape = "v" THEN V(r.v) ELSE M(r.v)
      [] y.k = "f" /\ a.k \in {"c", "v", "m"} ->           \* plain points: the answer is dated like the values
           LET r == Rows(a, y.v, LAMBDA i : XRow(x, y, i), fill) IN
           IF r.shape = "v" THEN [k |-> "s", t |-> y.t, v |-> r.v]
           ELSE [k |-> "f", t |-> y.t, c |-> <<>>, v |-> r.v]
      [] y.k = "f" /\ a.k \in {"s", "f"} ->                \* dated points: the answer is dated like the points;
           LET n == Len(a.t)                               \* a date without values has no curve
               yrow(i) == IF a.t[i] \in TimesOf(y) THEN y.v[PosOf(y, a.t[i])] ELSE AllNaN(Len(XRow(x, y, 1)))
               xr(i) == XRow(x, y, 1)                       \* (dated knots are not combined with dated points here)
           IN  IF a.k = "s"
               THEN [k |-> "s", t |-> a.t, v |-> [i \in 1..n |-> Interp1(xr(i), yrow(i), a.v[i], fill)]]
               ELSE [k |-> "f", t |-> a.t, c |-> a.c,
                     v |-> [i \in 1..n |-> [j \in 1..Len(a.v[i]) |-> Interp1(xr(i), yrow(i), a.v[i][j], fill)]]]
=============================================================================
