\* S2C generator (quick): scripts of family real
CONSTANTS Variant = "code"
          MaxCalls = 2
          Scope = "quick"
          Family = "real"
INIT InitScript
NEXT NextScript
