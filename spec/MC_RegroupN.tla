----------------------------- MODULE MC_RegroupN -----------------------------
(* Property C11, the NAMES of things: column names, y labels and the spelling of the key         *)
(* arguments are part of the enumerated case.                                                    *)
(*   Fam = "keys"  : small tables under every naming of NameIds x key choices (also the id       *)
(*                   column as a key) x spellings (names / one list), with the name of the       *)
(*                   sub-table column of groupby;                                                 *)
(*   Fam = "pivot" : (x, y, z) tables under every naming, y drawn from the naming's own label    *)
(*                   universe (strings inside / equal to / containing the column names, the      *)
(*                   empty string, ints, floats, None, a datetime, a NaN object, +inf), x as a   *)
(*                   single name or a list of one or two names.                                  *)
(* Model checking: the constructive regroupings (sort + runs; pivot by classes; unpivot over     *)
(* all columns that are not x columns) satisfy the relational verdicts that judge the real code, *)
(* for every enumerated case; the mechanism "a column is a value column unless its label occurs  *)
(* in x" (a substring test when x is one name) is rejected by the same verdicts (SubLaw is       *)
(* expected to fail).  Generator configurations print the cases for the replay.                  *)
EXTENDS Regroup, Json
CONSTANTS NameIds, Fam, Rows, Rich
VARIABLES c, done

D1 == <<"d", <<730120, 0, 0>>>>
\* a naming: names of the roles a, b (keys), p (row number), y, z, of the sub-table column; rev = columns inserted in
\* reverse order; strs / vals = the naming's own y labels
Nm(i) ==
  CASE i = 0 -> [a |-> "a", b |-> "b", p |-> "p", y |-> "y", z |-> "z", grp |-> "grp", rev |-> FALSE,
                 strs |-> {"ab", "y", "p", ""}, vals |-> {VInt(1), VFlt(1, 1)}]
    [] i = 1 -> [a |-> "name", b |-> "me", p |-> "n", y |-> "am", z |-> "e", grp |-> "na", rev |-> FALSE,
                 strs |-> {"a", "me", "am", "nam"}, vals |-> {None, VInt(1)}]
    [] i = 2 -> [a |-> "n", b |-> "name", p |-> "names", y |-> "label", z |-> "value", grp |-> "group", rev |-> TRUE,
                 strs |-> {"na", "am", "label", ""}, vals |-> {VFlt(3, 2), D1}]
    [] i = 3 -> [a |-> "date", b |-> "at", p |-> "d", y |-> "y", z |-> "z", grp |-> "grp", rev |-> TRUE,
                 strs |-> {"at", "d", "da te", "z"}, vals |-> {VInt(2), VNaN(1)}]
    [] i = 4 -> [a |-> "x y", b |-> "x", p |-> "y", y |-> "y z", z |-> "z", grp |-> "x y z", rev |-> FALSE,
                 strs |-> {" ", "y", "x y z", "x"}, vals |-> {VFlt(1, 1), None}]
    [] i = 5 -> [a |-> "b", b |-> "a", p |-> "ab", y |-> "z", z |-> "y", grp |-> "ba", rev |-> FALSE,
                 strs |-> {"ab", "ba", "y", ""}, vals |-> {VInt(10), D1}]
    [] i = 6 -> [a |-> "1", b |-> "0", p |-> "grp", y |-> "10", z |-> "01", grp |-> "grp", rev |-> TRUE,
                 strs |-> {"10", "11", "grp", "01"}, vals |-> {VInt(0), VFlt(3, 2)}]
    [] i = 7 -> [a |-> "A", b |-> "a", p |-> "Aa", y |-> "Y", z |-> "y", grp |-> "GRP", rev |-> FALSE,
                 strs |-> {"a", "AA", "y", "Y"}, vals |-> {None, VInf(1)}]

\* ---- family "keys": listby / groupby under a naming -------------------------------------------
KRows == UNION {[1..k -> [a : {VInt(1), VInt(2)}, b : IF Rich THEN {VInt(1), None, VStr("s")} ELSE {VInt(1)}]] : k \in 0..Rows}
KTable(nm, rows) ==
    [cols |-> IF nm.rev THEN <<nm.p, nm.b, nm.a>> ELSE <<nm.a, nm.b, nm.p>>,
     rows |-> [i \in 1..Len(rows) |-> [cc \in {nm.a, nm.b, nm.p} |-> IF cc = nm.a THEN rows[i].a ELSE IF cc = nm.b THEN rows[i].b ELSE VInt(i)]]]
KBys(nm) == {<<nm.a>>, <<nm.b>>, <<nm.a, nm.b>>, <<nm.b, nm.a>>, <<nm.p>>, <<nm.p, nm.a>>}
\* a seed is cheap to enumerate (the initial states); the case is built from it, judged and printed by Next (in parallel)
KeySeeds(ids) == UNION {[fam : {"keys"}, nm : {i}, r : KRows, by : {b \in KBys(Nm(i)) : Nm(i).grp \notin Range(b)}, form : {"names", "list"}] : i \in ids}
KeyCase(s) == [op |-> "regroup", nm |-> s.nm, t |-> KTable(Nm(s.nm), s.r), by |-> s.by, form |-> s.form, idcol |-> Nm(s.nm).p, grp |-> Nm(s.nm).grp]

\* ---- family "pivot" ------------------------------------------------------------------------------
YU(nm) == {VStr(s) : s \in nm.strs} \cup nm.vals \cup (IF Rich THEN {VInt(1), VFlt(1, 1), VFlt(3, 2), None} ELSE {})
R1(nm) == [a : {VInt(1)}, y : YU(nm), z : {VInt(7)} \cup (IF Rich THEN {VInt(0), None} ELSE {})]
R2(nm) == [a : {VInt(1), VInt(2)}, y : YU(nm), z : {None, VInt(8)} \cup (IF Rich THEN {VInt(0)} ELSE {})]
PRows(nm) == {<<>>} \cup {<<r>> : r \in R1(nm)} \cup {<<r, s>> : r \in R1(nm), s \in R2(nm)}
                    \cup (IF Rows >= 3 THEN {<<r, s, u>> : r \in R1(nm), s \in R2(nm), u \in R2(nm)} ELSE {})
PTable(nm, rows) ==
    [cols |-> IF nm.rev THEN <<nm.p, nm.z, nm.y, nm.b, nm.a>> ELSE <<nm.a, nm.b, nm.y, nm.z, nm.p>>,
     rows |-> [i \in 1..Len(rows) |-> [cc \in {nm.a, nm.b, nm.y, nm.z, nm.p} |->
                  IF cc = nm.a THEN rows[i].a ELSE IF cc = nm.b THEN VStr("s") ELSE IF cc = nm.y THEN rows[i].y
                  ELSE IF cc = nm.z THEN rows[i].z ELSE VInt(i)]]]
XSels(nm) == {<<"name", <<nm.a>>>>, <<"list", <<nm.a>>>>, <<"list", <<nm.a, nm.b>>>>}
                 \cup (IF Rich THEN {<<"name", <<nm.b>>>>, <<"list", <<nm.b, nm.a>>>>} ELSE {})
\* duplicates of an (x, y) cell are aggregated: every aggregation there; unique cells are pivoted with last (and unpivoted)
Aggs(t, xs, y) == IF UniqueXY(t, xs, y) THEN {"last"} ELSE {"last", "list", "len", "first"}
PivotSeeds(ids) == UNION {[fam : {"pivot"}, nm : {i}, r : PRows(Nm(i)), xs : XSels(Nm(i))] : i \in ids}
PivotCase(s, g) == LET nm == Nm(s.nm) IN
    [op |-> "pivot", nm |-> s.nm, t |-> PTable(nm, s.r), x |-> s.xs[2], form |-> s.xs[1], y |-> nm.y, z |-> nm.z, agg |-> g]

\* c = the seed; done = "" until the case is built, then "go" (keys) or the aggregation (pivot).  Seeds whose table has a
\* label clash are outside the domain and have no successor.
Case == IF c.fam = "keys" THEN KeyCase(c) ELSE PivotCase(c, done)
Init == c \in (IF Fam = "keys" THEN KeySeeds(NameIds) ELSE IF Fam = "pivot" THEN PivotSeeds(NameIds) ELSE KeySeeds(NameIds) \cup PivotSeeds(NameIds)) /\ done = ""
Next == /\ done = ""
        /\ IF c.fam = "keys" THEN done' = "go"
           ELSE LET k == PivotCase(c, "last") IN ~LabelClash(k.t, k.x, k.y) /\ done' \in Aggs(k.t, k.x, k.y)
        /\ UNCHANGED c
NextGen == Next /\ PrintT(ToJson(IF c.fam = "keys" THEN KeyCase(c) ELSE PivotCase(c, done')))

\* ---- constructive level ---------------------------------------------------------------------------
\* (CGroupby, CUngroup, CPivot, CUnpivotBy, CUnpivot: constructive level of Regroup.tla)
\* the mechanism "col not in x" with x as it was passed: membership for a list, a SUBSTRING test for a single name
IsSubstr(s, x) == \E i \in 1..(Len(x) + 1) : i + Len(s) - 1 <= Len(x) /\ SubSeq(x, i, i + Len(s) - 1) = s
CUnpivotSub(t, pv, xs, form, y, z) ==
    CUnpivotBy(LAMBDA cc : IF form = "name" THEN ~IsSubstr(cc, xs[1]) ELSE cc \notin Range(xs), t, pv, xs, y, z)

ModelCmp(u, by) == [p \in 1..(Len(u.rows) - 1) |-> [k \in 1..Len(by) |-> CmpModel(u.rows[p][by[k]], u.rows[p + 1][by[k]])]]
ListbyLaw == done # "" => LET k == Case IN (k.op = "regroup" => ListbyVerdict(k.t, k.by, CListby(k.t, k.by)) = "")
UnlistLaw == done # "" => LET k == Case IN ((k.op = "regroup" /\ NRows(k.t) > 0) =>
                LET u == CUnlist(CListby(k.t, k.by), k.by) IN UnlistVerdict(k.t, k.by, u, ModelCmp(u, k.by), k.idcol) = "")
GroupbyLaw == done # "" => LET k == Case IN (k.op = "regroup" => GroupbyVerdict(k.t, k.by, k.grp, CGroupby(k.t, k.by, k.grp)) = "")
UngroupLaw == done # "" => LET k == Case IN ((k.op = "regroup" /\ NRows(k.t) > 0) =>
                UngroupVerdict(k.t, k.by, [cols |-> k.t.cols, rows |-> CUngroup(CGroupby(k.t, k.by, k.grp), k.by, k.grp)]) = "")
PivotLaw == done # "" => LET k == Case IN (k.op = "pivot" => PivotVerdict(k.t, k.x, k.y, k.z, k.agg, CPivot(k.t, k.x, k.y, k.z, k.agg)) = "")
UnpivotLaw == done # "" => LET k == Case IN ((k.op = "pivot" /\ k.agg = "last") =>
                UnpivotVerdict(k.t, k.x, k.y, k.z, CUnpivot(k.t, CPivot(k.t, k.x, k.y, k.z, "last"), k.x, k.y, k.z)) = "")
\* expected to FAIL: the substring mechanism loses the rows of a label that occurs inside the name of the x column
SubLaw == done # "" => LET k == Case IN ((k.op = "pivot" /\ k.agg = "last") =>
                UnpivotVerdict(k.t, k.x, k.y, k.z, CUnpivotSub(k.t, CPivot(k.t, k.x, k.y, k.z, "last"), k.x, k.form, k.y, k.z)) = "")
=============================================================================
