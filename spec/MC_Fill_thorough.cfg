CONSTANTS MaxLen1 = 8
          MaxRows2 = 5
          MaxList = 2
          Lims = {0, 1, 2, 3, 4}
INIT Init
NEXT Eval
INVARIANT Shape
INVARIANT NonNaNKept
INVARIANT FilledAreCopies
INVARIANT Reach
INVARIANT LimitNone
INVARIANT MechIsLaw
INVARIANT FillKeepsRows
INVARIANT DropOnly
INVARIANT NonaExact
INVARIANT FnnaExact
INVARIANT DropAlgebra
INVARIANT FfillXLaw
INVARIANT Idempotent
INVARIANT Complete
INVARIANT FewOutcomes
