CONSTANTS HW = 10
          Margins = {1}
          Anchors = {1}
          NMax = 8
          MCMod = 1
          GenMod = 1
          TPad = 3
INIT Init
NEXT Eval
INVARIANT AdjustLaw
INVARIANT AddLaw
INVARIANT DrangeLaw
INVARIANT MechanismIsLaw
INVARIANT BeyondIsLawOrRefusal
INVARIANT PathsAgree
INVARIANT TableLaw
INVARIANT Straddles
INVARIANT MonthNoIsMonthOf
