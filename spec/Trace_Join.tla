------------------------------ MODULE Trace_Join ------------------------------
(* Trace validation for property C02: each line is one call x.join(y, ...) / x * y /             *)
(* x.xor(y, ...) / x / y on real dictables, run under a CPU-time watchdog, with both operands    *)
(* before and after and the encoded outcome (table, exception class, or timeout).                *)
EXTENDS Join, Batch

IsCols(ks) == \A k \in 1..Len(ks) : ks[k][1] = "col"
Verdict(o) ==
    LET x == o.x  y == o.y  lk == o.lk  rk == o.rk  out == o.out IN
    IF o.implicit /\ lk # [k \in 1..Len(Common(x, y)) |-> <<"col", Common(x, y)[k]>>] THEN "harness_domain_error"
    ELSE IF out.kind = "timeout" THEN "does_not_terminate"
    ELSE IF o.x_after # x \/ o.y_after # y THEN "operand_changed"
    ELSE IF o.op = "join" THEN
        IF ~KeyNameOK(lk, rk) THEN (IF out.kind = "exc" /\ out.cls = "ValueError" THEN "" ELSE "two_computed_keys_not_rejected")
        ELSE IF out.kind # "table" THEN "join_raised"
        ELSE IF Range(out.cols) # JoinCols(x, y, lk, rk) THEN "join_columns"
        ELSE IF ~BagEq(out.rows, JoinRows(x, y, lk, rk, o.mode), KeyNames(lk, rk)) THEN "join_rows"
        ELSE ""
    ELSE IF o.op = "xor" THEN
        LET keep == IF o.mode = "r" THEN y ELSE x
            other == IF o.mode = "r" THEN x ELSE y
            kk == IF o.mode = "r" THEN rk ELSE lk
            ko == IF o.mode = "r" THEN lk ELSE rk IN
        IF out.kind # "table" THEN "xor_raised"
        \* named deviation XorNoKey: with no key column there is nothing to exclude on - x comes back whole
        ELSE IF Len(lk) = 0 THEN (IF Range(out.cols) = ColSet(x) /\ out.rows = x.rows THEN "" ELSE "xor_no_key")
        ELSE IF Range(out.cols) # ColSet(keep) THEN "xor_columns"
        ELSE IF ~BagEq(out.rows, XorRows(keep, other, kk, ko), {}) THEN "xor_rows"
        ELSE ""
    ELSE "unknown_op"

Init == BatchInit
Next == BatchNext(Verdict)
=============================================================================
