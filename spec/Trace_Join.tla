------------------------------ MODULE Trace_Join ------------------------------
(* Trace validation for property C02: each line is one call x.join(y, ...) / x * y /             *)
(* x.xor(y, ...) / x / y / x*y + x/y on real dictables, run under a CPU-time watchdog, with both  *)
(* operands as they were immediately before and after the call and the encoded outcome (table,   *)
(* exception class, or timeout).  x is the operand whose method is called, y the other one -     *)
(* which may be the same object, or share its column lists with x (field shape, see JoinCalls);  *)
(* the law is the same for every shape: Join(x, y, lk, rk, mode) on the two values.              *)
(* Lines with the field sess are steps of a session (JoinSess.tla): calls between objects of a   *)
(* pool of caller-owned tables / dicts / Dicts / DataFrames and the caller's own edits, the      *)
(* whole pool read before and after.  Key cells may be abstract (<<"k", <<class, ..>>>>,          *)
(* Join.tla): the law only asks which keys are equal.                                            *)
EXTENDS JoinSess, Batch

Has(o, f) == f \in DOMAIN o
IsCols(ks) == \A k \in 1..Len(ks) : ks[k][1] = "col"
Verdict(o) ==
    IF Has(o, "sess") THEN StepVerdict(o)          \* a step of a session on a pool of caller-owned objects (JoinSess.tla)
    ELSE
    LET x == o.x  y == o.y  lk == o.lk  rk == o.rk  out == o.out IN
    IF o.implicit /\ lk # [k \in 1..Len(Common(x, y)) |-> <<"col", Common(x, y)[k]>>] THEN "harness_domain_error"
    ELSE IF Has(o, "shape") /\ o.shape = "same" /\ x # y THEN "harness_domain_error"       \* one object has one value
    ELSE IF out.kind = "timeout" THEN "does_not_terminate"
    ELSE IF o.x_after # x \/ o.y_after # y THEN "operand_changed"
    ELSE CallVerdict(o.op, x, y, lk, rk, o.mode, out)

Init == BatchInit
Next == BatchNext(Verdict)
=============================================================================
