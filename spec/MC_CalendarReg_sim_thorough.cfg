CONSTANTS Keys = {"a", "b"}
          NHol = 5
          NWk = 4
          NLo = 3
          NHi = 3
          ConAdjs = {"f", "p", "m"}
          ConFull = FALSE
          Rich = TRUE
          MaxObj = 8
          Depth = 10
          KeepHist = TRUE
          SetAdjs = {"f", "p", "m"}
          Fan = 4
INIT Init
NEXT NextGen
