CONSTANTS SessCfg <- SessSmall
          OneCfg <- SessOne
          HeapKind = "full"
          Alias = FALSE
          Forms <- FormsPairs
          MaxSteps = 4
          Gen = FALSE
          Memo = "none"
          AllPairs = FALSE
          Erase = FALSE
          EditStride = 3
          SliceStride = 4
INIT Init
NEXT Next
INVARIANT TypeOK
INVARIANT StitchedCanUnstitch
INVARIANT UnsliceNoMemory
INVARIANT StitchNoMemory
PROPERTY CorrectionKeepsStitched
PROPERTY CallsOwnNothing
