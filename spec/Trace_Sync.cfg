INIT Init
NEXT Next
