CONSTANTS
 MaxLen = 4
 NStamps = 2
 Leaky = FALSE
 Depth = 3
INIT InitFold
NEXT EvalGen
INVARIANT FoldEnds
INVARIANT FoldCalls
INVARIANT DefaultOnlyIfEmpty
INVARIANT LeftNested
INVARIANT TsFoldIsReduce
INVARIANT IndexFoldIsJoint
