CONSTANTS HW = 7
          Margins = {1, 2, 3, 4, 5, 6}
          Anchors = {1, 2}
          NMax = 6
          MCMod = 48
          GenMod = 48
          TPad = 2
INIT Init
NEXT EvalGen
