CONSTANTS HW = 7
          Margins = {21}
          Anchors = {1, 2}
          NMax = 6
          GenMod = 12
INIT Init
NEXT EvalGen
