CONSTANTS HW = 7
          Margins = {1, 2, 3, 4}
          Anchors = {1, 2, 3}
          NMax = 6
          MCMod = 84
          GenMod = 84
          TPad = 2
INIT Init
NEXT EvalGen
