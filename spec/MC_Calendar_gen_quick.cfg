CONSTANTS HW = 7
          Margins = {21, 2}
          Anchors = {1, 2}
          NMax = 6
          GenMod = 16
INIT Init
NEXT EvalGen
