CONSTANTS HW = 7
          Margins = {21, 2}
          Anchors = {1, 2}
          NMax = 6
          GenMod = 16
          TPad = 2
INIT Init
NEXT EvalGen
