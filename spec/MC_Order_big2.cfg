CONSTANTS MaxLen = 2
          Mode = "big"
INIT Init
NEXT Next
INVARIANT BigLawsDouble
INVARIANT BigLawsExact
INVARIANT BigWellFormed
INVARIANT BigCoarseTieUsed
INVARIANT BigFastPathRejected
INVARIANT BigSortLaws
INVARIANT BigTableLaws
