----------------------------- MODULE RegroupBig -----------------------------
(* Property C11 on BIG tables (size / count thresholds: more than 16 / 64 / 100 / 256 / 1024 rows). *)
(*                                                                                                 *)
(* TLC cannot enumerate tables of 1030 rows; it enumerates small PATTERNS and this module states    *)
(* how a pattern is scaled up and what the statement then says about the scaled table.              *)
(*                                                                                                 *)
(* SCALING RULE.  A scaled table is described, not listed:                                          *)
(*     sc = [pat |-> a small table (key columns only), k |-> number of copies,                      *)
(*           mode |-> "repeat" (the pattern rows over and over: 1 2 3 1 2 3 ...)                     *)
(*                  | "block"  (every pattern row k times: 1 1 .. 2 2 .. 3 3 ..),                    *)
(*           odd |-> <<>> or <<one more row>> (the odd key), pos |-> the row number it stands at,   *)
(*           ids |-> the names of the id columns (each numbers the rows 1, 2, ..., n)]              *)
(* Row i of the scaled table has the key cells of its SOURCE row Src(sc, i) of the small table      *)
(* Small(sc) = the pattern rows and the odd row; its id cells are i.                                *)
(*                                                                                                 *)
(* SCALING LAW (the statement read on a scaled table).  Two rows are of one key class iff their     *)
(* sources are of one key class of the small table (KeyEq is decided on the small table, by TLC, on *)
(* a handful of rows); a class lists the row numbers of its members in increasing order; therefore   *)
(*   listby  : one row per class of the small table; the cell of a column lists the cells of the    *)
(*             members in increasing row number (the id cell: the row numbers themselves);          *)
(*   unlist  : every row of the scaled table once (named by its id), every class one contiguous     *)
(*             run with increasing ids, adjacent keys in order under the real cmp;                  *)
(*   groupby : one sub-table per class, its rows the members in increasing row number; ungroup:     *)
(*             every row once;                                                                      *)
(*   pivot   : one row per x class, one column per y class of the small table, the cell aggregates  *)
(*             the z cells of the rows whose sources are in both classes, in increasing row number; *)
(*             with the ids as y every row has a column of its own and unpivot gives every row back.*)
(* All verdicts are linear in the number of rows (ids are ints: a row is looked up by its id).      *)
(* MC_RegroupB checks on small k that these verdicts and the relational verdicts of Regroup.tla     *)
(* (which judge any table, in quadratic / cubic time) say the same about the constructive results   *)
(* and about damaged ones.                                                                          *)
EXTENDS RegroupSession

ScM(sc) == Len(sc.pat.rows)
ScN(sc) == ScM(sc) * sc.k + Len(sc.odd)
HasOdd(sc) == sc.odd # <<>>
Small(sc) == [cols |-> sc.pat.cols, rows |-> sc.pat.rows \o sc.odd]
PatIdx(sc, j) == IF sc.mode = "repeat" THEN ((j - 1) % ScM(sc)) + 1 ELSE ((j - 1) \div sc.k) + 1
\* the source (a row number of the small table) of row i of the scaled table
Src(sc, i) == IF HasOdd(sc) /\ i = sc.pos THEN ScM(sc) + 1
              ELSE PatIdx(sc, IF HasOdd(sc) /\ i > sc.pos THEN i - 1 ELSE i)
IdSet(sc) == Range(sc.ids)
ScCols(sc) == sc.pat.cols \o sc.ids
ScCell(sc, i, cc) == IF cc \in IdSet(sc) THEN VInt(i) ELSE Small(sc).rows[Src(sc, i)][cc]
ScRow(sc, i) == [cc \in Range(ScCols(sc)) |-> ScCell(sc, i, cc)]
ScaledTable(sc) == [cols |-> ScCols(sc), rows |-> [i \in 1..ScN(sc) |-> ScRow(sc, i)]]
\* a description is well formed (the keys are columns of the pattern: the ids are never keys)
ScOK(sc, by) == /\ sc.k >= 1 /\ ScM(sc) >= 1 /\ Len(sc.odd) <= 1
                /\ (HasOdd(sc) => sc.pos \in 1..ScN(sc))
                /\ Range(by) \subseteq Range(sc.pat.cols) /\ IdSet(sc) \cap Range(sc.pat.cols) = {} /\ sc.ids # <<>>

\* ---- classes: decided on the small table ---------------------------------------------------------
\* the class of source s = the first source with the same key
SrcClass(sc, by, s) == LET T == Small(sc) IN CHOOSE r \in Reps(T, by) : SameKey(T.rows[r], T.rows[s], by)
RowClass(sc, by, i) == SrcClass(sc, by, Src(sc, i))
Classes(sc, by) == Reps(Small(sc), by)          \* (k >= 1: every source occurs)
OneTo(n) == [i \in 1..n |-> i]
\* the row numbers of a class, increasing
Members(sc, by, c) == SelectSeq(OneTo(ScN(sc)), LAMBDA i : RowClass(sc, by, i) = c)
IdOf(sc, row) == Pay(row[sc.ids[1]])
IdsArePerm(sc, rows) == /\ Len(rows) = ScN(sc)
                        /\ \A q \in 1..Len(rows) : Tag(rows[q][sc.ids[1]]) = "i" /\ IdOf(sc, rows[q]) \in 1..ScN(sc)
                        /\ Cardinality({IdOf(sc, rows[q]) : q \in 1..Len(rows)}) = ScN(sc)
\* every row is the row of the scaled table that its id names (key cells as keys, the others exactly)
RowsAreTheirs(sc, by, rows) == \A q \in 1..Len(rows) : RowEquiv(rows[q], ScRow(sc, IdOf(sc, rows[q])), Range(by))

\* ---- listby / unlist -----------------------------------------------------------------------------
BigListbyVerdict(sc, by, out) ==
    LET T == Small(sc)  nk == Range(ScCols(sc)) \ Range(by) IN
    IF Range(out.cols) # Range(ScCols(sc)) THEN "listby_columns"
    ELSE IF Len(out.rows) # Cardinality(Classes(sc, by)) THEN "listby_one_row_per_key"
    ELSE IF \E c \in Classes(sc, by) : ~\E r \in 1..Len(out.rows) :
                /\ SameKey(out.rows[r], T.rows[c], by)
                /\ LET ms == Members(sc, by, c) IN
                   \A cc \in nk : out.rows[r][cc] = VLst([q \in 1..Len(ms) |-> ScCell(sc, ms[q], cc)])
         THEN "listby_cells"
    ELSE ""
BigUnlistVerdict(sc, by, unl, colcmp) ==
    LET n == ScN(sc) IN
    IF Range(unl.cols) # Range(ScCols(sc)) THEN "unlist_columns"
    ELSE IF ~IdsArePerm(sc, unl.rows) \/ ~RowsAreTheirs(sc, by, unl.rows) THEN "unlist_rows"
    ELSE IF Len(colcmp) # n - 1 \/ \E p \in 1..Len(colcmp) : LexSign(colcmp[p], 1) \notin {-1, 0} THEN "unlist_not_sorted_by_keys"
    ELSE LET cls == [q \in 1..n |-> RowClass(sc, by, IdOf(sc, unl.rows[q]))] IN
         IF \E q \in 1..(n - 1) : cls[q] = cls[q + 1] /\ ~(IdOf(sc, unl.rows[q]) < IdOf(sc, unl.rows[q + 1])) THEN "unlist_not_stable"
         ELSE IF Cardinality({q \in 1..(n - 1) : cls[q] # cls[q + 1]}) + 1 # Cardinality(Classes(sc, by)) THEN "unlist_key_not_contiguous"
         ELSE ""

\* ---- groupby / ungroup ---------------------------------------------------------------------------
BigGroupbyVerdict(sc, by, grp, out) ==
    LET T == Small(sc)  nk == Range(ScCols(sc)) \ Range(by) IN
    IF Range(out.cols) # Range(by) \cup {grp} THEN "groupby_columns"
    ELSE IF Len(out.rows) # Cardinality(Classes(sc, by)) THEN "groupby_one_row_per_key"
    ELSE IF \E r \in 1..Len(out.rows) : out.rows[r][grp][1] # "tbl" THEN "groupby_cell_not_a_table"
    ELSE IF \E c \in Classes(sc, by) : ~\E r \in 1..Len(out.rows) :
                /\ SameKey(out.rows[r], T.rows[c], by)
                /\ LET g == out.rows[r][grp][2]  ms == Members(sc, by, c) IN
                      /\ Range(g.cols) = nk
                      /\ g.rows = [q \in 1..Len(ms) |-> [cc \in nk |-> ScCell(sc, ms[q], cc)]]
         THEN "groupby_groups"
    ELSE ""
BigUngroupVerdict(sc, by, ung) ==
    IF Range(ung.cols) # Range(ScCols(sc)) THEN "ungroup_columns"
    ELSE IF ~IdsArePerm(sc, ung.rows) \/ ~RowsAreTheirs(sc, by, ung.rows) THEN "ungroup_rows" ELSE ""

\* ---- pivot over a key column of the pattern as y (few columns, every cell aggregates many rows) ----
\* z = an id column.  The labels are those of the small table.
BigPivotVerdict(sc, xs, y, z, agg, out) ==
    LET T == Small(sc) IN
    IF LabelClash(T, xs, y) THEN ""
    ELSE IF \/ Len(out.cols) # Cardinality(Range(out.cols))
            \/ ~(Range(xs) \subseteq Range(out.cols))
            \/ ~(Range(out.cols) \ Range(xs) \subseteq AllLabels(T, y))
            \/ \E k \in YReps(T, y) : Cardinality(ClassLabels(T, y, k) \cap Range(out.cols)) # 1
         THEN "pivot_columns"
    ELSE IF Len(out.rows) # Cardinality(Classes(sc, xs)) THEN "pivot_one_row_per_x"
    ELSE IF \E c \in Classes(sc, xs) : ~\E r \in 1..Len(out.rows) :
                /\ SameKey(out.rows[r], T.rows[c], xs)
                /\ \A k \in Classes(sc, <<y>>) :
                      LET ms == SelectSeq(Members(sc, xs, c), LAMBDA i : RowClass(sc, <<y>>, i) = k)
                          lab == CHOOSE l \in ClassLabels(T, y, k) : l \in Range(out.cols) IN
                      out.rows[r][lab] = (IF ms = <<>> THEN None ELSE Agg(agg, [q \in 1..Len(ms) |-> ScCell(sc, ms[q], z)]))
         THEN "pivot_cells"
    ELSE ""

\* ---- pivot over an id column as y (as many columns as rows), z = another id column; unpivot -------
\* row i has the column labelled ToString(i) to itself: its cell shows i in the row of i's x class, None elsewhere
BigWideVerdict(sc, xs, y, z, out) ==
    LET T == Small(sc)  n == ScN(sc)  labs == {ToString(i) : i \in 1..n} IN
    IF Len(out.cols) # Cardinality(Range(out.cols)) \/ Range(out.cols) # Range(xs) \cup labs THEN "pivot_columns"
    ELSE IF Len(out.rows) # Cardinality(Classes(sc, xs)) THEN "pivot_one_row_per_x"
    ELSE IF \E c \in Classes(sc, xs) : ~\E r \in 1..Len(out.rows) :
                /\ SameKey(out.rows[r], T.rows[c], xs)
                /\ \A i \in 1..n : out.rows[r][ToString(i)] = (IF RowClass(sc, xs, i) = c THEN VInt(i) ELSE None)
         THEN "pivot_cells"
    ELSE ""
\* unp = unpivot(x, y, z) of it without the None cells: every row of the scaled table once, named by its z cell (= its id),
\* its x cells as keys, its y the id rendered as a label
BigUnwideVerdict(sc, xs, y, z, unp) ==
    LET n == ScN(sc) IN
    IF Range(unp.cols) # Range(xs) \cup {y, z} THEN "unpivot_columns"
    ELSE IF \/ Len(unp.rows) # n
            \/ \E q \in 1..Len(unp.rows) : Tag(unp.rows[q][z]) # "i" \/ Pay(unp.rows[q][z]) \notin 1..n
            \/ Cardinality({Pay(unp.rows[q][z]) : q \in 1..Len(unp.rows)}) # n
            \/ \E q \in 1..Len(unp.rows) : LET i == Pay(unp.rows[q][z]) IN
                   ~(unp.rows[q][y] = RenderVal(VInt(i)) /\ \A cc \in Range(xs) : KeyEq(unp.rows[q][cc], ScCell(sc, i, cc)))
         THEN "unpivot_rows"
    ELSE ""

\* ---- a recorded observation on a scaled table: o.sc, o.via, o.by (= x for the pivots), o.after = the operand after the calls ----
ScaleVerdict(o) ==
    IF ~ScOK(o.sc, o.by) THEN "scale_description"
    ELSE IF o.raised # "" THEN o.stage \o "_raises"
    ELSE IF o.after # ScaledTable(o.sc) THEN "operand_changed"       \* (also: the table that was built is the one the rule describes)
    ELSE CASE o.via = "listby" ->
                LET v == BigListbyVerdict(o.sc, o.by, o.out) IN IF v # "" THEN v ELSE BigUnlistVerdict(o.sc, o.by, o.inv, o.colcmp)
           [] o.via = "groupby" ->
                LET v == BigGroupbyVerdict(o.sc, o.by, o.grp, o.out) IN IF v # "" THEN v ELSE BigUngroupVerdict(o.sc, o.by, o.inv)
           [] o.via = "pivot" -> BigPivotVerdict(o.sc, o.by, o.y, o.z, o.agg, o.out)
           [] o.via = "wide" ->
                LET v == BigWideVerdict(o.sc, o.by, o.y, o.z, o.out) IN IF v # "" THEN v ELSE BigUnwideVerdict(o.sc, o.by, o.y, o.z, o.inv)
           [] OTHER -> "unknown_via"
=============================================================================
