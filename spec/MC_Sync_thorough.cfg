CONSTANTS NP = 4
 NT = 2
 NF = 2
 NA = 3
 NC = 3
 NS = 5
 Light = FALSE
INIT Init
NEXT Eval
INVARIANT OnJointIndex
INVARIANT ValuesIntact
INVARIANT AsOfJoin
INVARIANT ColumnsAligned
INVARIANT ColumnPolicy
INVARIANT DictOrderKept
INVARIANT StructureKept
INVARIANT Idempotent
INVARIANT PolicyOrder
INVARIANT ReadingsAgree
INVARIANT MechanismIsLaw
INVARIANT PerColumnIsWhole
INVARIANT ArraysAlignedAtEnd
