\* S2C, thorough: histories of two calls over all heaps (duplicates, empty and singleton lists, pseudo-series)
CONSTANTS MaxSteps = 2
          FreeSteps = 1
          Scope = "thorough"
          Caller = FALSE
          Extend = FALSE
INIT Init
NEXT NextGen
