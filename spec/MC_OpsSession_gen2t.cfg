\* thorough tier: the clauses on every history of two calls over all heaps (printed for the S2C replay as well)
CONSTANTS MaxSteps = 2
          FreeSteps = 1
          Scope = "thorough"
          Caller = FALSE
          Edits = FALSE
          Pairs = "no"
          Extend = FALSE
          Mech = TRUE
INIT Init
NEXT NextGen
INVARIANT PoolUntouched
INVARIANT ResultByOriginal
INVARIANT FormIrrelevant
INVARIANT RightListPinned
INVARIANT SwapArguments
INVARIANT ListAggregates
PROPERTY CallsChangeNothing
