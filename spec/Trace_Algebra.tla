---------------------------- MODULE Trace_Algebra ----------------------------
(* Trace validation for property C16.  Every line is one public call on real objects, with the *)
(* operands encoded before and again after the call:                                           *)
(*   ulist_new   ulist(raw)                                                                    *)
(*   ulist_op    u + x, u | x, u - x, u & x      (x a single element or a list)                *)
(*   minus, and  d - keys, d & keys              (d a dictattr, Dict or a subclass of either)  *)
(*   minus_path, isub_path   d - (k1, .., kn) / x = d; x -= (k1, .., kn): delete a branch of nested mappings *)
(*   select, multiget   d[[k1, ...]], d[k1, ...]                                               *)
(*   plus, or    d + other, d | other                                                          *)
(*   relabel     d.relabel(...): a blanket rule (none / prefix / suffix / dict or callable)     *)
(*               and individual keyword relabels in one call                                   *)
(*   attr        d.k beside d[k]                                                               *)
(*   call        Dict called with keyword definitions synthesised from a dependency graph   *)
(*               (par = parameter names, kin = their kinds: with / without a default,        *)
(*               keyword-only; star = *args / **kwargs declared; shape = function, object  *)
(*               with __call__, functools.partial), in one keyword order                      *)
(*   useq        a SESSION on one ulist object: hist = the steps <<kind, what>> (call / edit by the owner /  *)
(*               edit of the previous result), obs = per step what came back and what u and the operand hold *)
(*               afterwards (Algebra.tla 4a)                                                                   *)
(*   mses        a SESSION on the caller's mappings d, e, key list K, other mapping O, renaming M              *)
(*               (Algebra.tla 4b): per step the outcome and ALL objects afterwards                             *)
(* A mapping is logged as [cls, items] with items the sequence of [key, value] in dict order.  *)
(* Verdict(o) = "" or the name of the first clause the observation breaks; results are judged  *)
(* before operands.                                                                            *)
EXTENDS Algebra, Batch

IsMap(out) == out.kind = "map"
SameMap(items, f) == IsMapping(items) /\ AsFun(items) = f
Override(base, plain) == [k \in DOMAIN base \cup DOMAIN plain |-> IF k \in DOMAIN plain THEN plain[k] ELSE base[k]]

\* --- sessions: the specification keeps what the caller's objects hold (cur) and judges every step against it -------------
RECURSIVE JudgeU(_, _, _, _)
JudgeU(cur, hist, obs, i) ==
    IF i > Len(hist) THEN ""
    ELSE LET k == hist[i][1]  a == hist[i][2]  s == obs[i] IN
         IF k = "call" THEN
              LET law == CallU(cur, a)
                  name == IF a[1] = "op" THEN a[2] ELSE IF a[1] = "rop" THEN "right_" \o a[2] ELSE "in"
                  arg  == IF a[1] = "op" THEN (IF a[3][1] = "list" THEN a[3][2] ELSE <<>>) ELSE IF a[1] = "rop" THEN a[3] ELSE <<>> IN
              IF s.exc # "" THEN "ses_ulist_raised"
              ELSE IF ~SeqPyEq(s.out, law) THEN "ses_ulist_" \o name
              ELSE IF a[1] # "in" /\ ~IsUSeq(s.out) THEN "ulist_has_duplicates"
              ELSE IF a[1] # "in" /\ ~s.is_ulist THEN "not_a_ulist"
              ELSE IF s.u # cur THEN "ulist_modified"
              ELSE IF s.x_after # arg THEN "operand_modified"
              ELSE JudgeU(cur, hist, obs, i + 1)
         ELSE IF k = "edit" THEN
              IF ~OwnerKeepsUnique(cur, a) \/ s.u # EditL(cur, a) THEN "bad_input" ELSE JudgeU(EditL(cur, a), hist, obs, i + 1)
         ELSE IF k = "redit" THEN
              IF i = 1 \/ hist[i - 1][1] # "call" THEN "bad_input"
              ELSE IF s.u # cur THEN "result_aliases_ulist" ELSE JudgeU(cur, hist, obs, i + 1)
         ELSE "bad_input"

RECURSIVE JudgeM(_, _, _, _, _)
JudgeM(cur, cls, hist, obs, i) ==
    IF i > Len(hist) THEN ""
    ELSE LET k == hist[i][1]  a == hist[i][2]  s == obs[i] IN
         IF k = "call" THEN
              IF ~(a[2] \in {"d", "e"} /\ IsMapping(cur.d) /\ IsMapping(cur.e) /\ IsMapping(cur.O) /\ IsMapping(cur.M) /\ CallMOk(cur, a)) THEN "bad_input"
              ELSE LET law == CallM(cur, cls, a)  out == s.out  nm == "ses_" \o a[1] IN
              IF law[1] = "exc" /\ ~(out.kind = "exc" /\ out.cls = law[2]) THEN nm \o "_absent_key"
              ELSE IF law[1] # "exc" /\ out.kind = "exc" THEN nm \o "_raised"
              ELSE IF law[1] = "map" /\ ~(out.kind = "map" /\ SameMap(out.items, law[2])) THEN nm \o "_keys_values"
              ELSE IF law[1] = "list" /\ ~(out.kind = "list" /\ out.items = law[2]) THEN nm \o "_values"
              ELSE IF law[1] = "map" /\ out.cls # cls[a[2]] THEN "class_not_preserved"
              ELSE IF law[1] = "map" /\ ~out.is_new THEN "not_a_new_mapping"
              ELSE IF s.after[a[2]] # cur[a[2]] THEN "d_modified"
              ELSE IF s.after # cur THEN "argument_changed"
              ELSE JudgeM(cur, cls, hist, obs, i + 1)
         ELSE IF k = "edit" THEN
              IF ~EditMOk(cur, a) \/ s.after # EditM(cur, a) THEN "bad_input" ELSE JudgeM(EditM(cur, a), cls, hist, obs, i + 1)
         ELSE IF k = "redit" THEN
              IF i = 1 \/ hist[i - 1][1] # "call" THEN "bad_input"
              ELSE IF s.after # cur THEN "result_aliases_operand" ELSE JudgeM(cur, cls, hist, obs, i + 1)
         ELSE "bad_input"

Verdict(o) ==
    CASE o.op = "useq" -> IF Len(o.obs) # Len(o.hist) \/ ~IsUSeq(o.init) THEN "bad_input" ELSE JudgeU(o.init, o.hist, o.obs, 1)
      [] o.op = "mses" -> IF Len(o.obs) # Len(o.hist) THEN "bad_input" ELSE JudgeM(o.init, o.cls, o.hist, o.obs, 1)
      [] o.op = "ulist_new" ->
            IF o.exc # "" THEN "ulist_raised"
            ELSE IF ~IsUSeq(o.out) THEN "ulist_has_duplicates"
            ELSE IF ~SeqPyEq(o.out, Dedup(o.raw)) THEN "ulist_first_occurrence_order"
            ELSE IF ~o.is_ulist THEN "not_a_ulist"
            ELSE IF o.raw_after # o.raw THEN "operand_modified" ELSE ""
      [] o.op = "ulist_op" ->
            IF o.exc # "" THEN "ulist_raised"
            ELSE IF ~IsUSeq(o.u) THEN "ulist_has_duplicates"
            ELSE IF ~SeqPyEq(o.u, Dedup(o.raw)) THEN "ulist_first_occurrence_order"
            ELSE IF ~SeqPyEq(o.out, UlistLaw(o.fn, o.u, o.x)) THEN "ulist_" \o o.fn
            ELSE IF ~o.is_ulist THEN "not_a_ulist"
            ELSE IF o.u_after # o.u THEN "ulist_modified"
            ELSE IF o.x_after # o.x THEN "operand_modified" ELSE ""
      [] o.op \in {"minus", "and"} ->
            LET d == o.d.items
                law == IF o.op = "minus" THEN Minus(d, o.x) ELSE And(d, o.x) IN
            IF ~IsMapping(d) THEN "bad_input"
            ELSE IF ~IsMap(o.out) THEN o.op \o "_raised"
            ELSE IF ~SameMap(o.out.items, AsFun(law)) THEN o.op \o "_keys_values"
            ELSE IF o.op = "minus" /\ KeySeq(o.out.items) # KeySeq(law) THEN "minus_keys_order"
            ELSE IF o.op = "minus" /\ o.keys_lhs # o.keys_rhs THEN "minus_keys_commute"      \* (d - k).keys() == d.keys() - k, both by the code
            ELSE IF o.out.cls # o.d.cls THEN "class_not_preserved"
            ELSE IF ~o.out.is_new THEN "not_a_new_mapping"
            ELSE IF o.d_after # d THEN "d_modified" ELSE ""
      [] o.op \in {"minus_path", "isub_path"} ->             \* d - path / x = d; x -= path  (Algebra.tla 2c)
            LET d == o.d.items IN
            IF ~(IsMapping(d) /\ PathOk(d, o.path)) THEN "bad_input"
            ELSE IF ~IsMap(o.out) THEN o.op \o "_raised"
            ELSE IF ~(IsMapping(o.out.items) /\ o.out.items = MinusPath(d, o.path)) THEN o.op \o "_tree"
            ELSE IF o.out.cls # o.d.cls THEN "class_not_preserved"
            ELSE IF ~o.out.is_new THEN "not_a_new_mapping"
            ELSE IF o.d_after # d THEN "d_modified" ELSE ""
      [] o.op = "select" ->
            LET d == o.d.items  law == Select(d, o.ks) IN
            IF ~IsMapping(d) THEN "bad_input"
            ELSE IF law[1] = "exc" THEN (IF o.out.kind = "exc" /\ o.out.cls = "KeyError" THEN (IF o.d_after # d THEN "d_modified" ELSE "") ELSE "select_absent_key")
            ELSE IF ~IsMap(o.out) THEN "select_raised"
            ELSE IF ~SameMap(o.out.items, law[2]) THEN "select_keys_values"
            ELSE IF o.out.cls # o.d.cls THEN "class_not_preserved"
            ELSE IF ~o.out.is_new THEN "not_a_new_mapping"
            ELSE IF o.d_after # d THEN "d_modified" ELSE ""
      [] o.op = "multiget" ->
            LET d == o.d.items  law == MultiGet(d, o.ks) IN
            IF ~IsMapping(d) THEN "bad_input"
            ELSE IF law[1] = "exc" THEN (IF o.out.kind = "exc" /\ o.out.cls = "KeyError" THEN (IF o.d_after # d THEN "d_modified" ELSE "") ELSE "multiget_absent_key")
            ELSE IF o.out.kind # "list" THEN "multiget_raised"
            ELSE IF o.out.items # law[2] THEN "multiget_values"
            ELSE IF o.d_after # d THEN "d_modified" ELSE ""
      [] o.op \in {"plus", "or"} ->
            LET d == o.d.items  other == o.o.items IN
            IF ~(IsMapping(d) /\ IsMapping(other)) THEN "bad_input"
            ELSE IF ~IsMap(o.out) THEN o.op \o "_raised"
            ELSE IF ~SameMap(o.out.items, IF o.op = "plus" THEN PlusOn(o.d.cls, d, other) ELSE Plus(d, other)) THEN o.op \o "_keys_values"
            ELSE IF o.out.cls # o.d.cls THEN "class_not_preserved"
            ELSE IF ~o.out.is_new THEN "not_a_new_mapping"
            ELSE IF o.o_after # other THEN "other_modified"
            ELSE IF o.d_after # d THEN "d_modified" ELSE ""
      [] o.op = "relabel" ->
            LET d == o.d.items  ren == Renaming(d, o.blanket, o.indiv) IN
            IF ~IsMapping(d) \/ o.blanket[1] \notin {"none", "prefix", "suffix", "map"} \/ Collides(d, ren) THEN "bad_input"
            ELSE IF ~IsMap(o.out) THEN "relabel_raised"
            ELSE IF ~SameMap(o.out.items, Relabel(d, ren)) THEN "relabel_keys_values"
            ELSE IF o.out.cls # o.d.cls THEN "class_not_preserved"
            ELSE IF ~o.out.is_new THEN "not_a_new_mapping"
            ELSE IF o.d_after # d THEN "d_modified" ELSE ""
      [] o.op = "attr" ->
            LET d == o.d.items IN
            IF ~IsMapping(d) THEN "bad_input"
            ELSE IF o.k \in KeySet(d)
                 THEN (IF o.item.kind = "val" /\ o.attr.kind = "val" /\ o.item.v = At(d, o.k) /\ o.attr.v = o.item.v
                       THEN (IF o.d_after # d THEN "d_modified" ELSE "") ELSE "attr_mirrors_item")
                 ELSE (IF o.item.kind = "exc" /\ o.attr.kind = "exc" THEN (IF o.d_after # d THEN "d_modified" ELSE "") ELSE "attr_mirrors_item")
      [] o.op = "call" ->
            LET b2 == Override(o.base, o.plain) IN
            IF ~(WellFormed(o.par, o.kin, o.star, o.shape) /\ NoSelfLoops(o.par) /\ Grounded(o.par, o.kin, b2) /\ NoHiddenKey(o.par, b2)
                 /\ DOMAIN o.par \cap DOMAIN o.plain = {}
                 /\ ElemsOf(o.order) = DOMAIN o.par \cup DOMAIN o.plain /\ Len(o.order) = Cardinality(ElemsOf(o.order))) THEN "bad_input"
            ELSE LET law == Outcome(o.par, b2) IN
                 IF law[1] = "exc"
                 THEN (IF o.out.kind = "exc" /\ o.out.cls = "ValueError" THEN (IF AsFun(o.d_after) # o.base THEN "d_modified" ELSE "") ELSE "call_cycle_not_reported")
                 ELSE IF ~IsMap(o.out) THEN "call_raised"
                 ELSE IF ~SameMap(o.out.items, law[2]) THEN "call_result"
                 ELSE IF o.out.cls # o.cls THEN "class_not_preserved"
                 ELSE IF ~o.out.is_new THEN "not_a_new_mapping"
                 ELSE IF AsFun(o.d_after) # o.base THEN "d_modified" ELSE ""
      [] OTHER -> "unknown_op"

Init == BatchInit
Next == BatchNext(Verdict)
=============================================================================
