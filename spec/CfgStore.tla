------------------------------ MODULE CfgStore ------------------------------
(* Extension X04-a: the configuration store of pyg_base (cfg_read / cfg_write over the files     *)
(* named by the environment variable PYG_CFG) as a key-value store over a file system WITH       *)
(* CRASH POINTS.                                                                                 *)
(*                                                                                               *)
(* LAW LEVEL (written from the property statement; variables S, maybe, view):                    *)
(*   every configured file HOLDS a configuration - the one last written to it completely, or     *)
(*   nothing;  a write that began on a file and has not completed (in flight, or its process     *)
(*   died) MAY already have taken effect there;  a write that cannot be carried out (the value   *)
(*   cannot be serialised) has no durable effect.  A process started afresh reads the files that *)
(*   exist combined in the configured order (later files take precedence), each file being OLD   *)
(*   or NEW - never anything else, never an error.  A process that lives on sees the same, laid  *)
(*   over what it was given before (its own view: cfg_read "updates" the process's cache).       *)
(*   A write goes to the first file that can be written.                                         *)
(*                                                                                               *)
(* MECHANISM LEVEL (variables disk, proc): the write as the code performs it -                   *)
(*      remember the object in the process's cache;  open = create/truncate;  hand the text to   *)
(*      the runtime, which moves it to the disk when it pleases (Flush, any prefix);  close =    *)
(*      the rest reaches the disk -                                                              *)
(*   process death between any two steps (the disk stays, the process's memory is gone), other   *)
(*   processes reading in between.  A file's content is the sequence of UNITS on the disk:       *)
(*      <<"{", 0>>   <<key, value>> ...   <<"}", 0>>        (a proper prefix = a torn file)      *)
(*   and <<k, Bad>> as the last unit = the key written, the value missing (serialisation failed).*)
(*                                                                                               *)
(* Which faults the environment may inject is the constant Allow; the model checker shows that   *)
(* with Allow = {} the mechanism satisfies the law (ReadLaw) and that each single fault class    *)
(* breaks it (see MC_CfgStore).  Assumption: one writer at a time (a process begins a write only *)
(* when no other live process is in the middle of one).                                          *)
EXTENDS Naturals, Sequences, FiniteSets, TLC

CONSTANTS KeyOrd,      \* the keys, in the order configurations list them, e.g. <<"a", "b">>
          Vals,        \* the values that can be stored (integers)
          Bad,         \* a value that cannot be serialised (an integer not in Vals)
          Procs,       \* process names (integers); a dead one can be started again, afresh
          NPaths,      \* how many files PYG_CFG lists (1 or 2)
          Blocked,     \* the files of 1..NPaths that cannot be created/opened for writing
          Allow        \* fault classes the environment may inject, subset of FaultClasses

VARIABLES disk,        \* mechanism: [1..NPaths -> content]
          proc,        \* mechanism: [Procs -> process state]
          S,           \* law: [1..NPaths -> [there, cfg]] what each file holds
          maybe,       \* law: [1..NPaths -> set of configurations that may have taken effect]
          view,        \* law: [Procs -> the configuration the process was last given / handed in]
          out          \* the last read: what came back and what the law admitted

cvars == <<disk, proc, S, maybe, view, out>>

FaultClasses == {"crash_truncated", "crash_partial", "between_truncated", "between_partial", "bad_value"}

\* ---- configurations: sequences of <<key, value>> in key order ------------------------------------
Keys  == {KeyOrd[i] : i \in DOMAIN KeyOrd}
Empty == <<>>
KeySeq(D) == SelectSeq(KeyOrd, LAMBDA k : k \in D)
MkCfg(D, f) == [i \in 1..Len(KeySeq(D)) |-> <<KeySeq(D)[i], f[KeySeq(D)[i]]>>]
CfgsOver(V) == UNION {{MkCfg(D, f) : f \in [D -> V]} : D \in SUBSET Keys}
Cfgs  == CfgsOver(Vals)                       \* what a file can hold
WCfgs == CfgsOver(Vals \cup {Bad})            \* what a caller can hand to a write

Has(c, k) == \E i \in DOMAIN c : c[i][1] = k
Get(c, k) == c[CHOOSE i \in DOMAIN c : c[i][1] = k][2]
Dom(c)    == {c[i][1] : i \in DOMAIN c}
\* f updated by g (dict.update): g's values win, f's other keys stay
Override(f, g) == MkCfg(Dom(f) \cup Dom(g), [k \in Dom(f) \cup Dom(g) |-> IF Has(g, k) THEN Get(g, k) ELSE Get(f, k)])
SerOK(c) == \A i \in DOMAIN c : c[i][2] # Bad

\* ---- files ----------------------------------------------------------------------------------------
Absent   == << <<"!", 0>> >>
Units(c) == << <<"{", 0>> >> \o c \o << <<"}", 0>> >>
\* what the code manages to hand over before the serialisation fails (the whole text if it does not)
FirstBad(c) == CHOOSE i \in DOMAIN c : c[i][2] = Bad /\ \A j \in 1..(i - 1) : c[j][2] # Bad
Written(c)  == IF SerOK(c) THEN Units(c) ELSE << <<"{", 0>> >> \o SubSeq(c, 1, FirstBad(c))
Parses(f)   == \E c \in Cfgs : Units(c) = f
Parsed(f)   == CHOOSE c \in Cfgs : Units(c) = f

\* ---- the law ----------------------------------------------------------------------------------------
Holds(c)  == [there |-> TRUE, cfg |-> c]
Nothing   == [there |-> FALSE, cfg |-> Empty]
Choices(i) == {S[i]} \cup {Holds(c) : c \in maybe[i]}
RECURSIVE LayerSet(_)
LayerSet(n) == IF n = 0 THEN {Empty}
               ELSE {IF ch.there THEN Override(L, ch.cfg) ELSE L : L \in LayerSet(n - 1), ch \in Choices(n)}
\* what a process started afresh may read / what process p may read
FreshAdmitted == LayerSet(NPaths)
Admitted(p)   == {Override(view[p], L) : L \in FreshAdmitted}

Unblocked     == {i \in 1..NPaths : i \notin Blocked}
TargetAfter(n) == IF \E i \in Unblocked : i > n
                  THEN CHOOSE i \in Unblocked : i > n /\ \A j \in Unblocked : j > n => i <= j
                  ELSE 0
Target == TargetAfter(0)        \* the first file that can be written; 0 = none

LawBegin(p, c) == /\ view' = [view EXCEPT ![p] = c]
                  /\ maybe' = IF Target # 0 /\ SerOK(c) THEN [maybe EXCEPT ![Target] = @ \cup {c}] ELSE maybe
                  /\ S' = S
LawComplete(p, c) == /\ S' = [S EXCEPT ![Target] = Holds(c)]
                     /\ maybe' = [maybe EXCEPT ![Target] = {}]
                     /\ view' = view
\* a read that came back with configuration r
LawGiven(p, r) == view' = [view EXCEPT ![p] = r] /\ UNCHANGED <<S, maybe>>
LawSame == UNCHANGED <<S, maybe, view>>

\* ---- the mechanism ------------------------------------------------------------------------------
Dead  == [alive |-> FALSE, cached |-> FALSE, cache |-> Empty, pc |-> "idle", wr |-> Empty, path |-> 0, flushed |-> 0]
Fresh == [Dead EXCEPT !.alive = TRUE]
NoOut == [kind |-> "none"]

TornKind(p) == IF proc[p].pc # "writing" THEN "none"
               ELSE IF disk[proc[p].path] = <<>> THEN "truncated"
               ELSE IF disk[proc[p].path] # Units(proc[p].wr) THEN "partial"
               ELSE "none"
CrashOK(k)   == k = "none" \/ (k = "truncated" /\ "crash_truncated" \in Allow) \/ (k = "partial" /\ "crash_partial" \in Allow)
BetweenOK(k) == k = "none" \/ (k = "truncated" /\ "between_truncated" \in Allow) \/ (k = "partial" /\ "between_partial" \in Allow)

\* cfg_read as the code performs it: start from the cached object (or a new empty one), and for every
\* file that exists parse it and lay it over; the merged object becomes the cache.  A file that does
\* not parse makes the call raise where it stands.
RECURSIVE ReadFrom(_, _, _)
ReadFrom(i, acc, cached) ==
    IF i > NPaths THEN [ok |-> TRUE, cfg |-> acc, cached |-> cached, cache |-> IF cached THEN acc ELSE Empty]
    ELSE IF disk[i] = Absent THEN ReadFrom(i + 1, acc, cached)
    ELSE IF Parses(disk[i]) THEN ReadFrom(i + 1, Override(acc, Parsed(disk[i])), TRUE)
    ELSE [ok |-> FALSE, cfg |-> Empty, cached |-> cached, cache |-> IF cached THEN acc ELSE Empty]
MechRead(p) == ReadFrom(1, IF proc[p].cached THEN proc[p].cache ELSE Empty, proc[p].cached)

Spawn(p) == /\ ~proc[p].alive
            /\ proc' = [proc EXCEPT ![p] = Fresh]
            /\ view' = [view EXCEPT ![p] = Empty]
            /\ out' = NoOut
            /\ UNCHANGED <<disk, S, maybe>>

WBegin(p, c) == /\ proc[p].alive /\ proc[p].pc = "idle"
                /\ \A q \in Procs : proc[q].alive => proc[q].pc = "idle"        \* one writer at a time
                /\ SerOK(c) \/ "bad_value" \in Allow
                /\ proc' = [proc EXCEPT ![p] = [@ EXCEPT !.cached = TRUE, !.cache = c, !.wr = c, !.flushed = 0,
                                                         !.path = Target, !.pc = IF Target = 0 THEN "idle" ELSE "try"]]
                /\ LawBegin(p, c)
                /\ out' = NoOut
                /\ disk' = disk

WOpen(p) == /\ proc[p].alive /\ proc[p].pc = "try"
            /\ disk' = [disk EXCEPT ![proc[p].path] = <<>>]
            /\ proc' = [proc EXCEPT ![p].pc = "writing", ![p].flushed = 0]
            /\ out' = NoOut
            /\ LawSame

\* the runtime moves the first k units of the text to the disk
WFlush(p, k) == /\ proc[p].alive /\ proc[p].pc = "writing"
                /\ proc[p].flushed < k /\ k <= Len(Written(proc[p].wr))
                /\ disk' = [disk EXCEPT ![proc[p].path] = SubSeq(Written(proc[p].wr), 1, k)]
                /\ proc' = [proc EXCEPT ![p].flushed = k]
                /\ out' = NoOut
                /\ LawSame

WClose(p) == /\ proc[p].alive /\ proc[p].pc = "writing" /\ SerOK(proc[p].wr)
             /\ disk' = [disk EXCEPT ![proc[p].path] = Units(proc[p].wr)]
             /\ proc' = [proc EXCEPT ![p].pc = "idle"]
             /\ LawComplete(p, proc[p].wr)
             /\ out' = NoOut

\* the serialisation failed: the file is closed with what had been handed over, the error is
\* swallowed and the next file of the list is tried
WFail(p) == /\ proc[p].alive /\ proc[p].pc = "writing" /\ ~SerOK(proc[p].wr)
            /\ disk' = [disk EXCEPT ![proc[p].path] = Written(proc[p].wr)]
            /\ LET t == TargetAfter(proc[p].path) IN
                 proc' = [proc EXCEPT ![p].pc = IF t = 0 THEN "idle" ELSE "try", ![p].path = t, ![p].flushed = 0]
            /\ out' = NoOut
            /\ LawSame

Crash(p) == /\ proc[p].alive
            /\ CrashOK(TornKind(p))
            /\ proc' = [proc EXCEPT ![p] = Dead]
            /\ out' = NoOut
            /\ UNCHANGED <<disk, S, maybe, view>>

Read(p) == /\ proc[p].alive /\ proc[p].pc = "idle"
           /\ \A q \in Procs : proc[q].alive => BetweenOK(TornKind(q))
           /\ LET r == MechRead(p) IN
                /\ proc' = [proc EXCEPT ![p].cached = r.cached, ![p].cache = r.cache]
                /\ out' = [kind |-> "read", p |-> p, ok |-> r.ok, cfg |-> r.cfg, adm |-> Admitted(p)]
                /\ IF r.ok THEN LawGiven(p, r.cfg) ELSE LawSame
           /\ disk' = disk

HeldBy(f) == IF f = Absent THEN Nothing ELSE Holds(Parsed(f))

CInitWith(InitCfgs) ==
    /\ disk \in [1..NPaths -> {Absent} \cup {Units(c) : c \in InitCfgs}]
    /\ \A i \in Blocked : disk[i] = Absent
    /\ proc = [p \in Procs |-> Dead]
    /\ S = [i \in 1..NPaths |-> HeldBy(disk[i])]
    /\ maybe = [i \in 1..NPaths |-> {}]
    /\ view = [p \in Procs |-> Empty]
    /\ out = NoOut

CNextWith(W) == \E p \in Procs :
    \/ Spawn(p) \/ Crash(p) \/ Read(p)
    \/ \E c \in W : WBegin(p, c)
    \/ WOpen(p) \/ WClose(p) \/ WFail(p)
    \/ \E k \in 1..(Len(KeyOrd) + 2) : WFlush(p, k)

\* ---- properties ------------------------------------------------------------------------------------
TypeOK == /\ \A i \in 1..NPaths : S[i].there \in BOOLEAN /\ S[i].cfg \in Cfgs /\ maybe[i] \subseteq Cfgs
          /\ \A p \in Procs : view[p] \in WCfgs /\ proc[p].cache \in WCfgs /\ proc[p].path \in 0..NPaths
          /\ Allow \subseteq FaultClasses

\* THE property: whatever a read returns is something the law admits - in particular it returns
ReadLaw == out.kind = "read" => (out.ok /\ out.cfg \in out.adm)
\* at rest (nothing in flight, nobody died in the middle) the store has ONE value ...
AtRest == \A i \in 1..NPaths : maybe[i] = {}
AtRestDetermined == AtRest => Cardinality(FreshAdmitted) = 1
\* ... a single configured file reads back exactly what was written to it last ...
ReadBackExact == (NPaths = 1 /\ AtRest /\ S[1].there) => FreshAdmitted = {S[1].cfg}
\* ... and the disk shows it (the mechanism refines the law when no fault is injected)
DiskIsLaw == \A i \in 1..NPaths :
                (maybe[i] = {} /\ "bad_value" \notin Allow) => disk[i] = (IF S[i].there THEN Units(S[i].cfg) ELSE Absent)
\* the process's cache is its view
CacheIsView == \A p \in Procs : (proc[p].alive /\ proc[p].cached /\ Allow = {}) => proc[p].cache = view[p]
\* what a writer wrote it reads back itself (single file): the view of a process that has just
\* completed a write is exactly what it handed in
OwnWrite == [][\A p \in Procs : (NPaths = 1 /\ proc[p].pc = "writing" /\ proc'[p].pc = "idle" /\ proc'[p].alive)
                                   => Admitted(p)' = {proc[p].wr}]_cvars
\* death of a process changes nothing on the disk and nothing the law says the files hold
DeathKeepsStore == [][\A p \in Procs : (proc[p].alive /\ ~proc'[p].alive) => (disk' = disk /\ S' = S)]_cvars
=============================================================================
