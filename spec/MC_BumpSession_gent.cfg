\* S2C generator (thorough): probe histories on all scenarios
CONSTANTS Variant = "code"
          MaxSteps = 3
          MaxLen = 4
          Shape = "probe"
          Scope = "thorough"
          Emitting = TRUE
INIT Init
NEXT Next
INVARIANT ArgumentsUntouched
INVARIANT ResultIsLaw
INVARIANT NoMemory
INVARIANT SpellingIrrelevant
INVARIANT RealisationIrrelevant
INVARIANT ListIsCompound
