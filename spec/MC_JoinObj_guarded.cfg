CONSTANTS MaxRows = 2
          MaxRowsY = 0
          MaxSteps = 1
          NKeys = 4
          Stride = 16
          Gen = FALSE
          Emit = "none"
          Variant = "reuse_guarded"
INIT InitSame
NEXT Next
INVARIANT MechRefinesLaw
