CONSTANTS NStart = 5
          Spread = 2
          Offsets = {0, 1, 2, 3, 5, 7, 14, 35, 100, 400}
          RunSecs = {0, 21600, 64800, 86399}
          NHolDays = 3
INIT Init
NEXT Eval
INVARIANT ClosedForms
INVARIANT Additive
INVARIANT OnePerUnit
INVARIANT KLaw
INVARIANT BLaw
INVARIANT KTodayOffExactly
