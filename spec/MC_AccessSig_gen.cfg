CONSTANTS Wide = FALSE
INIT Init
NEXT EvalGen
