------------------------------- MODULE Series -------------------------------
(* Timeseries as the properties C03 (alignment) and C08 (operators) speak of them.              *)
(*                                                                                             *)
(* Time is a positive integer k (the drivers render it as 2000-01-01 + k days; the              *)
(* specification never sees a date).  A cell is NaN (VNaN(0), a tag), an exact rational         *)
(* VFlt(p, q) in lowest terms, or a boolean VBool (results of comparisons).                     *)
(*                                                                                             *)
(* Objects (records; k is the kind):                                                           *)
(*   [k |-> "s", t |-> <<k1 < k2 < ..>>, v |-> <<cell, ..>>]                a Series            *)
(*   [k |-> "f", t |-> times, c |-> <<"a","b">>, v |-> <<col_a, col_b>>]     a DataFrame; the    *)
(*        columns are listed in the order of ColU (column order is not part of any law)         *)
(*   [k |-> "a", v |-> <<cell, ..>>]                                       a bare 1-d array     *)
(*   [k |-> "c", v |-> cell]                                               a scalar operand     *)
(*   [k |-> "x", id |-> n]          any non-timeseries leaf (scalar, string, None) - an opaque  *)
(*        Python object whose identity is n                                                     *)
(*   [k |-> "l", items |-> <<..>>]  [k |-> "d", keys |-> <<"x",..>>, items |-> <<..>>]          *)
(*        list / dict containers, arbitrarily nested                                            *)
(* A timestamp at which a series holds NaN carries no observation: fill methods look for the    *)
(* last / next NON-NaN observation (as-of join), see Reindex.                                   *)
EXTENDS Values, SequencesExt     \* (Max, Min, FlattenSeq, SetToSeq come with SequencesExt)

\* ---------------------------------------------------------------------------------------------
\* cells and exact rational arithmetic
\* ---------------------------------------------------------------------------------------------
NaNC == VNaN(0)
Abs(x) == IF x < 0 THEN -x ELSE x
RECURSIVE Gcd(_, _)
Gcd(a, b) == IF b = 0 THEN a ELSE Gcd(b, a % b)
\* the rational p/q (q # 0) in lowest terms with a positive denominator
Num(p, q) == LET g == Gcd(Abs(p), Abs(q))
                 s == IF q < 0 THEN -1 ELSE 1
             IN  VFlt((s * p) \div g, (s * q) \div g)
Zero == VFlt(0, 1)
One  == VFlt(1, 1)
IsV(x) == Tag(x) = "f"                       \* a finite number
Nm(x) == Pay(x)[1]
Dn(x) == Pay(x)[2]

AddC(x, y) == IF IsV(x) /\ IsV(y) THEN Num(Nm(x) * Dn(y) + Nm(y) * Dn(x), Dn(x) * Dn(y)) ELSE NaNC
SubC(x, y) == IF IsV(x) /\ IsV(y) THEN Num(Nm(x) * Dn(y) - Nm(y) * Dn(x), Dn(x) * Dn(y)) ELSE NaNC
MulC(x, y) == IF IsV(x) /\ IsV(y) THEN Num(Nm(x) * Nm(y), Dn(x) * Dn(y)) ELSE NaNC
\* division by zero yields NaN, never +-inf
DivC(x, y) == IF IsV(x) /\ IsV(y) /\ Nm(y) # 0 THEN Num(Nm(x) * Dn(y), Dn(x) * Nm(y)) ELSE NaNC
\* the plain pointwise power is IEEE-754 pow: x**0 = 1 and 1**y = 1 whatever the other operand
\* (NaN included).  The exponents of the checked domain are the integers 0, 1, 2, 3.
PowDomain(y) == IsNaN(y) \/ (IsV(y) /\ Dn(y) = 1 /\ Nm(y) >= 0)
PowC(x, y) == IF IsV(y) /\ Nm(y) = 0 THEN One
              ELSE IF x = One THEN One
              ELSE IF IsV(x) /\ IsV(y) THEN Num(Nm(x) ^ Nm(y), Dn(x) ^ Nm(y)) ELSE NaNC
\* comparisons yield booleans; anything compared with NaN is false
LtR(x, y) == IsV(x) /\ IsV(y) /\ RatLt(Pay(x), Pay(y))
LeR(x, y) == IsV(x) /\ IsV(y) /\ ~RatLt(Pay(y), Pay(x))
MinC(x, y) == IF IsV(x) /\ IsV(y) THEN (IF LtR(y, x) THEN y ELSE x) ELSE NaNC
MaxC(x, y) == IF IsV(x) /\ IsV(y) THEN (IF LtR(x, y) THEN y ELSE x) ELSE NaNC

BinOps == {"add", "sub", "mul", "div", "pow", "gt", "ge", "lt", "le", "min", "max"}
OpCell(op, x, y) ==
    CASE op = "add" -> AddC(x, y) [] op = "sub" -> SubC(x, y) [] op = "mul" -> MulC(x, y)
      [] op = "div" -> DivC(x, y) [] op = "pow" -> PowC(x, y)
      [] op = "gt" -> VBool(LtR(y, x)) [] op = "ge" -> VBool(LeR(y, x))
      [] op = "lt" -> VBool(LtR(x, y)) [] op = "le" -> VBool(LeR(x, y))
      [] op = "min" -> MinC(x, y) [] op = "max" -> MaxC(x, y)
\* the operations that have a neutral element, and that element
HasNeutral(op) == op \in {"add", "sub", "mul", "div"}
Neutral(op) == IF op \in {"add", "sub"} THEN Zero ELSE One

\* ---------------------------------------------------------------------------------------------
\* series and frames
\* ---------------------------------------------------------------------------------------------
ColU == <<"a", "b", "c", "d", "e", "p", "q", "r">>      \* the column names, in their listing order
ColSeq(C) == SelectSeq(ColU, LAMBDA c : c \in C)

IsS(o)  == o.k = "s"
IsF(o)  == o.k = "f"
IsTs(o) == o.k \in {"s", "f"}
IsArr(o) == o.k = "a"
IsCont(o) == o.k \in {"l", "d"}
Times(o) == Range(o.t)
Asc(I) == IF I = {} THEN <<>>                 \* the members of a set of integers in ascending order
          ELSE LET lo == Min(I)  hi == Max(I) IN SelectSeq([i \in 1..(hi - lo + 1) |-> lo + i - 1], LAMBDA x : x \in I)
Pos(o, x) == CHOOSE i \in 1..Len(o.t) : o.t[i] = x
Cols(f) == Range(f.c)
IsMulti(o) == IsF(o) /\ Len(o.c) > 1              \* a "multi-column frame"
Col(f, c) == f.v[CHOOSE j \in 1..Len(f.c) : f.c[j] = c]
WellFormed(o) == /\ \A i \in 1..Len(o.t) - 1 : o.t[i] < o.t[i + 1]
                 /\ \A i \in 1..Len(o.t) : o.t[i] >= 1
                 /\ IF IsS(o) THEN Len(o.v) = Len(o.t)
                    ELSE Len(o.v) = Len(o.c) /\ \A j \in 1..Len(o.v) : Len(o.v[j]) = Len(o.t)

\* the cell of a series / of column c of a frame at time x; NaN where there is none
SVal(s, x) == IF x \in Times(s) THEN s.v[Pos(s, x)] ELSE NaNC
FVal(f, c, x) == IF c \in Cols(f) /\ x \in Times(f) THEN Col(f, c)[Pos(f, x)] ELSE NaNC
\* an operand (series, single-column frame, multi-column frame, scalar) seen through column c at x
OVal(o, c, x) == CASE o.k = "c" -> o.v
                   [] o.k = "s" -> SVal(o, x)
                   [] o.k = "f" -> IF Len(o.c) = 1 THEN FVal(o, o.c[1], x) ELSE FVal(o, c, x)

MkS(I, val(_)) == LET ts == Asc(I) IN [k |-> "s", t |-> ts, v |-> [i \in 1..Len(ts) |-> val(ts[i])]]
MkF(I, C, val(_, _)) == LET ts == Asc(I)  cs == ColSeq(C)
                        IN  [k |-> "f", t |-> ts, c |-> cs,
                             v |-> [j \in 1..Len(cs) |-> [i \in 1..Len(ts) |-> val(cs[j], ts[i])]]]

\* ---------------------------------------------------------------------------------------------
\* C03: the joint index
\* ---------------------------------------------------------------------------------------------
\* policy: [how |-> "ij" | "oj" | "lj" | "rj" | "ex", t |-> explicit index (used by "ex" only)]
RECURSIVE InterAll(_)
InterAll(ss) == IF Len(ss) = 1 THEN ss[1] ELSE ss[1] \cap InterAll(Tail(ss))
UnionAll(ss) == UNION Range(ss)
\* sets: non-empty sequence of sets (the timeseries in the order in which they are met)
Joint(how, sets) == CASE how = "ij" -> InterAll(sets)
                      [] how = "oj" -> UnionAll(sets)
                      [] how = "lj" -> sets[1]
                      [] how = "rj" -> sets[Len(sets)]
JointIndex(pol, sets) == IF pol.how = "ex" THEN Range(pol.t) ELSE Joint(pol.how, sets)

\* ---------------------------------------------------------------------------------------------
\* C03: reindexing.  Without a method: the value where the series has the timestamp, NaN
\* elsewhere.  With ffill (bfill): the last (next) non-NaN observation at or before (after) t.
\* ---------------------------------------------------------------------------------------------
AsOf(T, val(_), x, m) ==
    LET ok == {u \in T : ~IsNaN(val(u)) /\ (IF m = "ffill" THEN u <= x ELSE u >= x)}
    IN  IF ok = {} THEN NaNC ELSE val(IF m = "ffill" THEN Max(ok) ELSE Min(ok))

ReindexS(s, I, m) == MkS(I, LAMBDA x : IF m = "none" THEN SVal(s, x) ELSE AsOf(Times(s), LAMBDA u : SVal(s, u), x, m))

\* Frames.  The statement speaks of "the last non-NaN observation" and does not say whether an
\* observation of a frame is a row or a cell.  Both readings are admitted (named readings):
\*   "row"  - an observation is a row; it is non-NaN unless every cell is NaN; a timestamp takes
\*            the whole row of the last / next non-NaN row (what pandas' reindex(method) does on
\*            the frame without its all-NaN rows)
\*   "cell" - every column is a series of its own
RowIsNaN(f, u) == \A j \in 1..Len(f.c) : IsNaN(f.v[j][Pos(f, u)])
ReindexF(f, I, m, reading) ==
    IF m = "none" THEN MkF(I, Cols(f), LAMBDA c, x : FVal(f, c, x))
    ELSE IF reading = "cell" THEN MkF(I, Cols(f), LAMBDA c, x : AsOf(Times(f), LAMBDA u : FVal(f, c, u), x, m))
    ELSE LET src(x) == LET ok == {u \in Times(f) : ~RowIsNaN(f, u) /\ (IF m = "ffill" THEN u <= x ELSE u >= x)}
                       IN  IF ok = {} THEN 0 ELSE IF m = "ffill" THEN Max(ok) ELSE Min(ok)
         IN  MkF(I, Cols(f), LAMBDA c, x : IF src(x) = 0 THEN NaNC ELSE FVal(f, c, src(x)))
Readings == {"row", "cell"}
Reindex(o, I, m, reading) == IF IsS(o) THEN ReindexS(o, I, m) ELSE ReindexF(o, I, m, reading)

\* ---------------------------------------------------------------------------------------------
\* C03: common column set of the multi-column frames; a column a frame lacks is NaN
\* ---------------------------------------------------------------------------------------------
CommonCols(colpol, colsets) == IF colpol = "ij" THEN InterAll(colsets) ELSE UnionAll(colsets)
Recolumn(o, C) == IF IsMulti(o) THEN MkF(Times(o), C, LAMBDA c, x : FVal(o, c, x)) ELSE o

\* ---------------------------------------------------------------------------------------------
\* C03: bare arrays are aligned at the end: position n is the last row of every array
\* ---------------------------------------------------------------------------------------------
JointLen(pol, lens) == CASE pol.how = "ex" -> pol.n
                         [] pol.how = "ij" -> Min(Range(lens))
                         [] pol.how = "oj" -> Max(Range(lens))
                         [] pol.how = "lj" -> lens[1]
                         [] pol.how = "rj" -> lens[Len(lens)]
\* longer arrays lose leading rows, shorter ones are NaN-padded in front; a fill method then
\* acts on positions as it does on timestamps
AlignEnd(a, n, m) ==
    LET len == Len(a.v)
        at(p) == IF p + len - n >= 1 THEN a.v[p + len - n] ELSE NaNC        \* p in 1..n
        has   == {p \in 1..n : p + len - n >= 1}
    IN  [k |-> "a", v |-> [p \in 1..n |-> IF m = "none" THEN at(p) ELSE AsOf(has, at, p, m)]]
\* mechanism of the code: slice the tail / concatenate a NaN block in front
AlignEndMech(a, n) ==
    LET len == Len(a.v) IN
    IF n < len THEN [k |-> "a", v |-> SubSeq(a.v, len - n + 1, len)]
    ELSE IF n > len THEN [k |-> "a", v |-> [p \in 1..(n - len) |-> NaNC] \o a.v]
    ELSE a

\* ---------------------------------------------------------------------------------------------
\* C03: container trees
\* ---------------------------------------------------------------------------------------------
RECURSIVE Leaves(_)
Leaves(x) == IF IsCont(x) THEN FlattenSeq([i \in 1..Len(x.items) |-> Leaves(x.items[i])]) ELSE <<x>>

RECURSIVE MapTs(_, _, _, _, _, _)
\* every timeseries leaf reindexed onto I (and, when recol, recolumned onto C); everything else as it is
MapTs(x, I, m, recol, C, reading) ==
    IF IsCont(x) THEN [x EXCEPT !.items = [i \in 1..Len(x.items) |-> MapTs(x.items[i], I, m, recol, C, reading)]]
    ELSE IF IsTs(x) THEN (LET r == Reindex(x, I, m, reading) IN IF recol THEN Recolumn(r, C) ELSE r)
    ELSE x
RECURSIVE MapArr(_, _, _)
MapArr(x, n, m) ==
    IF IsCont(x) THEN [x EXCEPT !.items = [i \in 1..Len(x.items) |-> MapArr(x.items[i], n, m)]]
    ELSE IF IsArr(x) THEN AlignEnd(x, n, m) ELSE x

TsLeaves(tree)  == SelectSeq(Leaves(tree), IsTs)
ArrLeaves(tree) == SelectSeq(Leaves(tree), IsArr)
MultiLeaves(tree) == SelectSeq(Leaves(tree), IsMulti)
IndexOf(tree, pol) == LET tss == TsLeaves(tree) IN JointIndex(pol, [i \in 1..Len(tss) |-> Times(tss[i])])
ColsOf(tree, colpol) == LET fs == MultiLeaves(tree) IN CommonCols(colpol, [i \in 1..Len(fs) |-> Cols(fs[i])])

\* The law of df_sync / df_reindex (colpol = "none": the index only) for one reading.
\* Without any timeseries in the collection there is nothing to align; a collection of bare
\* arrays is aligned at the end.
Sync(tree, pol, m, colpol, reading) ==
    IF TsLeaves(tree) # <<>> THEN
        LET recol == colpol # "none" /\ MultiLeaves(tree) # <<>>
        IN  MapTs(tree, IndexOf(tree, pol), m, recol, IF recol THEN ColsOf(tree, colpol) ELSE {}, reading)
    ELSE IF ArrLeaves(tree) # <<>> /\ (pol.how # "ex" \/ "n" \in DOMAIN pol) THEN
        LET as == ArrLeaves(tree) IN MapArr(tree, JointLen(pol, [i \in 1..Len(as) |-> Len(as[i].v)]), m)
    ELSE tree
SyncOutcomes(tree, pol, m, colpol) == {Sync(tree, pol, m, colpol, rd) : rd \in Readings}

\* df_index: the joint index itself; nothing when there is no timeseries; a length for bare arrays
JointOutcome(tree, pol) ==
    IF TsLeaves(tree) # <<>> THEN [k |-> "idx", t |-> Asc(IndexOf(tree, pol))]
    ELSE IF ArrLeaves(tree) # <<>> THEN LET as == ArrLeaves(tree) IN [k |-> "len", n |-> JointLen(pol, [i \in 1..Len(as) |-> Len(as[i].v)])]
    ELSE [k |-> "none"]

\* ---------------------------------------------------------------------------------------------
\* C03: what a presync-decorated function receives.  The statement: every timeseries on the
\* common index, multi-column frames on the common column set.  Two call disciplines are
\* admitted (the statement does not choose):
\*   "whole"  - one call with the synchronised arguments
\*   "column" - one call per common column; a multi-column frame is represented by that column
\*              (a Series), a single-column frame by its only column.  Named deviation
\*              MissingColumnScalar: a frame that lacks the column may be represented by the
\*              decorator's scalar default (NaN) instead of an all-NaN Series.
\* Named deviation PseudoSeries (Collapse / Matches): whether a single column travels as a
\* Series or as a one-column frame is not pinned down.
\* ---------------------------------------------------------------------------------------------
NaNLeaf == [k |-> "nanleaf"]
AsSeries(f, c) == [k |-> "s", t |-> f.t, v |-> Col(f, c)]
RECURSIVE Collapse(_)
Collapse(x) == IF IsCont(x) THEN [x EXCEPT !.items = [i \in 1..Len(x.items) |-> Collapse(x.items[i])]]
               ELSE IF IsF(x) /\ Len(x.c) = 1 THEN AsSeries(x, x.c[1]) ELSE x
RECURSIVE ColView(_, _, _)
\* x is a tree already reindexed (not recolumned); the view of it through column c
ColView(x, c, scalar) ==
    IF IsCont(x) THEN [x EXCEPT !.items = [i \in 1..Len(x.items) |-> ColView(x.items[i], c, scalar)]]
    ELSE IF IsMulti(x) THEN (IF c \in Cols(x) THEN AsSeries(x, c)
                             ELSE IF scalar THEN NaNLeaf ELSE MkS(Times(x), LAMBDA u : NaNC))
    ELSE IF IsF(x) /\ Len(x.c) = 1 THEN AsSeries(x, x.c[1]) ELSE x
\* the admissible sets of calls (each call = the tree of arguments received)
PresyncOutcomes(tree, pol, m, colpol) ==
    IF MultiLeaves(tree) = <<>> \/ colpol = "none" \/ TsLeaves(tree) = <<>>
    THEN {{Collapse(Sync(tree, pol, m, "none", rd))} : rd \in Readings}
    ELSE {{Collapse(Sync(tree, pol, m, colpol, rd))} : rd \in Readings}
         \cup {{ColView(Sync(tree, pol, m, "none", rd), c, sc) : c \in ColsOf(tree, colpol)} : rd \in Readings, sc \in BOOLEAN}

\* ---------------------------------------------------------------------------------------------
\* comparing an observed collection with an expected one
\* ---------------------------------------------------------------------------------------------
RECURSIVE Skeleton(_)
\* the container structure with its non-timeseries members; timeseries / arrays blanked
Skeleton(x) == IF IsCont(x) THEN [x EXCEPT !.items = [i \in 1..Len(x.items) |-> Skeleton(x.items[i])]]
               ELSE IF IsTs(x) THEN [k |-> "ts"] ELSE IF IsArr(x) THEN [k |-> "arr"] ELSE x
RECURSIVE ShapeOnly(_)
ShapeOnly(x) == IF IsCont(x) THEN [x EXCEPT !.items = [i \in 1..Len(x.items) |-> ShapeOnly(x.items[i])]] ELSE [k |-> "leaf"]
RECURSIVE Canon(_, _)
\* g with the members of its dicts listed in the order of w's (a dict's order is no part of it)
Canon(g, w) ==
    IF g.k = "d" /\ w.k = "d" /\ Len(g.keys) = Len(w.keys) /\ Range(g.keys) = Range(w.keys)
    THEN [k |-> "d", keys |-> w.keys,
          items |-> [i \in 1..Len(w.keys) |-> Canon(g.items[CHOOSE j \in 1..Len(g.keys) : g.keys[j] = w.keys[i]], w.items[i])]]
    ELSE IF g.k = "l" /\ w.k = "l" /\ Len(g.items) = Len(w.items)
    THEN [k |-> "l", items |-> [i \in 1..Len(w.items) |-> Canon(g.items[i], w.items[i])]]
    ELSE g
\* Named deviation PseudoSeries: something the specification describes as a Series may travel as
\* a one-column frame (whatever its header).
Matches(want, got) ==
    \/ (got.k = want.k /\ got = want)
    \/ (IsS(want) /\ IsF(got) /\ Len(got.c) = 1 /\ got.t = want.t /\ got.v = <<want.v>>)
RECURSIVE TreeMatches(_, _)
TreeMatches(w, g) ==          \* g already in Canon form
    IF IsCont(w) THEN g.k = w.k /\ Len(g.items) = Len(w.items) /\ (w.k = "d" => g.keys = w.keys)
                      /\ \A i \in 1..Len(w.items) : TreeMatches(w.items[i], g.items[i])
    ELSE Matches(w, g)
\* the first clause on which the observed collection g differs from the expected w
WhyNot(w, g) ==
    IF ShapeOnly(g) # ShapeOnly(w) THEN "structure"
    ELSE LET lw == Leaves(w)  lg == Leaves(g) IN
         IF \E i \in 1..Len(lw) : ~IsTs(lw[i]) /\ ~IsArr(lw[i]) /\ ~(lg[i].k = lw[i].k /\ lg[i] = lw[i]) THEN "passthrough"
         ELSE IF \E i \in 1..Len(lw) : lg[i].k # lw[i].k THEN "kind"
         ELSE IF \E i \in 1..Len(lw) : IsArr(lw[i]) /\ Len(lg[i].v) # Len(lw[i].v)
              THEN (IF \A i \in 1..Len(lw) : IsArr(lw[i]) => Len(lw[i].v) = 0 THEN "array_not_emptied" ELSE "array_length")
         ELSE IF \E i \in 1..Len(lw) : IsArr(lw[i]) /\ lg[i].v # lw[i].v THEN "array_values"
         ELSE IF \E i \in 1..Len(lw) : IsTs(lw[i]) /\ lg[i].t # lw[i].t THEN "index"
         ELSE IF \E i \in 1..Len(lw) : IsF(lw[i]) /\ lg[i].c # lw[i].c THEN "columns"
         ELSE "values"

\* ---------------------------------------------------------------------------------------------
\* C08: pointwise operators on aligned operands
\* ---------------------------------------------------------------------------------------------
\* operands: series, frames, scalars [k |-> "c", v |-> cell]
IsScalar(o) == o.k = "c"
OpIndex(join, a, b) ==
    IF IsScalar(a) THEN Times(b) ELSE IF IsScalar(b) THEN Times(a)
    ELSE IF join = "ij" THEN Times(a) \cap Times(b) ELSE Times(a) \cup Times(b)
\* BinOp: index = intersection / union of the operands' indices; result[t] = a[t] op b[t] with
\* NaN standing for a missing observation; scalars broadcast; a series or single-column frame
\* broadcasts over the columns of a multi-column frame; with column policy "oj" a column one
\* frame lacks acts as the neutral element of the operation.
BinOp(op, a, b, join, colpol) ==
    IF IsScalar(a) /\ IsScalar(b) THEN [k |-> "c", v |-> OpCell(op, a.v, b.v)]
    ELSE LET I == OpIndex(join, a, b)
             multi == SelectSeq(<<a, b>>, IsMulti)
         IN  IF multi = <<>> THEN MkS(I, LAMBDA x : OpCell(op, OVal(a, "", x), OVal(b, "", x)))
             ELSE LET C == CommonCols(colpol, [i \in 1..Len(multi) |-> Cols(multi[i])])
                      side(o, c, x) == IF IsMulti(o) /\ c \notin Cols(o) THEN Neutral(op) ELSE OVal(o, c, x)
                  IN  MkF(I, C, LAMBDA c, x : OpCell(op, side(a, c, x), side(b, c, x)))
\* lists of operands reduce left to right
RECURSIVE ReduceFrom(_, _, _, _, _, _)
ReduceFrom(op, acc, xs, i, join, colpol) == IF i > Len(xs) THEN acc ELSE ReduceFrom(op, BinOp(op, acc, xs[i], join, colpol), xs, i + 1, join, colpol)
Reduce(op, xs, join, colpol) == ReduceFrom(op, xs[1], xs, 2, join, colpol)
\* the statement pins the missing column down only for operations that have a neutral element
ColsPinned(op, xs, colpol) ==
    LET multi == SelectSeq(xs, IsMulti) IN
    colpol = "ij" \/ HasNeutral(op) \/ \A i, j \in 1..Len(multi) : Cols(multi[i]) = Cols(multi[j])

\* Named deviation DivScalarZero: dividing a timeseries by the *scalar* 0 may yield one bare NaN
\* instead of a NaN at every timestamp (for a multi-column frame: one bare NaN per column,
\* [k |-> "bycol", c |-> columns, v |-> cells]).
AllNaN(o) == IF IsS(o) THEN \A i \in 1..Len(o.v) : IsNaN(o.v[i])
             ELSE IF IsF(o) THEN \A j \in 1..Len(o.v) : \A i \in 1..Len(o.v[j]) : IsNaN(o.v[j][i])
             ELSE IsNaN(o.v)
DivScalarZero(op, xs) == op = "div" /\ Len(xs) = 2 /\ IsScalar(xs[2]) /\ xs[2].v = Zero
OpOutcomes(op, xs, join, colpol) ==
    {Reduce(op, xs, join, colpol)}
    \cup (IF DivScalarZero(op, xs)
          THEN (IF IsMulti(xs[1]) THEN {[k |-> "bycol", c |-> xs[1].c, v |-> [j \in 1..Len(xs[1].c) |-> NaNC]]} ELSE {[k |-> "c", v |-> NaNC]})
          ELSE {})

\* ---------------------------------------------------------------------------------------------
\* C08: aggregates.  Union index; NaN operands are skipped; NaN (count 0) where nobody has data.
\* A column one frame lacks is, like a missing timestamp, "no data".
\* ---------------------------------------------------------------------------------------------
AggOps == {"sum", "mean", "count"}
CellsAt(xs, c, x) == [i \in 1..Len(xs) |-> OVal(xs[i], c, x)]
CountC(cells) == Cardinality({i \in 1..Len(cells) : IsV(cells[i])})
RECURSIVE SumFrom(_, _, _)
SumFrom(acc, cells, i) == IF i > Len(cells) THEN acc ELSE SumFrom(IF IsV(cells[i]) THEN AddC(acc, cells[i]) ELSE acc, cells, i + 1)
SumC(cells) == SumFrom(Zero, cells, 1)
AggCell(op, cells) ==
    LET n == CountC(cells) IN
    CASE op = "count" -> VFlt(n, 1)
      [] op = "sum"   -> IF n = 0 THEN NaNC ELSE SumC(cells)
      [] op = "mean"  -> IF n = 0 THEN NaNC ELSE DivC(SumC(cells), VFlt(n, 1))
Agg(op, xs, colpol) ==
    LET tss == SelectSeq(xs, IsTs)
        multi == SelectSeq(xs, IsMulti)
    IN  IF tss = <<>> THEN [k |-> "c", v |-> AggCell(op, [i \in 1..Len(xs) |-> xs[i].v])]
        ELSE LET I == UnionAll([i \in 1..Len(tss) |-> Times(tss[i])]) IN
             IF multi = <<>> THEN MkS(I, LAMBDA x : AggCell(op, CellsAt(xs, "", x)))
             ELSE MkF(I, CommonCols(colpol, [i \in 1..Len(multi) |-> Cols(multi[i])]), LAMBDA c, x : AggCell(op, CellsAt(xs, c, x)))

=============================================================================
