----------------------------- MODULE MC_RegroupB -----------------------------
(* Property C11, size thresholds (RegroupBig.tla).  TLC enumerates the small PATTERNS (a handful of  *)
(* key cells: ints only, strings only, 1 and 1.0, None, two NaN objects, mixed types), the ODD key    *)
(* that is placed once among the copies (a NaN of another identity, a float among ints, a float equal *)
(* to an int of the pattern, None, a string, a date, an ordinary int) and the key choice, and checks  *)
(* on small numbers of copies (Ks), in both modes and with the odd row early / in the middle / late,  *)
(* that the linear-time verdicts of the scaling law and the relational verdicts of Regroup.tla say     *)
(* the same: both accept the constructive results on the scaled table, and both judge alike the        *)
(* results of the OTHER mode's table and the regrouping by runs of the unsorted rows (split classes).  *)
(* The generator configuration prints every description once; the driver scales it to 17 ... 1030     *)
(* rows, calls the real code and Trace_Regroup judges the observation by the scaling law.              *)
EXTENDS RegroupBig, Json
CONSTANTS Ks,      \* the numbers of copies checked inside TLC
          Lean     \* TRUE: the laws are checked on a part of the descriptions (quick tier); the generator always prints all
VARIABLES d, k, mode, posc, done
vars == <<d, k, mode, posc, done>>

D1 == <<"d", <<730120, 0, 0>>>>
J == VStr("j")
APats == { <<VInt(1), VInt(2)>>, <<VInt(2), VInt(1), VInt(2)>>, <<VInt(3), VInt(1), VInt(2), VInt(1)>>, <<VInt(1)>>,
           <<VStr("k"), J, VStr("k")>>,
           <<VInt(1), VFlt(1, 1), VInt(2)>>, <<None, VInt(1), None>>, <<VNaN(1), VInt(2), VNaN(2), VInt(2)>>,
           <<VInt(1), J, None>> }
Pat(as) == [cols |-> <<"a", "b">>, rows |-> [i \in 1..Len(as) |-> [a |-> as[i], b |-> IF i % 2 = 1 THEN J ELSE VInt(1)]]]
OddKeys == {VNaN(7), VFlt(5, 2), VFlt(2, 1), None, VStr("k"), D1, VInt(2)}
Odds == {<<>>} \cup {<<[a |-> v, b |-> J]>> : v \in OddKeys}
Bys == {<<"a">>, <<"a", "b">>, <<"b", "a">>}
Descs == {[pat |-> Pat(as), odd |-> od, by |-> by] : as \in APats, od \in Odds, by \in Bys}

\* where the odd row stands: early = row 2 (row 1 of a table of one row), middle, late = two rows before the end, last
PosOf(pc, n) == IF pc = "early" THEN (IF n > 1 THEN 2 ELSE 1) ELSE IF pc = "middle" THEN (n + 1) \div 2
                ELSE IF pc = "late" /\ n > 2 THEN n - 2 ELSE n
ScOf(dd, kk, md, pc) == [pat |-> dd.pat, k |-> kk, mode |-> md, odd |-> dd.odd, ids |-> <<"p", "q">>,
                         pos |-> IF dd.odd = <<>> THEN 0 ELSE PosOf(pc, Len(dd.pat.rows) * kk + 1)]
Sc == ScOf(d, k, mode, posc)
T == ScaledTable(Sc)
Other == ScaledTable(ScOf(d, k, IF mode = "repeat" THEN "block" ELSE "repeat", posc))

LeanDescs == {[pat |-> Pat(as), odd |-> od, by |-> by] :
                  as \in {<<VInt(2), VInt(1), VInt(2)>>, <<VNaN(1), VInt(2), VNaN(2), VInt(2)>>, <<VInt(1), J, VFlt(1, 1)>>},
                  od \in {<<>>, <<[a |-> VNaN(7), b |-> J]>>, <<[a |-> VFlt(2, 1), b |-> J]>>, <<[a |-> None, b |-> J]>>}, by \in {<<"a">>, <<"b", "a">>}}
Init == /\ d \in (IF Lean THEN LeanDescs ELSE Descs) /\ k \in Ks /\ mode \in {"repeat", "block"}
        /\ posc \in (IF Lean THEN {"middle"} ELSE {"early", "middle", "late", "last"}) /\ done = FALSE
Next == done = FALSE /\ done' = TRUE /\ UNCHANGED <<d, k, mode, posc>>
GenInit == d \in Descs /\ k = 1 /\ mode = "repeat" /\ posc = "early" /\ done = FALSE
NextGen == Next /\ PrintT(ToJson(d))

ModelCmp(u, by) == [p \in 1..(Len(u.rows) - 1) |-> [kk \in 1..Len(by) |-> CmpModel(u.rows[p][by[kk]], u.rows[p + 1][by[kk]])]]
Y == IF d.by = <<"a">> THEN "b" ELSE "a"
Single == Len(d.by) = 1

WellFormed == ScOK(Sc, d.by)
LawListby == LET out == CListby(T, d.by) IN BigListbyVerdict(Sc, d.by, out) = "" /\ ListbyVerdict(T, d.by, out) = ""
LawUnlist == LET u == CUnlist(CListby(T, d.by), d.by) IN
             BigUnlistVerdict(Sc, d.by, u, ModelCmp(u, d.by)) = "" /\ UnlistVerdict(T, d.by, u, ModelCmp(u, d.by), "p") = ""
LawGroupby == LET g == CGroupby(T, d.by, "grp") IN BigGroupbyVerdict(Sc, d.by, "grp", g) = "" /\ GroupbyVerdict(T, d.by, "grp", g) = ""
LawUngroup == LET u == [cols |-> T.cols, rows |-> CUngroup(CGroupby(T, d.by, "grp"), d.by, "grp")] IN
              BigUngroupVerdict(Sc, d.by, u) = "" /\ UngroupVerdict(T, d.by, u) = ""
LawPivot == Single => \A agg \in {"last", "list", "len", "first"} :
                LET pv == CPivot(T, d.by, Y, "p", agg) IN BigPivotVerdict(Sc, d.by, Y, "p", agg, pv) = "" /\ PivotVerdict(T, d.by, Y, "p", agg, pv) = ""
LawWide == LET pv == CPivot(T, d.by, "q", "p", "last")  un == CUnpivot(T, pv, d.by, "q", "p") IN
           /\ BigWideVerdict(Sc, d.by, "q", "p", pv) = "" /\ PivotVerdict(T, d.by, "q", "p", "last", pv) = ""
           /\ BigUnwideVerdict(Sc, d.by, "q", "p", un) = "" /\ UnpivotVerdict(T, d.by, "q", "p", un) = ""
\* damaged results: the two levels say the same (accepted by both or rejected by both)
Same(a, b) == (a = "") = (b = "")
AgreeSplit == LET out == MListby(T, d.by, T.rows)  g == MGroupby(T, d.by, "grp", T.rows)  u == CUnlist(out, d.by) IN
              /\ Same(BigListbyVerdict(Sc, d.by, out), ListbyVerdict(T, d.by, out))
              /\ Same(BigGroupbyVerdict(Sc, d.by, "grp", g), GroupbyVerdict(T, d.by, "grp", g))
              /\ Same(BigUnlistVerdict(Sc, d.by, u, ModelCmp(u, d.by)), UnlistVerdict(T, d.by, u, ModelCmp(u, d.by), "p"))
AgreeOther == LET out == CListby(Other, d.by)  u == CUnlist(out, d.by)  g == CGroupby(Other, d.by, "grp") IN
              /\ Same(BigListbyVerdict(Sc, d.by, out), ListbyVerdict(T, d.by, out))
              /\ Same(BigUnlistVerdict(Sc, d.by, u, ModelCmp(u, d.by)), UnlistVerdict(T, d.by, u, ModelCmp(u, d.by), "p"))
              /\ Same(BigGroupbyVerdict(Sc, d.by, "grp", g), GroupbyVerdict(T, d.by, "grp", g))
              /\ Single => LET pv == CPivot(Other, d.by, Y, "p", "list") IN
                           Same(BigPivotVerdict(Sc, d.by, Y, "p", "list", pv), PivotVerdict(T, d.by, Y, "p", "list", pv))
\* the damage is real: somewhere the split regrouping is rejected (checked by a must-fail run)
NeverSplit == done => BigListbyVerdict(Sc, d.by, MListby(T, d.by, T.rows)) = ""
=============================================================================
