------------------------------- MODULE SyncSess -------------------------------
(* Property C03 over SESSIONS: a caller who owns objects, makes several alignment calls on them  *)
(* and edits them in place between the calls.  The law is the one of SyncLaw.tla applied to the    *)
(* caller's objects AS THEY ARE AT THE MOMENT OF THE CALL: a call has no memory (its outcome is    *)
(* no function of earlier calls) and owns nothing of the caller (after the call every argument     *)
(* object - operands, container, fill-method object - is what it was before the call).             *)
(*                                                                                             *)
(* The caller's heap:                                                                            *)
(*   [ops  |-> <<timeseries, ..>>      the caller's timeseries OBJECTS, numbered (slots)          *)
(*    cont |-> container tree whose timeseries members are references [k |-> "r", n |-> slot]     *)
(*             (one object may be placed several times), other members opaque leaves             *)
(*    meth |-> [ty |-> "none" | "str" | "list" | "tuple", v |-> <<fills>>]  the fill-method OBJECT  *)
(*             as the caller spells it: None, 'ffill', ['ffill'], ('ffill',); a list is mutable    *)
(*             and is the caller's]                                                               *)
(* Realisation only (no part of the law, enumerated by the generator, rendered by the driver):     *)
(*   share[j] = i  - slot j is built on the Index OBJECT of slot i (price * 2 carries price's     *)
(*                   index object); for frames the columns object is shared as well.              *)
(*                                                                                             *)
(* Steps of a session:                                                                          *)
(*   [op |-> "call", api, pol, cols]  df_sync / df_reindex / df_index / a presync-ed recorder on    *)
(*                                    (cont, policy, the method object)                           *)
(*   the caller's own actions between calls, all IN PLACE on the caller's objects:                *)
(*   [op |-> "redate", slot]          ts.index = the index a day later                            *)
(*   [op |-> "append", slot, x]       ts.loc[day x] = 99  (one more row, x after the last one)     *)
(*   [op |-> "drop", slot, p]         ts.drop(p-th timestamp, inplace = True)                     *)
(*   [op |-> "setcell", slot, p]      ts.iloc[p] = 77                                             *)
(*   [op |-> "methset", v]            method_list[0] = v           (a list only)                  *)
(*   [op |-> "methclear"]             del method_list[:]           (a list only)                  *)
(*   [op |-> "contset", p, n]         container[p-th place] = the object of slot n                *)
(*   [op |-> "resedit"]               the RESULT of the latest df_sync / df_reindex call is edited   *)
(*                                    through its public interface (cells overwritten, a member    *)
(*                                    replaced): the result is the caller's now, the arguments      *)
(*                                    must not notice                                            *)
EXTENDS SyncLaw

Ref(n) == [k |-> "r", n |-> n]
RECURSIVE Deref(_, _)
\* the collection the call sees: every reference replaced by the object it refers to
Deref(x, ops) == IF IsCont(x) THEN [x EXCEPT !.items = [i \in 1..Len(x.items) |-> Deref(x.items[i], ops)]]
                 ELSE IF x.k = "r" THEN ops[x.n] ELSE x
TreeOf(h) == Deref(h.cont, h.ops)
RECURSIVE Refs(_)
Refs(x) == IF IsCont(x) THEN FlattenSeq([i \in 1..Len(x.items) |-> Refs(x.items[i])]) ELSE IF x.k = "r" THEN <<x.n>> ELSE <<>>

\* the fill method a method object stands for: a list / tuple of one fill is that fill, an empty one is no fill
NoMeth == [ty |-> "none", v |-> <<>>]
MethStr(f) == [ty |-> "str", v |-> <<f>>]
MethList(fs) == [ty |-> "list", v |-> fs]
MethTuple(fs) == [ty |-> "tuple", v |-> fs]
MethOf(mo) == IF mo.v = <<>> THEN "none" ELSE mo.v[1]

\* ---- the caller's in-place edits of a timeseries -------------------------------------------------
NewCell == VFlt(99, 1)
SetTo   == VFlt(77, 1)
SessRemoveAt(s, p) == SubSeq(s, 1, p - 1) \o SubSeq(s, p + 1, Len(s))
Redate(o) == [o EXCEPT !.t = [i \in 1..Len(o.t) |-> o.t[i] + 1]]
AppendRow(o, x) == IF IsS(o) THEN [o EXCEPT !.t = Append(o.t, x), !.v = Append(o.v, NewCell)]
                   ELSE [o EXCEPT !.t = Append(o.t, x), !.v = [j \in 1..Len(o.v) |-> Append(o.v[j], NewCell)]]
DropRow(o, p) == IF IsS(o) THEN [o EXCEPT !.t = SessRemoveAt(o.t, p), !.v = SessRemoveAt(o.v, p)]
                 ELSE [o EXCEPT !.t = SessRemoveAt(o.t, p), !.v = [j \in 1..Len(o.v) |-> SessRemoveAt(o.v[j], p)]]
SetCell(o, p) == IF IsS(o) THEN [o EXCEPT !.v[p] = SetTo]
                 ELSE [o EXCEPT !.v = [j \in 1..Len(o.v) |-> [o.v[j] EXCEPT ![p] = SetTo]]]
CanAppend(o, x) == o.t = <<>> \/ o.t[Len(o.t)] < x

IsCall(st) == st.op = "call"
\* is the step possible in heap h (the generator enumerates only such steps, the trace specification insists on it)
StepEnabled(h, st) ==
    CASE st.op = "resedit" -> TRUE
      [] st.op = "call"    -> ("slot" \in DOMAIN st.pol) => (st.pol.slot \in 1..Len(h.ops))
      [] st.op = "redate"  -> st.slot \in 1..Len(h.ops)
      [] st.op = "append"  -> st.slot \in 1..Len(h.ops) /\ CanAppend(h.ops[st.slot], st.x)
      [] st.op \in {"drop", "setcell"} -> st.slot \in 1..Len(h.ops) /\ st.p \in 1..Len(h.ops[st.slot].t)
      [] st.op = "methset"   -> h.meth.ty = "list" /\ h.meth.v # <<>>
      [] st.op = "methclear" -> h.meth.ty = "list"
      [] st.op = "contset"   -> IsCont(h.cont) /\ st.p \in 1..Len(h.cont.items) /\ st.n \in 1..Len(h.ops)
      [] OTHER -> FALSE
\* the heap after the step.  A CALL LEAVES THE HEAP AS IT IS; so does the caller's edit of a result.
HeapStep(h, st) ==
    CASE st.op \in {"call", "resedit"} -> h
      [] st.op = "redate"    -> [h EXCEPT !.ops[st.slot] = Redate(@)]
      [] st.op = "append"    -> [h EXCEPT !.ops[st.slot] = AppendRow(@, st.x)]
      [] st.op = "drop"      -> [h EXCEPT !.ops[st.slot] = DropRow(@, st.p)]
      [] st.op = "setcell"   -> [h EXCEPT !.ops[st.slot] = SetCell(@, st.p)]
      [] st.op = "methset"   -> [h EXCEPT !.meth.v[1] = st.v]
      [] st.op = "methclear" -> [h EXCEPT !.meth.v = <<>>]
      [] st.op = "contset"   -> [h EXCEPT !.cont.items[st.p] = Ref(st.n)]
RECURSIVE HeapAfter(_, _, _)
HeapAfter(h0, steps, n) == IF n = 0 THEN h0 ELSE HeapStep(HeapAfter(h0, steps, n - 1), steps[n])

\* The join policy of a call: ij / oj / lj / rj, or "the index explicitly supplied" given as ONE OF THE CALLER'S TIMESERIES
\* (a timeseries stands for its index): [how |-> "ex", t |-> <<>>, slot |-> n] - the object of slot n is then handed to
\* two parameters of one call; the index supplied is the one that object has at the moment of the call.
SessPol(h, st) == IF "slot" \in DOMAIN st.pol THEN [how |-> "ex", t |-> h.ops[st.pol.slot].t] ELSE st.pol

\* ---- what a call in heap h must yield ---------------------------------------------------------------
\* (the outcome sets of SyncLaw on the collection as it is now, under the method the method object stands for now)
CallTree(h) == TreeOf(h)
CallMeth(h) == MethOf(h.meth)
SessSyncOutcomes(h, st) == SyncOutcomesX(CallTree(h), SessPol(h, st), CallMeth(h), IF st.api = "reindex" THEN NoCols ELSE st.cols)
SessPresyncOutcomes(h, st) == PresyncOutcomesX(CallTree(h), SessPol(h, st), CallMeth(h), st.cols)
SessJointOutcome(h, st) == JointOutcome(CallTree(h), SessPol(h, st))
=============================================================================
