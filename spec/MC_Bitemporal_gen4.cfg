CONSTANTS Dates = {1, 2}
          Stamps = {1, 2, 3, 4}
          Vals = {1, 2}
          MaxMerges = 3
          MaxAgain = 0
          Stable = TRUE
          Zones = {0}
          ZoneAware = TRUE
INIT Init
NEXT NextGen
PROPERTY GenIsSpec
