\* names1
CONSTANTS MaxCalls = 2
          MaxArgs = 2
          FreeCalls = 1
          Scope = "names+reals"
          Adopt = FALSE
          MaxEdits = 0
          MinEdits = 0
          Probes = FALSE
          FirstOps = {"inc", "exc", "find", "one"}
          Srcs = {"live"}
          Ons = {"t", "last"}
          NameIds = {1, 2, 4, 5, 8}
          Gen = TRUE
INIT Init
NEXT NextNoEdit
CONSTRAINT GenBound
INVARIANT PoolUntouched
INVARIANT ResultByOriginal
INVARIANT SessPartition
INVARIANT SessIdempotent
INVARIANT SessKeepsCols
INVARIANT NoCondIsIdentity
INVARIANT EchoLaw
INVARIANT EditIsLocal
INVARIANT NamingInjective
PROPERTY ArgumentsLeftAlone
