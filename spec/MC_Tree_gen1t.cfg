CONSTANTS LeafSet = "small"
          RebuildWide = TRUE
          Deep = TRUE
          Wide3 = FALSE
          TableWide = FALSE
INIT InitGenSingle
NEXT GenSingle
