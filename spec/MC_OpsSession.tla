---------------------------- MODULE MC_OpsSession ----------------------------
(* Property C08 as a session state machine: a heap of caller-owned operands and containers       *)
(* (python lists / tuples holding the operands by identity), one action per public call in every *)
(* calling form (operand x operand, list alone, list x operand, operand x list, list x list, the  *)
(* same list on both sides, a list holding one object twice), and the caller's own actions on     *)
(* its objects between calls (append / pop / overwrite a cell; in-place edits that keep the       *)
(* identity and the shape of an operand: re-dating, renaming / re-ordering columns, overwriting    *)
(* several cells - followed by the same call, another operator, the other policy on the SAME       *)
(* objects: whatever a call remembered about them is stale).                                      *)
(* The calls are executed by the MECHANISM of OpsSession.tla on the CURRENT heap; the invariants  *)
(* say what the statement says: a call changes nothing on the heap, and every result is what the *)
(* LAW gives for the contents the caller holds at the time of the call, whatever was called      *)
(* before and however the operands were handed over.                                             *)
(* With the history as a variable the same machine is the source of the S2C replay: every         *)
(* history is printed with, for every step, the heap the caller must still see and the outcomes   *)
(* the law allows.  cfg MC_OpsSession_extend.cfg (Extend = TRUE: dfs = as_list(a); dfs += ..)     *)
(* must violate PoolUntouched: the model is able to express what it forbids.                     *)
EXTENDS OpsSession, TLC, Json

CONSTANTS MaxSteps,     \* length of the histories
          FreeSteps,    \* the first FreeSteps steps are arbitrary calls, the later ones "probes" of what the earlier ones touched
          Scope,        \* "quick" | "thorough" | "wide": which heaps
          Caller,       \* TRUE: the caller changes its own objects between calls (append / pop / overwrite a cell)
          Edits,        \* TRUE: the caller edits an operand in place keeping its identity and shape (OpsSession!ShapeKeeping)
          Pairs,        \* "no": a call on two different objects needs a container (the plain pair is MC_Ops');
                        \* "also": such calls too, with pow_ and the comparisons, and probes that change operator / policy / fill method;
                        \* "only": nothing but calls on two objects
          Extend,       \* mechanism variant, see OpsSession.tla
          Mech          \* FALSE: generator only - the mechanism is not run (the histories and what the law expects are all that is printed)

VARIABLES env,    \* [cols, fam, join]: value family and the policies of the session
          law,    \* the heap according to the LAW: changed by the caller's own actions only
          heap,   \* the heap the mechanism works on
          last,   \* [c |-> the last call, out |-> what the mechanism returned]
          at,     \* the law's heap at the time of the last call
          hist
vars == <<env, law, heap, last, at, hist>>

\* ---- heaps -----------------------------------------------------------------------------------
\* values on which every operation of the family is exact in binary floating point (as in MC_Ops)
Tab == [arith |-> << <<4, 0, 8, 1>>, <<8, 2, 0, 4>>, <<-2, 4, 1, 0>> >>,
        agg   |-> << <<12, 0, 24, -36>>, <<24, 36, 0, 12>>, <<-12, 12, 48, 0>> >>]
V(f, i, x) == VFlt(Tab[f][i][x], 1)
Ser(f, i, I, M) == MkS(I, LAMBDA x : IF x \in M THEN NaNC ELSE V(f, i, x))
ColNo(c) == CHOOSE j \in 1..Len(ColU) : ColU[j] = c
Fr(f, i, I, C, M) == MkF(I, C, LAMBDA c, x : IF c = "b" /\ x \in M THEN NaNC ELSE V(f, ((i + ColNo(c)) % 3) + 1, x))
Sc(f) == [k |-> "c", v |-> IF f = "arith" THEN VFlt(2, 1) ELSE VFlt(12, 1)]
L(ids) == MkCont("l", ids)
T(ids) == MkCont("t", ids)
MkHeap(objs, lists) == [lists |-> lists, objs |-> objs]

\* three partially overlapping series (a NaN, a zero) and a scalar; lists that share a member, a tuple with the scalar
HSeries(f) == MkHeap(<<Ser(f, 1, {1, 2, 3}, {}), Ser(f, 2, {2, 3}, {3}), Ser(f, 3, {1, 3}, {}), Sc(f)>>,
                     <<L(<<1, 2>>), L(<<2, 3>>), T(<<3, 4>>)>>)
\* the same object twice in a list, the scalar first, a singleton, an empty list
HDups(f)   == MkHeap(<<Ser(f, 1, {1, 2, 3}, {}), Ser(f, 2, {2, 3}, {3}), Ser(f, 3, {1, 3}, {}), Sc(f)>>,
                     <<L(<<1, 1>>), L(<<4, 2>>), L(<<3>>), L(<<>>)>>)
\* frames whose column sets differ (all share a and b), a series
HFrames(f) == MkHeap(<<Fr(f, 1, {1, 2}, {"a", "b", "c"}, {}), Fr(f, 2, {2, 3}, {"a", "b"}, {2}), Fr(f, 3, {1, 2, 3}, {"a", "b", "d"}, {}),
                       Ser(f, 3, {1, 2}, {})>>,
                     <<L(<<1, 2>>), L(<<2, 3>>), L(<<3, 4>>)>>)
\* one-column frames (one header) and a series: pseudo-series
HPseudo(f) == MkHeap(<<Fr(f, 1, {1, 2}, {"q"}, {}), Fr(f, 2, {2, 3}, {"q"}, {}), Ser(f, 3, {1, 2, 3}, {}), Sc(f)>>,
                     <<L(<<1, 2>>), T(<<2, 3>>), L(<<1, 4>>)>>)
HeapSet(f) == CASE Scope = "quick"    -> {HSeries(f), HFrames(f)}
                [] Scope = "thorough" -> {HSeries(f), HFrames(f), HDups(f), HPseudo(f)}
                [] Scope = "series"   -> {HSeries(f), HDups(f)}
HasMultiHeap(h) == \E i \in 1..Len(h.objs) : IsMulti(h.objs[i])
Fams == {"arith", "agg"}
SessOps(f) == (IF f = "arith" THEN {"add", "sub", "mul", "div", "min", "max", "sum", "count"}
               ELSE {"add", "sub", "mul", "min", "max", "sum", "mean", "count"})
              \cup (IF Pairs = "no" THEN {} ELSE IF f = "arith" THEN PairOps ELSE OpsCmp)

\* ---- the machine -------------------------------------------------------------------------------
\* (records are written with their fields in alphabetical order, the order in which TLC keeps them)
NoCall == [a |-> NoRef, b |-> NoRef, cols |-> "ij", join |-> "ij", m |-> "none", op |-> ""]
MkCall(op, a, b) == [a |-> a, b |-> b, cols |-> env.cols, join |-> IF op \in AggOps THEN "oj" ELSE env.join, m |-> "none", op |-> op]
CallStep(c) == [act |-> "call", c |-> c, l |-> 0, o |-> 0, p |-> <<>>, x |-> 0]
CallerStep(act, l, o) == [act |-> act, c |-> NoCall, l |-> l, o |-> o, p |-> <<>>, x |-> 0]
EditStep(act, o, x, p) == [act |-> act, c |-> NoCall, l |-> 0, o |-> o, p |-> p, x |-> x]
Refs(h) == {ORef(i) : i \in 1..Len(h.objs)} \cup {LRef(i) : i \in 1..Len(h.lists)}
Called == last.c.op # ""

ListsOfCall(c) == (IF c.a.r = "l" THEN {c.a.i} ELSE {}) \cup (IF c.b.r = "l" THEN {c.b.i} ELSE {})
UsedLists == UNION {ListsOfCall(hist[k].s.c) : k \in 1..Len(hist)}
UsedObjs  == UNION {Range(ArgIds(hist[k].h, hist[k].s.c)) : k \in {k \in 1..Len(hist) : hist[k].s.act = "call"}}
\* a probe looks again at what an earlier call was given: the same call once more, or a list of an earlier call on its own
\* ... or (Pairs) the same arguments under another operator, the other index policy, the other column policy, a fill method:
\* whatever an earlier call may have remembered per policy / per operator about these very objects must not be seen
Ring == [add |-> {"sub", "ge"}, sub |-> {"mul", "lt"}, mul |-> {"div", "min"}, div |-> {"add", "le"}, pow |-> {"mul", "gt"},
         gt |-> {"ge", "add"}, ge |-> {"lt", "div"}, lt |-> {"le", "max"}, le |-> {"gt", "sub"}, min |-> {"max", "add"}, max |-> {"min", "mul"},
         sum |-> {"mean", "count"}, mean |-> {"count", "sum"}, count |-> {"sum", "mean"}]
Other(pol) == IF pol = "ij" THEN "oj" ELSE "ij"
Variants(c) == {[c EXCEPT !.op = op2] : op2 \in Ring[c.op] \cap SessOps(env.fam)}
               \cup {[c EXCEPT !.join = Other(c.join)], [c EXCEPT !.cols = Other(c.cols)], [c EXCEPT !.m = "v0"], [c EXCEPT !.m = "ffill"]}
Probe(c) == \/ c = last.c
            \/ c.b = NoRef /\ c.a.r = "l" /\ c.a.i \in UsedLists /\ c.op \in {last.c.op, "add"}
            \/ Pairs # "no" /\ c \in Variants(last.c)

Init == /\ env \in [cols : {"ij", "oj"}, fam : Fams, join : {"ij", "oj"}]
        /\ law \in HeapSet(env.fam)
        /\ env.cols = "oj" => HasMultiHeap(law)
        /\ heap = law /\ at = law
        /\ last = [c |-> NoCall, out |-> [k |-> "none"]] /\ hist = <<>>

DoCall(c) == /\ Len(hist) < MaxSteps
             /\ c.op \in AggOps => env.join = "oj"            \* the aggregates have no index policy: once per session family
             /\ (Pairs = "no" /\ c.a.r = "o" /\ c.b.r = "o") => c.a.i = c.b.i     \* two different objects, no container: the plain pair of MC_Ops
             /\ Pairs = "only" => c.a.r = "o" /\ c.b.r = "o"
             /\ (Len(hist) >= FreeSteps => (Called /\ Probe(c))) = TRUE     \* (= TRUE: a condition, not a choice of successors)
             /\ SessDomain(law, c) = TRUE
             /\ IF Mech THEN LET m == MechCall(heap, c, Extend) IN heap' = m.heap /\ last' = [c |-> c, out |-> m.out]
                ELSE heap' = heap /\ last' = [c |-> c, out |-> [k |-> "none"]]
             /\ at' = law
             /\ hist' = Append(hist, [h |-> law, s |-> CallStep(c)])
             /\ UNCHANGED <<env, law>>
DoCaller(s) == /\ (IF s.act \in {"append", "pop", "poke"} THEN Caller ELSE Edits) /\ Called /\ Len(hist) < MaxSteps - 1       \* a call follows
               /\ hist[Len(hist)].s.act = "call"
               /\ (CanDo(law, s) /\ CanDo(heap, s)) = TRUE
               /\ ((s.l # 0 => s.l \in UsedLists) /\ (s.act # "append" /\ s.o # 0 => s.o \in UsedObjs)) = TRUE
               /\ law' = Apply(law, s) /\ heap' = Apply(heap, s)
               /\ hist' = Append(hist, [h |-> law', s |-> s])
               /\ UNCHANGED <<env, last, at>>

CallFold == \E op \in FoldOps \cap SessOps(env.fam), a \in Refs(law), b \in Refs(law) \cup {NoRef} : DoCall(MkCall(op, a, b))
CallCut  == \E op \in CutOps \cap SessOps(env.fam), a \in Refs(law), b \in Refs(law) : DoCall(MkCall(op, a, b))
CallAgg  == \E op \in AggOps \cap SessOps(env.fam), a \in Refs(law), b \in Refs(law) \cup {NoRef} : DoCall(MkCall(op, a, b))
CallerAppend == \E l \in 1..Len(law.lists), o \in 1..Len(law.objs) : DoCaller(CallerStep("append", l, o))
CallerPop    == \E l \in 1..Len(law.lists) : DoCaller(CallerStep("pop", l, 0))
CallerPoke   == \E o \in 1..Len(law.objs) : DoCaller(CallerStep("poke", 0, o))
\* calls on two objects with the operators that take exactly two operands; the last call's arguments under another operator / policy / method
CallPair     == Pairs # "no" /\ \E op \in PairOps \cap SessOps(env.fam), a \in Refs(law), b \in Refs(law) : DoCall(MkCall(op, a, b))
CallVariant  == Pairs # "no" /\ Called /\ \E c \in Variants(last.c) : DoCall(c)
\* the caller's in-place edits that keep identity and shape
CallerShift   == \E o \in 1..Len(law.objs), d \in {-1, 1} : DoCaller(EditStep("shift", o, d, <<>>))
CallerRestamp == \E o \in 1..Len(law.objs), i \in 1..3 : DoCaller(EditStep("restamp", o, i, <<>>))
CallerRename  == \E o \in 1..Len(law.objs), c1 \in {"a", "b", "c"}, c2 \in {"c", "e"} : DoCaller(EditStep("rename", o, 0, <<c1, c2>>))
CallerReorder == \E o \in 1..Len(law.objs) : DoCaller(EditStep("reorder", o, 0, <<>>))
CallerPokes   == \E o \in 1..Len(law.objs), x \in {0, 1} : DoCaller(EditStep("pokes", o, x, <<>>))
CallerEdits   == CallerShift \/ CallerRestamp \/ CallerRename \/ CallerReorder \/ CallerPokes
Next == CallFold \/ CallCut \/ CallAgg \/ CallerAppend \/ CallerPop \/ CallerPoke
\* ... with the calls on two objects, the variants of the last call and the shape-keeping edits (configurations *_edits*)
NextE == Next \/ CallPair \/ CallVariant \/ CallerEdits

\* ---- what the statement says, clause by clause -----------------------------------------------
\* a call changes nothing the caller owns: no container gains, loses or swaps a member, no operand changes a cell
PoolUntouched      == heap = law
CallsChangeNothing == [][law' = law => heap' = heap]_vars
\* the result is the reduction of the operands the caller held at the time of the call
ResultByOriginal   == Called => last.out \in SessOutcomes(at, last.c)
\* ... whatever the calling form: every other way of handing over the same operands in the same order gives the same
FormIrrelevant ==
    (Called /\ last.c.op \in FoldOps \cup AggOps) =>
        \A a \in Refs(at), b \in Refs(at) \cup {NoRef} :
            LET c2 == [last.c EXCEPT !.a = a, !.b = b] IN
            (RefOK(at, a) /\ RefOK(at, b) /\ ArgIds(at, c2) = ArgIds(at, last.c) /\ SessDomain(at, c2)) => MechCall(at, c2, FALSE).out \in SessOutcomes(at, last.c)
\* sub_(a, [b1, b2]) is pinned down: reducing left to right and subtracting the sum are the same data - unless a series
\* (scalar, one-column frame) is broadcast over frames whose column sets differ under 'oj' (a column the running
\* result lacks is the neutral element, a column it has is met by the series: the two readings part, both are accepted)
Broadcast(xs, cp) == LET multi == SelectSeq(xs, IsMulti) IN
                     /\ cp = "oj" /\ \E i \in 1..Len(xs) : ~IsMulti(xs[i])
                     /\ \E i, j \in 1..Len(multi) : Cols(multi[i]) # Cols(multi[j])
RightListPinned ==
    (Called /\ last.c.op \in CutOps /\ last.c.a.r = "o" /\ Len(Xs(at, last.c)) > 2 /\ ~Broadcast(Xs(at, last.c), last.c.cols))
        => Flat(at, last.c) = Nested(at, last.c)
\* add_ / mul_ (min_, max_, the aggregates) of series: the two arguments may change places
SeriesOnly(xs) == \A i \in 1..Len(xs) : IsS(xs[i]) \/ IsScalar(xs[i])
SwapArguments ==
    (Called /\ last.c.op \in FoldOps \cup AggOps /\ last.c.b # NoRef /\ SeriesOnly(Xs(at, last.c))) =>
        SessOutcomes(at, [last.c EXCEPT !.a = last.c.b, !.b = last.c.a]) = SessOutcomes(at, last.c)
\* the aggregates of a list: Sum = Mean x Count on the contents of the list
ListAggregates ==
    (Called /\ last.c.op \in AggOps /\ env.fam = "agg") =>
        LET xs == Xs(at, last.c)
            s == Agg("sum", xs, last.c.cols)  mn == Agg("mean", xs, last.c.cols)  n == Agg("count", xs, last.c.cols)
            cell(r, c, x) == IF IsS(r) THEN SVal(r, x) ELSE FVal(r, c, x)
        IN  \A x \in Times(s) : \A c \in (IF IsS(s) THEN {""} ELSE Cols(s)) :
                IF cell(n, c, x) = Zero THEN IsNaN(cell(s, c, x)) ELSE cell(s, c, x) = MulC(cell(mn, c, x), cell(n, c, x))

\* ---- S2C: the histories ------------------------------------------------------------------------
\* for every step: the heap the caller must see after it (h) and, for a call, the outcomes the law allows (want)
Emit == PrintT(ToJson([env |-> env, heap |-> hist[1].h,
                       hist |-> [k \in 1..Len(hist) |-> [h |-> hist[k].h, s |-> hist[k].s,
                                                         want |-> IF hist[k].s.act = "call" THEN SetToSeq(SessOutcomes(hist[k].h, hist[k].s.c)) ELSE <<>>]]]))
Complete == Len(hist) = MaxSteps /\ hist[Len(hist)].s.act = "call"
\* a complete history is printed when it is expanded (once, also under the simulator, which evaluates every candidate successor)
Finish  == Complete /\ Emit /\ UNCHANGED vars
NextGen == Next \/ Finish
NextGenE == NextE \/ Finish
=============================================================================
