CONSTANTS Depth = 2
 MaxObjs = 2
INIT Init
NEXT NextGen
INVARIANT PolicyKept
INVARIANT ObjectsAreHistory
INVARIANT InForceLaw
INVARIANT DeriveLaw
