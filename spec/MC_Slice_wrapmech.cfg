CONSTANTS NPts = 2
          NDays = 2
          NSlots = 3
          StitchCfg <- NoStitch
          NDup = 1
          MaxMult = 2
          NDupSlots = 1
          ZoneCfg <- NoZones
          NZE = 1
          NZ2 = 1
          StitchDupCfg <- NoStitch
          StitchNaNCfg <- NoStitch
INIT Init
NEXT Eval
INVARIANT WrapMechIsLaw
