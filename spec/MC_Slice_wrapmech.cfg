CONSTANTS NPts = 2
          NDays = 2
          NSlots = 3
          StitchCfg <- NoStitch
INIT Init
NEXT Eval
INVARIANT WrapMechIsLaw
