----------------------------- MODULE AccessSig -----------------------------
(* Extension X07-c: the inspection helpers of pyg_base._inspect that property C18 does not claim, judged against      *)
(* Python's own rules for binding a call to a signature.                                                              *)
(*                                                                                                                    *)
(* (Decorators.tla - C18 - has Valid / Bind for signatures WITHOUT keyword-only parameters and is a session machine    *)
(* with variables; the helpers here are about keyword-only parameters and partial objects too, so the binding rules    *)
(* are written out again, as constant operators, with keyword-only parameters.)                                       *)
(*                                                                                                                    *)
(*   sig  = [pos |-> <<names>>, ndef |-> how many trailing positional parameters have a default, varargs |-> BOOLEAN,  *)
(*           kwonly |-> <<names>>, kwdef |-> <<BOOLEAN>> (which keyword-only parameters have a default), varkw]        *)
(*          *args is called "args", **kwargs "kw"; the default of parameter n is the string "d" \o n                   *)
(*   call = [pos |-> <<values>>, kw |-> << <<name, value>>, ... >>]   (keywords sorted by name: they are a set)         *)
(*   spec = what getargspec reports: [args, varargs ("" = None), varkw, defaults, kwonly, kwdefaults (pairs)]           *)
EXTENDS Values, SequencesExt, FiniteSetsExt, TLC

SIsExc(r) == r[1] = "exc"
DefVal(n)  == VStr("d" \o n)
VDict(items) == <<"m", items>>
Names(items) == {items[i][1] : i \in 1..Len(items)}
KwHas(kw, n) == \E i \in 1..Len(kw) : kw[i][1] = n
KwGet(kw, n) == kw[CHOOSE i \in 1..Len(kw) : kw[i][1] = n][2]
SeqSet(s)    == {s[i] : i \in 1..Len(s)}
\* keywords are a set: wherever they are compared they are put into the order of this list (all the names in use)
NameOrder    == <<"a", "args", "b", "c", "k", "kw", "m", "q", "x", "y", "z">>
Norm(kw)     == LET present == SelectSeq(NameOrder, LAMBDA n : KwHas(kw, n)) IN [i \in 1..Len(present) |-> <<present[i], KwGet(kw, present[i])>>]
NPos(sig)    == Len(sig.pos)
NReq(sig)    == NPos(sig) - sig.ndef
HasPosDefault(sig, i) == i > NReq(sig)
HasKwDefault(sig, j)  == sig.kwdef[j]
AllNames(sig) == SeqSet(sig.pos) \cup SeqSet(sig.kwonly)

\* ---- Python's rules for  f( *pos, **kw ) ---------------------------------------------------------------------
Valid(sig, cc) ==
    /\ \A i, j \in 1..Len(cc.kw) : cc.kw[i][1] = cc.kw[j][1] => i = j
    /\ Len(cc.pos) <= NPos(sig) \/ sig.varargs                                          \* too many positional arguments
    /\ \A n \in Names(cc.kw) : n \in AllNames(sig) \/ sig.varkw                          \* unexpected keyword
    /\ \A i \in 1..NPos(sig) : ~(i <= Len(cc.pos) /\ KwHas(cc.kw, sig.pos[i]))           \* multiple values
    /\ \A i \in 1..NReq(sig) : i <= Len(cc.pos) \/ KwHas(cc.kw, sig.pos[i])              \* missing positional
    /\ \A j \in 1..Len(sig.kwonly) : HasKwDefault(sig, j) \/ KwHas(cc.kw, sig.kwonly[j]) \* missing keyword-only
PosVal(sig, cc, i) == IF i <= Len(cc.pos) THEN cc.pos[i]
                      ELSE IF KwHas(cc.kw, sig.pos[i]) THEN KwGet(cc.kw, sig.pos[i]) ELSE DefVal(sig.pos[i])
KwoVal(sig, cc, j) == IF KwHas(cc.kw, sig.kwonly[j]) THEN KwGet(cc.kw, sig.kwonly[j]) ELSE DefVal(sig.kwonly[j])
\* the binding: parameters in order of declaration, then *args, the keyword-only ones, **kw
Bind(sig, cc) ==
    [i \in 1..NPos(sig) |-> <<sig.pos[i], PosVal(sig, cc, i)>>]
    \o (IF sig.varargs THEN << <<"args", VTup(SubSeq(cc.pos, NPos(sig) + 1, Len(cc.pos)))>> >> ELSE <<>>)
    \o [j \in 1..Len(sig.kwonly) |-> <<sig.kwonly[j], KwoVal(sig, cc, j)>>]
    \o (IF sig.varkw THEN << <<"kw", VDict(Norm(SelectSeq(cc.kw, LAMBDA p : p[1] \notin AllNames(sig))))>> >> ELSE <<>>)
\* the functions of the universe return their binding
Outcome(sig, cc) == IF Valid(sig, cc) THEN <<"ok", Bind(sig, cc)>> ELSE Raises("TypeError")

\* ---- what the function declares -----------------------------------------------------------------------------
\* argspec_defaults: every parameter that may be left out, with the value the function then sees
Defaults(sig) == {<<sig.pos[i], DefVal(sig.pos[i])>> : i \in {k \in 1..NPos(sig) : HasPosDefault(sig, k)}}
                 \cup {<<sig.kwonly[j], DefVal(sig.kwonly[j])>> : j \in {k \in 1..Len(sig.kwonly) : HasKwDefault(sig, k)}}
\* argspec_required: "parameters that *must* be provided in order to run the function" (not defined with *args: AssertionError);
\* the positional ones in order, then the keyword-only ones (in either order)
PosRequired(sig) == SubSeq(sig.pos, 1, NReq(sig))
KwRequired(sig)  == SelectSeq([j \in 1..Len(sig.kwonly) |-> IF HasKwDefault(sig, j) THEN "" ELSE sig.kwonly[j]], LAMBDA n : n # "")
RequiredOutcomes(sig) == IF sig.varargs THEN {Raises("AssertionError")}
                         ELSE {<<"ok", PosRequired(sig) \o KwRequired(sig)>>, <<"ok", PosRequired(sig) \o Reverse(KwRequired(sig))>>}
\* getargs(f, n): the parameters that can still be named once the first n arguments went in by position - all of them when
\* the function takes *args (docstring, tests)
GetArgsInDomain(sig, n) == sig.varargs \/ n <= NPos(sig)        \* more positional arguments than parameters is no call
GetArgs(sig, n) == IF sig.varargs \/ n = 0 THEN sig.pos \o sig.kwonly ELSE SubSeq(sig.pos, n + 1, NPos(sig)) \o sig.kwonly

\* ---- argument specifications as data ----------------------------------------------------------------------------
SpecOf(sig) == [args |-> sig.pos, varargs |-> IF sig.varargs THEN "args" ELSE "", varkw |-> IF sig.varkw THEN "kw" ELSE "",
                defaults |-> [i \in 1..sig.ndef |-> DefVal(sig.pos[NReq(sig) + i])], kwonly |-> sig.kwonly,
                kwdefaults |-> SelectSeq([j \in 1..Len(sig.kwonly) |-> <<sig.kwonly[j], DefVal(sig.kwonly[j])>>],
                                         LAMBDA p : \E j \in 1..Len(sig.kwonly) : sig.kwonly[j] = p[1] /\ HasKwDefault(sig, j))]
SpecNames(sp) == SeqSet(sp.args) \cup SeqSet(sp.kwonly) \cup ({sp.varargs, sp.varkw} \ {""})
\* no parameter name twice, never more defaults than parameters: something Python would accept as a signature
SpecWellFormed(sp) == /\ \A i, j \in 1..Len(sp.args) : sp.args[i] = sp.args[j] => i = j
                      /\ SeqSet(sp.args) \cap SeqSet(sp.kwonly) = {}
                      /\ ({sp.varargs, sp.varkw} \ {""}) \cap (SeqSet(sp.args) \cup SeqSet(sp.kwonly)) = {}
                      /\ Len(sp.defaults) <= Len(sp.args)
\* argspec_add(spec, **update): "adds new args with default values at the end of the existing args"; a name the function
\* already has - in whatever role - is left as it is
NewItems(sp, upd) == SelectSeq(upd, LAMBDA p : p[1] \notin SpecNames(sp))
AddSpec(sp, upd) == [sp EXCEPT !.args = sp.args \o [i \in 1..Len(NewItems(sp, upd)) |-> NewItems(sp, upd)[i][1]],
                               !.defaults = sp.defaults \o [i \in 1..Len(NewItems(sp, upd)) |-> NewItems(sp, upd)[i][2]]]
\* argspec_update(spec, field = value, ...): that field replaced, the others kept
UpdateSpec(sp, f, x) == CASE f = "args" -> [sp EXCEPT !.args = x] [] f = "defaults" -> [sp EXCEPT !.defaults = x]
                          [] f = "varargs" -> [sp EXCEPT !.varargs = x] [] f = "varkw" -> [sp EXCEPT !.varkw = x]
                          [] OTHER -> [sp EXCEPT !.kwonly = x]

\* ---- kwargs2args(f, args, kwargs) -> (args', kwargs'):  f( *args', **kwargs' ) must be the call f( *args, **kwargs ) ----
\* with positional arguments present nothing is moved (tests); otherwise the values of the leading parameters that were
\* named go first.  NAMED DEVIATION HowManyMoved: any number of those leading ones - all of them when nothing is left out
\* between them (docstring)
LeadingNamed(sig, kw) == LET ks == {j \in 0..NPos(sig) : \A i \in 1..j : KwHas(kw, sig.pos[i])} IN CHOOSE j \in ks : \A l \in ks : l <= j
Moved(sig, kw, j) == [pos |-> [i \in 1..j |-> KwGet(kw, sig.pos[i])], kw |-> Norm(SelectSeq(kw, LAMBDA p : \A i \in 1..j : sig.pos[i] # p[1]))]
NamedPositional(sig, kw) == Cardinality({i \in 1..NPos(sig) : KwHas(kw, sig.pos[i])})
K2AOutcomes(sig, cc) ==
    IF cc.pos # <<>> THEN {[pos |-> cc.pos, kw |-> Norm(cc.kw)]}
    ELSE LET m == LeadingNamed(sig, cc.kw) IN
         IF m = NamedPositional(sig, cc.kw) THEN {Moved(sig, cc.kw, m)} ELSE {Moved(sig, cc.kw, j) : j \in 0..m}

\* ---- partialize(func, *args, **kwargs)(*p, **q) ------------------------------------------------------------------
\*   pre = [on |-> BOOLEAN (func is partial(f, *pre.pos, **pre.kw)), pos, kw]
\* the keywords the function cannot take are dropped, later keywords replace earlier ones, positional arguments go in
\* front of the caller's.  NAMED DEVIATION PartialArgs: new positional arguments given to a function that is itself a
\* partial WITH positional arguments - python's partial appends them, today's code lets them replace the old ones
Accepted(sig, kw) == IF sig.varkw THEN kw ELSE SelectSeq(kw, LAMBDA p : p[1] \in AllNames(sig))
\* kw2 laid over kw1, sorted as a set of pairs is: represented as the union by name, kw2 winning
Over(kw1, kw2) == SelectSeq(kw1, LAMBDA p : ~KwHas(kw2, p[1])) \o kw2
FrontArgs(pre, args) == IF ~pre.on \/ pre.pos = <<>> THEN {args} ELSE IF args = <<>> THEN {pre.pos} ELSE {pre.pos \o args, args}
PartializeOutcomes(sig, pre, args, kwargs, probe) ==
    LET stored == Accepted(sig, Over(IF pre.on THEN pre.kw ELSE <<>>, kwargs)) IN
    {Outcome(sig, [pos |-> front \o probe.pos, kw |-> Over(stored, probe.kw)]) : front \in FrontArgs(pre, args)}
\* partial(f, *pre.pos, **pre.kw) can be made and called: the arguments given in advance fit the function
PreOK(sig, pre) == /\ Len(pre.pos) <= NPos(sig)
                   /\ \A n \in Names(pre.kw) : n \in AllNames(sig) /\ \A i \in 1..Len(pre.pos) : sig.pos[i] # n
\* the defaults of partial(f, *pre.pos, **pre.kw): what the arguments given in advance leave open, their values laid over
DefaultsPartial(sig, pre) ==
    {p \in Defaults(sig) : (\A i \in 1..Len(pre.pos) : sig.pos[i] # p[1]) /\ ~KwHas(pre.kw, p[1])}
    \cup {pre.kw[i] : i \in 1..Len(pre.kw)}
\* binding compares keyword sets: outcomes do not depend on the order of the keywords
=============================================================================
