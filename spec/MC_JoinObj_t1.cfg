CONSTANTS MaxRows = 1
          MaxRowsY = 1
          MaxSteps = 2
          Stride = 64
          Gen = FALSE
          Emit = "none"
          Variant = "plain"
SPECIFICATION Spec
INVARIANT TypeOK
INVARIANT MechRefinesLaw
INVARIANT Decomposition
INVARIANT SelfJoinReflexive
INVARIANT SelfJoinTranspose
INVARIANT SharingInvisible
PROPERTY CallsLeaveOperands
