CONSTANTS MaxRows = 3
          Shape = "one"
INIT Init
NEXT NextGen
