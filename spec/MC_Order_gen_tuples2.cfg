CONSTANTS MaxLen = 2
          Mode = "tuples"
INIT Init
NEXT NextGen
