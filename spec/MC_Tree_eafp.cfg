CONSTANTS LeafSet = "small"
          RebuildWide = FALSE
          Deep = FALSE
          Wide3 = FALSE
          TableWide = FALSE
          StrangeWide = FALSE
          Only = "dot"
INIT Init
NEXT CallMerge
INVARIANT MergeMechanism
INVARIANT EAFPLookupIsMerge
