CONSTANTS Names = {"x", "y", "CFG"}
          ItemKeys = {"a"}
          ItemVals = {1}
          MaxDepth = 2
          MaxLen = 5
          Menu = "deep"
INIT Init
NEXT NextGen
