CONSTANTS Keys = {"a"}
          NHol = 2
          NWk = 0
          NLo = 2
          NHi = 1
          ConAdjs = {"f", "p", "m"}
          ConFull = FALSE
          Rich = TRUE
          MaxObj = 3
          Depth = 4
          KeepHist = TRUE
          SetAdjs = {"f", "p", "m"}
          Fan = 0
INIT Init
NEXT NextSes
