CONSTANTS MaxRows = 2
          Shape = "one"
INIT Init
NEXT NextGen
