------------------------------- MODULE Table -------------------------------
(* Tables as the list-of-records model of property C01: a table is a record                    *)
(*     [cols |-> sequence of distinct column names, rows |-> sequence of records over cols]    *)
(* Column order is kept because dictable shows it, but no law depends on it.                   *)
EXTENDS Values

ColSet(t) == Range(t.cols)
NRows(t)  == Len(t.rows)
Rectangular(t) == \A i \in 1..Len(t.rows) : DOMAIN t.rows[i] = ColSet(t)
SameCols(t, u) == ColSet(t) = ColSet(u)

\* same table up to column order
TableEq(t, u) == SameCols(t, u) /\ t.rows = u.rows

\* ---------------------------------------------------------------------------------------------
\* Row conditions of inc / exc / find (property C06)
\* ---------------------------------------------------------------------------------------------
\* The string universe on which the regular expressions of the condition menu are specified,
\* and for each expression the exact set of universe strings in which it finds a match.
StrU == {"", "a", "b", "ab", "ba", "abc", "B", "xyz"}
ReMatch == [ has_a    |-> {"a", "ab", "ba", "abc"},      \* re.compile('a')
             starts_b |-> {"b", "ba"},                    \* re.compile('^b')
             ends_b   |-> {"b", "ab"},                    \* re.compile('b$')
             any      |-> StrU,                           \* re.compile('')
             nothing  |-> {} ]                            \* re.compile('q')

\* one column condition  <<kind, argument>>
\*   <<"val", v>>   a plain value: None means "is None", a NaN/inf means "is NaN or infinite",
\*                  anything else "cell in [v]" (identity or equality, as a Python list does)
\*   <<"list", vs>> list of admissible values: "cell in vs"
\*   <<"re", id>>   compiled regular expression: the cell is a string and the expression matches
CellSat(cell, cnd) ==
    CASE cnd[1] = "val"  -> IF IsNone(cnd[2]) THEN IsNone(cell)
                            ELSE IF IsNanLike(cnd[2]) THEN IsNanLike(cell)
                            ELSE PyIn(cell, <<cnd[2]>>)
      [] cnd[1] = "list" -> PyIn(cell, cnd[2])
      [] cnd[1] = "re"   -> IsStr(cell) /\ Pay(cell) \in ReMatch[cnd[2]]

\* Python truthiness of a cell value: None, False, 0, 0.0 and '' are false; everything else (NaN included) is true
Truthy(v) == CASE IsNone(v) -> FALSE
               [] IsFinNum(v) -> ~RatEq(Rat(v), <<0, 1>>)
               [] IsStr(v) -> Pay(v) # ""
               [] OTHER -> TRUE
\* named predicates on named columns (the driver holds the matching Python lambdas)
Gt(u, v) == (IsFinNum(u) /\ IsFinNum(v) /\ RatLt(Rat(v), Rat(u))) \/ (u = VInf(1) /\ IsFinNum(v))
PredSat(row, name) ==
    CASE name = "a_is_none"    -> IsNone(row.a)                       \* lambda a: a is None
      [] name = "a_eq_b"       -> PyEq(row.a, row.b)                   \* lambda a, b: a == b
      [] name = "b_is_str"     -> IsStr(row.b)                         \* lambda b: isinstance(b, str)
      [] name = "a_num_gt_1"   -> Gt(row.a, VInt(1))                    \* lambda a: is_num(a) and a > 1  (NaN > 1 is False)
      [] name = "always"       -> TRUE                                 \* lambda: True
      [] name = "never"        -> FALSE                                \* lambda a: False
      [] name = "a_truthy"     -> Truthy(row.a)                        \* lambda a: a         (the returned value itself decides)
      [] name = "b_strlen"     -> IsStr(row.b) /\ Pay(row.b) # ""       \* lambda b: len(b) if isinstance(b, str) else 0   (an int, not a bool)
      [] name = "a_above_1"    -> Gt(row.a, VInt(1))                   \* above(1), where above = lambda k: (lambda a: is_num(a) and a > k): closures of ONE code object
      [] name = "a_above_2"    -> Gt(row.a, VInt(2))                   \* above(2)
      [] name = "a_above_0"    -> Gt(row.a, VInt(0))                   \* above(0)
      [] name = "a_is_b"       -> PyIs(row.a, row.b) /\ (IsNone(row.a) \/ IsNaN(row.a)) \* lambda a, b: a is b and (a is None or is_nan(a))

\* a condition is a single predicate or a conjunction of column conditions
Sat(row, cond) ==
    IF cond.kind = "pred" THEN PredSat(row, cond.name)
    ELSE \A k \in 1..Len(cond.items) : CellSat(row[cond.items[k][1]], cond.items[k][2])

\* Named deviation NoCondition: a call without any condition filters nothing - inc() and exc()
\* both return the whole table (the property only states it for inc; for exc the empty
\* conjunction is read as "nothing to exclude on", not as "true of every row").
NoCondition(cond) == cond.kind = "kw" /\ cond.items = <<>>
Inc(t, cond) == [cols |-> t.cols, rows |-> SelectSeq(t.rows, LAMBDA r : Sat(r, cond))]
Exc(t, cond) == IF NoCondition(cond) THEN t
                ELSE [cols |-> t.cols, rows |-> SelectSeq(t.rows, LAMBDA r : ~Sat(r, cond))]

\* mechanism: inc narrows the table column condition by column condition
RECURSIVE IncSeqFrom(_, _, _)
IncSeqFrom(rows, items, k) ==
    IF k > Len(items) THEN rows
    ELSE IncSeqFrom(SelectSeq(rows, LAMBDA r : CellSat(r[items[k][1]], items[k][2])), items, k + 1)
IncSeq(t, cond) == [cols |-> t.cols, rows |-> IncSeqFrom(t.rows, cond.items, 1)]

\* find_<col>: the unique value (under set semantics) of column c among the selected rows
FindOutcomes(t, c, cond) ==
    LET sel == Inc(t, cond).rows
        vals == {sel[i][c] : i \in 1..Len(sel)}
    IN  IF sel = <<>> THEN {Raises("ValueError")}
        ELSE IF \A u \in vals, v \in vals : SameForSet(u, v) THEN vals ELSE {Raises("ValueError")}
=============================================================================
