---------------------------- MODULE MC_OrderSess ----------------------------
(* Property C07, sort sessions (OrderSess).                                                     *)
(* (1) Model checking (cfg *_quick / *_thorough, Hist = FALSE): every history of <= MaxSteps     *)
(*     steps over the seed heaps; the constructive Apply under CmpModel satisfies the relational *)
(*     single-call law at every call (CallLaw), is idempotent (Idempotent), and no step changes  *)
(*     anything but what it allocates / the object the caller edits (FrameLaw).                  *)
(* (2) S2C generator (cfg *_gen*, Hist = TRUE): the histories themselves, each with the seed     *)
(*     heap, the steps and the heap CmpModel predicts.  Shape "focused" = every single call,     *)
(*     every ordered pair of calls (the second one on any object alive then, the result of the   *)
(*     first included; the lists are the same objects in both), and every                         *)
(*     "call ; the caller edits an object the call touched (operand, result, a list it was       *)
(*     given) ; the same call again on the operand or on the result" ("call ; edit of the result" *)
(*     is a history of its own: the probe for a result that shares objects with the operand).  Shape "free" = any steps  *)
(*     (TLC simulation of longer sessions).  Seeds flagged dup (an explicit order that lists a   *)
(*     value twice) get calls with explicit value orders only.                                   *)
(*     Error paths: focused histories also start with every call that RAISES (Raises), followed  *)
(*     by every ordinary call or by a cmp sample (cmps): "raise ; call".  Seed "real" holds      *)
(*     numpy scalars (rows listed in np), datetime.date objects and a NaN, where a conversion    *)
(*     skipped after an error shows.                                                              *)
EXTENDS OrderSess, Json
CONSTANTS MaxSteps,    \* length of the histories
          Shape,       \* "focused" | "free"
          SeedNames,   \* which seed heaps
          Hist,        \* TRUE: carry the history and print it (generator); FALSE: model checking
          ErrOnly      \* seeds that get, in shape "focused", the single calls and the error-path histories "raise ; call" only

VARIABLES S, S0, seed, prev, last, hist, n
vars == <<S, S0, seed, prev, last, hist, n>>

N1 == VNaN(1)
N2 == VNaN(2)
Row(a, b, i) == [a |-> a, b |-> b, id |-> VInt(i)]
Tab(as, bs)  == [i \in 1..Len(as) |-> Row(as[i], bs[i], i)]
TabB(bs)     == [i \in 1..Len(bs) |-> [b |-> bs[i], id |-> VInt(i)]]            \* a table without column a
Heap(t1, t2, o1, o2, x) == [tabs |-> <<t1, t2>>, lsts |-> <<o1, o2, x>>, role |-> <<"o", "o", "v">>]
Day(o)      == <<"date", o>>
DT(o, s)    == <<"d", <<o, s, 0>>>>
\* np: the row ids (tables) / positions (lists) of the seed heap whose numbers are rendered as numpy scalars - the same values
I(k) == VInt(k)
AllSeeds ==
  { [name |-> "real", dup |-> 0,         \* realisations: numpy scalars next to plain numbers (with None: Python's own order raises),
     S |-> Heap(Tab(<<I(2), None, I(1), VFlt(5, 2)>>, <<DT(730121, 0), Day(730120), DT(730120, 0), Day(730121)>>),      \* dates next to datetimes
                TabB(<<VFlt(1, 1), N1, I(1), I(2)>>),
                <<I(1), VFlt(5, 2)>>, <<Day(730120)>>, <<VFlt(5, 2), I(1), None, I(2), VFlt(1, 1)>>)],
    [name |-> "num", dup |-> 0,          \* numbers only (Python's own order never raises), a tie between an int and the equal float
     S |-> Heap(Tab(<<I(2), I(1), VFlt(1, 1)>>, <<I(1), I(2), I(1)>>), TabB(<<I(1), I(2)>>),      \* the second table and the value list
                <<I(2), I(1)>>, <<I(1), I(3)>>, <<I(1), VFlt(1, 1), I(2)>>)],      \* are sorted ALREADY (where a shortcut would hand back the operand)
    [name |-> "nan", dup |-> 0,          \* NaN objects among the keys and in an explicit order
     S |-> Heap(Tab(<<N1, I(2), I(1)>>, <<I(2), N2, I(1)>>), TabB(<<N1, I(1), I(2)>>),
                <<N1, I(1)>>, <<I(2), N2>>, <<I(2), N1, I(1)>>)],
    [name |-> "mixed", dup |-> 0,        \* mixed types: Python's own order raises TypeError
     S |-> Heap(Tab(<<VStr("a"), None, I(1)>>, <<None, I(1), VStr("a")>>), TabB(<<VStr("b"), I(1)>>),
                <<VStr("a"), I(1)>>, <<None>>, <<VStr("a"), None, I(1)>>)],
    [name |-> "ties", dup |-> 0,         \* four rows, every key twice
     S |-> Heap(Tab(<<I(2), I(1), I(2), I(1)>>, <<VStr("b"), VStr("b"), VStr("a"), VStr("a")>>), TabB(<<VStr("b"), VStr("a"), VStr("b")>>),
                <<VStr("b"), VStr("a")>>, <<I(2)>>, <<VStr("b"), VStr("a"), VStr("ab"), VStr("a")>>)],
    [name |-> "dup", dup |-> 1,          \* explicit orders that list a value twice (as a dict sees values: 1 and 1.0 are one)
     S |-> Heap(Tab(<<VStr("a"), VStr("b"), VStr("ab"), VStr("a"), VStr("b")>>, <<I(1), I(2), VFlt(1, 1), I(3), I(2)>>), TabB(<<I(3), I(1), I(2)>>),
                <<VStr("ab"), VStr("ab"), VStr("a")>>, <<I(1), VFlt(1, 1), I(2)>>, <<>>)] }
Seeds == {s \in AllSeeds : s.name \in SeedNames}
NpOf(name) == IF name = "real" THEN <<1, 4>> ELSE <<>>

C(u, v) == CmpModel(u, v)
Do(st) == /\ S' = Apply(C, S, st)
          /\ prev' = S /\ last' = st /\ n' = n + 1
          /\ hist' = IF Hist THEN Append(hist, st) ELSE hist
          /\ UNCHANGED <<S0, seed>>
ValCalls(T) == {st \in Calls(T) : st.op = "sortval"}
Offered ==
    IF seed.dup = 1 THEN (IF n < 2 THEN ValCalls(S) ELSE {})
    ELSE IF Shape = "free" THEN Calls(S) \cup Edits(S) \cup RaiseCalls(S) \cup {CmpsStep}
    ELSE CASE n = 0 -> Calls(S) \cup RaiseCalls(S)
           [] n = 1 /\ IsRaise(last) -> Calls(S) \cup {CmpsStep}                      \* "raise ; any call"
           [] n = 1 /\ seed.name \in ErrOnly -> {}
           [] n = 1 -> Calls(S) \cup {e \in Edits(S) : EditTouches(S0, hist[1], e)}
           [] n = 2 /\ IsEdit(last) -> {st \in Repeats(S0, hist[1]) : Enabled(S, st)}
           [] OTHER -> {}
Init == /\ seed \in {[name |-> s.name, dup |-> s.dup] : s \in Seeds}
        /\ S = (CHOOSE s \in Seeds : s.name = seed.name).S /\ S0 = S /\ prev = S /\ last = NoStep /\ hist = <<>> /\ n = 0
\* (simulation evaluates the constraint - and so would print - on EVERY candidate successor: a free session ends with one closing
\*  step that has a single successor, and is printed there, once)
Close == Shape = "free" /\ Hist /\ n = MaxSteps /\ n' = n + 1 /\ UNCHANGED <<S, S0, seed, prev, last, hist>>
Next == n < MaxSteps /\ \E st \in Offered : Do(st)
NextSim == Next \/ Close

\* ---- (1) the laws of a session, on the constructive level ------------------------------------------
NewTab == S.tabs[Len(S.tabs)]
Opd    == prev.tabs[last.src]
PosIn(rows, r) == CHOOSE i \in 1..Len(rows) : rows[i] = r
RowsArePerm(rows, out) == Len(rows) = Len(out) /\ SeqRange(rows) = SeqRange(out)
\* relational: adjacent rows of the result are in order under RC, ties in the order they had in the operand
StableUnder(RC(_, _), rows, out) == \A p \in 1..(Len(out) - 1) :
                                       RC(out[p], out[p + 1]) < 0 \/ (RC(out[p], out[p + 1]) = 0 /\ PosIn(rows, out[p]) < PosIn(rows, out[p + 1]))
CallLaw == (n > 0 /\ IsCall(last)) =>
    CASE last.op \in {"sort", "sortfn"} -> LET RC(r, s) == C(KeyTup(r, KeyCols(last)), KeyTup(s, KeyCols(last)))
                                           IN RowsArePerm(Opd, NewTab) /\ StableUnder(RC, Opd, NewTab)
      [] last.op = "sortval" -> LET RC(r, s) == RankCmp(OrdersAt(prev, last), r, s)
                                IN /\ RowsArePerm(Opd, NewTab) /\ StableUnder(RC, Opd, NewTab)
                                   /\ IsByValueOrder(OrdersAt(prev, last), Opd, NewTab)
                                   \* listed values before unlisted ones, column by column in priority
                                   /\ LET o1 == OrdersAt(prev, last)[1] IN
                                      \A p, q \in 1..Len(NewTab) : (Occs(NewTab[p][o1[1]], o1[2]) # {} /\ Occs(NewTab[q][o1[1]], o1[2]) = {}) => p < q
      [] last.op = "listsort" -> LET out == S.lsts[Len(S.lsts)] IN
                                 IsPerm(prev.lsts[last.lst], out) /\ \A p \in 1..(Len(out) - 1) : C(out[p], out[p + 1]) <= 0
\* the same call on its own result returns the result
Idempotent == (n > 0 /\ IsCall(last)) =>
    LET again == IF last.op = "listsort" THEN [last EXCEPT !.lst = Len(S.lsts)] ELSE [last EXCEPT !.src = Len(S.tabs)]
        T == Apply(C, S, again)
    IN IF last.op = "listsort" THEN T.lsts[Len(T.lsts)] = S.lsts[Len(S.lsts)] ELSE T.tabs[Len(T.tabs)] = NewTab
\* a call allocates one object and leaves every other as it was; an edit changes the edited object only
FrameLaw == n > 0 =>
    CASE last.op = "listsort" -> S.tabs = prev.tabs /\ SubSeq(S.lsts, 1, Len(prev.lsts)) = prev.lsts /\ Len(S.lsts) = Len(prev.lsts) + 1
      [] IsCall(last) -> S.lsts = prev.lsts /\ SubSeq(S.tabs, 1, Len(prev.tabs)) = prev.tabs /\ Len(S.tabs) = Len(prev.tabs) + 1
      [] last.op = "setcol" -> S.lsts = prev.lsts /\ \A t \in 1..Len(S.tabs) : t # last.src => S.tabs[t] = prev.tabs[t]
      [] last.op = "setlst" -> S.tabs = prev.tabs /\ \A l \in 1..Len(S.lsts) : l # last.lst => S.lsts[l] = prev.lsts[l]
      [] last.op \in {"raise", "cmps"} -> S = prev
\* the error paths are there: some history is "a call that raises ; an ordinary call" (must fail)
NoRaiseThenCall == ~(n = 2 /\ IsRaise(hist[1]) /\ IsCall(last))
\* the "already sorted on these keys" shortcut is lawful only while the table is as the sort left it: once the caller has edited
\* a key column of a result, sorting it again on the same keys is NOT the identity for some history (witness that the edits bite)
EditsBite == ~(n = 3 /\ IsEdit(hist[2]) /\ hist[1].op = "sort" /\ last.src = Len(S0.tabs) + 1 /\ NewTab # S.tabs[last.src])

\* ---- (2) the generator -------------------------------------------------------------------------------
Emit == PrintT(ToJson([kind |-> "session", seed |-> seed.name, dup |-> seed.dup, np |-> NpOf(seed.name), init |-> S0, hist |-> hist, model |-> S,
                       exc |-> [k \in 1..Len(hist) |-> IF IsRaise(hist[k]) THEN ExcOf(hist[k].how) ELSE ""]]))
\* (focused: a history ends with a call, or with the caller's edit of the RESULT of the call before it - the probe for a result
\*  that shares objects with the operand: the edit must change the edited object only)
EditsResult == n = 2 /\ IsEdit(last) /\ (IF last.op = "setcol" THEN last.src = Len(S0.tabs) + 1 ELSE hist[1].op = "listsort" /\ last.lst = Len(S0.lsts) + 1)
ShouldEmit == IF Shape = "free" THEN n = MaxSteps + 1 ELSE n > 0 /\ n <= MaxSteps /\ (IsCall(last) \/ EditsResult \/ last.op = "cmps")
GenEmit == (Hist /\ ShouldEmit) => Emit
=============================================================================
