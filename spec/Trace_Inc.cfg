INIT Init
NEXT Next
