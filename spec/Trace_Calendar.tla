--------------------------- MODULE Trace_Calendar ---------------------------
(* Trace validation for property C05.  Two kinds of log lines:                                   *)
(* (1) one real calendar, made and fetched through the registry calendar(...), with the queries  *)
(*     put to it:                                                                                *)
(*   [cfg |-> [hol, wk, adj, lo, hi], edge |-> 0 | 1, qs |-> << [q |-> query, out |-> outcome], ... >>] *)
(*     Every query is recomputed by counting on ordinals (law level of Calendar.tla).  The       *)
(*     pseudo query "fetch" asks calendar(key) for its holidays.  edge = 1: the calendar's range  *)
(*     is tight (its first / last day can be a holiday or a weekend day) and the driver asks at   *)
(*     and next to the ends without knowing the claimed domain: questions outside it are not      *)
(*     judged.  edge = 0: the driver stays inside the domain by construction and leaving it is    *)
(*     reported.  Where a posed question leaves the range (edge = 1) the outcome is the answer by    *)
(*     counting or a refusal (RefusalBeyondRange) - never another date.  The field r of a query      *)
(*     names the realisation of the day the driver used; the law does not read it.                   *)
(* (2) one recorded HISTORY of the registry on real calendars (evs |-> << event, ... >>):         *)
(*   [op |-> "reg",  k, p, out]       calendar(k, <what p gives>)      out = the holidays listed  *)
(*   [op |-> "con",  k, p, adj, out]  Calendar(k, <what p gives>, adj)                            *)
(*   [op |-> "rego", o, out]          calendar(obj)                    o = position in the heap   *)
(*   [op |-> "regw", o, p, out]       calendar(obj, <what p gives>)                               *)
(*   [op |-> "fetch", k, out]         calendar(k).holidays                                        *)
(*   [op |-> "q", k, q, out]          calendar(k).<query>      [op |-> "qo", o, q, out]  obj.<query> *)
(*   [op |-> "setadj", o, adj, out]   obj.adj = adj  (a loose handle)   out = obj.adj afterwards    *)
(*   [op |-> "copy", o, out]  Calendar(obj)   [op |-> "copyk", k, out]  Calendar(calendar(k))       *)
(*   [op |-> "copyw", o, adj, out]    obj(adj = adj)                   out = the holidays listed   *)
(*     p = [hol, wk, lo, hi], each <<>> (not given) or <<value>> (given, possibly empty).  The    *)
(*     specification walks the history with the law of Calendar.tla part 4 (RegisteredCfg /       *)
(*     DerivedCfg: what each key was last registered with) and judges every outcome.              *)
(* The verdict names the first outcome the specification does not explain, as                     *)
(* "<clause>:<position>".                                                                         *)
EXTENDS Calendar, Batch, FiniteSetsExt

CfgOf(o) == [hol |-> ToSet(o.cfg.hol), wk |-> ToSet(o.cfg.wk), adj |-> o.cfg.adj, lo |-> o.cfg.lo, hi |-> o.cfg.hi]
GoodCfg(k) == /\ k.adj \in {"f", "p", "m"} /\ k.wk \in {{5, 6}, {4, 5}, {6}, {}}
              /\ k.lo <= k.hi /\ \A d \in k.hol : InRange(k, d)

\* "" if the outcome of e is explained, else the clause
Judge(k, e, edge) ==
    LET q == e.q  out == e.out IN
    IF q.op = "fetch" THEN (IF out.kind = "val" /\ out.v = SetToSortSeq(k.hol, <) THEN "" ELSE "registry_reflects_holidays")
    ELSE IF MonthNo(q.t) # MonthOf(q.t) THEN "spec_monthno"                      \* self-check of the specification
    ELSE IF "r" \in DOMAIN q /\ q.r \notin Reals THEN "bad_config"
    ELSE IF ~Posed(k, q) \/ (~InDomain(k, q) /\ ~edge) THEN (IF edge THEN "" ELSE "out_of_domain")
    ELSE IF ~Pinned(k, q) THEN ""
    ELSE IF Explained(k, q, out) THEN "" ELSE q.op

VerdictCal(o) ==
    LET k == CfgOf(o) IN
    IF ~GoodCfg(k) THEN "bad_config:0"
    ELSE LET bad == {i \in 1..Len(o.qs) : Judge(k, o.qs[i], o.edge = 1) # ""} IN
         IF bad = {} THEN "" ELSE LET i == Min(bad) IN Judge(k, o.qs[i], o.edge = 1) \o ":" \o ToString(i)

\* ---- histories ---------------------------------------------------------------------------------
TKeys == {"a", "b", "c"}
PIn(p) == [hol |-> IF p.hol = <<>> THEN <<>> ELSE <<ToSet(p.hol[1])>>, wk |-> IF p.wk = <<>> THEN <<>> ELSE <<ToSet(p.wk[1])>>,
           lo |-> p.lo, hi |-> p.hi]
Lists(out, H) == out.kind = "val" /\ out.v = SetToSortSeq(H, <)
At2(i, clause) == clause \o ":" \o ToString(i)
\* a query on a calendar of configuration cf: questions outside the claimed domain, not pinned by the statement, or
\* relying on the (unpinned) convention of a derived calendar are not judged
JudgeQ(cf, e) ==
    LET q == e.q IN
    IF q.a = "" /\ q.op \notin {"is_bday", "is_holiday"} /\ cf.adj = "?" THEN ""
    ELSE IF ~Posed(cf, q) \/ ~Pinned(cf, q) THEN ""
    ELSE IF Explained(cf, q, e.out) THEN "" ELSE "registry_query_" \o q.op
\* heap: the calendars in the order the driver obtained them, [key, cfg, loose]; reg: key -> position in the heap
\* (0 = none).  loose = made with Calendar(...) and never registered: only such handles are asked directly (the
\* statement speaks of calendars fetched by key, not of handles kept from earlier registrations)
RECURSIVE Walk(_, _, _, _)
Walk(evs, i, heap, reg) ==
    IF i > Len(evs) THEN "" ELSE
    LET e == evs[i]
        takes(k, cf) == Walk(evs, i + 1, Append(heap, [key |-> k, cfg |-> cf, loose |-> FALSE]), [reg EXCEPT ![k] = Len(heap) + 1])
    IN
    CASE e.op = "reg" ->
           LET P == PIn(e.p)  cf == RegisteredCfg(P) IN
           IF e.k \notin TKeys THEN At2(i, "bad_history_key") ELSE IF ~AnyGiven(P) THEN At2(i, "bad_history_nothing_given")
           ELSE IF ~WellCfg(cf) THEN At2(i, "bad_history_config")
           ELSE IF ~Lists(e.out, cf.hol) THEN At2(i, "registry_reflects_holidays") ELSE takes(e.k, cf)
      [] e.op = "con" ->
           LET P == PIn(e.p)  cf == [RegisteredCfg(P) EXCEPT !.adj = e.adj] IN
           IF e.k \notin TKeys \/ ~WellCfg(cf) \/ e.adj \notin {"f", "p", "m"} THEN At2(i, "bad_history")
           ELSE IF ~Lists(e.out, cf.hol) THEN At2(i, "registry_reflects_holidays")
           ELSE Walk(evs, i + 1, Append(heap, [key |-> e.k, cfg |-> cf, loose |-> TRUE]), reg)
      [] e.op = "rego" ->
           IF e.o \notin 1..Len(heap) THEN At2(i, "bad_history")
           ELSE IF ~Lists(e.out, heap[e.o].cfg.hol) THEN At2(i, "registry_reflects_holidays")
           ELSE Walk(evs, i + 1, [heap EXCEPT ![e.o].loose = FALSE], [reg EXCEPT ![heap[e.o].key] = e.o])
      [] e.op = "regw" ->
           IF e.o \notin 1..Len(heap) THEN At2(i, "bad_history") ELSE
           LET P == PIn(e.p)  cf == DerivedCfg(heap[e.o].cfg, P) IN
           IF ~AnyGiven(P) \/ ~WellCfg(cf) THEN At2(i, "bad_history")
           ELSE IF ~Lists(e.out, cf.hol) THEN At2(i, "registry_reflects_holidays") ELSE takes(heap[e.o].key, cf)
      [] e.op = "setadj" ->
           IF e.o \notin 1..Len(heap) \/ e.adj \notin {"f", "p", "m"} THEN At2(i, "bad_history")
           ELSE IF ~heap[e.o].loose THEN At2(i, "bad_history")
           ELSE IF ~(e.out.kind = "val" /\ e.out.v = e.adj) THEN At2(i, "caller_sets_adj")
           ELSE Walk(evs, i + 1, [heap EXCEPT ![e.o].cfg.adj = e.adj], reg)
      [] e.op \in {"copy", "copyw"} ->
           IF e.o \notin 1..Len(heap) THEN At2(i, "bad_history") ELSE
           LET cf == IF e.op = "copy" THEN heap[e.o].cfg ELSE [heap[e.o].cfg EXCEPT !.adj = e.adj] IN
           IF ~heap[e.o].loose \/ cf.adj \notin {"f", "p", "m", "?"} THEN At2(i, "bad_history")
           ELSE IF ~Lists(e.out, cf.hol) THEN At2(i, "registry_reflects_holidays")
           ELSE Walk(evs, i + 1, Append(heap, [key |-> heap[e.o].key, cfg |-> cf, loose |-> TRUE]), reg)
      [] e.op = "copyk" ->
           IF e.k \notin TKeys \/ reg[e.k] = 0 THEN At2(i, "bad_history")
           ELSE IF ~Lists(e.out, heap[reg[e.k]].cfg.hol) THEN At2(i, "registry_reflects_holidays")
           ELSE Walk(evs, i + 1, Append(heap, [key |-> e.k, cfg |-> heap[reg[e.k]].cfg, loose |-> TRUE]), reg)
      [] e.op = "fetch" ->
           IF e.k \notin TKeys \/ reg[e.k] = 0 THEN At2(i, "bad_history")
           ELSE IF ~Lists(e.out, heap[reg[e.k]].cfg.hol) THEN At2(i, "registry_reflects_holidays") ELSE Walk(evs, i + 1, heap, reg)
      [] e.op = "q" ->
           IF e.k \notin TKeys \/ reg[e.k] = 0 THEN At2(i, "bad_history")
           ELSE LET v == JudgeQ(heap[reg[e.k]].cfg, e) IN IF v # "" THEN At2(i, v) ELSE Walk(evs, i + 1, heap, reg)
      [] e.op = "qo" ->
           IF e.o \notin 1..Len(heap) THEN At2(i, "bad_history")
           ELSE LET v == IF heap[e.o].loose THEN JudgeQ(heap[e.o].cfg, e) ELSE "" IN IF v # "" THEN At2(i, v) ELSE Walk(evs, i + 1, heap, reg)
      [] OTHER -> At2(i, "bad_history")
VerdictHist(o) == Walk(o.evs, 1, <<>>, [k \in TKeys |-> 0])

Verdict(o) == IF "evs" \in DOMAIN o THEN VerdictHist(o) ELSE VerdictCal(o)

Init == BatchInit
Next == BatchNext(Verdict)
=============================================================================
