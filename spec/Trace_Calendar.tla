--------------------------- MODULE Trace_Calendar ---------------------------
(* Trace validation for property C05.  Each line of the log is one real calendar, made and      *)
(* fetched through the registry calendar(...), with the queries put to it:                      *)
(*   [cfg |-> [hol, wk, adj, lo, hi], qs |-> << [q |-> query, out |-> encoded outcome], ... >>]  *)
(* Every query is recomputed by counting on ordinals (law level of Calendar.tla).  The pseudo   *)
(* query "fetch" asks calendar(key) for its holidays.  The verdict names the first query the    *)
(* specification does not explain, as "<clause>:<position>".                                     *)
EXTENDS Calendar, Batch, FiniteSetsExt

CfgOf(o) == [hol |-> ToSet(o.cfg.hol), wk |-> ToSet(o.cfg.wk), adj |-> o.cfg.adj, lo |-> o.cfg.lo, hi |-> o.cfg.hi]
GoodCfg(k) == /\ k.adj \in {"f", "p", "m"} /\ k.wk \in {{5, 6}, {4, 5}, {6}, {}}
              /\ k.lo <= k.hi /\ \A d \in k.hol : InRange(k, d)

\* "" if the outcome of e is explained, else the clause
Judge(k, e) ==
    LET q == e.q  out == e.out IN
    IF q.op = "fetch" THEN (IF out.kind = "val" /\ out.v = SetToSortSeq(k.hol, <) THEN "" ELSE "registry_reflects_holidays")
    ELSE IF MonthNo(q.t) # MonthOf(q.t) THEN "spec_monthno"                      \* self-check of the specification
    ELSE IF ~InDomain(k, q) THEN "out_of_domain"
    ELSE IF ~Pinned(k, q) THEN ""
    ELSE IF out.kind = "val" /\ out.v \in AcceptedAnswers(k, q) THEN "" ELSE q.op

Verdict(o) ==
    LET k == CfgOf(o) IN
    IF ~GoodCfg(k) THEN "bad_config:0"
    ELSE LET bad == {i \in 1..Len(o.qs) : Judge(k, o.qs[i]) # ""} IN
         IF bad = {} THEN "" ELSE LET i == Min(bad) IN Judge(k, o.qs[i]) \o ":" \o ToString(i)

Init == BatchInit
Next == BatchNext(Verdict)
=============================================================================
