------------------------------ MODULE Trace_Fill ------------------------------
(* Trace validation for property C12.  One line of the log = one abstract call                  *)
(*     df_fillna(x, ms, limit = lim)      or      nona(x, edge = edge)                           *)
(* executed on every carrier of the same frame o.f (numpy vector / n x k array, pd.Series,       *)
(* pd.DataFrame with a date index).  Per carrier ("run") the log holds the encoded result        *)
(* (out: kind "val" with dim, rows, cols - arrays have no row labels - or kind "exc") and the    *)
(* argument object re-read after the call (after: rows, cols, dtype, shape).                     *)
EXTENDS Fill, Batch

IsArr(cr) == cr \in {"arr1", "arr2"}
DimOf(cr) == IF cr \in {"arr1", "ser"} THEN 1 ELSE 2
ShapeOf(cr, f) == IF DimOf(cr) = 1 THEN <<NRows(f)>> ELSE <<NRows(f), NCols(f)>>
ColsOf(F) == {g.cols : g \in F}

Verdict(o) ==
    LET f     == o.f
        want  == IF o.op = "fillna" THEN Fillna(f, o.ms, o.lim) ELSE {NonaFn(f, o.edge)}
        wantA == IF o.op = "fillna" THEN ColsOf(want) ELSE ColsOf(NonaFnArray(f, o.edge))
        runs  == o.runs
        RunV(r) ==
            IF r.after.rows # f.rows \/ r.after.cols # f.cols \/ r.after.dtype # "float64"
               \/ r.after.shape # ShapeOf(r.carrier, f) THEN "input_modified"
            ELSE IF r.out.kind = "exc" THEN "raised"
            ELSE IF r.out.dim # DimOf(r.carrier) THEN "result_shape"
            ELSE IF IsArr(r.carrier) THEN (IF r.out.cols \in wantA THEN "" ELSE "array_result")
            ELSE IF [rows |-> r.out.rows, cols |-> r.out.cols] \in want THEN "" ELSE "pandas_result"
        bad   == SelectSeq(Idx(Len(runs)), LAMBDA i : RunV(runs[i]) # "")
        \* the array result equals the values of the result for the corresponding Series/DataFrame
        Comparable(a, b) == o.op = "fillna" \/ o.edge = 0 \/ IsArr(a.carrier) = IsArr(b.carrier)
    IN  IF ~WellFormed(f) \/ Len(runs) = 0 THEN "malformed_observation"
        ELSE IF bad # <<>> THEN RunV(runs[bad[1]])
        ELSE IF \E i, j \in 1..Len(runs) : Comparable(runs[i], runs[j]) /\ runs[i].out.cols # runs[j].out.cols
             THEN "array_ne_pandas"
        ELSE ""

Init == BatchInit
Next == BatchNext(Verdict)
=============================================================================
