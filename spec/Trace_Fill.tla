------------------------------ MODULE Trace_Fill ------------------------------
(* Trace validation for property C12.  One line of the log = one abstract call                  *)
(*     df_fillna(x, ms, limit = lim)      or      nona(x, edge = edge)                           *)
(* executed on every carrier of the same frame o.f (numpy vector / n x k array, pd.Series,       *)
(* pd.DataFrame with a date index).  Per carrier ("run") the log holds the encoded result        *)
(* (out: kind "val" with dim, rows, cols - arrays have no row labels - or kind "exc") and the    *)
(* argument object re-read after the call (after: rows, cols, dtype, shape).                     *)
(* nona lines carry the `value` argument as a cell code (o.value; NaN for every spelling of NaN). *)
(* A line with op = "session" is a history of df_fillna calls on the caller's objects (Fill.tla,  *)
(* sessions): o.f = the input object, o.ms = the contents of the shared method-list object as the *)
(* caller wrote it, o.calls = the calls; per carrier and call ("step") the result, the input      *)
(* object and the shared list re-read after the call, and the object that was passed as input.    *)
EXTENDS Fill, Batch

IsArr(cr) == cr \in {"arr1", "arr2"}
DimOf(cr) == IF cr \in {"arr1", "ser"} THEN 1 ELSE 2
ShapeOf(cr, f) == IF DimOf(cr) = 1 THEN <<NRows(f)>> ELSE <<NRows(f), NCols(f)>>
ColsOf(F) == {g.cols : g \in F}

\* the argument re-read after the call (an array has no labels: its rows are logged as 1..n)
AfterOK(a, cr, f) == /\ a.rows = (IF IsArr(cr) THEN Idx(NRows(f)) ELSE f.rows)
                     /\ a.cols = f.cols /\ a.dtype = "float64" /\ a.shape = ShapeOf(cr, f)

CallVerdict(o) ==
    LET f     == o.f
        want  == IF o.op = "fillna" THEN Fillna(f, o.ms, o.lim) ELSE NonaValueOutcomes(f, o.value, o.edge)
        wantA == IF o.op = "fillna" THEN ColsOf(want) ELSE ColsOf(NonaValueArray(f, o.value, o.edge))
        runs  == o.runs
        RunV(r) ==
            IF ~AfterOK(r.after, r.carrier, f) THEN "input_modified"
            ELSE IF r.out.kind = "exc" THEN "raised"
            ELSE IF r.out.dim # DimOf(r.carrier) THEN "result_shape"
            ELSE IF IsArr(r.carrier) THEN (IF r.out.cols \in wantA THEN "" ELSE "array_result")
            ELSE IF [rows |-> r.out.rows, cols |-> r.out.cols] \in want THEN "" ELSE "pandas_result"
        bad   == SelectSeq(Idx(Len(runs)), LAMBDA i : RunV(runs[i]) # "")
        \* the array result equals the values of the result for the corresponding Series/DataFrame
        Comparable(a, b) == o.op = "fillna" \/ o.edge = 0 \/ IsArr(a.carrier) = IsArr(b.carrier)
    IN  IF ~WellFormed(f) \/ Len(runs) = 0 THEN "malformed_observation"
        ELSE IF bad # <<>> THEN RunV(runs[bad[1]])
        ELSE IF \E i, j \in 1..Len(runs) : Comparable(runs[i], runs[j]) /\ runs[i].out.cols # runs[j].out.cols
             THEN "array_ne_pandas"
        ELSE ""

\* ---- histories -------------------------------------------------------------------------------
\* the frame a result object holds (an array has no labels: its rows are numbered afresh)
OutFrame(out, cr) == IF IsArr(cr) THEN [rows |-> Idx(IF out.cols = <<>> THEN 0 ELSE Len(out.cols[1])), cols |-> out.cols]
                     ELSE [rows |-> out.rows, cols |-> out.cols]
SessionVerdict(o) ==
    LET x  == o.f
        nc == Len(o.calls)
        MsOf(cl) == IF cl.obj = "M" THEN o.ms ELSE cl.ms
        \* the input of step k of run r: the input object, or what the previous call returned
        InOf(r, k) == IF o.calls[k].src = "x" \/ k = 1 THEN x ELSE OutFrame(r.steps[k - 1].out, r.carrier)
        StepV(r, k) ==
            LET cl == o.calls[k]  s == r.steps[k]  g == InOf(r, k)  want == Fillna(g, MsOf(cl), cl.lim) IN
            IF ~AfterOK(s.after, r.carrier, x) THEN "input_modified"
            ELSE IF s.m_after # o.ms THEN "method_list_modified"
            ELSE IF s.inp_after.cols # g.cols \/ (~IsArr(r.carrier) /\ s.inp_after.rows # g.rows) THEN "input_modified"
            ELSE IF s.out.kind = "exc" THEN "raised"
            ELSE IF s.out.dim # DimOf(r.carrier) \/ Len(s.out.cols) # NCols(x) THEN "result_shape"
            ELSE IF IsArr(r.carrier) THEN (IF s.out.cols \in ColsOf(want) THEN "" ELSE "array_result")
            ELSE IF [rows |-> s.out.rows, cols |-> s.out.cols] \in want THEN "" ELSE "pandas_result"
        \* the first step of run r that the specification does not explain (later steps build on it and are not judged)
        FirstBad(r) == LET B == {k \in 1..nc : \A q \in 1..(k - 1) : StepV(r, q) = ""} IN
                       IF B = {} THEN "" ELSE StepV(r, MaxS(B))
        bad == SelectSeq(Idx(Len(o.runs)), LAMBDA i : FirstBad(o.runs[i]) # "")
    IN  IF ~WellFormed(x) \/ Len(o.runs) = 0 \/ nc = 0 \/ \E i \in 1..Len(o.runs) : Len(o.runs[i].steps) # nc
        THEN "malformed_observation"
        ELSE IF bad # <<>> THEN FirstBad(o.runs[bad[1]])
        ELSE IF \E i, j \in 1..Len(o.runs), k \in 1..nc : o.runs[i].steps[k].out.cols # o.runs[j].steps[k].out.cols
             THEN "array_ne_pandas"
        ELSE ""

\* ---- process sessions (Fill.tla) ---------------------------------------------------------------
\* op = "psession": o.f = the first input x, o.g = another input y of the same shape (= x where the history builds none),
\* o.acts = what the caller did, in order: [a |-> "call", src, ms, lim] with src = "x" / "y" / "cur" (the working object:
\* what the previous step left) or [a |-> "der", d] (the caller derives a new working object from the previous one).
\* Per carrier and step: out = the working object after the step (the result of the call / the derived object), both input
\* objects re-read (after, after_y), and for a call the object that was passed as input re-read (inp_after).
\* Every call is judged by the single-call law on the contents of its input AS OBSERVED before the call.
RECURSIVE XAfter(_, _)
\* the contents of the input object x after the first k steps: the caller's in-place edits of x, in order
XAfter(o, k) == IF k = 0 THEN o.f
                ELSE LET prev == XAfter(o, k - 1) IN
                     IF o.acts[k].a = "edit" THEN Derive(o.acts[k].d, prev, NRows(o.f)) ELSE prev
PSessionVerdict(o) ==
    LET y  == o.g
        na == Len(o.acts)
        Obj(r, k)  == OutFrame(r.steps[k].out, r.carrier)
        InOf(r, k) == LET a == o.acts[k] IN IF a.src = "x" THEN XAfter(o, k - 1) ELSE IF a.src = "y" THEN y ELSE Obj(r, k - 1)
        StepV(r, k) ==
            LET a == o.acts[k]  s == r.steps[k]  g == InOf(r, k) IN
            IF a.a = "edit" /\ ~DeriveOK(a.d, {g}) THEN "malformed_observation"
            ELSE IF ~AfterOK(s.after, r.carrier, XAfter(o, k)) \/ ~AfterOK(s.after_y, r.carrier, y) THEN "input_modified"
            ELSE IF a.a = "edit" THEN ""          \* the caller's edit of x: what x holds now has just been judged
            ELSE IF a.a = "der" THEN
                 \* the caller's own action: the object it produced must be what Fill!Derive says (binds the rendering)
                 LET w == Derive(a.d, g, NRows(o.f)) IN
                 IF ~DeriveOK(a.d, {g}) THEN "malformed_observation"
                 ELSE IF /\ s.out.kind = "val" /\ s.out.dim = DimOf(r.carrier) /\ s.out.cols = w.cols
                         /\ (IsArr(r.carrier) \/ s.out.rows = w.rows) THEN "" ELSE "derived_input"
            ELSE LET want == Fillna(g, a.ms, a.lim) IN
                 IF s.inp_after.cols # g.cols \/ (~IsArr(r.carrier) /\ s.inp_after.rows # g.rows) THEN "input_modified"
                 ELSE IF s.out.kind = "exc" THEN "raised"
                 ELSE IF s.out.dim # DimOf(r.carrier) \/ Len(s.out.cols) # NCols(o.f) THEN "result_shape"
                 ELSE IF IsArr(r.carrier) THEN (IF s.out.cols \in ColsOf(want) THEN "" ELSE "array_result")
                 ELSE IF [rows |-> s.out.rows, cols |-> s.out.cols] \in want THEN "" ELSE "pandas_result"
        FirstBad(r) == LET B == {k \in 1..na : \A q \in 1..(k - 1) : StepV(r, q) = ""} IN
                       IF B = {} THEN "" ELSE StepV(r, MaxS(B))
        bad == SelectSeq(Idx(Len(o.runs)), LAMBDA i : FirstBad(o.runs[i]) # "")
    IN  IF \/ ~WellFormed(o.f) \/ ~WellFormed(y) \/ NRows(y) # NRows(o.f) \/ NCols(y) # NCols(o.f) \/ Len(o.runs) = 0 \/ na = 0
           \/ o.acts[1].a # "call" \/ o.acts[1].src = "cur"
           \/ \E i \in 1..Len(o.runs) : Len(o.runs[i].steps) # na
           \* the working object is what the step before left: a call on it / a derivation of it never follows an edit of x
           \/ \E k \in 2..na : o.acts[k].src = "cur" /\ o.acts[k - 1].a = "edit"
        THEN "malformed_observation"
        ELSE IF bad # <<>> THEN FirstBad(o.runs[bad[1]])
        ELSE IF \E i, j \in 1..Len(o.runs), k \in 1..na : o.runs[i].steps[k].out.cols # o.runs[j].steps[k].out.cols
             THEN "array_ne_pandas"
        ELSE ""

Verdict(o) == IF o.op = "session" THEN SessionVerdict(o) ELSE IF o.op = "psession" THEN PSessionVerdict(o) ELSE CallVerdict(o)

Init == BatchInit
Next == BatchNext(Verdict)
=============================================================================
