INIT Init
NEXT Next
