CONSTANTS Dates = {1}
          Stamps = {1, 2}
          Vals = {1, 2}
          MaxMerges = 3
          MaxAgain = 0
          Stable = FALSE
          Zones = {0}
          ZoneAware = TRUE
INIT Init
NEXT NextMC
CONSTRAINT ReadsAreLeaves
INVARIANT MCRefines
