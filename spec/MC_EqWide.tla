----------------------------- MODULE MC_EqWide -----------------------------
(* Property C14 on WIDE containers.  "eq(x, y) ... over nested lists/tuples/dicts ...": a         *)
(* container equals another one only if EVERY member matches - whatever the number of members,  *)
(* whatever the position of the one that differs, whatever came before it.  A case is            *)
(*      kind   the container kind (list, tuple, dict, dict subclass, object array, object        *)
(*             Series, a list / tuple / dict one level further down ...)                         *)
(*      mem    <<m, alt>>: the member every position holds, and the member that takes its place  *)
(*             at ONE position of y (another cell, another key, another container type - or the  *)
(*             same value realised another way, which must change nothing)                       *)
(*      n, p   the width, and the position of alt in y (p = 0: y is a structural copy of x)      *)
(* x = Box(kind, n times m), y = Box(kind, n times a fresh copy of m, alt at p).  All members are *)
(* structurally identical: whatever a comparison of members 1 .. p-1 may leave behind - a memo of *)
(* pairs found equal, a recycled temporary, a counter - is there when member p is reached.        *)
(*   * law (invariants): what the statement pins for (x, y) is what it pins for (m, alt), for    *)
(*     every width and every position, in both argument orders; the walk over the members        *)
(*     accumulates exactly EqC(x, y);                                                             *)
(*   * mechanism (inside TLC only): the walk with a memo of "pairs already found equal" keyed by  *)
(*     ADDRESS, where the temporaries built for the members of dict kind are recycled from the    *)
(*     Warm-th member on (CPython's free lists) - TLC must REFUTE MemoWalkSound                   *)
(*     (MC_EqWide_memo.cfg, must_fail);                                                           *)
(*   * S2C: MC_EqWide_gen*.cfg print every case with the clause an answer True / False would      *)
(*     contradict, for eq(x, y) and for eq(y, x); and in_(alt, members of y) for the list kind.   *)
EXTENDS Eq, TLC, Json, SequencesExt
CONSTANTS Widths,    \* the widths of the containers
          Deep,      \* more member templates and container kinds
          Warm       \* mechanism model: from this member on the temporaries of a member re-use the addresses of the one before

VARIABLES kind, mem, n, p, k, memo, law, mech
vars == <<kind, mem, n, p, k, memo, law, mech>>

I(j) == VInt(j)
F(a, b) == VFlt(a, b)
D1(key, v) == VDict(<<<<key, v>>>>)
D2(v, w)   == VDict(<<<<"a", v>>, <<"b", w>>>>)
L2(v, w)   == VLst(<<v, w>>)
RI(m) == [i \in 1..m |-> I(i - 1)]

\* <<member, the member that differs>>
Members ==
    {<<D1("a", I(0)), D1("a", I(9))>>,                          \* one-key records, the value differs
     <<D2(I(0), I(1)), D2(I(0), I(9))>>,                        \* two-key records, the last value differs
     <<D1("a", I(0)), D1("b", I(0))>>,                          \* the key differs
     <<D1("a", L2(I(1), I(2))), D1("a", L2(I(1), I(3)))>>,      \* a list inside the record differs
     <<VLst(<<D1("a", I(0))>>), VLst(<<D1("a", I(9))>>)>>,      \* a record inside a list differs
     <<D1("a", D1("b", I(0))), D1("a", D1("b", I(9)))>>,        \* a record inside the record differs
     <<L2(I(1), I(2)), L2(I(1), I(3))>>,                        \* lists, a cell differs
     <<L2(I(1), I(2)), VTup(<<I(1), I(2)>>)>>,                  \* list against tuple
     <<D1("a", VNaN(1)), D1("a", I(0))>>,                       \* records holding a NaN (the copies hold another NaN object)
     <<VSub("Dict", <<<<"a", I(0)>>>>), D1("a", I(0))>>,        \* dict subclass against dict
     <<I(0), I(9)>>,                                            \* scalars
     <<VArr("int64", <<2>>, <<I(1), I(2)>>), VArr("int64", <<2>>, <<I(1), I(3)>>)>>,
     <<VSer("float64", RI(2), <<F(1, 1), VNaN(0)>>), VSer("float64", RI(2), <<F(1, 1), F(2, 1)>>)>>,
     \* the same value realised another way: NOT a difference
     <<D2(I(0), I(1)), VDictO(<<2, 1>>, <<<<"a", I(0)>>, <<"b", I(1)>>>>)>>}
    \cup (IF Deep THEN
    {<<VTup(<<I(1), I(2)>>), VTup(<<I(1), I(3)>>)>>,
     <<VTup(<<D1("a", I(0))>>), VTup(<<D1("a", I(9))>>)>>,
     <<VDict(<<<<"a", I(0)>>, <<"b", I(1)>>, <<"c", I(2)>>>>), VDict(<<<<"a", I(0)>>, <<"b", I(1)>>, <<"c", I(9)>>>>)>>,
     <<D2(I(0), I(1)), D2(I(9), I(1))>>,                        \* two-key records, the first value differs
     <<D2(I(0), I(1)), D1("a", I(0))>>,                         \* a key is missing
     <<VSub("Dict", <<<<"a", I(0)>>>>), VSub("Dict", <<<<"a", I(9)>>>>)>>,
     <<VSub("Dict", <<<<"a", I(0)>>>>), VSub("dictattr", <<<<"a", I(0)>>>>)>>,
     <<D1("a", None), D1("a", VNaN(2))>>,                       \* missing-value markers
     <<D1("a", I(1)), D1("a", VBool(TRUE))>>,                   \* 1 == True in Python: not a difference for plain values
     <<D1("a", I(1)), D1("a", F(1, 1))>>,                       \* 1 == 1.0
     <<D1("a", VStr("x")), D1("a", VStr("y"))>>,
     <<D1("a", VArr("int64", <<2>>, <<I(1), I(2)>>)), D1("a", VArr("int64", <<2>>, <<I(1), I(3)>>))>>,
     <<D1("a", VArr("int64", <<2>>, <<I(1), I(2)>>)), D1("a", VArr("int64", <<1, 2>>, <<I(1), I(2)>>))>>,
     <<VFrm("int64", RI(2), <<VStr("a")>>, <<I(1), I(2)>>), VFrm("int64", RI(2), <<VStr("b")>>, <<I(1), I(2)>>)>>,
     <<VSer("int64", RI(2), <<I(1), I(2)>>), VSer("int64", RI(1), <<I(1)>>)>>,           \* a shorter Series
     <<VLst(<<>>), VTup(<<>>)>>, <<VDict(<<>>), VSub("Dict", <<>>)>>, <<None, VNaN(3)>>,
     <<VNaN(4), VNaN(5)>>,                                      \* another NaN object: NOT a difference
     <<VLst(<<VNaN(6), D1("a", VNaN(7))>>), VLst(<<VNaN(8), D1("a", NpS("float32", VNaN(9)))>>)>>} ELSE {})

Kinds == {"l", "t", "m", "M", "a", "S", "ll", "mt", "lm"} \cup (IF Deep THEN {"F", "tl", "mm", "aa", "rev"} ELSE {})
\* typed carriers: n int64 cells of an array / a Series / a one-column frame, the n labels of a Series, the n column labels of a
\* one-row frame - for the members that are integers
TypedKinds == {"ai", "Si", "Fi", "Sx", "Fc"}
IntMembers == {<<I(0), I(9)>>} \cup (IF Deep THEN {<<I(9), I(0)>>, <<I(1), I(2)>>} ELSE {})
Zeros(m) == [i \in 1..m |-> I(0)]

Key(i) == IF i < 10 THEN "k0" \o ToString(i) ELSE "k" \o ToString(i)
Keyed(q) == [i \in 1..Len(q) |-> <<Key(i), q[i]>>]
Rev(m) == [i \in 1..m |-> m + 1 - i]
\* the container of kind c holding the members q
Box(c, q) ==
    CASE c = "l"  -> VLst(q)
      [] c = "t"  -> VTup(q)
      [] c = "m"  -> VDict(Keyed(q))
      [] c = "M"  -> VSub("Dict", Keyed(q))
      [] c = "a"  -> VArr("object", <<Len(q)>>, q)
      [] c = "S"  -> VSer("object", RI(Len(q)), q)
      [] c = "F"  -> VFrm("object", RI(Len(q)), <<VStr("a")>>, q)
      [] c = "ll" -> VLst(<<I(0), VLst(q)>>)                  \* one level further down
      [] c = "tl" -> VTup(<<VLst(q), I(0)>>)
      [] c = "mt" -> VDict(<<<<"a", VTup(q)>>, <<"b", I(0)>>>>)
      [] c = "lm" -> VLst(<<VDict(Keyed(q))>>)
      [] c = "mm" -> VDict(<<<<"a", VDict(Keyed(q))>>>>)
      [] c = "aa" -> VArr("object", <<1>>, <<VLst(q)>>)
      [] c = "ai" -> VArr("int64", <<Len(q)>>, q)
      [] c = "Si" -> VSer("int64", RI(Len(q)), q)
      [] c = "Fi" -> VFrm("int64", RI(Len(q)), <<VStr("a")>>, q)
      [] c = "Sx" -> VSer("int64", q, Zeros(Len(q)))
      [] c = "Fc" -> VFrm("int64", RI(1), q, Zeros(Len(q)))
      [] c = "rev" -> IF Len(q) = 1 THEN VDict(Keyed(q)) ELSE VDictO(Rev(Len(q)), Keyed(q))   \* a dict filled from the last key to the first
\* the members of x and of y
MX(i) == mem[1]
MY(i) == IF i = p THEN mem[2] ELSE Fresh(mem[1])
XOf(c, mm, w)     == Box(c, [i \in 1..w |-> mm[1]])
YOf(c, mm, w, q)  == Box(c, [i \in 1..w |-> IF i = q THEN mm[2] ELSE Fresh(mm[1])])
Y == YOf(kind, mem, n, p)
\* (x of kind "rev" is the plain dict, y the one filled backwards: another realisation of a dict with the same members)
XX == XOf(IF kind = "rev" THEN "m" ELSE kind, mem, n)

Differs == p # 0 /\ ~EqC(mem[1], mem[2])

Init == /\ ((kind \in Kinds /\ mem \in Members) \/ (kind \in TypedKinds /\ mem \in IntMembers)) /\ n \in Widths /\ p \in 0..n
        /\ k = 0 /\ memo = {} /\ law = TRUE /\ mech = TRUE

\* ---- the walk over the members ---------------------------------------------------------------------
\* mechanism model: the address a memo of "pairs already found equal" would key member i on.  A list / tuple member is
\* compared as the object it is (its own address: i); for a member of dict kind the comparison builds temporaries (the
\* sorted keys and values as tuples) and THOSE are what the memo sees - they die with the comparison of the member,
\* and from the Warm-th member on the allocator hands the same addresses out again
IsRec(v) == Tag(v) \in {"m", "mo", "M", "Mo"}
Addr(v, i) == IF IsRec(v) /\ i > Warm THEN Warm ELSE i
Step == /\ k < n
        /\ LET i == k + 1
               e == EqC(MX(i), MY(i))
               a == <<Addr(MX(i), i), Addr(MY(i), i)>>
           IN  /\ law'  = (law /\ e)
               /\ mech' = (mech /\ (a \in memo \/ e))
               /\ memo' = IF e /\ a \notin memo THEN memo \cup {a} ELSE memo
        /\ k' = k + 1 /\ UNCHANGED <<kind, mem, n, p>>

\* ---- S2C generator ----------------------------------------------------------------------------------
\* (the values Norm(x), Norm(y) are bound once: a LET is evaluated at most once)
ClF(u, v, nu, nv, pin) == LET cl == ClauseIfFP(nu, nv, pin) IN IF cl = "copy_unequal" /\ ~SameRealisation(u, v) THEN "other_realisation_unequal" ELSE cl
\* in_(another copy of alt, the members of y as a list): True as soon as alt is among them - at whatever position, after
\* however many members that are not it; for p = 0 whatever is pinned between alt and m
InWant == IF p >= 1 THEN <<"T">>
          ELSE LET q == PinC(Fresh(mem[2]), Fresh(mem[1])) IN IF q = "free" THEN <<"T", "F">> ELSE <<q>>
Eval == k = 0 /\ k' = n + 1 /\ UNCHANGED <<kind, mem, n, p, memo, law, mech>>
EvalGen == Eval /\ LET x == XX  y == Y  nx == Norm(x)  ny == Norm(y)  pin == Pin(nx, ny)  rpin == Pin(ny, nx) IN
                   PrintT(ToJson([kind |-> kind, n |-> n, p |-> p, x |-> x, y |-> y,
                                  ifT |-> ClauseIfTP(nx, ny, pin), ifF |-> ClF(x, y, nx, ny, pin), at |-> At(nx, ny),
                                  rifT |-> ClauseIfTP(ny, nx, rpin), rifF |-> ClF(y, x, ny, nx, rpin), rat |-> At(ny, nx),
                                  alt |-> Fresh(mem[2]), seq |-> IF kind = "l" THEN Items(y) ELSE <<>>, inw |-> IF kind = "l" THEN InWant ELSE <<>>]))

\* ---- invariants --------------------------------------------------------------------------------------
\* (the clauses about the case are evaluated once per case: in the state after Eval / after the first step of the walk -
\* initial states are computed by one thread, successors by all workers)
Judge == k = 1 \/ k = n + 1
WideOK == ~Judge \/ (ConcreteOK(XX) /\ ConcreteOK(Y))
\* the answer is pinned, by the member pair alone: False as soon as one member differs, True for a copy and for alt =
\* the same value realised another way (or, in plain containers, a ==-equal value) - at every width, at every
\* position, in both argument orders
SameMember == p = 0 \/ StructCopy(Norm(mem[1]), Norm(mem[2]))
WidePinned == ~Judge \/ LET x == XX  y == Y  nx == Norm(x)  ny == Norm(y)  pin == Pin(nx, ny) IN
    /\ Pin(ny, nx) = pin
    /\ (Differs => pin = "F")
    /\ (SameMember => pin = "T" /\ ClF(x, y, nx, ny, pin) \in {"copy_unequal", "other_realisation_unequal"})
    /\ ((~Differs /\ Plain(nx) /\ Plain(ny)) => pin = "T")
    /\ (pin = "T" => ~Differs)
    /\ ClF(x, y, nx, ny, pin) = ClauseIfFC(x, y)
\* ... and so is the reason: the place of the difference is the place where m and alt differ (for labels: the carrier)
WideAt == ~Judge \/ ((Differs /\ kind \notin {"Sx", "Fc"}) => LET nx == Norm(XX)  ny == Norm(Y) IN
                                   At(nx, ny) = AtC(mem[1], mem[2]) /\ ClauseIfT(nx, ny) = ClauseIfTC(mem[1], mem[2]))
\* the position does not matter (every position against the first one)
PositionFree == ~Judge \/ (p = 1 => LET nx == Norm(XX)  pin == Pin(nx, Norm(Y)) IN
                                      \A q \in 2..n : Pin(nx, Norm(YOf(kind, mem, n, q))) = pin)
\* the walk accumulates the law: a container equals another one iff every member does
WalkLaw == k = n => law = EqC(XX, Y)
\* mechanism, to be REFUTED: the walk with the address-keyed memo gives the law's answer
MemoWalkSound == k = n => mech = law
=============================================================================
