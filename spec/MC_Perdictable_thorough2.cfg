CONSTANT Sizes <- SZ_thorough2
INIT Init
NEXT Next
INVARIANT InEveryStrictTable
INVARIANT AllDefaultIsUnion
INVARIANT DefaultNeverRemoves
INVARIANT RowValues
INVARIANT DefaultOnlyWithDefault
INVARIANT SortedByKey
INVARIANT ScalarsGiveF
INVARIANT CallsPlusKept
INVARIANT OnlyPastIsKept
INVARIANT MechanismIsLaw
INVARIANT OptionsAreNotInputs
INVARIANT SpellingIsNotKey
INVARIANT CellsJoinIsLaw
INVARIANT CacheJoinIsLaw
INVARIANT CallsAreUncachedRows
INVARIANT OncePerKey
INVARIANT KeptRows
INVARIANT ComputedRows
INVARIANT FinalIsLaw
