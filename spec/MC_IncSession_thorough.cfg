CONSTANTS MaxCalls = 2
          MaxArgs = 3
          FreeCalls = 1
          Scope = "quick"
          Adopt = FALSE
          MaxEdits = 0
          MinEdits = 0
          Probes = TRUE
          FirstOps = {"inc", "exc", "find", "one"}
          Srcs = {"live"}
          Ons = {"t", "last"}
          NameIds = {0}
          Gen = FALSE
INIT Init
NEXT NextNoEdit
VIEW View
INVARIANT PoolUntouched
INVARIANT ResultByOriginal
INVARIANT SpellingIrrelevant
INVARIANT SessPartition
INVARIANT SessIdempotent
INVARIANT SessKeepsCols
INVARIANT NoCondIsIdentity
INVARIANT EchoLaw
PROPERTY ArgumentsLeftAlone
