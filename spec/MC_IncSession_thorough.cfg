CONSTANTS MaxCalls = 2
          MaxArgs = 3
          FreeCalls = 1
          Scope = "quick"
          Adopt = FALSE
INIT Init
NEXT Next
VIEW View
INVARIANT PoolUntouched
INVARIANT ResultByOriginal
INVARIANT SpellingIrrelevant
INVARIANT SessPartition
INVARIANT SessIdempotent
INVARIANT SessKeepsCols
INVARIANT NoCondIsIdentity
INVARIANT EchoLaw
PROPERTY ArgumentsLeftAlone
