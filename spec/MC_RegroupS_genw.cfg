CONSTANTS Scope = "wide"
          Mech = "law"
          Loose = FALSE
          PlanSet = {"FII", "SEFI", "SEFII", "FEFI", "FFII", "FIFI"}
INIT Init
NEXT Next
INVARIANT StepLaw
INVARIANT IdsUnique
CONSTRAINT GenDone
