CONSTANTS Scope = "wide"
          Mech = "law"
          Loose = FALSE
          PlanSet = {"FII", "SEFI", "FEFI", "FFII", "FRFI", "FIFI", "SEFII", "SFIFI"}
INIT Init
NEXT Next
INVARIANT StepLaw
INVARIANT IdsUnique
CONSTRAINT GenDone
