\* today's mechanism over every session of <= 3 calls, wider spans
CONSTANTS Variant = "code"
          MaxCalls = 3
          Scope = "thorough"
          Family = "none"
INIT Init
NEXT Next
INVARIANT NoMemory
INVARIANT RegistryBlind
INVARIANT ResultOwned
