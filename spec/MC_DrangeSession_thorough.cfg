\* today's mechanism over every session of <= 3 calls, (the wider universe is covered by the gen2 scripts)
CONSTANTS Variant = "code"
          MaxCalls = 3
          Scope = "quick"
          Family = "none"
INIT Init
NEXT Next
INVARIANT NoMemory
INVARIANT RegistryBlind
INVARIANT ResultOwned
