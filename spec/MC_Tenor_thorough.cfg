CONSTANTS Years = {1900, 1996, 1997, 1998, 1999, 2000, 2001, 2002, 2003, 2004, 2096, 2099, 2100, 2101, 2104, 2290}
          Stride = 1
          GenYears = {2000}
          GenStride = 7
INIT Init
NEXT Next
INVARIANT ShiftShape
INVARIANT WindowIsEnough
INVARIANT FloorLaw
INVARIANT Anniversaries
INVARIANT MechWholeYearsIsLaw
INVARIANT PartOfYear
INVARIANT NonIncreasing
INVARIANT AtAnniversaries
INVARIANT SignAndLastYear
INVARIANT SeriesMechIsLaw
INVARIANT TenorLaws
