CONSTANTS MaxCalls = 2
          MaxArgs = 2
          FreeCalls = 2
          Scope = "quick"
          Adopt = FALSE
          MaxEdits = 0
          MinEdits = 0
          Probes = TRUE
          FirstOps = {"inc", "exc", "find", "one"}
          Srcs = {"live"}
          Ons = {"t", "last"}
          NameIds = {0}
          Gen = TRUE
INIT Init
NEXT NextNoEdit
CONSTRAINT GenBound
