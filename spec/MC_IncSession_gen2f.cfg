CONSTANTS MaxCalls = 2
          MaxArgs = 2
          FreeCalls = 2
          Scope = "quick"
          Adopt = FALSE
INIT Init
NEXT Next
CONSTRAINT GenBound
