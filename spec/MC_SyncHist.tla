------------------------------ MODULE MC_SyncHist ------------------------------
(* Property C03 over HISTORIES of calls: a presync-decorated function is an object whose state    *)
(* is the policy it was decorated with (SyncLaw.tla, part 4).  State machine:                      *)
(*   objs  - the policies of the function objects in the order of their creation (1 = the         *)
(*           decorated function itself)                                                          *)
(*   Call(f, ov)    - call object f with the call-time overrides ov; the policy in force is       *)
(*                    Effective(objs[f], ov); the object's policy stays as it was                  *)
(*   Derive(f, v)   - f.ij / .oj / .lj / .rj / .ffill / .bfill: a NEW object; f keeps its policy    *)
(* MC  : the invariants below on every reachable state.                                          *)
(* S2C : every history of Depth steps that ends with a call is printed with the policy in force   *)
(*       at each call; the driver replays the history on ONE real presync object (and the         *)
(*       objects derived from it) on the collection `tree`, logs what the decorated function      *)
(*       received call by call, and Trace_Sync judges the log (api = "history").                  *)
EXTENDS SyncLaw, TLC, Json
CONSTANTS Depth,    \* steps per history
          MaxObjs   \* function objects per history
VARIABLES tree,     \* the collection every call of the history is made on
          dec,      \* the decoration of object 1
          objs, hist

vars == <<tree, dec, objs, hist>>

S1 == MkS({1, 2, 3}, LAMBDA x : IF x = 2 THEN NaNC ELSE VFlt(10 + x, 1))
S2 == MkS({2, 3, 4}, LAMBDA x : IF x = 3 THEN NaNC ELSE VFlt(20 + x, 1))
S3 == MkS({3, 4, 5}, LAMBDA x : IF x = 4 THEN NaNC ELSE VFlt(30 + x, 1))
F1 == MkF({1, 2, 3}, {"a", "b"}, LAMBDA c, x : IF x = 2 /\ c = "b" THEN NaNC ELSE VFlt(100 + (IF c = "a" THEN 10 ELSE 20) + x, 1))
F2 == MkF({2, 4}, {"b", "c"}, LAMBDA c, x : VFlt(200 + (IF c = "b" THEN 20 ELSE 30) + x, 1))
Trees == {[k |-> "l", items |-> <<S1, S2, S3>>],                                \* every join x fill gives another result
          [k |-> "l", items |-> <<F1, [k |-> "x", id |-> 1], F2>>]}            \* ... and every column policy
Decs == {[join |-> "ij", m |-> "none", cols |-> "ij"],                         \* presync(f)
         [join |-> "oj", m |-> "bfill", cols |-> "ij"],
         [join |-> "lj", m |-> "none", cols |-> "oj"]}
\* (the deeper the histories, the fewer overrides per call)
Overrides == IF Depth <= 3
             THEN {[join |-> j, m |-> mm, cols |-> c] : j \in (IF Depth <= 2 THEN {"-", "oj", "rj"} ELSE {"-", "oj"}), mm \in {"-", "ffill", "none"},
                                                        c \in (IF Depth <= 2 THEN {"-", "oj", "lj"} ELSE {"-", "oj"})}
             ELSE {NoOverride, [NoOverride EXCEPT !.join = "oj"], [NoOverride EXCEPT !.m = "ffill"], [NoOverride EXCEPT !.cols = "oj"],
                   [join |-> "rj", m |-> "none", cols |-> "lj"]}

Init == tree \in Trees /\ dec \in Decs /\ objs = <<dec>> /\ hist = <<>>
Call(f, ov) == /\ Len(hist) < Depth
               /\ hist' = Append(hist, [op |-> "call", f |-> f, ov |-> ov])
               /\ objs' = [objs EXCEPT ![f] = AfterCall(objs[f], ov)]
               /\ UNCHANGED <<tree, dec>>
Derive(f, v) == /\ Len(hist) < Depth - 1 /\ Len(objs) < MaxObjs          \* (a history ends with a call)
                /\ hist' = Append(hist, [op |-> "derive", f |-> f, v |-> v])
                /\ objs' = Append(objs, Variant(objs[f], v))
                /\ UNCHANGED <<tree, dec>>
Next == \E f \in 1..Len(objs) : (\E ov \in Overrides : Call(f, ov)) \/ (\E v \in Variants : Derive(f, v))

\* a history of Depth steps that ends with a call, with the policy in force at each of its calls (the admissible calls of
\* the decorated function under that policy are CallOutcomes(tree, policy): Trace_Sync judges the replayed history with it)
Emit == (Len(hist) = Depth /\ hist[Depth].op = "call") =>
            PrintT(ToJson([tree |-> tree, dec |-> dec, hist |-> hist,
                           inforce |-> [n \in 1..Depth |-> IF hist[n].op = "call" THEN InForce(dec, hist, n) ELSE NoOverride]]))
NextGen == Next /\ Emit'

\* ---- invariants -----------------------------------------------------------------------------
\* how object i came to be: the chain of variants from the decorated function
RECURSIVE Born(_, _)
Born(i, n) ==        \* the policy with which the i-th object was created, reading the first n steps of the history
    LET ds == SelectSeq(SubSeq(hist, 1, n), LAMBDA st : st.op = "derive") IN
    IF i = 1 THEN dec ELSE Variant(Born(ds[i - 1].f, n), ds[i - 1].v)
\* whatever calls were made in between, with whatever overrides, every object still has the policy it was created with
PolicyKept == \A i \in 1..Len(objs) : objs[i] = Born(i, Len(hist))
\* the bookkeeping of SyncLaw!ObjectsAfter is this state machine
ObjectsAreHistory == objs = ObjectsAfter(<<dec>>, hist, Len(hist))
\* a call without overrides is made under the policy of the object; an override touches only its own part
InForceLaw == \A n \in 1..Len(hist) : hist[n].op = "call" =>
                  LET p == InForce(dec, hist, n)  own == Born(hist[n].f, n - 1)  ov == hist[n].ov IN
                  /\ (ov = NoOverride => p = own)
                  /\ (ov.join = "-" => p.join = own.join) /\ (ov.m = "-" => p.m = own.m) /\ (ov.cols = "-" => p.cols = own.cols)
                  /\ (ov.join # "-" => p.join = ov.join) /\ (ov.m # "-" => p.m = ov.m) /\ (ov.cols # "-" => p.cols = ov.cols)
\* a derived object differs from its parent in exactly the part the variant names; the parent is untouched
DeriveLaw == \A n \in 1..Len(hist) : hist[n].op = "derive" =>
                 LET before == ObjectsAfter(<<dec>>, hist, n - 1)  after == ObjectsAfter(<<dec>>, hist, n)  v == hist[n].v IN
                 /\ SubSeq(after, 1, Len(before)) = before
                 /\ LET new == after[Len(after)]  old == before[hist[n].f] IN
                    IF v \in {"ffill", "bfill"} THEN new = [old EXCEPT !.m = v] ELSE new = [old EXCEPT !.join = v]
=============================================================================
