CONSTANTS NHol = 3
          NWk = 2
          NSess = 3
          QDays = {2, 3, 4}
          QSecs = {46800, 81000}
          Depth = 0
          KeepHist = FALSE
          AskMod = 1
INIT Init
NEXT Next
INVARIANT MechanismIgnoresHistory
INVARIANT SameAsFresh
INVARIANT TableOnlyFromBuild
PROPERTY QueriesArePure
PROPERTY BuildKeepsConfig
PROPERTY EditsKeepTable
