CONSTANTS NHol = 3
          NWk = 2
          NSess = 3
          QDays = {1, 2, 3, 4, 5}
          QSecs = {0, 46800, 81000}
          Depth = 0
          KeepHist = FALSE
          AskMod = 1
INIT Init
NEXT Next
INVARIANT MechanismIgnoresHistory
INVARIANT SameAsFresh
INVARIANT TableOnlyFromBuild
PROPERTY QueriesArePure
PROPERTY BuildKeepsConfig
PROPERTY EditsKeepTable
