------------------------------- MODULE Regroup -------------------------------
(* Property C11: listby/unlist, groupby/ungroup and pivot/unpivot as lossless regroupings.      *)
(* Relational level (what any correct result must satisfy; used to judge the real code) and     *)
(* constructive level (one way to produce such a result: stable sort by the keys under the      *)
(* documented comparison, then runs of equal keys), compared with each other by MC_Regroup.     *)
(* Nothing here depends on what the columns are called: names, the name of the sub-table column  *)
(* and the rendering of y values as column labels (LabelEnc / RenderVal) are data of the case;   *)
(* MC_RegroupN enumerates them (names and labels that contain each other, labels of other types). *)
(* RegroupSession.tla reads the same verdicts over HISTORIES of calls on caller-owned objects     *)
(* (UnlistVerdictG, UnpivotVerdictSel: the forms for operands that were sorted / edited before    *)
(* and for unpivot's {name: columns} spelling); MC_RegroupS enumerates the histories.             *)
EXTENDS Join, Order

\* ---- key classes ------------------------------------------------------------------------------
SameKey(r, s, by) == \A k \in 1..Len(by) : KeyEq(r[by[k]], s[by[k]])
ClassIdx(t, by, i) == {j \in 1..NRows(t) : SameKey(t.rows[i], t.rows[j], by)}
Reps(t, by) == {i \in 1..NRows(t) : \A j \in 1..(i - 1) : ~SameKey(t.rows[i], t.rows[j], by)}    \* first row of each class
NonKeys(t, by) == ColSet(t) \ Range(by)
\* the values of column c over the class of row i, in original row order
ClassVals(t, by, i, c) == LET js == SetToSortSeq(ClassIdx(t, by, i), <) IN [n \in 1..Len(js) |-> t.rows[js[n]][c]]

\* ---- listby / unlist ---------------------------------------------------------------------------
ListbyVerdict(t, by, out) ==
    IF Range(out.cols) # ColSet(t) THEN "listby_columns"
    ELSE IF NRows(t) = 0 THEN (IF out.rows = <<>> THEN "" ELSE "listby_rows_from_nothing")
    ELSE IF Len(out.rows) # Cardinality(Reps(t, by)) THEN "listby_one_row_per_key"
    ELSE IF \E i \in Reps(t, by) : ~\E n \in 1..Len(out.rows) :
                /\ SameKey(out.rows[n], t.rows[i], by)
                /\ \A cc \in NonKeys(t, by) : out.rows[n][cc] = VLst(ClassVals(t, by, i, cc))
         THEN "listby_cells"
    ELSE ""
\* colcmp[p][k]: the real cmp of key column k between result rows p and p + 1
RECURSIVE LexSign(_, _)
LexSign(cs, k) == IF k > Len(cs) THEN 0 ELSE IF cs[k] # 0 THEN cs[k] ELSE LexSign(cs, k + 1)
UnlistVerdict(t, by, unl, colcmp, idcol) ==
    IF Range(unl.cols) # ColSet(t) THEN "unlist_columns"
    ELSE IF ~BagEq(unl.rows, t.rows, Range(by)) THEN "unlist_rows"
    ELSE IF \E p \in 1..Len(colcmp) : LexSign(colcmp[p], 1) \notin {-1, 0} THEN "unlist_not_sorted_by_keys"
    ELSE IF \E p \in 1..(Len(unl.rows) - 1) : SameKey(unl.rows[p], unl.rows[p + 1], by) /\ ~(Pay(unl.rows[p][idcol]) < Pay(unl.rows[p + 1][idcol]))
         THEN "unlist_not_stable"
    ELSE IF \E p, q, s \in 1..Len(unl.rows) : p < q /\ q < s /\ SameKey(unl.rows[p], unl.rows[s], by) /\ ~SameKey(unl.rows[p], unl.rows[q], by)
         THEN "unlist_key_not_contiguous"
    ELSE ""

\* the same law for an operand whose id column is not in increasing order (a table that was sorted / edited before the call):
\* rows of one key class come back in the order in which they stand in t (the id cells are unique, they name the rows)
PosOfId(t, idcol, v) == CHOOSE i \in 1..NRows(t) : t.rows[i][idcol] = v
UnlistVerdictG(t, by, unl, colcmp, idcol) ==
    IF Range(unl.cols) # ColSet(t) THEN "unlist_columns"
    ELSE IF ~BagEq(unl.rows, t.rows, Range(by)) THEN "unlist_rows"
    ELSE IF \E p \in 1..Len(colcmp) : LexSign(colcmp[p], 1) \notin {-1, 0} THEN "unlist_not_sorted_by_keys"
    ELSE IF \E p \in 1..(Len(unl.rows) - 1) : SameKey(unl.rows[p], unl.rows[p + 1], by)
                 /\ ~(PosOfId(t, idcol, unl.rows[p][idcol]) < PosOfId(t, idcol, unl.rows[p + 1][idcol]))
         THEN "unlist_not_stable"
    ELSE IF \E p, q, s \in 1..Len(unl.rows) : p < q /\ q < s /\ SameKey(unl.rows[p], unl.rows[s], by) /\ ~SameKey(unl.rows[p], unl.rows[q], by)
         THEN "unlist_key_not_contiguous"
    ELSE ""

\* ---- groupby / ungroup -------------------------------------------------------------------------
\* out rows: the key cells plus the sub-table column, named grp (the default "grp" or the name that was asked for),
\* whose cells are <<"tbl", [cols, rows]>>.  A name that is itself a key column is outside the domain (one column per name).
GroupbyVerdict(t, by, grp, out) ==
    IF NRows(t) = 0 THEN (IF out.rows = <<>> THEN "" ELSE "groupby_rows_from_nothing")
    ELSE IF grp \in Range(by) THEN ""
    ELSE IF Range(out.cols) # Range(by) \cup {grp} THEN "groupby_columns"
    ELSE IF Len(out.rows) # Cardinality(Reps(t, by)) THEN "groupby_one_row_per_key"
    ELSE IF \E n \in 1..Len(out.rows) : out.rows[n][grp][1] # "tbl" THEN "groupby_cell_not_a_table"
    ELSE IF \E i \in Reps(t, by) : ~\E n \in 1..Len(out.rows) :
                /\ SameKey(out.rows[n], t.rows[i], by)
                /\ LET g == out.rows[n][grp][2]  js == SetToSortSeq(ClassIdx(t, by, i), <) IN
                      /\ Range(g.cols) = NonKeys(t, by)
                      /\ g.rows = [m \in 1..Len(js) |-> [cc \in NonKeys(t, by) |-> t.rows[js[m]][cc]]]
         THEN "groupby_groups"
    ELSE ""
UngroupVerdict(t, by, ung) ==
    IF NRows(t) = 0 THEN ""
    ELSE IF Range(ung.cols) # ColSet(t) THEN "ungroup_columns"
    ELSE IF ~BagEq(ung.rows, t.rows, Range(by)) THEN "ungroup_rows" ELSE ""

\* ---- pivot / unpivot ---------------------------------------------------------------------------
\* A y value is RENDERED as a column label: a string is its own label, an int becomes its decimal string (the documented
\* "conversion to column names"); every other scalar (None, float, datetime, a NaN object) labels its column as itself
\* (named deviation LabelItself: the statement does not say how such a y value is rendered; the code keeps the object).
\* Column labels cross the JSON boundary as strings: a string as itself, any other object as "#<tag>:<payload>"
\* (the string universes never contain '#'); LabelEnc is the encoded label the specification expects for a y value.
RenderVal(v) == IF Tag(v) = "i" THEN VStr(ToString(Pay(v))) ELSE v
LabelEnc(v) == CASE Tag(v) = "s"   -> Pay(v)
                 [] Tag(v) = "i"   -> ToString(Pay(v))
                 [] Tag(v) = "n"   -> "#n"
                 [] Tag(v) = "f"   -> "#f:" \o ToString(Pay(v)[1]) \o "/" \o ToString(Pay(v)[2])
                 [] Tag(v) = "d"   -> "#d:" \o ToString(Pay(v)[1]) \o ":" \o ToString(Pay(v)[2]) \o ":" \o ToString(Pay(v)[3])
                 [] Tag(v) = "nan" -> "#nan"
                 [] Tag(v) = "inf" -> "#inf:" \o ToString(Pay(v))
                 [] OTHER          -> "#?"
\* y values address one column when they are equal as keys (1 and 1.0, two NaN objects); the column shows one member's label
YClass(t, y, i) == {j \in 1..NRows(t) : KeyEq(t.rows[j][y], t.rows[i][y])}
YReps(t, y) == {i \in 1..NRows(t) : \A j \in 1..(i - 1) : ~KeyEq(t.rows[i][y], t.rows[j][y])}
ClassLabels(t, y, i) == {LabelEnc(t.rows[j][y]) : j \in YClass(t, y, i)}
AllLabels(t, y) == UNION {ClassLabels(t, y, i) : i \in 1..NRows(t)}
\* outside the domain: a table has one column per name, so no label may be the name of an x column and two different
\* y values may not render to one label (1 and "1")
LabelClash(t, xs, y) == \/ AllLabels(t, y) \cap Range(xs) # {}
                        \/ \E i, j \in 1..NRows(t) : ~KeyEq(t.rows[i][y], t.rows[j][y]) /\ LabelEnc(t.rows[i][y]) = LabelEnc(t.rows[j][y])
Agg(agg, zs) == CASE agg = "list" -> VLst(zs) [] agg = "len" -> VInt(Len(zs)) [] agg = "first" -> zs[1] [] agg = "last" -> zs[Len(zs)]
\* the z values of the rows of x class i and y class k, in original row order
CellZs(t, xs, y, z, i, k) ==
    LET js == SetToSortSeq(ClassIdx(t, xs, i) \cap YClass(t, y, k), <) IN [n \in 1..Len(js) |-> t.rows[js[n]][z]]
PivotVerdict(t, xs, y, z, agg, out) ==
    IF LabelClash(t, xs, y) THEN ""
    ELSE IF \/ Len(out.cols) # Cardinality(Range(out.cols))
            \/ ~(Range(xs) \subseteq Range(out.cols))
            \/ ~(Range(out.cols) \ Range(xs) \subseteq AllLabels(t, y))
            \/ \E k \in YReps(t, y) : Cardinality(ClassLabels(t, y, k) \cap Range(out.cols)) # 1
         THEN "pivot_columns"
    ELSE IF Len(out.rows) # Cardinality(Reps(t, xs)) THEN "pivot_one_row_per_x"
    ELSE IF \E i \in Reps(t, xs) : ~\E n \in 1..Len(out.rows) :
                /\ SameKey(out.rows[n], t.rows[i], xs)
                /\ \A k \in YReps(t, y) :
                      LET zs == CellZs(t, xs, y, z, i, k)
                          lab == CHOOSE l \in ClassLabels(t, y, k) : l \in Range(out.cols) IN
                      out.rows[n][lab] = (IF zs = <<>> THEN None ELSE Agg(agg, zs))
         THEN "pivot_cells"
    ELSE ""
UniqueXY(t, xs, y) == \A i, j \in 1..NRows(t) : (i # j /\ SameKey(t.rows[i], t.rows[j], xs)) => ~KeyEq(t.rows[i][y], t.rows[j][y])
\* unp: unpivot of the pivot (agg = last) with the None cells dropped.  Row i of the table (z not None) must come back exactly
\* once: its x cells (as keys), its z, and as y the rendering of a member of its y class.
UnpMatch(t, xs, y, z, u, i) ==
    /\ SameKey(u, t.rows[i], xs)
    /\ u[z] = t.rows[i][z]
    /\ \E j \in YClass(t, y, i) : u[y] = RenderVal(t.rows[j][y])
\* sel = the (encoded) labels of the columns that are unpivoted: all of them for unpivot(x, y, z); the listed ones when y is
\* spelled {name: columns} (the rows addressed by the other columns are then not asked for)
UnpivotVerdictSel(t, xs, y, z, sel, unp) ==
    IF ~UniqueXY(t, xs, y) \/ LabelClash(t, xs, y) \/ NRows(t) = 0 THEN ""
    ELSE LET want == {i \in 1..NRows(t) : ~IsNone(t.rows[i][z]) /\ ClassLabels(t, y, i) \cap sel # {}} IN
         IF Range(unp.cols) # Range(xs) \cup {y, z} THEN "unpivot_columns"
         ELSE IF \/ Len(unp.rows) # Cardinality(want)
                 \/ \E i \in want : Cardinality({n \in 1..Len(unp.rows) : UnpMatch(t, xs, y, z, unp.rows[n], i)}) # 1
              THEN "unpivot_rows"
         ELSE ""
UnpivotVerdict(t, xs, y, z, unp) == UnpivotVerdictSel(t, xs, y, z, AllLabels(t, y), unp)

\* ---- constructive level -----------------------------------------------------------------------
KeyTuple(r, by) == VTup([k \in 1..Len(by) |-> r[by[k]]])
SortedRows(t, by) == LET RC(r, s) == CmpModel(KeyTuple(r, by), KeyTuple(s, by)) IN StableSort(RC, t.rows)
RECURSIVE RunsOf(_, _, _, _)
RunsOf(rows, by, k, acc) ==        \* acc: sequence of runs (sequences of rows)
    IF k > Len(rows) THEN acc
    ELSE IF acc # <<>> /\ SameKey(rows[k], Last(acc)[1], by)
         THEN RunsOf(rows, by, k + 1, Front(acc) \o <<Last(acc) \o <<rows[k]>>>>)
         ELSE RunsOf(rows, by, k + 1, acc \o <<<<rows[k]>>>>)
CListby(t, by) ==
    LET runs == RunsOf(SortedRows(t, by), by, 1, <<>>) IN
    [cols |-> t.cols,
     rows |-> [n \in 1..Len(runs) |-> [cc \in ColSet(t) |->
                 IF cc \in Range(by) THEN Last(runs[n])[cc]                     \* the run shows its latest key
                 ELSE VLst([m \in 1..Len(runs[n]) |-> runs[n][m][cc]])]]]
CUnlist(lt, by) ==
    [cols |-> lt.cols,
     rows |-> FlattenSeq([n \in 1..Len(lt.rows) |->
                 LET w == Len(Pay(lt.rows[n][CHOOSE cc \in Range(lt.cols) \ Range(by) : TRUE])) IN
                 [m \in 1..w |-> [cc \in Range(lt.cols) |-> IF cc \in Range(by) THEN lt.rows[n][cc] ELSE Pay(lt.rows[n][cc])[m]]]])]
CGroupby(t, by, grp) ==
    LET runs == RunsOf(SortedRows(t, by), by, 1, <<>>)  nk == NonKeys(t, by) IN
    [cols |-> by \o <<grp>>,
     rows |-> [n \in 1..Len(runs) |-> [cc \in Range(by) \cup {grp} |->
                 IF cc = grp THEN <<"tbl", [cols |-> SelectSeq(t.cols, LAMBDA x : x \in nk),
                                            rows |-> [m \in 1..Len(runs[n]) |-> [x \in nk |-> runs[n][m][x]]]]>>
                 ELSE Last(runs[n])[cc]]]]
CUngroup(g, by, grp) ==
    FlattenSeq([n \in 1..Len(g.rows) |-> LET sub == g.rows[n][grp][2] IN
                 [m \in 1..Len(sub.rows) |-> [cc \in Range(by) \cup Range(sub.cols) |-> IF cc \in Range(by) THEN g.rows[n][cc] ELSE sub.rows[m][cc]]]])
\* one pivot row per x class (first member shown), one column per y class (first member's label)
CPivot(t, xs, y, z, agg) ==
    LET xr == SetToSortSeq(Reps(t, xs), <)
        yr == SetToSortSeq(YReps(t, y), <)
        labs == [n \in 1..Len(yr) |-> LabelEnc(t.rows[yr[n]][y])] IN
    [cols |-> xs \o labs,
     rows |-> [n \in 1..Len(xr) |-> [cc \in Range(xs) \cup Range(labs) |->
                 IF cc \in Range(xs) THEN t.rows[xr[n]][cc]
                 ELSE LET k == CHOOSE k \in Range(yr) : LabelEnc(t.rows[k][y]) = cc
                          zs == CellZs(t, xs, y, z, xr[n], k) IN
                      IF zs = <<>> THEN None ELSE Agg(agg, zs)]]]
\* unpivot: every column selected by IsValueCol becomes rows (x cells, its label as y, the cell as z); then None cells go
CUnpivotBy(IsValueCol(_), t, pv, xs, y, z) ==
    LET ycols == SelectSeq(pv.cols, IsValueCol)
        Dec(cc) == RenderVal(t.rows[CHOOSE j \in 1..NRows(t) : LabelEnc(t.rows[j][y]) = cc][y])
        rows == FlattenSeq([n \in 1..Len(pv.rows) |-> [m \in 1..Len(ycols) |-> [cc \in Range(xs) \cup {y, z} |->
                   IF cc = y THEN Dec(ycols[m]) ELSE IF cc = z THEN pv.rows[n][ycols[m]] ELSE pv.rows[n][cc]]]]) IN
    [cols |-> xs \o <<y, z>>, rows |-> SelectSeq(rows, LAMBDA r : ~IsNone(r[z]))]
CUnpivot(t, pv, xs, y, z) == CUnpivotBy(LAMBDA cc : cc \notin Range(xs), t, pv, xs, y, z)
=============================================================================
