------------------------------ MODULE MC_Dates ------------------------------
(* Property C04 on the specification itself, and the generators for the replay into the code.   *)
(*                                                                                               *)
(* Three families of states, told apart by k:                                                    *)
(*   "day"   a = ordinal of a day; one behaviour per year walks through the year (Step).         *)
(*           Every form of every day denotes that day; the dialect only matters for numeric     *)
(*           strings; cross-dialect rule; ymd drops the time of day.                             *)
(*   "mon"   a = year, b = month: the table-driven calendar operators agree with Civil.         *)
(*   "ovf"   a = year, b = month in -36..48: laws of dt(y, m, d) overflow for all |d| <= OvfD.   *)
(*   "mech"  a, b = the two numbers of "a.b.yyyy": mechanism models of uk2dt/us2dt against the   *)
(*           law (MechFixed = with the proposed patch; MechToday = today's code, in its own cfg  *)
(*           which is expected to fail).                                                         *)
(* The generator configurations use their own Init/Next and print one JSON line per state.      *)
EXTENDS Dates, TLC, Json, SequencesExt
CONSTANTS DayYears, OvfYears, OvfD, GenYears, GenOvfYears

VARIABLES k, a, b, done
vars == <<k, a, b, done>>

AllYears   == FirstYear..LastYear
QuickYears == {1900, 2000, 2001, 2100, 2262, 2299}
\* every leap year, the years around the century years and around numpy's nanosecond limit, both ends
ThoroughYears    == {y \in AllYears : y % 4 = 0} \cup 1900..1904 \cup 1997..2003 \cup 2097..2103 \cup 2197..2203 \cup 2257..2265 \cup 2295..2299
QuickOvfYears    == {2000, 2299}
ThoroughOvfYears == {1900, 1901, 1904, 2299} \cup 1995..2005 \cup 2095..2105 \cup {y \in AllYears : y % 37 = 5}
Tods == << <<0, 0, 0, 0>>, <<10, 20, 30, 50>>, <<23, 59, 59, 999999>>, <<1, 2, 3, 123456>> >>
Seps == {"-", "/", ".", " "}

Init == /\ done = FALSE
        /\ \/ k = "day"  /\ a \in {Ord(y, 1, 1) : y \in DayYears} /\ b = 0
           \/ k = "mon"  /\ a \in AllYears /\ b \in 1..12
           \/ k = "ovf"  /\ a \in OvfYears /\ b \in -36..48
           \/ k = "mech" /\ a \in 1..31 /\ b \in 1..31
Step == k = "day" /\ a < LastDay /\ YearOf(a + 1) = YearOf(a) /\ a' = a + 1 /\ UNCHANGED <<k, b, done>>

\* ---- the table-driven calendar operators of Dates.tla are Civil's --------------------------
FastIsCivil == /\ k = "day" => FastYMD(a) = YMD(a) /\ LET c == FastYMD(a) IN FastOrd(c[1], c[2], c[3]) = a
               /\ k = "mon" => /\ FastOrd(a, b, 1) = Ord(a, b, 1)
                               /\ DaysBefore(a, b + 1) - DaysBefore(a, b) = DIM(a, b)
                               /\ FastYMD(FastOrd(a, b, DIM(a, b))) = <<a, b, DIM(a, b)>>
               /\ FirstDay = Ord(FirstYear, 1, 1) /\ LastDay = Ord(LastYear, 12, 31)

\* ---- "day" states --------------------------------------------------------------------------
Spellings == UNION {{<<fo, tl, wr>> : tl \in Tls(fo), wr \in Wrs(fo)} : fo \in Forms}
\* every 50th day meets every time of the menu, the other days one of them in turn
TodsOf(o) == IF o % 50 = 0 THEN 1..Len(Tods) ELSE {(o % Len(Tods)) + 1}
\* P(civil date, time of day, form, tl, wr, what is written) for every spelling of the day
\* the numbers of decimals take turns: two of them per day
FracSeq == <<1, 2, 3, 4, 5, 7, 8, 9>>
DayFracTls(o) == {10 + FracSeq[(o % 8) + 1], 10 + FracSeq[((o + 3) % 8) + 1]}
OnDay(P(_, _, _, _, _, _)) ==
    k = "day" => LET c == FastYMD(a) IN \A i \in TodsOf(a) : \A s \in {x \in Spellings : x[2] \in FracTls => x[2] \in DayFracTls(a)} :
                    P(c, Tods[i], s[1], s[2], s[3], Spell(s[1], c[1], c[2], c[3], Tods[i], s[3], s[2]))
Spellable(c, fo) == fo \notin NsForms \/ c[1] <= 2261

\* the main clause at the law level: every form of the instant denotes the instant (in the writer's dialect)
SpellDenote == OnDay(LAMBDA c, t, fo, tl, wr, f :
                  LET w == Trunc(t, tl)  r == Denote(fo, f, DialectOf(wr)) IN
                  IF Spellable(c, fo) THEN r = Ok(a, Sec(w[1], w[2], w[3]), w[4]) /\ r = Meant(c[1], c[2], c[3], t, tl)
                  ELSE r = Undefined)
\* the dialect is irrelevant for everything but numeric strings, and only a numeric string of the other
\* dialect with a day > 12 is ever rejected
DialectRule == OnDay(LAMBDA c, t, fo, tl, wr, f :
                  LET u == Denote(fo, f, "uk")  v == Denote(fo, f, "us") IN
                  IF fo # "numeric_str" THEN u = v /\ u # Rejected
                  ELSE \A dl \in Dialects : LET r == IF dl = "uk" THEN u ELSE v IN
                          r = Rejected <=> (dl # DialectOf(wr) /\ c[3] > 12))
\* a numeric string read in the other dialect: rejected when the day exceeds 12, otherwise it means the
\* swapped date - which is exactly the date whose own-dialect spelling has the same digits
CrossDialect == OnDay(LAMBDA c, t, fo, tl, wr, f :
                  fo = "numeric_str" =>
                     LET other == IF wr = "dmy" THEN "mdy" ELSE "dmy"
                         r == Denote(fo, f, DialectOf(other)) IN
                     IF c[3] > 12 THEN r = Rejected
                     ELSE /\ r = Meant(c[1], c[3], c[2], t, tl)
                          /\ f = Spell(fo, c[1], c[3], c[2], t, other, tl))
YmdDropsTime == OnDay(LAMBDA c, t, fo, tl, wr, f :
                  LET q == Expected("ymd", fo, f, DialectOf(wr)) IN
                  /\ DropTime(q) = q
                  /\ Spellable(c, fo) => q = Ok(a, 0, 0)
                  /\ fo = "numeric_str" /\ c[3] > 12 => Expected("ymd", fo, f, IF wr = "dmy" THEN "us" ELSE "uk") = Rejected)

\* ---- "ovf" states --------------------------------------------------------------------------
OnOvf(P(_, _)) == k = "ovf" => P(a, b)
Ds == (0 - OvfD)..OvfD
OverflowInRange == OnOvf(LAMBDA y, m : LET nm == NormYM(y, m) IN
                      /\ nm[2] \in 1..12 /\ (nm[1] - y) * 12 + nm[2] = m
                      /\ \A d \in 1..DIM(nm[1], nm[2]) : /\ FastYMD(YMDOverflow(y, m, d)) = <<nm[1], nm[2], d>>
                                                         /\ m \in 1..12 => YMDOverflow(y, m, d) = Ord(y, m, d))
\* one more day is the next civil date
OverflowWalk    == OnOvf(LAMBDA y, m : LET v1 == YMDOverflow(y, m, 1) IN \A d \in Ds :
                      LET x == FastYMD(v1 + d - 1)  sx == SuccYMD(x) IN
                      /\ YMDOverflow(y, m, d) = v1 + d - 1
                      /\ ValidYMD(x[1], x[2], x[3]) /\ FastOrd(sx[1], sx[2], sx[3]) = v1 + d)
\* twelve more months are the next year, a month's length more days are the next month
OverflowCarry   == OnOvf(LAMBDA y, m : LET nm == NormYM(y, m) IN \A d \in {-400, -1, 0, 1, 31, 400} :
                      /\ YMDOverflow(y, m + 12, d) = YMDOverflow(y + 1, m, d)
                      /\ YMDOverflow(y, m, DIM(nm[1], nm[2]) + d) = YMDOverflow(y, m + 1, d))

\* ---- "mech" states -------------------------------------------------------------------------
Writable(x, z) == (x <= 12 /\ z <= DIM(2000, x)) \/ (z <= 12 /\ x <= DIM(2000, z))     \* somebody's spelling of a date
OnMech(M(_, _, _, _, _)) == (k = "mech" /\ Writable(a, b)) =>
                               \A dl \in Dialects, sep \in Seps, pad \in BOOLEAN : M(a, b, dl, sep, pad) = LawNumeric(a, b, dl)
MechFixedIsLaw == OnMech(MechFixed)
MechTodayIsLaw == done => OnMech(MechToday)       \* (judged after the step, so that TLC reports explored states)
MechInit == k = "mech" /\ a \in 1..31 /\ b \in 1..31 /\ done = FALSE
MechNext == done = FALSE /\ done' = TRUE /\ UNCHANGED <<k, a, b>>

\* ---- generators ----------------------------------------------------------------------------
Emit(x) == done = FALSE /\ done' = TRUE /\ UNCHANGED <<k, a, b>> /\ PrintT(ToJson(x))

\* the calendar of the whole cycle, for the driver to walk through (it does no calendar arithmetic itself)
GenMonthsInit == k = "gm" /\ a \in AllYears /\ b \in 1..12 /\ done = FALSE
GenMonthsNext == Emit([k |-> "month", y |-> a, m |-> b, dim |-> DIM(a, b), ord1 |-> Ord(a, b, 1)])

\* S2C: every spelling (form, f, dialect) of every day of GenYears x a menu of times, with what dt / ymd must return
GenTods == << <<0, 0, 0, 0>>, <<10, 20, 30, 50>>, <<23, 59, 59, 999999>>, <<0, 0, 0, 1>> >>
\* (the times of the menu in turn; forms that never look at the dialect get one dialect per day, in turn)
GenCasesInit == k = "gc" /\ a \in UNION {Ord(y, 1, 1)..Ord(y, 12, 31) : y \in GenYears} /\ b = (a % Len(GenTods)) + 1 /\ done = FALSE
StringForms == {"iso_str", "yyyymmdd_str", "monthname_str", "numeric_str", "dt2str"}
Case(c, t, s, dl) ==
    LET f == Spell(s[1], c[1], c[2], c[3], t, s[3], s[2])  want == Expected("dt", s[1], f, dl) IN
    [form |-> s[1], tl |-> s[2], wr |-> s[3], dl |-> dl, f |-> f, dt |-> want, ymd |-> Expected("ymd", s[1], f, dl),
     cl |-> Clause("dt", s[1], s[3], dl, want)]
\* the spellings that write the seconds with k decimals take their time from a menu whose fractions survive the cut
FracTods == << <<20, 30, 40, 500000>>, <<12, 0, 0, 7000>>, <<1, 2, 3, 123456>>, <<23, 59, 59, 999000>>, <<0, 0, 0, 120000>> >>
TodFor(o, i, tl) == IF tl > 10 THEN FracTods[((o + tl) % Len(FracTods)) + 1] ELSE GenTods[i]
GenCasesNext ==
    LET c == FastYMD(a)
        idx == SetToSeq({<<s, dl>> \in Spellings \X Dialects :
                             /\ Spellable(c, s[1]) /\ (s[1] \in StringForms \/ dl = (IF a % 2 = 0 THEN "uk" ELSE "us"))
                             /\ (s[2] \in FracTls => s[2] \in DayFracTls(a))}) IN
    Emit([k |-> "cases", y |-> c[1], m |-> c[2], d |-> c[3], t |-> GenTods[b],
          cases |-> [i \in 1..Len(idx) |-> Case(c, TodFor(a, b, idx[i][1][2]), idx[i][1], idx[i][2])]])

\* S2C for the overflow clause
DMenu == <<-400, -366, -365, -364, -31, -30, -1, 0, 1, 2, 28, 29, 30, 31, 32, 59, 60, 61, 365, 366, 367, 399, 400>>
GenOvfInit == k = "go" /\ a \in GenOvfYears /\ b \in -36..48 /\ done = FALSE
GenOvfNext == Emit([k |-> "ovf", y |-> a, m |-> b, ds |-> DMenu, want |-> [i \in 1..Len(DMenu) |-> YMDOverflow(a, b, DMenu[i])]])
=============================================================================
