CONSTANTS MaxLenS = 2
          MaxRowsS = 0
          MaxListS = 1
          LimsS = {0}
          MaxCalls = 2
          Consume = TRUE
          Emit = FALSE
INIT Init
NEXT Next
INVARIANT SIntact
INVARIANT SChain
INVARIANT SShared
INVARIANT SRefines
