CONSTANTS HW = 5
          Margin = 8
          Marks = {0, 28800, 46800, 81000, 86399}
          WeekendNos = {1, 2, 3}
          OwnAdjs = {"m"}
          TPad = 1
          GenMod = 8
INIT Init
NEXT EvalGen
