----------------------------- MODULE MC_EqMech -----------------------------
(* Implementation-shaped models of pyg_base._eq.eq, compared with the law level (Eq.tla)     *)
(* inside TLC only - the code itself is never compared with these.                            *)
(*                                                                                             *)
(*   Today(u, v)  the type-directed recursion as it stands: dispatch on the type of x, arrays   *)
(*                compared by len() and a vectorised eq, dict values packed into object arrays, *)
(*                NaN recognised through isinstance(x, float), everything else x == y reduced   *)
(*                with np.all - on a sub-universe MechU where numpy's broadcasting is simple    *)
(*                enough to be written down (scalars, flat lists / tuples, 0-d and 1-d arrays,  *)
(*                dicts of scalars or of equally long sequences).  Outcome "T" / "F" / "X"      *)
(*                (raises).  TLC is expected to REFUTE totality, symmetry and agreement with    *)
(*                what the statement pins (cfgs MC_EqMech_today_*.cfg, run with must_fail):     *)
(*                the counter-examples are the defect families seen on the real code.           *)
(*   Fixed(u, v)  the same recursion with the four local repairs proposed for C14 (shape instead*)
(*                of len, dict values compared as a tuple, "x is a scalar and y a container"    *)
(*                guard before the fallback, NaN through np.floating too) - on the whole        *)
(*                universe of MC_Eq: total, symmetric, transitive and equal to every pinned      *)
(*                answer (cfg MC_EqMech_fixed.cfg).                                             *)
(*   Real(u, v, mode)  the repaired recursion on realisation variants (insertion order, views  *)
(*                into shared buffers, missing-value markers) and three shortcuts that look at  *)
(*                the realisation instead of the value - each refuted by TLC (see below).       *)
EXTENDS MC_Eq

B(b) == IF b THEN "T" ELSE "F"
\* min([...]) / np.all(veq(..)) over fully evaluated cells: an exception anywhere propagates
AllOf(r) == IF \E i \in DOMAIN r : r[i] = "X" THEN "X"
            ELSE IF \E i \in DOMAIN r : r[i] = "out" THEN "out"
            ELSE IF \E i \in DOMAIN r : r[i] = "F" THEN "F" ELSE "T"
\* a and b
And2(a, b) == IF a = "T" THEN b ELSE a

Shape(v)  == Pay(v)[2]
Size0(v)  == \E i \in 1..Len(Shape(v)) : Shape(v)[i] = 0
\* isinstance(x, float) and np.isnan(x): Python floats and np.float64 (a subclass of float)
PyFloatNaN(u) == Tag(u) = "nan" \/ (Tag(u) = "np" /\ Pay(u)[1] = "float64" /\ IsNaN(Pay(u)[2]))
AnyNaN(u)     == IsLeaf(u) /\ IsNaN(Core(u))
\* x is y: within one call only a NaN object can be shared between the two operands
SameObject(u, v) == IsLeaf(u) /\ ((IsNaN(Core(u)) /\ Pay(Core(u)) # 0 /\ u = v) \/ (IsNaT(u) /\ IsNaT(v)))   \* (pd.NaT is one object)
\* x == y on two scalars
LeafPy(u, v) == B(PyEqX(u, v))
\* np.all(x == y) for a scalar x and the cells of y: elementwise ==, vacuously true without cells
AllCells(u, cells) == B(\A i \in 1..Len(cells) : PyEqX(u, cells[i]))
StrKeys(v) == VTup([i \in 1..Len(Keys(v)) |-> VStr(Keys(v)[i])])
SeqIdx(ix, jx) == IF Len(ix) # Len(jx) THEN "F"                      \* Index == Index raises, caught: False
                  ELSE B(\A i \in 1..Len(ix) : PyEqX(ix[i], jx[i]))

\* np.array(values, dtype = object): scalars give a 1-d array, equally long flat sequences a 2-d one
AllLeaves(vs) == \A i \in 1..Len(vs) : IsLeaf(vs[i])
AllSeqs(vs)   == /\ \A i \in 1..Len(vs) : Tag(vs[i]) \in {"t", "l"} /\ Len(Pay(vs[i])) = Len(Pay(vs[1])) /\ AllLeaves(Pay(vs[i]))
                 /\ Len(Pay(vs[1])) > 0
RECURSIVE Flat(_)
Flat(vs) == IF vs = <<>> THEN <<>> ELSE Pay(Head(vs)) \o Flat(Tail(vs))
ObjArr(vs) == IF AllLeaves(vs) THEN VArr("object", <<Len(vs)>>, vs)
              ELSE IF AllSeqs(vs) THEN VArr("object", <<Len(vs), Len(Pay(vs[1]))>>, Flat(vs))
              ELSE <<"out", 0>>

RECURSIVE Today(_, _)
Today(u, v) ==
    IF Tag(u) = "out" \/ Tag(v) = "out" THEN "out"
    ELSE IF SameObject(u, v) THEN "T"
    ELSE IF Tag(u) \in {"t", "l"}
    THEN IF Tag(v) # Tag(u) \/ Len(Pay(u)) # Len(Pay(v)) THEN "F"
         ELSE AllOf([i \in 1..Len(Pay(u)) |-> Today(Pay(u)[i], Pay(v)[i])])
    ELSE IF Tag(u) = "a"
    THEN IF Tag(v) # "a" THEN "F"
         ELSE IF Shape(u) = <<>> \/ Shape(v) = <<>> THEN "X"               \* len() of unsized object
         ELSE IF Shape(u)[1] # Shape(v)[1] THEN "F"                        \* len(x) == len(y) - not the shape
         ELSE IF Size0(u) THEN "T"
         ELSE IF Shape(u) # Shape(v) THEN "out"                            \* broadcasting: outside this model
         ELSE AllOf([i \in 1..Len(Items(u)) |-> Today(Items(u)[i], Items(v)[i])])
    ELSE IF Tag(u) \in {"m", "M"}
    THEN IF Kind(u) # Kind(v) \/ Len(Kvs(u)) # Len(Kvs(v)) THEN "F"
         ELSE IF Kvs(u) = <<>> THEN "T"
         ELSE And2(Today(StrKeys(u), StrKeys(v)), Today(ObjArr(Items(u)), ObjArr(Items(v))))
    ELSE IF ~IsLeaf(u) THEN "out"
    ELSE IF PyFloatNaN(u) THEN B(PyFloatNaN(v))
    ELSE IF IsLeaf(v) THEN LeafPy(u, v)
    ELSE IF Tag(v) \in {"t", "l"}                                          \* x == y: only a numpy scalar broadcasts over a list
    THEN IF Tag(u) = "np" THEN (IF AllLeaves(Pay(v)) THEN AllCells(u, Pay(v)) ELSE "out") ELSE "F"
    ELSE IF Tag(v) = "a" THEN (IF AllLeaves(Items(v)) THEN AllCells(u, Items(v)) ELSE "out")
    ELSE "F"

RECURSIVE Fixed(_, _)
Fixed(u, v) ==
    IF SameObject(u, v) THEN "T"
    ELSE IF Tag(u) \in {"t", "l"}
    THEN IF Tag(v) # Tag(u) \/ Len(Pay(u)) # Len(Pay(v)) THEN "F"
         ELSE AllOf([i \in 1..Len(Pay(u)) |-> Fixed(Pay(u)[i], Pay(v)[i])])
    ELSE IF Tag(u) = "a"
    THEN IF Tag(v) # "a" \/ Shape(u) # Shape(v) THEN "F"                   \* x.shape == y.shape
         ELSE AllOf([i \in 1..Len(Items(u)) |-> Fixed(Items(u)[i], Items(v)[i])])
    ELSE IF Tag(u) \in {"S", "F"}
    THEN IF Tag(v) # Tag(u) THEN "F"
         ELSE And2(SeqIdx(Pay(u)[2], Pay(v)[2]),
              And2(IF Tag(u) = "F" THEN SeqIdx(Pay(u)[3], Pay(v)[3]) ELSE "T",
                   AllOf([i \in 1..Len(Items(u)) |-> Fixed(Items(u)[i], Items(v)[i])])))
    ELSE IF Tag(u) \in {"m", "M"}
    THEN IF Kind(u) # Kind(v) \/ Len(Kvs(u)) # Len(Kvs(v)) THEN "F"
         ELSE IF Kvs(u) = <<>> THEN "T"
         ELSE And2(Fixed(StrKeys(u), StrKeys(v)), Fixed(VTup(Items(u)), VTup(Items(v))))   \* eq(xval, yval): tuples
    ELSE IF ~IsLeaf(v) THEN "F"                                            \* scalar against container: the guard
    ELSE IF AnyNaN(u) THEN B(AnyNaN(v))                                    \* (float, np.floating)
    ELSE LeafPy(u, v)

\* ---- the sub-universe of Today ---------------------------------------------------------------
MechU ==
    {None, I(1), F(1, 1), I(2), VNaN(1), VNaN(2), VStr("a"),
     NpS("int64", I(1)), NpS("float64", F(1, 1)), NpS("float64", VNaN(3)), NpS("float32", VNaN(4)), NpS("float32", VNaN(5)),
     VLst(<<>>), VTup(<<>>), VLst(<<I(1)>>), VTup(<<I(1)>>), VLst(<<F(1, 1), I(1)>>), VLst(<<I(1), I(2)>>), VLst(<<VNaN(1)>>), VLst(<<VNaN(2)>>),
     VLst(<<NpS("float32", VNaN(4))>>), VLst(<<NpS("float32", VNaN(5))>>), VLst(<<None>>),
     VArr("int64", <<>>, <<I(1)>>), VArr("float64", <<>>, <<VNaN(0)>>), VArr("int64", <<1>>, <<I(1)>>), VArr("int64", <<2>>, <<I(1), I(1)>>),
     VArr("int64", <<2>>, <<I(1), I(2)>>), VArr("float64", <<2>>, <<F(1, 1), F(2, 1)>>), VArr("float64", <<2>>, <<F(1, 1), VNaN(0)>>),
     VArr("float64", <<0>>, <<>>), VArr("object", <<1>>, <<None>>),
     VDict(<<>>), VSub("Dict", <<>>), VDict(<<<<"a", I(1)>>>>), VDict(<<<<"a", F(1, 1)>>>>), VSub("Dict", <<<<"a", I(1)>>>>), VDict(<<<<"b", I(1)>>>>),
     VDict(<<<<"a", VNaN(1)>>>>), VDict(<<<<"a", NpS("float32", VNaN(4))>>>>),
     VDict(<<<<"a", VLst(<<I(1), I(2)>>)>>, <<"b", VLst(<<I(1), I(2)>>)>>>>), VDict(<<<<"a", VTup(<<I(1), I(2)>>)>>, <<"b", VTup(<<I(1), I(2)>>)>>>>)}

InitToday == x \in MechU /\ y \in MechU /\ s = <<>> /\ done = FALSE

\* calibration only (never part of a verdict): prints what the model says today's code answers, so
\* that the model can be compared by hand with the unpatched code - cfg MC_EqMech_gen.cfg
EvalTodayGen == Eval /\ PrintT(ToJson([x |-> x, y |-> y, today |-> Today(x, y)]))

\* expected to be REFUTED by TLC (the model of today's code breaks the statement) ...
TodayInModel   == ~done \/ (Today(x, y) # "out" /\ Today(x, Fresh(x)) # "out")
TodayTotal     == ~done \/ Today(x, y) # "X"
TodaySymmetric == ~done \/ ((Today(x, y) \in {"T", "F"} /\ Today(y, x) \in {"T", "F"}) => Today(x, y) = Today(y, x))
TodayPinned    == ~done \/ (Today(x, y) \in {"T", "F"} => Pin(x, y) \in {"free", Today(x, y)})
TodayCopies    == ~done \/ Today(x, Fresh(x)) # "F"
\* ... and expected to HOLD for the repaired recursion, on the whole universe (on the values of the
\* realisation variants: sorted(x.items()) is the key order of the descriptor, the cells of a view are its cells)
FixedTotal      == ~done \/ Fixed(NX, NY) \in {"T", "F"}
FixedPinned     == ~done \/ LET nx == Norm(x)  ny == Norm(y) IN Pin(nx, ny) \in {"free", Fixed(nx, ny)}
FixedCopies     == ~done \/ LET nx == Norm(x) IN Fixed(nx, Fresh(nx)) = "T"
FixedSymmetric  == ~done \/ LET nx == Norm(x)  ny == Norm(y) IN Fixed(nx, ny) = Fixed(ny, nx)
FixedTransitive == ~done \/ LET nx == Norm(x)  ny == Norm(y) IN Fixed(nx, ny) = "T" => \A z \in NU : Fixed(ny, z) = "T" => Fixed(nx, z) = "T"

\* ---- the recursion on REALISATIONS, with the three shortcuts that look at the realisation ---------
\* Real(u, v, mode) walks the concrete descriptors.  mode = "" is the code as it stands: the dict branch
\* sorts the items, the array branch goes through the cells, the pandas branch through index, columns and
\* cells - it must agree with Fixed on the values (RealIsFixed).  The other modes are plausible
\* optimisations, each of which TLC must REFUTE against what the statement pins (must_fail cfgs
\* MC_EqMech_real_*.cfg) - which also shows that the universe holds a witness for each of them:
\*   "order"   dict branch compares keys() / values() in insertion order
\*   "alias"   array branch answers True for two views of one buffer with the same dtype, shape and
\*             strides whose address ranges overlap (np.may_share_memory)
\*   "missing" pandas branch answers True when x.equals(y): None and NaN held as objects are interchangeable
IsMap(c)  == Tag(c) \in {"m", "mo", "M", "Mo"}
IsArr(c)  == Tag(c) \in {"a", "v"}
IsPd(c)   == Tag(c) \in {"S", "F", "Sv", "Fv"}
MapKind(c) == IF Tag(c) \in {"m", "mo"} THEN "m" ELSE "M:" \o Pay(c)[1]
SortKvs(c) == CASE Tag(c) = "mo" -> Pay(c)[2] [] Tag(c) = "Mo" -> Pay(c)[3] [] OTHER -> Kvs(c)
ArrDt(c)    == IF Tag(c) = "v" THEN VDt_(c) ELSE Pay(c)[1]
ArrShape(c) == IF Tag(c) = "v" THEN VShp(c) ELSE Pay(c)[2]
ArrCells(c) == IF Tag(c) = "v" THEN ViewCells(c) ELSE Pay(c)[3]
PdKind(c)  == IF Tag(c) \in {"S", "Sv"} THEN "S" ELSE "F"
PdIndex(c) == IF Tag(c) \in {"Sv", "Fv"} THEN Pay(c)[1] ELSE Pay(c)[2]
PdCols(c)  == CASE Tag(c) = "F" -> Pay(c)[3] [] Tag(c) = "Fv" -> Pay(c)[2] [] OTHER -> <<>>
PdCells(c) == CASE Tag(c) = "S" -> Pay(c)[3] [] Tag(c) = "F" -> Pay(c)[4] [] Tag(c) = "Sv" -> ViewCells(Pay(c)[2]) [] Tag(c) = "Fv" -> ViewCells(Pay(c)[3])
PdDt(c)    == CASE Tag(c) = "Sv" -> VDt_(Pay(c)[2]) [] Tag(c) = "Fv" -> VDt_(Pay(c)[3]) [] OTHER -> Pay(c)[1]
\* NDFrame.equals: same axes, same dtype, cells equal where None / NaN held as objects count as one missing value
IsMissing(c) == Tag(c) \in {"n", "nan"}
PandasEquals(u, v) ==
    /\ PdDt(u) = PdDt(v) /\ SeqIdx(PdIndex(u), PdIndex(v)) = "T" /\ SeqIdx(PdCols(u), PdCols(v)) = "T"
    /\ Len(PdCells(u)) = Len(PdCells(v))
    /\ \A i \in 1..Len(PdCells(u)) : LET a == PdCells(u)[i]  b == PdCells(v)[i] IN
           (IsMissing(a) /\ IsMissing(b)) \/ (IsLeaf(a) /\ IsLeaf(b) /\ PyEqX(a, b))
SameLayout(u, v) == VDt_(u) = VDt_(v) /\ VShp(u) = VShp(v) /\ VStr_(u) = VStr_(v)
KeyTup(kvs) == VTup([i \in 1..Len(kvs) |-> VStr(kvs[i][1])])
ValTup(kvs) == VTup([i \in 1..Len(kvs) |-> kvs[i][2]])

RECURSIVE Real(_, _, _)
Real(u, v, mode) ==
    IF SameObject(u, v) THEN "T"
    ELSE IF Tag(u) \in {"t", "l"}
    THEN IF Tag(v) # Tag(u) \/ Len(Pay(u)) # Len(Pay(v)) THEN "F"
         ELSE AllOf([i \in 1..Len(Pay(u)) |-> Real(Pay(u)[i], Pay(v)[i], mode)])
    ELSE IF IsArr(u)
    THEN IF ~IsArr(v) \/ ArrShape(u) # ArrShape(v) THEN "F"
         ELSE IF mode = "alias" /\ Tag(u) = "v" /\ Tag(v) = "v" /\ SameLayout(u, v) /\ MayShare(u, v) THEN "T"
         ELSE AllOf([i \in 1..Len(ArrCells(u)) |-> Real(ArrCells(u)[i], ArrCells(v)[i], mode)])
    ELSE IF IsPd(u)
    THEN IF ~IsPd(v) \/ PdKind(v) # PdKind(u) THEN "F"
         ELSE IF mode = "missing" /\ PandasEquals(u, v) THEN "T"
         ELSE And2(SeqIdx(PdIndex(u), PdIndex(v)),
              And2(SeqIdx(PdCols(u), PdCols(v)),
                   IF Len(PdCells(u)) # Len(PdCells(v)) THEN "F"
                   ELSE AllOf([i \in 1..Len(PdCells(u)) |-> Real(PdCells(u)[i], PdCells(v)[i], mode)])))
    ELSE IF IsMap(u)
    THEN IF ~IsMap(v) \/ MapKind(u) # MapKind(v) \/ Len(SortKvs(u)) # Len(SortKvs(v)) THEN "F"
         ELSE IF SortKvs(u) = <<>> THEN "T"
         ELSE LET ku == IF mode = "order" THEN InsKvs(u) ELSE SortKvs(u)
                  kv == IF mode = "order" THEN InsKvs(v) ELSE SortKvs(v)
              IN  And2(Real(KeyTup(ku), KeyTup(kv), mode), Real(ValTup(ku), ValTup(kv), mode))
    ELSE IF ~IsLeaf(v) THEN "F"
    ELSE IF AnyNaN(u) THEN B(AnyNaN(v))
    ELSE LeafPy(u, v)

RealIsFixed     == ~done \/ Real(x, y, "") = Fixed(Norm(x), Norm(y))
RealOrderPinned   == ~done \/ PinC(x, y) \in {"free", Real(x, y, "order")}
RealAliasPinned   == ~done \/ PinC(x, y) \in {"free", Real(x, y, "alias")}
RealMissingPinned == ~done \/ PinC(x, y) \in {"free", Real(x, y, "missing")}
=============================================================================
