----------------------------- MODULE MC_EqMech -----------------------------
(* Implementation-shaped models of pyg_base._eq.eq, compared with the law level (Eq.tla)     *)
(* inside TLC only - the code itself is never compared with these.                            *)
(*                                                                                             *)
(*   Today(u, v)  the type-directed recursion as it stands: dispatch on the type of x, arrays   *)
(*                compared by len() and a vectorised eq, dict values packed into object arrays, *)
(*                NaN recognised through isinstance(x, float), everything else x == y reduced   *)
(*                with np.all - on a sub-universe MechU where numpy's broadcasting is simple    *)
(*                enough to be written down (scalars, flat lists / tuples, 0-d and 1-d arrays,  *)
(*                dicts of scalars or of equally long sequences).  Outcome "T" / "F" / "X"      *)
(*                (raises).  TLC is expected to REFUTE totality, symmetry and agreement with    *)
(*                what the statement pins (cfgs MC_EqMech_today_*.cfg, run with must_fail):     *)
(*                the counter-examples are the defect families seen on the real code.           *)
(*   Fixed(u, v)  the same recursion with the four local repairs proposed for C14 (shape instead*)
(*                of len, dict values compared as a tuple, "x is a scalar and y a container"    *)
(*                guard before the fallback, NaN through np.floating too) - on the whole        *)
(*                universe of MC_Eq: total, symmetric, transitive and equal to every pinned      *)
(*                answer (cfg MC_EqMech_fixed.cfg).                                             *)
EXTENDS MC_Eq

B(b) == IF b THEN "T" ELSE "F"
\* min([...]) / np.all(veq(..)) over fully evaluated cells: an exception anywhere propagates
AllOf(r) == IF \E i \in DOMAIN r : r[i] = "X" THEN "X"
            ELSE IF \E i \in DOMAIN r : r[i] = "out" THEN "out"
            ELSE IF \E i \in DOMAIN r : r[i] = "F" THEN "F" ELSE "T"
\* a and b
And2(a, b) == IF a = "T" THEN b ELSE a

Shape(v)  == Pay(v)[2]
Size0(v)  == \E i \in 1..Len(Shape(v)) : Shape(v)[i] = 0
\* isinstance(x, float) and np.isnan(x): Python floats and np.float64 (a subclass of float)
PyFloatNaN(u) == Tag(u) = "nan" \/ (Tag(u) = "np" /\ Pay(u)[1] = "float64" /\ IsNaN(Pay(u)[2]))
AnyNaN(u)     == IsLeaf(u) /\ IsNaN(Core(u))
\* x is y: within one call only a NaN object can be shared between the two operands
SameObject(u, v) == IsLeaf(u) /\ IsNaN(Core(u)) /\ Pay(Core(u)) # 0 /\ u = v
\* x == y on two scalars
LeafPy(u, v) == B(PyEqX(u, v))
\* np.all(x == y) for a scalar x and the cells of y: elementwise ==, vacuously true without cells
AllCells(u, cells) == B(\A i \in 1..Len(cells) : PyEqX(u, cells[i]))
StrKeys(v) == VTup([i \in 1..Len(Keys(v)) |-> VStr(Keys(v)[i])])
SeqIdx(ix, jx) == IF Len(ix) # Len(jx) THEN "F"                      \* Index == Index raises, caught: False
                  ELSE B(\A i \in 1..Len(ix) : PyEqX(ix[i], jx[i]))

\* np.array(values, dtype = object): scalars give a 1-d array, equally long flat sequences a 2-d one
AllLeaves(vs) == \A i \in 1..Len(vs) : IsLeaf(vs[i])
AllSeqs(vs)   == /\ \A i \in 1..Len(vs) : Tag(vs[i]) \in {"t", "l"} /\ Len(Pay(vs[i])) = Len(Pay(vs[1])) /\ AllLeaves(Pay(vs[i]))
                 /\ Len(Pay(vs[1])) > 0
RECURSIVE Flat(_)
Flat(vs) == IF vs = <<>> THEN <<>> ELSE Pay(Head(vs)) \o Flat(Tail(vs))
ObjArr(vs) == IF AllLeaves(vs) THEN VArr("object", <<Len(vs)>>, vs)
              ELSE IF AllSeqs(vs) THEN VArr("object", <<Len(vs), Len(Pay(vs[1]))>>, Flat(vs))
              ELSE <<"out", 0>>

RECURSIVE Today(_, _)
Today(u, v) ==
    IF Tag(u) = "out" \/ Tag(v) = "out" THEN "out"
    ELSE IF SameObject(u, v) THEN "T"
    ELSE IF Tag(u) \in {"t", "l"}
    THEN IF Tag(v) # Tag(u) \/ Len(Pay(u)) # Len(Pay(v)) THEN "F"
         ELSE AllOf([i \in 1..Len(Pay(u)) |-> Today(Pay(u)[i], Pay(v)[i])])
    ELSE IF Tag(u) = "a"
    THEN IF Tag(v) # "a" THEN "F"
         ELSE IF Shape(u) = <<>> \/ Shape(v) = <<>> THEN "X"               \* len() of unsized object
         ELSE IF Shape(u)[1] # Shape(v)[1] THEN "F"                        \* len(x) == len(y) - not the shape
         ELSE IF Size0(u) THEN "T"
         ELSE IF Shape(u) # Shape(v) THEN "out"                            \* broadcasting: outside this model
         ELSE AllOf([i \in 1..Len(Items(u)) |-> Today(Items(u)[i], Items(v)[i])])
    ELSE IF Tag(u) \in {"m", "M"}
    THEN IF Kind(u) # Kind(v) \/ Len(Kvs(u)) # Len(Kvs(v)) THEN "F"
         ELSE IF Kvs(u) = <<>> THEN "T"
         ELSE And2(Today(StrKeys(u), StrKeys(v)), Today(ObjArr(Items(u)), ObjArr(Items(v))))
    ELSE IF ~IsLeaf(u) THEN "out"
    ELSE IF PyFloatNaN(u) THEN B(PyFloatNaN(v))
    ELSE IF IsLeaf(v) THEN LeafPy(u, v)
    ELSE IF Tag(v) \in {"t", "l"}                                          \* x == y: only a numpy scalar broadcasts over a list
    THEN IF Tag(u) = "np" THEN (IF AllLeaves(Pay(v)) THEN AllCells(u, Pay(v)) ELSE "out") ELSE "F"
    ELSE IF Tag(v) = "a" THEN (IF AllLeaves(Items(v)) THEN AllCells(u, Items(v)) ELSE "out")
    ELSE "F"

RECURSIVE Fixed(_, _)
Fixed(u, v) ==
    IF SameObject(u, v) THEN "T"
    ELSE IF Tag(u) \in {"t", "l"}
    THEN IF Tag(v) # Tag(u) \/ Len(Pay(u)) # Len(Pay(v)) THEN "F"
         ELSE AllOf([i \in 1..Len(Pay(u)) |-> Fixed(Pay(u)[i], Pay(v)[i])])
    ELSE IF Tag(u) = "a"
    THEN IF Tag(v) # "a" \/ Shape(u) # Shape(v) THEN "F"                   \* x.shape == y.shape
         ELSE AllOf([i \in 1..Len(Items(u)) |-> Fixed(Items(u)[i], Items(v)[i])])
    ELSE IF Tag(u) \in {"S", "F"}
    THEN IF Tag(v) # Tag(u) THEN "F"
         ELSE And2(SeqIdx(Pay(u)[2], Pay(v)[2]),
              And2(IF Tag(u) = "F" THEN SeqIdx(Pay(u)[3], Pay(v)[3]) ELSE "T",
                   AllOf([i \in 1..Len(Items(u)) |-> Fixed(Items(u)[i], Items(v)[i])])))
    ELSE IF Tag(u) \in {"m", "M"}
    THEN IF Kind(u) # Kind(v) \/ Len(Kvs(u)) # Len(Kvs(v)) THEN "F"
         ELSE IF Kvs(u) = <<>> THEN "T"
         ELSE And2(Fixed(StrKeys(u), StrKeys(v)), Fixed(VTup(Items(u)), VTup(Items(v))))   \* eq(xval, yval): tuples
    ELSE IF ~IsLeaf(v) THEN "F"                                            \* scalar against container: the guard
    ELSE IF AnyNaN(u) THEN B(AnyNaN(v))                                    \* (float, np.floating)
    ELSE LeafPy(u, v)

\* ---- the sub-universe of Today ---------------------------------------------------------------
MechU ==
    {None, I(1), F(1, 1), I(2), VNaN(1), VNaN(2), VStr("a"),
     NpS("int64", I(1)), NpS("float64", F(1, 1)), NpS("float64", VNaN(3)), NpS("float32", VNaN(4)), NpS("float32", VNaN(5)),
     VLst(<<>>), VTup(<<>>), VLst(<<I(1)>>), VTup(<<I(1)>>), VLst(<<F(1, 1), I(1)>>), VLst(<<I(1), I(2)>>), VLst(<<VNaN(1)>>), VLst(<<VNaN(2)>>),
     VLst(<<NpS("float32", VNaN(4))>>), VLst(<<NpS("float32", VNaN(5))>>), VLst(<<None>>),
     VArr("int64", <<>>, <<I(1)>>), VArr("float64", <<>>, <<VNaN(0)>>), VArr("int64", <<1>>, <<I(1)>>), VArr("int64", <<2>>, <<I(1), I(1)>>),
     VArr("int64", <<2>>, <<I(1), I(2)>>), VArr("float64", <<2>>, <<F(1, 1), F(2, 1)>>), VArr("float64", <<2>>, <<F(1, 1), VNaN(0)>>),
     VArr("float64", <<0>>, <<>>), VArr("object", <<1>>, <<None>>),
     VDict(<<>>), VSub("Dict", <<>>), VDict(<<<<"a", I(1)>>>>), VDict(<<<<"a", F(1, 1)>>>>), VSub("Dict", <<<<"a", I(1)>>>>), VDict(<<<<"b", I(1)>>>>),
     VDict(<<<<"a", VNaN(1)>>>>), VDict(<<<<"a", NpS("float32", VNaN(4))>>>>),
     VDict(<<<<"a", VLst(<<I(1), I(2)>>)>>, <<"b", VLst(<<I(1), I(2)>>)>>>>), VDict(<<<<"a", VTup(<<I(1), I(2)>>)>>, <<"b", VTup(<<I(1), I(2)>>)>>>>)}

InitToday == x \in MechU /\ y \in MechU /\ s = <<>> /\ done = FALSE

\* calibration only (never part of a verdict): prints what the model says today's code answers, so
\* that the model can be compared by hand with the unpatched code - cfg MC_EqMech_gen.cfg
EvalTodayGen == Eval /\ PrintT(ToJson([x |-> x, y |-> y, today |-> Today(x, y)]))

\* expected to be REFUTED by TLC (the model of today's code breaks the statement) ...
TodayInModel   == ~done \/ (Today(x, y) # "out" /\ Today(x, Fresh(x)) # "out")
TodayTotal     == ~done \/ Today(x, y) # "X"
TodaySymmetric == ~done \/ ((Today(x, y) \in {"T", "F"} /\ Today(y, x) \in {"T", "F"}) => Today(x, y) = Today(y, x))
TodayPinned    == ~done \/ (Today(x, y) \in {"T", "F"} => Pin(x, y) \in {"free", Today(x, y)})
TodayCopies    == ~done \/ Today(x, Fresh(x)) # "F"
\* ... and expected to HOLD for the repaired recursion, on the whole universe
FixedTotal      == ~done \/ Fixed(x, y) \in {"T", "F"}
FixedPinned     == ~done \/ Pin(x, y) \in {"free", Fixed(x, y)}
FixedCopies     == ~done \/ Fixed(x, Fresh(x)) = "T"
FixedSymmetric  == ~done \/ Fixed(x, y) = Fixed(y, x)
FixedTransitive == ~done \/ \A z \in U : (Fixed(x, y) = "T" /\ Fixed(y, z) = "T") => Fixed(x, z) = "T"
=============================================================================
