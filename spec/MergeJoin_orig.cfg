CONSTANTS Variant = "orig"
          MaxRows = 1
SPECIFICATION Spec
INVARIANT OnlyEqualPairs
PROPERTY Termination
