CONSTANTS MaxDepth = 4
          MaxRowsC = 12
INIT Init
NEXT NextShared
CONSTRAINT SharedBound
