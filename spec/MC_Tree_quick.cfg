CONSTANTS LeafSet = "small"
          RebuildWide = FALSE
          Deep = TRUE
          Wide3 = FALSE
          TableWide = FALSE
          StrangeWide = FALSE
          Only = "all"
INIT Init
NEXT Next
INVARIANT RebuildStep
INVARIANT RebuildInverse
INVARIANT FlattenInverse
INVARIANT ItemsPrefixFree
INVARIANT WalksAgree
INVARIANT GetListed
INVARIANT MergeSelf
INVARIANT MergeEmpty
INVARIANT SingleIsInsert
INVARIANT MergeItems
INVARIANT MergeMechanism
INVARIANT MergeWellFormed
INVARIANT MergeIdempotent
INVARIANT MergeOverrides
INVARIANT MergeKeeps
INVARIANT MatchIsLaw
INVARIANT InverseOnTree
INVARIANT FromTableSound
INVARIANT InverseOnRows
