CONSTANTS MaxLen1 = 6
          MaxRows2 = 4
          MaxList = 2
          Lims = {0, 1, 2, 3}
INIT Init
NEXT EvalGen
