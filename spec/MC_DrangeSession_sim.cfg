\* S2C generator (thorough): simulated sessions of 8 steps (run with -simulate -depth 9)
CONSTANTS Variant = "code"
          MaxCalls = 8
          Scope = "thorough"
          Family = "none"
INIT InitSim
NEXT NextSim
