------------------------------- MODULE Order -------------------------------
(* Property C07: cmp as a total preorder over mixed types; sorting that follows it.            *)
(*                                                                                             *)
(* Law level: the axioms a comparison matrix M (entries -1, 0, 1, or Raised when the call      *)
(* raised) over a list of values must satisfy, and what it means for a list / a table to be    *)
(* sorted stably with respect to such a matrix.  Nothing here fixes how values of different    *)
(* types rank against each other - the property does not.                                      *)
(* Mechanism level: CmpModel, the order the code documents (type name, then length, then keys, *)
(* then values; NaN ranks above +inf), checked against the axioms by MC_Order.                   *)
EXTENDS Values, TLC

Raised == 9
Sign(k) == IF k < 0 THEN -1 ELSE IF k > 0 THEN 1 ELSE 0

\* ---- order of the scalar kinds where Python itself defines one ------------------------------
\* strings: TLA+ has no order on strings, so the lexicographic order is given extensionally on
\* the universe of strings the drivers use (sorted as Python sorts them)
StrOrder == <<"", "B", "a", "ab", "abc", "b", "ba", "j", "k", "xyz">>
StrIdx(s) == CHOOSE i \in 1..Len(StrOrder) : StrOrder[i] = s
StrCmp(s, t) == Sign(StrIdx(s) - StrIdx(t))
DateCmp(a, b) == IF a[1] # b[1] THEN Sign(a[1] - b[1]) ELSE IF a[2] # b[2] THEN Sign(a[2] - b[2]) ELSE Sign(a[3] - b[3])
\* numbers on the extended line: -inf < finite numbers < +inf < NaN (all NaN objects rank equal)
NumClass(v) == IF IsNaN(v) THEN 3 ELSE IF IsInf(v) THEN (IF Pay(v) > 0 THEN 2 ELSE 0) ELSE 1
NumCmp(u, v) == IF NumClass(u) # NumClass(v) THEN Sign(NumClass(u) - NumClass(v))
                ELSE IF NumClass(u) # 1 THEN 0
                ELSE IF RatLt(Rat(u), Rat(v)) THEN -1 ELSE IF RatLt(Rat(v), Rat(u)) THEN 1 ELSE 0
IsNumber(v) == Tag(v) \in {"i", "f", "nan", "inf"}      \* bools are a type of their own for cmp

\* ---- what the statement pins about single entries ------------------------------------------
\* numerically equal ints/floats compare 0; NaN ranks above every finite number; and on two
\* scalars of one kind (numbers, strings, datetimes) cmp is Python's own order - sort() uses the
\* native order whenever it can and its result has to be non-decreasing under cmp.
\* a datetime.date object crosses as <<"date", ordinal>> (a datetime as <<"d", <<ordinal, second, microsecond>>>>).  Two dates
\* follow their native order.  A date against a datetime has no native order (Python raises) and the statement does not say
\* how they rank: such an entry is held by the preorder axioms and by "a call has no memory" only (named deviation
\* OrdDayVsDatetime; the code ranks a date as the datetime at midnight of its day - mechanism level, CmpModel below).
OrdIsDay(v)  == Tag(v) = "date"
OrdDPay(v)   == IF Tag(v) = "date" THEN <<Pay(v), 0, 0>> ELSE Pay(v)
Pinned(u, v) == (IsNumber(u) /\ IsNumber(v) /\ ~(IsInf(u) \/ IsInf(v)))
                \/ (IsStr(u) /\ IsStr(v)) \/ (IsDate(u) /\ IsDate(v)) \/ (IsNone(u) /\ IsNone(v)) \/ (OrdIsDay(u) /\ OrdIsDay(v))
PinnedValue(u, v) == IF IsNumber(u) THEN NumCmp(u, v)
                     ELSE IF IsStr(u) THEN StrCmp(Pay(u), Pay(v))
                     ELSE IF IsDate(u) THEN DateCmp(Pay(u), Pay(v))
                     ELSE IF OrdIsDay(u) THEN Sign(Pay(u) - Pay(v)) ELSE 0

\* ---- axioms on an observed matrix -----------------------------------------------------------
\* vals: sequence of values, M: n x n matrix.  Each operator returns the set of witnesses of a
\* failure, so that a rejection can name the offending values.
Idx(vals) == 1..Len(vals)
RaisedAt(vals, M)   == {<<i, j>> \in Idx(vals) \X Idx(vals) : M[i][j] \notin {-1, 0, 1}}
NotAntisym(vals, M) == {<<i, j>> \in Idx(vals) \X Idx(vals) : M[i][j] \in {-1, 0, 1} /\ M[j][i] \in {-1, 0, 1} /\ M[i][j] # -M[j][i]}
NotPinned(vals, M)  == {<<i, j>> \in Idx(vals) \X Idx(vals) : M[i][j] \in {-1, 0, 1} /\ Pinned(vals[i], vals[j]) /\ M[i][j] # PinnedValue(vals[i], vals[j])}
Leq(M, i, j) == M[i][j] \in {-1, 0}
NotTransRow(vals, M, i) == {<<j, k>> \in Idx(vals) \X Idx(vals) :
                               Leq(M, i, j) /\ Leq(M, j, k) /\ M[i][k] \in {-1, 0, 1} /\
                               (~Leq(M, i, k) \/ (M[i][k] = 0 /\ (M[i][j] = -1 \/ M[j][k] = -1)))}

\* ---- sorted lists ---------------------------------------------------------------------------
\* out is a permutation of xs (as bags of values; NaN objects by identity)
Count(s, v) == Cardinality({i \in 1..Len(s) : s[i] = v})
IsPerm(xs, out) == Len(xs) = Len(out) /\ \A i \in 1..Len(xs) : Count(xs, xs[i]) = Count(out, xs[i])

\* ---- the documented mechanism ----------------------------------------------------------------
\* str(type(x)) after as_primitive and int -> float: NoneType < bool < datetime < dict < float < list < str < tuple
TypeRank(v) == CASE Tag(v) = "n" -> 0 [] Tag(v) = "b" -> 1 [] Tag(v) \in {"d", "date"} -> 2 [] Tag(v) = "m" -> 3
                 [] Tag(v) \in {"i", "f", "nan", "inf"} -> 4 [] Tag(v) = "l" -> 5 [] Tag(v) = "s" -> 6 [] Tag(v) = "t" -> 7
Len0(v) == IF Tag(v) \in {"t", "l", "m"} THEN Len(Pay(v)) ELSE 0
RECURSIVE CmpModel(_, _), CmpArr(_, _, _)
CmpArr(xs, ys, k) == IF k > Len(xs) THEN 0
                     ELSE LET c == CmpModel(xs[k], ys[k]) IN IF c # 0 THEN c ELSE CmpArr(xs, ys, k + 1)
CmpModel(u, v) ==
    IF PyIs(u, v) /\ ~IsNaN(u) THEN 0                       \* (identical NaN objects also give 0, as do distinct ones)
    ELSE IF TypeRank(u) # TypeRank(v) THEN Sign(TypeRank(u) - TypeRank(v))
    ELSE IF Len0(u) # Len0(v) THEN Sign(Len0(u) - Len0(v))
    ELSE CASE Tag(u) = "n" -> 0
           [] Tag(u) = "b" -> Sign(Pay(u) - Pay(v))
           [] Tag(u) \in {"d", "date"} -> DateCmp(OrdDPay(u), OrdDPay(v))      \* as_primitive: a date becomes the datetime at midnight
           [] Tag(u) = "s" -> StrCmp(Pay(u), Pay(v))
           [] IsNum(u) /\ ~IsBool(u) -> NumCmp(u, v)
           [] Tag(u) \in {"t", "l"} -> CmpArr(Pay(u), Pay(v), 1)
           [] Tag(u) = "m" -> LET ku == [i \in 1..Len(Pay(u)) |-> VStr(Pay(u)[i][1])]
                                  kv == [i \in 1..Len(Pay(v)) |-> VStr(Pay(v)[i][1])]
                                  c  == CmpArr(ku, kv, 1)
                              IN IF c # 0 THEN c
                                 ELSE CmpArr([i \in 1..Len(Pay(u)) |-> Pay(u)[i][2]], [i \in 1..Len(Pay(v)) |-> Pay(v)[i][2]], 1)

\* the stable sort of xs under a comparison C(_, _): the permutation p with xs[p[i]] before xs[p[j]]
\* iff C < 0, or C = 0 and p[i] < p[j]
RECURSIVE InsertSorted(_, _, _)
InsertSorted(C(_, _), sorted, x) ==      \* insert x after every element that is <= x
    IF sorted = <<>> THEN <<x>>
    ELSE IF C(Head(sorted), x) <= 0 THEN <<Head(sorted)>> \o InsertSorted(C, Tail(sorted), x)
         ELSE <<x>> \o sorted
RECURSIVE StableSortFrom(_, _, _, _)
StableSortFrom(C(_, _), xs, k, acc) == IF k > Len(xs) THEN acc ELSE StableSortFrom(C, xs, k + 1, InsertSorted(C, acc, xs[k]))
StableSort(C(_, _), xs) == StableSortFrom(C, xs, 1, <<>>)
=============================================================================
