CONSTANTS ZYears = {2021}
          GenZYears = {2008, 2011, 2016, 2020, 2024, 2029, 2036}
INIT GenInit
NEXT GenNext
