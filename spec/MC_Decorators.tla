--------------------------- MODULE MC_Decorators ---------------------------
(* Property C18 on the specification, and the source of the S2C cases.                          *)
(* One TLC run explores the union of four small machines, selected by `mode`:                     *)
(*   "bind"  every signature (60) x every call of the call universe, one Call(0, cc) each         *)
(*   "heap"  the wrapper heap: every history of <= MaxWraps Wrap steps over the 7 decorator kinds *)
(*           (any existing object as the target; from step LastOnlyFrom on only the newest)       *)
(*   "memo"  the memo of cache(base): every call sequence over the key menu                       *)
(*   "chain" one state per (base signature, normal-form chain of <= MaxChain layers): the clauses   *)
(*           about CALLS on a wrapper object (layer-by-layer evaluation = law, fallback iff raises,*)
(*           kwargs_support drops exactly ..., wrapping twice = once); in the generator the table  *)
(*           (signature, chain) -> expected outcome of every call of the menu                      *)
(*   "exc"   one state per (base signature, chain of <= MaxExcChain decorator kinds, also the kinds with optional  *)
(*           parameters set): every way f can fail (FailMarks) x every place the failing value can be passed       *)
(*   "args"  the caller's bindings: histories of getcallargs / call_with_callargs (on f and on a wrapper of f) /   *)
(*           the caller's own edits of a binding it holds, over one wrapper kind and a menu of calls that fill     *)
(*           *args and **kw                                                                                          *)
(*   "deco"  ready-made decorator objects (one per history; two in the thorough tier) applied to two functions      *)
(*           made from one code object, the decorated functions called in any order                                 *)
(*   "order" one state per (base signature, chain of <= MaxOrdChain decorator kinds): calls with two to four keywords,     *)
(*           the failing value in every place, in EVERY ORDER the keywords can be written at the call site            *)
(* The generator actions (NextGen) print, with PrintT(ToJson(..)), the case and what the          *)
(* specification expects; `hist` is only ever extended by them.  MC_Decorators_today.cfg runs the  *)
(* pointer-heap model of TODAY's wrapper.__init__ (FixedCode = FALSE), which breaks MechRefinesMC. *)
EXTENDS Decorators, Json
CONSTANTS MaxWraps, LastOnlyFrom, MaxChain, MaxCalls, Wide, Modes,
          MaxExcChain,     \* "exc": chains of that many decorator kinds
          MaxBindings,     \* "args": bindings the caller holds at a time
          MaxArgSteps,     \* "args": length of a generated history
          MaxDecoObjs, MaxDecoCalls, TwoDecos,  \* "deco": decorated functions, calls per generated history, a second decorator object
          MaxOrdChain      \* "order": chains of that many decorator kinds
VARIABLES mode, hist,
          dkinds           \* "deco": the ready-made decorator objects of the history (kinds); <<>> in the other modes
mcvars == <<base, objs, cells, roots, memo, evals, store, dobjs, out, mode, hist, dkinds>>

\* ------------------------------------------------------------------ universes
PlainSigs == {s \in [npos : 0..4, ndef : 0..4, varargs : BOOLEAN, varkw : BOOLEAN, alt : {FALSE}] : s.ndef <= s.npos}
\* the twin of every signature with defaults: same code, other default values (a function factory, lambdas in a loop)
AltSigs   == {[s EXCEPT !.alt = TRUE] : s \in {z \in PlainSigs : z.ndef >= 1}}
AllSigs   == PlainSigs \cup AltSigs
S(np, nd, va, vk) == [npos |-> np, ndef |-> nd, varargs |-> va, varkw |-> vk, alt |-> FALSE]
\* base functions of the heap histories:  f(a, b='db')   f(a, *args, **kw)   f(a='da', b='db', **kw)
\*                                        f( *args )      f(a, b, c='dc')
BaseSigs == {S(2, 1, FALSE, FALSE), S(1, 0, TRUE, TRUE), S(2, 2, FALSE, TRUE)}
            \cup (IF Wide THEN {S(0, 0, TRUE, FALSE), S(3, 1, FALSE, FALSE)} ELSE {})

\* abstract call: k positional arguments, the set of names passed by keyword, and whether the
\* first argument carries the value that makes the base function raise ("bad") or return None ("quiet").  The value of an argument
\* belongs to the parameter, not to the way it is passed: all valid splits of one argument set
\* between positional and keyword passing must give one binding (SplitIndependent).
AllNames  == ParamNames \o <<"x", "y">>
NameValOf == [a |-> VInt(1), b |-> VInt(2), c |-> VInt(3), d |-> VInt(4), x |-> VStr("kx"), y |-> VStr("ky")]
Tup(f) == <<>> \o f
MarkVal(m) == IF m = "bad" THEN Bad ELSE Quiet
CC(ac) == LET names == SelectSeq(AllNames, LAMBDA n : n \in ac.kw) IN
          [pos |-> Tup([i \in 1..ac.k |-> IF ac.mark # "ok" /\ i = 1 THEN MarkVal(ac.mark) ELSE VInt(i)]),
           kw  |-> Tup([j \in 1..Len(names) |-> <<names[j], IF ac.mark # "ok" /\ ac.k = 0 /\ j = 1 THEN MarkVal(ac.mark) ELSE NameValOf[names[j]]>>])]
\* the twins are called so that their defaults show: positional arguments only
AbsCalls(sig) == {ac \in [k : 0..(sig.npos + 2), kw : SUBSET Range(AllNames), mark : {"ok", "bad"}] :
                    /\ ac.mark # "ok" => (ac.k > 0 \/ ac.kw # {})
                    /\ sig.alt => (ac.kw = {} /\ ac.mark = "ok" /\ ac.k <= sig.npos)
                    /\ Valid(sig, DropUndeclared(sig, CC(ac)))}       \* valid for f, or for kwargs_support(f)
MenuFor(sig) == {CC(ac) : ac \in {z \in [k : 0..2, kw : SUBSET {"a", "b", "x"}, mark : {"ok", "bad", "quiet"}] :
                                     /\ z.mark # "ok" => (z.k > 0 \/ z.kw # {})
                                     /\ (z.mark = "quiet" => z.kw \subseteq {"a"})
                                     /\ Valid(sig, DropUndeclared(sig, CC(z)))}}
\* constant-level tables (TLC evaluates them once)
AbsCallsOf == [sig \in AllSigs |-> AbsCalls(sig)]
MenuOf     == [sig \in BaseSigs |-> MenuFor(sig)]
Menu(sig)  == MenuOf[sig]

\* keys of the memo machine on f(a, b='db'): f(1) f(a=1) f(a=1, b=2) f('quiet') -> None, and f(-1) f(-2): two
\* distinct combinations whose hashes happen to be equal in CPython | f(1, 2) f(1, b=2)
MemoSig  == S(2, 1, FALSE, FALSE)
Key(ps, ks) == [pos |-> ps, kw |-> ks]
MemoKeys == {Key(<<VInt(1)>>, <<>>), Key(<<>>, <<<<"a", VInt(1)>>>>), Key(<<>>, <<<<"a", VInt(1)>>, <<"b", VInt(2)>>>>),
             Key(<<Quiet>>, <<>>), Key(<<VInt(-1)>>, <<>>), Key(<<VInt(-2)>>, <<>>)}
            \cup (IF Wide THEN {Key(<<VInt(1), VInt(2)>>, <<>>), Key(<<VInt(1)>>, <<<<"b", VInt(2)>>>>)} ELSE {})

SeqsUpTo(Z, n) == UNION {[1..m -> Z] : m \in 0..n}
NormalChains == {Tup(ch) : ch \in {z \in SeqsUpTo(Layers, MaxChain) : DistinctClasses(z)}}

\* --- "exc": how f fails x where the failing value is passed ---------------------------------------
ExcChains == {Tup(ks) : ks \in {z \in SeqsUpTo(Range(ExcKindSeq), MaxExcChain) : Len(z) >= 1 /\ DistinctClasses([i \in 1..Len(z) |-> LayerOf(z[i])])}}
KindChain(ks) == Tup([i \in 1..Len(ks) |-> LayerOf(ks[i])])
\* the failing value as the first / the second positional argument, as keyword a / b, among *args, among **kw
\* (a failing value INSIDE a list is not handed to f as an argument: no failure)
ExcCallsFor(sig) == {cc \in {[pos |-> <<VStr(m)>>, kw |-> <<>>] : m \in Range(FailMarks)}
                           \cup {[pos |-> <<VInt(1), VStr(m)>>, kw |-> <<>>] : m \in Range(FailMarks)}
                           \cup {[pos |-> <<VInt(1), VInt(2), VStr(m)>>, kw |-> <<>>] : m \in Range(FailMarks)}
                           \cup {[pos |-> <<>>, kw |-> <<<<"a", VStr(m)>>>>] : m \in Range(FailMarks)}
                           \cup {[pos |-> <<VInt(1)>>, kw |-> <<<<"b", VStr(m)>>>>] : m \in Range(FailMarks)}
                           \cup {[pos |-> <<VInt(1)>>, kw |-> <<<<"x", VStr(m)>>>>] : m \in Range(FailMarks)}
                           \cup {[pos |-> <<VInt(1)>>, kw |-> <<>>], [pos |-> <<Quiet>>, kw |-> <<>>]}
                           \* arguments that are mutable objects of the caller (each call is made twice with the same objects,
                           \* which must be afterwards what they were before)
                           \cup {[pos |-> <<VInt(1), VLst(<<VInt(5)>>)>>, kw |-> <<>>],
                                 [pos |-> <<VInt(1)>>, kw |-> <<<<"b", VLst(<<VInt(5), VStr("bad")>>)>>>>],
                                 [pos |-> <<VInt(1)>>, kw |-> <<<<"x", VDict(<<<<"p", VInt(1)>>>>)>>>>],
                                 [pos |-> <<VInt(1), VInt(2), VLst(<<>>)>>, kw |-> <<>>]} :
                       Valid(sig, DropUndeclared(sig, cc))}         \* valid for f, or for kwargs_support(f)
ExcCallsOf == [sig \in BaseSigs |-> ExcCallsFor(sig)]

\* --- "order": the order the keywords are written in ------------------------------------------------
\* f(a, b, c='dc') and f(a='da', b='db', c='dc', **kw) join the base functions: three parameters that can all be named
OrdSigs == {s \in BaseSigs : s.npos >= 1} \cup {S(3, 1, FALSE, FALSE), S(3, 3, FALSE, TRUE)}
OrdNames == <<"a", "b", "c", "x">>
\* k positional arguments, the names passed by keyword, and the place of the value that makes f fail ("" = nowhere,
\* "1" = the first positional argument, otherwise the keyword of that name) or return None ("q" + place)
OrdCC(k, names, bad, quiet) ==
    LET ns == SelectSeq(OrdNames, LAMBDA n : n \in names) IN
    [pos |-> Tup([i \in 1..k |-> IF i = 1 /\ bad = "1" THEN VStr("bad_bare") ELSE IF i = 1 /\ quiet = "1" THEN Quiet ELSE VInt(i)]),
     kw  |-> Tup([j \in 1..Len(ns) |-> <<ns[j], IF ns[j] = bad THEN Bad ELSE IF ns[j] = quiet THEN Quiet ELSE NameValOf[ns[j]]>>])]
OrdCallsFor(sig) == {cc \in {OrdCC(k, names, bad, quiet) : k \in 0..1, names \in {z \in SUBSET Range(OrdNames) : Cardinality(z) >= 2},
                                                            bad \in {"", "1"} \cup Range(OrdNames), quiet \in {"", "a"}} :
                        /\ HasBad(cc) => ~HasQuiet(cc)
                        /\ Cardinality({i \in 1..Len(cc.kw) : IsMark(cc.kw[i][2])}) + Cardinality({i \in 1..Len(cc.pos) : IsMark(cc.pos[i])}) <= 1
                        /\ Valid(sig, DropUndeclared(sig, cc))}
OrdCallsOf == [sig \in OrdSigs |-> OrdCallsFor(sig)]
\* the wrappers whose law or mechanism looks at "the first parameter" or at the keywords: all nine kinds alone, and under / over each other
OrdChains == {Tup(ks) : ks \in {z \in SeqsUpTo(Range(BindKindSeq), MaxOrdChain) : Len(z) >= 1 /\ DistinctClasses([i \in 1..Len(z) |-> LayerOf(z[i])])}}
\* the orders n keywords can be written in (positions of the canonical spelling), printed once per table
OrderTable == Tup([n \in 1..Len(OrdNames) |-> SetToSeq(PermsOf(n))])

\* --- "args": the calls whose bindings the caller holds ----------------------------------------------
ArgSigs == {S(2, 1, FALSE, FALSE), S(1, 0, TRUE, TRUE), S(2, 2, FALSE, TRUE), S(2, 1, TRUE, TRUE)}
           \cup (IF Wide THEN {S(0, 0, TRUE, FALSE), S(3, 2, TRUE, TRUE)} ELSE {})
\* minimal (the defaults show) | *args and **kw actually filled | everything by keyword | (Wide) a mixed split
ArgCallsFor(sig) == {CC(ac) : ac \in {z \in {[k |-> sig.npos - sig.ndef, kw |-> {}, mark |-> "ok"],
                                               [k |-> IF sig.varargs THEN sig.npos + 2 ELSE sig.npos, kw |-> IF sig.varkw THEN {"x", "y"} ELSE {}, mark |-> "ok"],
                                               [k |-> 0, kw |-> Params(sig) \cup (IF sig.varkw THEN {"x"} ELSE {}), mark |-> "ok"]}
                                              \cup (IF Wide THEN {[k |-> IF sig.npos >= 1 THEN 1 ELSE 0, kw |-> (Params(sig) \ {"a"}) \cup (IF sig.varkw THEN {"y"} ELSE {}), mark |-> "ok"]} ELSE {}) :
                                          Valid(sig, CC(z))}}
ArgCallsOf == [sig \in ArgSigs |-> ArgCallsFor(sig)]
ArgKinds == Kinds \cup {"try_zero_verbose"}

\* --- "deco": the calls on decorated functions (both functions accept them; the twins differ in what they return)
DecoSigs  == {MemoSig} \cup (IF Wide THEN {S(2, 2, FALSE, TRUE)} ELSE {})
\* f(1): the twins answer differently, one key for every memo; f('bad_bare'): f fails without a message
DecoCalls == {Key(<<VInt(1)>>, <<>>), Key(<<VStr("bad_bare")>>, <<>>)}
DecoKinds == Range(ExcKindSeq)

\* ------------------------------------------------------------------ the machines
\* The shape of the heap does not depend on the base function, the outcome of a call depends only on
\* (base function, chain of the object called): "heap" runs on one base function, "chain" has one
\* initial state per (base function, reachable chain) and carries the clauses about calls.
Init == /\ mode \in Modes /\ hist = <<>>
        /\ \/ mode = "bind" /\ dkinds = <<>> /\ \E sig \in AllSigs : SessionInit(sig)
           \/ mode = "heap" /\ dkinds = <<>> /\ SessionInit(MemoSig)
           \/ mode = "memo" /\ dkinds = <<>> /\ SessionInit(MemoSig)
           \/ mode = "chain" /\ dkinds = <<>> /\ \E sig \in BaseSigs, ch \in NormalChains :
                  /\ base = sig /\ objs = <<ch>> /\ cells = <<>> /\ roots = <<>>
                  /\ memo = <<>> /\ evals = 0 /\ store = <<>> /\ dobjs = <<>> /\ out = <<"idle", 0>>
           \* "exc": dkinds holds the kinds of the chain (the optional parameters are no part of a layer)
           \/ mode = "exc" /\ \E sig \in BaseSigs, ks \in ExcChains :
                  /\ dkinds = ks /\ base = sig /\ objs = <<KindChain(ks)>> /\ cells = <<>> /\ roots = <<>>
                  /\ memo = <<>> /\ evals = 0 /\ store = <<>> /\ dobjs = <<>> /\ out = <<"idle", 0>>
           \/ mode = "order" /\ \E sig \in OrdSigs, ks \in OrdChains :
                  /\ dkinds = ks /\ base = sig /\ objs = <<KindChain(ks)>> /\ cells = <<>> /\ roots = <<>>
                  /\ memo = <<>> /\ evals = 0 /\ store = <<>> /\ dobjs = <<>> /\ out = <<"idle", 0>>
           \* "args": object 0 = f, object 1 = W(f) for one decorator kind W
           \/ mode = "args" /\ \E sig \in ArgSigs, kind \in ArgKinds :
                  /\ dkinds = <<kind>> /\ base = sig /\ objs = <<<<LayerOf(kind)>>>> /\ cells = <<>> /\ roots = <<>>
                  /\ memo = <<>> /\ evals = 0 /\ store = <<>> /\ dobjs = <<>> /\ out = <<"idle", 0>>
           \/ mode = "deco" /\ \E sig \in DecoSigs, k1 \in DecoKinds :
                  /\ SessionInit(sig)
                  /\ \/ dkinds = <<k1>>
                     \* a second ready-made decorator object: the one with a memo or the one with a fallback of its own
                     \/ TwoDecos /\ sig = MemoSig /\ \E k2 \in {"cache", "try_zero"} : ClassOf(k2) # ClassOf(k1) /\ dkinds = <<k1, k2>>

CanWrap(target) == /\ Len(objs) < MaxWraps
                   /\ (Len(objs) + 1 >= LastOnlyFrom => target = Len(objs))
BindStep   == /\ mode = "bind" /\ out[1] = "idle" /\ \E ac \in AbsCallsOf[base] : Call(0, CC(ac))
              /\ UNCHANGED <<mode, hist, dkinds>>
WrapStep   == /\ mode = "heap" /\ \E kind \in Kinds, target \in 0..Len(objs) : CanWrap(target) /\ Wrap(LayerOf(kind), target)
              /\ UNCHANGED <<mode, hist, dkinds>>
CachedStep == /\ mode = "memo" /\ \E cc \in MemoKeys : CallCached(cc)
              /\ UNCHANGED <<mode, hist, dkinds>>
\* (TLC checks the invariants of initial states on one thread: the clauses about calls are attached to the
\*  state after this step so that all workers share them)
ChainStep  == /\ mode \in {"chain", "exc", "order"} /\ out[1] = "idle" /\ out' = <<"table", 0>>
              /\ UNCHANGED <<base, objs, cells, roots, memo, evals, store, dobjs, mode, hist, dkinds>>
\* "args": any public call on a binding, any edit by its owner
ArgGetOK      == Len(store) < MaxBindings
ArgGetStep    == /\ mode = "args" /\ ArgGetOK /\ \E o \in 0..1, cc \in ArgCallsOf[base] : GetCallArgs(o, cc)
                 /\ UNCHANGED <<mode, hist, dkinds>>
ArgReplayStep == /\ mode = "args" /\ \E o \in 0..1, i \in 1..Len(store) : Replay(o, i)
                 /\ UNCHANGED <<mode, hist, dkinds>>
ArgEditStep   == /\ mode = "args" /\ \E i \in 1..Len(store), e \in Range(Edits) : EditBinding(i, e)
                 /\ UNCHANGED <<mode, hist, dkinds>>
\* "deco": the first decorated function is function 1; a ready-made decorator is applied to a function once, and
\* to decorated functions as long as there is room
CanDecorate(k, fn) == /\ Len(dobjs) < MaxDecoObjs
                      /\ (dobjs = <<>> => fn = 1 /\ k = 1)
                      /\ ~\E i \in 1..Len(dobjs) : dobjs[i].fn = fn /\ dobjs[i].chain = <<LayerOf(dkinds[k])>>
CanRedecorate(k, i) == Len(dobjs) < MaxDecoObjs /\ Len(dobjs) >= 2
DecorateStep   == /\ mode = "deco" /\ \E k \in 1..Len(dkinds), fn \in 1..2 : (CanDecorate(k, fn) = TRUE) /\ Decorate(dkinds[k], fn)
                  /\ UNCHANGED <<mode, hist, dkinds>>
RedecorateStep == /\ mode = "deco" /\ \E k \in 1..Len(dkinds), i \in 1..Len(dobjs) : (CanRedecorate(k, i) = TRUE) /\ Redecorate(dkinds[k], i)
                  /\ UNCHANGED <<mode, hist, dkinds>>
DecoCallStep   == /\ mode = "deco" /\ \E i \in 1..Len(dobjs), cc \in DecoCalls : CallDecorated(i, cc)
                  /\ UNCHANGED <<mode, hist, dkinds>>
Next == BindStep \/ WrapStep \/ CachedStep \/ ChainStep \/ ArgGetStep \/ ArgReplayStep \/ ArgEditStep
        \/ DecorateStep \/ RedecorateStep \/ DecoCallStep

\* ------------------------------------------------------------------ generator (S2C)
SingleOuts(sig, cc) ==
    LET ks == SelectSeq(BindKindSeq, LAMBDA kind : ValidFor(sig, <<LayerOf(kind)>>, cc)) IN
    Tup([i \in 1..Len(ks) |-> <<ks[i], LawOutcome(sig, <<LayerOf(ks[i])>>, cc)>>])
GenBind == mode = "bind" /\ out[1] = "idle" /\ \E ac \in AbsCallsOf[base] : LET cc == CC(ac) IN
    /\ Call(0, cc) /\ UNCHANGED <<mode, hist, dkinds>>
    /\ PrintT(ToJson([part |-> "bind", sig |-> base, cc |-> cc, valid |-> Valid(base, cc),
                      bind |-> IF Valid(base, cc) THEN Bind(base, cc) ELSE Unspecified,
                      ret  |-> IF Valid(base, cc) THEN BaseOutcome(base, cc) ELSE Unspecified,
                      argspec |-> ArgSpec(base), outs |-> SingleOuts(base, cc)]))
GenWrap == mode = "heap" /\ \E kind \in Kinds, target \in 0..Len(objs) :
    /\ CanWrap(target) /\ Wrap(LayerOf(kind), target) /\ hist' = Append(hist, <<kind, target>>) /\ UNCHANGED <<mode, dkinds>>
    /\ PrintT(ToJson([part |-> "heap", hist |-> hist', objs |-> objs']))
GenCached == mode = "memo" /\ Len(hist) < MaxCalls /\ \E cc \in MemoKeys :
    /\ CallCached(cc) /\ hist' = Append(hist, cc) /\ UNCHANGED <<mode, dkinds>>
    /\ PrintT(ToJson([part |-> "memo", sig |-> base, calls |-> hist', out |-> out'[4], evals |-> evals']))
GenChain ==
    /\ mode = "chain" /\ out[1] = "idle" /\ out' = <<"table", 0>>
    /\ UNCHANGED <<base, objs, cells, roots, memo, evals, store, dobjs, mode, hist, dkinds>>
    /\ LET ms == SetToSeq({cc \in Menu(base) : ValidFor(base, objs[1], cc)}) IN
       PrintT(ToJson([part |-> "chain", sig |-> base, chain |-> objs[1], argspec |-> ArgSpec(base),
                      outs |-> Tup([i \in 1..Len(ms) |-> <<ms[i], LawOutcome(base, objs[1], ms[i])>>])]))
\* "exc": the table (kinds of the chain) -> expected outcome of every failing call
GenExc ==
    /\ mode = "exc" /\ out[1] = "idle" /\ out' = <<"table", 0>>
    /\ UNCHANGED <<base, objs, cells, roots, memo, evals, store, dobjs, mode, hist, dkinds>>
    /\ LET ms == SetToSeq({cc \in ExcCallsOf[base] : ValidFor(base, objs[1], cc)}) IN
       PrintT(ToJson([part |-> "exc", sig |-> base, kinds |-> dkinds, chain |-> objs[1], argspec |-> ArgSpec(base),
                      outs |-> Tup([i \in 1..Len(ms) |-> <<ms[i], LawOutcome(base, objs[1], ms[i])>>])]))
\* "order": the table (kinds of the chain) -> expected outcome of every call, which is the outcome of EVERY spelling of it
GenOrder ==
    /\ mode = "order" /\ out[1] = "idle" /\ out' = <<"table", 0>>
    /\ UNCHANGED <<base, objs, cells, roots, memo, evals, store, dobjs, mode, hist, dkinds>>
    /\ LET ms == SetToSeq({cc \in OrdCallsOf[base] : ValidFor(base, objs[1], cc)}) IN
       PrintT(ToJson([part |-> "order", sig |-> base, kinds |-> dkinds, chain |-> objs[1], orders |-> OrderTable,
                      outs |-> Tup([i \in 1..Len(ms) |-> <<ms[i], LawOutcome(base, objs[1], ms[i])>>])]))
\* "args": every step of a history with what the specification expects after it: the outcome of the call and ALL the
\* caller's bindings
ArgPrint == PrintT(ToJson([part |-> "args", sig |-> base, kind |-> dkinds[1], hist |-> hist', store |-> store',
                           out |-> out'[Len(out')]]))
\* (a further binding is obtained by the very call that gave the first one: "the same call again")
GenArgGet == mode = "args" /\ Len(hist) < MaxArgSteps /\ ArgGetOK /\ \E o \in 0..1, cc \in ArgCallsOf[base] :
    /\ (IF hist = <<>> THEN TRUE ELSE o = hist[1].obj /\ cc = hist[1].cc)
    /\ GetCallArgs(o, cc) /\ hist' = Append(hist, [op |-> "get", obj |-> o, cc |-> cc, i |-> 0, e |-> ""]) /\ UNCHANGED <<mode, dkinds>>
    /\ ArgPrint
GenArgReplay == mode = "args" /\ Len(hist) < MaxArgSteps /\ \E o \in 0..1, i \in 1..Len(store) :
    /\ Replay(o, i) /\ hist' = Append(hist, [op |-> "replay", obj |-> o, cc |-> Key(<<>>, <<>>), i |-> i, e |-> ""]) /\ UNCHANGED <<mode, dkinds>>
    /\ ArgPrint
\* (an edit is not a call: it is printed with the call that follows it; a history never ends with an edit that nobody observes
\*  - except that the bindings after it are compared as well, which costs nothing)
GenArgEdit == mode = "args" /\ Len(hist) < MaxArgSteps - 1 /\ \E i \in 1..Len(store), e \in Range(Edits) :
    /\ EditBinding(i, e) /\ hist' = Append(hist, [op |-> "edit", obj |-> 0, cc |-> Key(<<>>, <<>>), i |-> i, e |-> e]) /\ UNCHANGED <<mode, dkinds>>
\* "deco": every step with the decorated functions [fn, chain] that exist after it and, for a call, outcome and evaluations
DecoView == Tup([i \in 1..Len(dobjs') |-> [fn |-> dobjs'[i].fn, chain |-> dobjs'[i].chain]])
DecoPrint == PrintT(ToJson([part |-> "deco", sig |-> base, twin |-> TwinOf(base), kinds |-> dkinds, hist |-> hist', objs |-> DecoView,
                            specs |-> <<ArgSpec(base), ArgSpec(TwinOf(base))>>,
                            out |-> IF out'[1] = "dret" THEN <<out'[4], out'[5]>> ELSE <<>>]))
NCalls == Cardinality({i \in 1..Len(hist) : hist[i].op = "call"})
GenDecorate == mode = "deco" /\ \E k \in 1..Len(dkinds), fn \in 1..2 :
    /\ (CanDecorate(k, fn) = TRUE) /\ Decorate(dkinds[k], fn)
    /\ hist' = Append(hist, [op |-> "decorate", k |-> k, on |-> -fn, cc |-> Key(<<>>, <<>>)]) /\ UNCHANGED <<mode, dkinds>>
    /\ DecoPrint
GenRedecorate == mode = "deco" /\ \E k \in 1..Len(dkinds), i \in 1..Len(dobjs) :
    /\ (CanRedecorate(k, i) = TRUE) /\ Redecorate(dkinds[k], i)
    /\ hist' = Append(hist, [op |-> "decorate", k |-> k, on |-> i, cc |-> Key(<<>>, <<>>)]) /\ UNCHANGED <<mode, dkinds>>
    /\ DecoPrint
GenDecoCall == mode = "deco" /\ NCalls < MaxDecoCalls /\ \E i \in 1..Len(dobjs), cc \in DecoCalls :
    /\ CallDecorated(i, cc)
    /\ hist' = Append(hist, [op |-> "call", k |-> 0, on |-> i, cc |-> cc]) /\ UNCHANGED <<mode, dkinds>>
    /\ DecoPrint
NextGen == GenBind \/ GenWrap \/ GenCached \/ GenChain \/ GenExc \/ GenOrder \/ GenArgGet \/ GenArgReplay \/ GenArgEdit
           \/ GenDecorate \/ GenRedecorate \/ GenDecoCall

\* the memo machine says what the statement says about the whole call sequence (generator run: hist = the calls)
MemoIsLaw == (mode = "memo" /\ hist # <<>>) => (out[4] = LawOuts(base, hist)[Len(hist)] /\ evals = LawEvals(hist))
\* ... at every point of the sequence, by the fold the trace specification applies to recorded histories of any length
MemoScalesMC == (mode = "memo" /\ hist # <<>>) => MemoScales(base, hist)

\* ------------------------------------------------------------------ properties (one per clause)
\* (a) binding is total on valid calls, loses and invents nothing, and does not depend on the split
SplitIndependent(sig, ac) ==
    (ac.k >= 1 /\ ac.k <= sig.npos /\ Valid(sig, CC(ac))) =>
        LET moved == [ac EXCEPT !.k = @ - 1, !.kw = @ \cup {PName(ac.k)}] IN
        Valid(sig, CC(moved)) /\ Bind(sig, CC(moved)) = Bind(sig, CC(ac))
\* (checked on the call just made: out = <<"ret", 0, cc, outcome>>)
BindLaws == (mode = "bind" /\ out[1] = "ret") =>
                LET ac == [k |-> Len(out[3].pos), kw |-> KwNames(out[3]), mark |-> IF HasBad(out[3]) THEN "bad" ELSE "ok"] IN
                CC(ac) = out[3] /\ BindConserves(base, out[3]) /\ SplitIndependent(base, ac)
\* the last public call: a valid call on the plain function returns its bindings (or raises on Bad)
BindTotal == (mode = "bind" /\ out[1] = "ret" /\ Valid(base, out[3])) =>
                out[4] = (IF HasBad(out[3]) THEN Raises("ValueError") ELSE Bind(base, out[3]))
\* two functions with one code object report their own defaults and bind them
TwinsDiffer == (mode = "bind" /\ base.alt) =>
                  LET twin == [base EXCEPT !.alt = FALSE] IN
                  /\ ArgSpec(base).defaults # ArgSpec(twin).defaults /\ ArgSpec(base).args = ArgSpec(twin).args
                  /\ (out[1] = "ret" /\ Len(out[3].pos) < base.npos) => out[4] # Bind(twin, out[3])
\* (b) calls on an object with chain Newest over the base function
Newest == objs[1]
ChainState == mode = "chain" /\ out[1] = "table"
\* layer-by-layer evaluation = the law, for every call of the menu
Transparent == ChainState => \A cc \in Menu(base) : ValidFor(base, Newest, cc) =>
                                ChainEval(base, Newest, cc) = LawOutcome(base, Newest, cc)
\* ... and where no try layer and no kwargs_support is involved it is literally what f returns
ReturnsWhatFReturns == ChainState => \A cc \in Menu(base) :
                          (Valid(base, cc) /\ ~HasBad(cc)) => ChainEval(base, Newest, cc) = (IF HasQuiet(cc) THEN None ELSE Bind(base, cc))
FallbackIffRaises == ChainState => \A cc \in Menu(base) : (ValidFor(base, Newest, cc) /\ TryIdx(Newest) # {}) =>
                          LET eff == Effective(base, Newest, cc) IN
                          ChainEval(base, Newest, cc) = (IF HasBad(eff) THEN Fallback(Newest[Max(TryIdx(Newest))], base, cc)
                                                         ELSE IF HasQuiet(eff) THEN None ELSE Bind(base, eff))
DropsExactlyUndeclared == ChainState => \A cc \in Menu(base) :
                          (HasCls(Newest, "kwargs_support") /\ ValidFor(base, Newest, cc) /\ ~HasBad(cc) /\ ~HasQuiet(cc)) =>
                              ChainEval(base, Newest, cc) =
                                  Bind(base, IF base.varkw THEN cc ELSE [cc EXCEPT !.kw = SelectSeq(@, LAMBDA p : p[1] \in Params(base))])
\* wrapping twice equals wrapping once, directly and through a chain of other decorators
WrapTwiceIsOnce == ChainState => \A ly \in Layers :
                      /\ NormalForm(ly, NormalForm(ly, Newest)) = NormalForm(ly, Newest)
                      /\ \A ly2 \in Layers : ly2[1] # ly[1] =>
                            NormalForm(ly, NormalForm(ly2, NormalForm(ly, Newest))) = NormalForm(ly, NormalForm(ly2, Newest))
\* the normal form behaves like the literal nesting W(chain), except (named InterleavedTry / MergeSameClass)
\* when W is a try wrapper that is already in the chain with another parameter or with the other try class around
NestingException(ly, ch) == IsTry(ly) /\ \E i \in 1..Len(ch) : ch[i][1] = ly[1] /\ (ch[i] # ly \/ \E j \in 1..Len(ch) : IsTry(ch[j]) /\ ch[j][1] # ly[1])
NormalFormKeepsBehaviour == ChainState => \A ly \in Layers : (HasCls(Newest, ly[1]) /\ ~NestingException(ly, Newest)) =>
                               \A cc \in Menu(base) : ChainEval(base, <<ly>> \o Newest, cc) = ChainEval(base, NormalForm(ly, Newest), cc)
\* (b') every way f can fail: layer-by-layer evaluation = the law; the fallback comes back exactly when f raises an
\* Exception, whatever its realisation and whatever the optional parameters of the wrappers; interrupts pass through
ExcState == mode = "exc" /\ out[1] = "table"
ExcLaws == ExcState => \A cc \in ExcCallsOf[base] : ValidFor(base, Newest, cc) =>
              LET eff == Effective(base, Newest, cc)  f == BaseOutcome(base, eff)  r == ChainEval(base, Newest, cc) IN
              /\ r = LawOutcome(base, Newest, cc)
              /\ (IsFailure(f) /\ TryIdx(Newest) # {}) => r = Fallback(Newest[Max(TryIdx(Newest))], base, cc)
              /\ (~IsFailure(f) \/ TryIdx(Newest) = {}) => r = f
              /\ IsInterrupt(f) => r = f
\* (b'') the order the keywords are written in: whatever the law looks at - validity, every parameter's value, the extra
\* keywords as a set, the first argument, whether and how f fails, what kwargs_support drops - is the same for every
\* spelling of a call; and the mechanism of today's try_back (the first positional argument, else the keyword NAMED like
\* f's first parameter) returns the law's first argument on every spelling, while "the keyword written first" does not
\* (OrderMatters: the calls of this universe tell the two apart)
OrdState == mode = "order" /\ out[1] = "table"
KwItems(cc) == {cc.kw[i] : i \in 1..Len(cc.kw)}
OrderLaws == OrdState => \A cc \in OrdCallsOf[base] : ValidFor(base, Newest, cc) => \A order \in Orders(cc) :
                LET w == Written(cc, order)  eff == Effective(base, Newest, cc)  effw == Effective(base, Newest, w) IN
                /\ IsSpelling(order, cc) /\ w.pos = cc.pos /\ KwItems(w) = KwItems(cc)
                /\ Valid(base, effw) = Valid(base, eff) /\ KwItems(effw) = KwItems(eff)
                /\ \A i \in 1..base.npos : ParamVal(base, effw, i) = ParamVal(base, eff, i)
                /\ KwItems([pos |-> <<>>, kw |-> Pay(VarKw(base, effw))]) = KwItems([pos |-> <<>>, kw |-> Pay(VarKw(base, eff))])
                /\ HasBad(effw) = HasBad(eff) /\ HasQuiet(effw) = HasQuiet(eff) /\ (HasBad(eff) => FailClass(effw) = FailClass(eff))
                /\ FirstArg(base, w) = FirstArg(base, cc)
                /\ (Len(w.pos) = 0 /\ base.npos > 0 /\ "a" \in KwNames(w)) => KwGet(w, PName(1)) = FirstArg(base, cc)
OrderMatters == OrdState => \E cc \in OrdCallsOf[base] : \E order \in Orders(cc) :
                   Len(cc.pos) = 0 /\ FirstArg(base, cc) # Unspecified /\ Written(cc, order).kw[1][2] # FirstArg(base, cc)
\* (d) the statement's equation for every binding the caller got from getcallargs and did not edit:
\* call_with_callargs(obj, getcallargs(obj, *a, **k)) == obj( *a, **k ) wherever the right-hand side is pinned
\* (a fact about base function and wrapper, not about the state: examined once per session, on its first states)
ReplayIsTheCall == (mode = "args" /\ Len(store) <= 1 /\ out[1] \in {"idle", "gca"}) => \A cc \in ArgCallsOf[base], o \in 0..1 :
                      LET want == LawOutcome(base, ChainOf(o), cc)  got == ReplayLaw(base, ChainOf(o), Bind(base, cc)) IN
                      want = Unspecified \/ got = Unspecified \/ got = want
ArgBindings == mode = "args" => BindingsAreBindings
\* (e) a decorated function is a wrapper of ITS function only: the twins never answer for each other
DecoLaws == (mode = "deco" /\ out[1] = "dret") =>
               LET ob == dobjs[out[2]] IN
               /\ out[4] = LawOutcome(FnSig(ob.fn), ob.chain, out[3])
               /\ out[5][3 - ob.fn] = 0
               /\ (~HasBad(out[3]) /\ Len(out[3].pos) + Len(out[3].kw) < 2) => out[4] # LawOutcome(FnSig(3 - ob.fn), ob.chain, out[3])
MechRefinesMC == mode = "heap" => MechRefines
\* the pointer heap: no root ever shows another chain than the one it showed when it was handed out
MechOnlyNewObject == [][\A i \in 1..Len(roots) : View(cells', roots'[i]) = View(cells, roots[i])]_mcvars
=============================================================================
