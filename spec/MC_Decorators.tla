--------------------------- MODULE MC_Decorators ---------------------------
(* Property C18 on the specification, and the source of the S2C cases.                          *)
(* One TLC run explores the union of four small machines, selected by `mode`:                     *)
(*   "bind"  every signature (60) x every call of the call universe, one Call(0, cc) each         *)
(*   "heap"  the wrapper heap: every history of <= MaxWraps Wrap steps over the 7 decorator kinds *)
(*           (any existing object as the target; from step LastOnlyFrom on only the newest)       *)
(*   "memo"  the memo of cache(base): every call sequence over the key menu                       *)
(*   "chain" one state per (base signature, normal-form chain of <= MaxChain layers): the clauses   *)
(*           about CALLS on a wrapper object (layer-by-layer evaluation = law, fallback iff raises,*)
(*           kwargs_support drops exactly ..., wrapping twice = once); in the generator the table  *)
(*           (signature, chain) -> expected outcome of every call of the menu                      *)
(* The generator actions (NextGen) print, with PrintT(ToJson(..)), the case and what the          *)
(* specification expects; `hist` is only ever extended by them.  MC_Decorators_today.cfg runs the  *)
(* pointer-heap model of TODAY's wrapper.__init__ (FixedCode = FALSE), which breaks MechRefinesMC. *)
EXTENDS Decorators, Json
CONSTANTS MaxWraps, LastOnlyFrom, MaxChain, MaxCalls, Wide, Modes
VARIABLES mode, hist
mcvars == <<base, objs, cells, roots, memo, evals, out, mode, hist>>

\* ------------------------------------------------------------------ universes
PlainSigs == {s \in [npos : 0..4, ndef : 0..4, varargs : BOOLEAN, varkw : BOOLEAN, alt : {FALSE}] : s.ndef <= s.npos}
\* the twin of every signature with defaults: same code, other default values (a function factory, lambdas in a loop)
AltSigs   == {[s EXCEPT !.alt = TRUE] : s \in {z \in PlainSigs : z.ndef >= 1}}
AllSigs   == PlainSigs \cup AltSigs
S(np, nd, va, vk) == [npos |-> np, ndef |-> nd, varargs |-> va, varkw |-> vk, alt |-> FALSE]
\* base functions of the heap histories:  f(a, b='db')   f(a, *args, **kw)   f(a='da', b='db', **kw)
\*                                        f( *args )      f(a, b, c='dc')
BaseSigs == {S(2, 1, FALSE, FALSE), S(1, 0, TRUE, TRUE), S(2, 2, FALSE, TRUE)}
            \cup (IF Wide THEN {S(0, 0, TRUE, FALSE), S(3, 1, FALSE, FALSE)} ELSE {})

\* abstract call: k positional arguments, the set of names passed by keyword, and whether the
\* first argument carries the value that makes the base function raise ("bad") or return None ("quiet").  The value of an argument
\* belongs to the parameter, not to the way it is passed: all valid splits of one argument set
\* between positional and keyword passing must give one binding (SplitIndependent).
AllNames  == ParamNames \o <<"x", "y">>
NameValOf == [a |-> VInt(1), b |-> VInt(2), c |-> VInt(3), d |-> VInt(4), x |-> VStr("kx"), y |-> VStr("ky")]
Tup(f) == <<>> \o f
MarkVal(m) == IF m = "bad" THEN Bad ELSE Quiet
CC(ac) == LET names == SelectSeq(AllNames, LAMBDA n : n \in ac.kw) IN
          [pos |-> Tup([i \in 1..ac.k |-> IF ac.mark # "ok" /\ i = 1 THEN MarkVal(ac.mark) ELSE VInt(i)]),
           kw  |-> Tup([j \in 1..Len(names) |-> <<names[j], IF ac.mark # "ok" /\ ac.k = 0 /\ j = 1 THEN MarkVal(ac.mark) ELSE NameValOf[names[j]]>>])]
\* the twins are called so that their defaults show: positional arguments only
AbsCalls(sig) == {ac \in [k : 0..(sig.npos + 2), kw : SUBSET Range(AllNames), mark : {"ok", "bad"}] :
                    /\ ac.mark # "ok" => (ac.k > 0 \/ ac.kw # {})
                    /\ sig.alt => (ac.kw = {} /\ ac.mark = "ok" /\ ac.k <= sig.npos)
                    /\ Valid(sig, DropUndeclared(sig, CC(ac)))}       \* valid for f, or for kwargs_support(f)
MenuFor(sig) == {CC(ac) : ac \in {z \in [k : 0..2, kw : SUBSET {"a", "b", "x"}, mark : {"ok", "bad", "quiet"}] :
                                     /\ z.mark # "ok" => (z.k > 0 \/ z.kw # {})
                                     /\ (z.mark = "quiet" => z.kw \subseteq {"a"})
                                     /\ Valid(sig, DropUndeclared(sig, CC(z)))}}
\* constant-level tables (TLC evaluates them once)
AbsCallsOf == [sig \in AllSigs |-> AbsCalls(sig)]
MenuOf     == [sig \in BaseSigs |-> MenuFor(sig)]
Menu(sig)  == MenuOf[sig]

\* keys of the memo machine on f(a, b='db'): f(1) f(a=1) f(a=1, b=2) f('quiet') -> None, and f(-1) f(-2): two
\* distinct combinations whose hashes happen to be equal in CPython | f(1, 2) f(1, b=2)
MemoSig  == S(2, 1, FALSE, FALSE)
Key(ps, ks) == [pos |-> ps, kw |-> ks]
MemoKeys == {Key(<<VInt(1)>>, <<>>), Key(<<>>, <<<<"a", VInt(1)>>>>), Key(<<>>, <<<<"a", VInt(1)>>, <<"b", VInt(2)>>>>),
             Key(<<Quiet>>, <<>>), Key(<<VInt(-1)>>, <<>>), Key(<<VInt(-2)>>, <<>>)}
            \cup (IF Wide THEN {Key(<<VInt(1), VInt(2)>>, <<>>), Key(<<VInt(1)>>, <<<<"b", VInt(2)>>>>)} ELSE {})

SeqsUpTo(Z, n) == UNION {[1..m -> Z] : m \in 0..n}
NormalChains == {Tup(ch) : ch \in {z \in SeqsUpTo(Layers, MaxChain) : DistinctClasses(z)}}

\* ------------------------------------------------------------------ the machines
\* The shape of the heap does not depend on the base function, the outcome of a call depends only on
\* (base function, chain of the object called): "heap" runs on one base function, "chain" has one
\* initial state per (base function, reachable chain) and carries the clauses about calls.
Init == /\ mode \in Modes /\ hist = <<>>
        /\ \/ mode = "bind" /\ \E sig \in AllSigs : SessionInit(sig)
           \/ mode = "heap" /\ SessionInit(MemoSig)
           \/ mode = "memo" /\ SessionInit(MemoSig)
           \/ mode = "chain" /\ \E sig \in BaseSigs, ch \in NormalChains :
                  /\ base = sig /\ objs = <<ch>> /\ cells = <<>> /\ roots = <<>>
                  /\ memo = <<>> /\ evals = 0 /\ out = <<"idle", 0>>

CanWrap(target) == /\ Len(objs) < MaxWraps
                   /\ (Len(objs) + 1 >= LastOnlyFrom => target = Len(objs))
BindStep   == /\ mode = "bind" /\ out[1] = "idle" /\ \E ac \in AbsCallsOf[base] : Call(0, CC(ac))
              /\ UNCHANGED <<mode, hist>>
WrapStep   == /\ mode = "heap" /\ \E kind \in Kinds, target \in 0..Len(objs) : CanWrap(target) /\ Wrap(LayerOf(kind), target)
              /\ UNCHANGED <<mode, hist>>
CachedStep == /\ mode = "memo" /\ \E cc \in MemoKeys : CallCached(cc)
              /\ UNCHANGED <<mode, hist>>
\* (TLC checks the invariants of initial states on one thread: the clauses about calls are attached to the
\*  state after this step so that all workers share them)
ChainStep  == /\ mode = "chain" /\ out[1] = "idle" /\ out' = <<"table", 0>>
              /\ UNCHANGED <<base, objs, cells, roots, memo, evals, mode, hist>>
Next == BindStep \/ WrapStep \/ CachedStep \/ ChainStep

\* ------------------------------------------------------------------ generator (S2C)
SingleOuts(sig, cc) ==
    LET ks == SelectSeq(BindKindSeq, LAMBDA kind : ValidFor(sig, <<LayerOf(kind)>>, cc)) IN
    Tup([i \in 1..Len(ks) |-> <<ks[i], LawOutcome(sig, <<LayerOf(ks[i])>>, cc)>>])
GenBind == mode = "bind" /\ out[1] = "idle" /\ \E ac \in AbsCallsOf[base] : LET cc == CC(ac) IN
    /\ Call(0, cc) /\ UNCHANGED <<mode, hist>>
    /\ PrintT(ToJson([part |-> "bind", sig |-> base, cc |-> cc, valid |-> Valid(base, cc),
                      bind |-> IF Valid(base, cc) THEN Bind(base, cc) ELSE Unspecified,
                      ret  |-> IF Valid(base, cc) THEN BaseOutcome(base, cc) ELSE Unspecified,
                      argspec |-> ArgSpec(base), outs |-> SingleOuts(base, cc)]))
GenWrap == mode = "heap" /\ \E kind \in Kinds, target \in 0..Len(objs) :
    /\ CanWrap(target) /\ Wrap(LayerOf(kind), target) /\ hist' = Append(hist, <<kind, target>>) /\ UNCHANGED mode
    /\ PrintT(ToJson([part |-> "heap", hist |-> hist', objs |-> objs']))
GenCached == mode = "memo" /\ Len(hist) < MaxCalls /\ \E cc \in MemoKeys :
    /\ CallCached(cc) /\ hist' = Append(hist, cc) /\ UNCHANGED mode
    /\ PrintT(ToJson([part |-> "memo", sig |-> base, calls |-> hist', out |-> out'[4], evals |-> evals']))
GenChain ==
    /\ mode = "chain" /\ out[1] = "idle" /\ out' = <<"table", 0>>
    /\ UNCHANGED <<base, objs, cells, roots, memo, evals, mode, hist>>
    /\ LET ms == SetToSeq({cc \in Menu(base) : ValidFor(base, objs[1], cc)}) IN
       PrintT(ToJson([part |-> "chain", sig |-> base, chain |-> objs[1], argspec |-> ArgSpec(base),
                      outs |-> Tup([i \in 1..Len(ms) |-> <<ms[i], LawOutcome(base, objs[1], ms[i])>>])]))
NextGen == GenBind \/ GenWrap \/ GenCached \/ GenChain

\* the memo machine says what the statement says about the whole call sequence (generator run: hist = the calls)
MemoIsLaw == (mode = "memo" /\ hist # <<>>) => (out[4] = LawOuts(base, hist)[Len(hist)] /\ evals = LawEvals(hist))

\* ------------------------------------------------------------------ properties (one per clause)
\* (a) binding is total on valid calls, loses and invents nothing, and does not depend on the split
SplitIndependent(sig, ac) ==
    (ac.k >= 1 /\ ac.k <= sig.npos /\ Valid(sig, CC(ac))) =>
        LET moved == [ac EXCEPT !.k = @ - 1, !.kw = @ \cup {PName(ac.k)}] IN
        Valid(sig, CC(moved)) /\ Bind(sig, CC(moved)) = Bind(sig, CC(ac))
\* (checked on the call just made: out = <<"ret", 0, cc, outcome>>)
BindLaws == (mode = "bind" /\ out[1] = "ret") =>
                LET ac == [k |-> Len(out[3].pos), kw |-> KwNames(out[3]), mark |-> IF HasBad(out[3]) THEN "bad" ELSE "ok"] IN
                CC(ac) = out[3] /\ BindConserves(base, out[3]) /\ SplitIndependent(base, ac)
\* the last public call: a valid call on the plain function returns its bindings (or raises on Bad)
BindTotal == (mode = "bind" /\ out[1] = "ret" /\ Valid(base, out[3])) =>
                out[4] = (IF HasBad(out[3]) THEN Raises("ValueError") ELSE Bind(base, out[3]))
\* two functions with one code object report their own defaults and bind them
TwinsDiffer == (mode = "bind" /\ base.alt) =>
                  LET twin == [base EXCEPT !.alt = FALSE] IN
                  /\ ArgSpec(base).defaults # ArgSpec(twin).defaults /\ ArgSpec(base).args = ArgSpec(twin).args
                  /\ (out[1] = "ret" /\ Len(out[3].pos) < base.npos) => out[4] # Bind(twin, out[3])
\* (b) calls on an object with chain Newest over the base function
Newest == objs[1]
ChainState == mode = "chain" /\ out[1] = "table"
\* layer-by-layer evaluation = the law, for every call of the menu
Transparent == ChainState => \A cc \in Menu(base) : ValidFor(base, Newest, cc) =>
                                ChainEval(base, Newest, cc) = LawOutcome(base, Newest, cc)
\* ... and where no try layer and no kwargs_support is involved it is literally what f returns
ReturnsWhatFReturns == ChainState => \A cc \in Menu(base) :
                          (Valid(base, cc) /\ ~HasBad(cc)) => ChainEval(base, Newest, cc) = (IF HasQuiet(cc) THEN None ELSE Bind(base, cc))
FallbackIffRaises == ChainState => \A cc \in Menu(base) : (ValidFor(base, Newest, cc) /\ TryIdx(Newest) # {}) =>
                          LET eff == Effective(base, Newest, cc) IN
                          ChainEval(base, Newest, cc) = (IF HasBad(eff) THEN Fallback(Newest[Max(TryIdx(Newest))], base, cc)
                                                         ELSE IF HasQuiet(eff) THEN None ELSE Bind(base, eff))
DropsExactlyUndeclared == ChainState => \A cc \in Menu(base) :
                          (HasCls(Newest, "kwargs_support") /\ ValidFor(base, Newest, cc) /\ ~HasBad(cc) /\ ~HasQuiet(cc)) =>
                              ChainEval(base, Newest, cc) =
                                  Bind(base, IF base.varkw THEN cc ELSE [cc EXCEPT !.kw = SelectSeq(@, LAMBDA p : p[1] \in Params(base))])
\* wrapping twice equals wrapping once, directly and through a chain of other decorators
WrapTwiceIsOnce == ChainState => \A ly \in Layers :
                      /\ NormalForm(ly, NormalForm(ly, Newest)) = NormalForm(ly, Newest)
                      /\ \A ly2 \in Layers : ly2[1] # ly[1] =>
                            NormalForm(ly, NormalForm(ly2, NormalForm(ly, Newest))) = NormalForm(ly, NormalForm(ly2, Newest))
\* the normal form behaves like the literal nesting W(chain), except (named InterleavedTry / MergeSameClass)
\* when W is a try wrapper that is already in the chain with another parameter or with the other try class around
NestingException(ly, ch) == IsTry(ly) /\ \E i \in 1..Len(ch) : ch[i][1] = ly[1] /\ (ch[i] # ly \/ \E j \in 1..Len(ch) : IsTry(ch[j]) /\ ch[j][1] # ly[1])
NormalFormKeepsBehaviour == ChainState => \A ly \in Layers : (HasCls(Newest, ly[1]) /\ ~NestingException(ly, Newest)) =>
                               \A cc \in Menu(base) : ChainEval(base, <<ly>> \o Newest, cc) = ChainEval(base, NormalForm(ly, Newest), cc)
MechRefinesMC == mode = "heap" => MechRefines
\* the pointer heap: no root ever shows another chain than the one it showed when it was handed out
MechOnlyNewObject == [][\A i \in 1..Len(roots) : View(cells', roots'[i]) = View(cells, roots[i])]_mcvars
=============================================================================
