CONSTANTS NthYears = {2000, 2001, 2020, 2023}
          Days <- QuickDays
          GenDays <- QuickGenDays
INIT GenInit
NEXT GenNext
