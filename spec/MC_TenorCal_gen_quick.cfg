CONSTANTS NthYears = {2000, 2001, 2020, 2023}
          Days <- QuickDays
          GenDays <- QuickGenDays
          GenFams = {"gmon", "gnth", "gnum", "gnumb", "gnp", "gper", "gfmt"}
INIT GenInit
NEXT GenNext
