CONSTANTS Fam = "pivot"
          NameIds = {1}
          Rows = 2
          Rich = FALSE
INIT Init
NEXT Next
INVARIANT SubLaw
