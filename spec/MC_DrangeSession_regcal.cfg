\* must violate RegistryBlind: business days asked of the default calendar of the registry
CONSTANTS Variant = "regcal"
          MaxCalls = 1
          Scope = "quick"
          Family = "none"
INIT Init
NEXT Next
INVARIANT RegistryBlind
