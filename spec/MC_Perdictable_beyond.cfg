CONSTANT Sizes <- SZ_beyond
INIT Init
NEXT Next
INVARIANT ComputedRows
