CONSTANTS MaxLenS = 4
          MaxRowsS = 2
          MaxListS = 2
          LimsS = {0, 1, 2}
          MaxCalls = 2
          Consume = FALSE
          Emit = TRUE
INIT Init
NEXT NextGen
INVARIANT SIntact
INVARIANT SRefines
