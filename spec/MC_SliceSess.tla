----------------------------- MODULE MC_SliceSess -----------------------------
(* Property C13, sessions (law: SliceSess.tla).  One behaviour = one history of public calls and  *)
(* of the caller's own in-place edits on ONE world of caller-owned objects (a list of series, a   *)
(* list of bounds, the frame the last stitch returned).  Form chooses the histories:              *)
(*   "stitch2": stitch(n) ; [edit] ; stitch(m)      edit = a value of a series / of the returned   *)
(*              frame overwritten, a bound moved, two list members swapped, a list member          *)
(*              replaced by a new (shorter) series object - all on the SAME list objects;          *)
(*   "frame"  : stitch(n) ; c ; [edit] ; c'         c = unslice or a slice of the frame; edit = a   *)
(*              cell of the frame corrected / erased in place, the result of c scribbled over,      *)
(*              a bound moved; c' = c again (a slice also with one of lb / ub / brackets changed);  *)
(*   "slice2" : slice(q) ; [edit] ; slice(q')       on one series object (worlds with one series),  *)
(*              q' = q or q with one of lb / ub / brackets changed (AllPairs: any q');              *)
(*   "free"   : any enabled step, MaxSteps of them (run with -simulate).                           *)
(* Gen = TRUE prints every complete history with the world (and the result) the specification      *)
(* expects after every step.  Memo chooses a mechanism model with a memory, compared with the law  *)
(* by the invariants below ("none" = no memory; "unslice" = df_unslice remembers the last frame    *)
(* object with its shape and bounds; "trim" = n-column stitching cuts the series to the windows    *)
(* that use them and stores them back into the list it was given).                                *)
EXTENDS SliceSess, TLC, Json
CONSTANTS SessCfg, OneCfg, HeapKind, Alias, Forms, MaxSteps, Gen, Memo, AllPairs, Erase, EditStride, SliceStride

\* form: the shape of the history; nc: calls so far; ed: the caller has edited something; q1: the first call after the stitch
\* (form "slice2": the first call); hist: the history with the expected worlds (generator only)
\* pick: form "free" draws the KIND of the next step first (so that a simulated history does not consist of the many slices)
VARIABLES w, w0, form, hist, last, nst, nc, ed, q1, frid, memo, mout, mheap, pick
vars == <<w, w0, form, hist, last, nst, nc, ed, q1, frid, memo, mout, mheap, pick>>

OCs == {<<"[", "]">>, <<"[", ")">>, <<"(", "]">>, <<"(", ")">>}
Act(op) == [op |-> op, tgt |-> "", i |-> 0, j |-> 0, r |-> 0, v |-> 0, n |-> 0, b |-> 0, lb |-> 0, ub |-> 0,
            oc |-> <<"(", "]">>, s |-> NoFrame]
NoAct == Act("none")
SeriesOn(T, code) == LET ts == SetToSortSeq(T, <) IN [rows |-> ts, cols |-> <<[i \in 1..Len(ts) |-> code + ts[i]]>>]
Pts(P) == {2 * i : i \in 1..P}
PointSets(P) == CASE HeapKind = "full" -> {Pts(P)}
                  [] HeapKind = "near" -> {Pts(P)} \cup {Pts(P) \ {t} : t \in Pts(P)}
                  [] OTHER -> SUBSET Pts(P)
IdLists(K) == {[i \in 1..K |-> i]} \cup (IF Alias /\ K >= 2 THEN {[i \in 1..K |-> IF i = 2 THEN 1 ELSE i]} ELSE {})
\* named universes (a cfg file cannot write sets of tuples)
SessTiny  == {<<2, 2>>}
SessSmall == {<<2, 3>>, <<3, 2>>}
SessMid   == {<<2, 3>>, <<3, 2>>, <<3, 3>>}
SessOne   == {<<1, 3>>}
SessOneBig == {<<1, 4>>}
FormsPairs == {"stitch2", "frame", "slice2"}
FormsFree  == {"free"}

Init == /\ form \in Forms
        /\ \E kp \in (IF form = "slice2" THEN OneCfg ELSE SessCfg) :
              \E Ts \in [1..kp[1] -> PointSets(kp[2])], ids \in IdLists(kp[1]),
                 v \in {u \in [1..kp[1] -> 1..(2 * kp[2] + 1)] : Monotone(u)} :
                    /\ form = "slice2" => v[1] = 1         \* (the bound list plays no part in a session of single slices)
                    /\ w0 = [heap |-> [i \in 1..kp[1] |-> SeriesOn(Ts[i], 1000 * i)], ids |-> ids,
                             bl |-> v, fr |-> NoFrame, fn |-> 0]
        /\ w = w0 /\ hist = <<>> /\ last = NoAct /\ nst = 0 /\ nc = 0 /\ ed = FALSE /\ q1 = NoAct
        /\ frid = 0 /\ mout = <<>> /\ mheap = w0.heap /\ pick = ""
        /\ memo = [frid |-> -1, bl |-> <<>>, shape |-> <<0, 0>>, res |-> <<>>]

\* ---- the alphabets ------------------------------------------------------------------------------------
K == Len(w.ids)
Top == LET m == CHOOSE m \in 1..40 : \A h \in 1..Len(w0.heap) : \A r \in 1..NRows(w0.heap[h]) : w0.heap[h].rows[r] <= m IN m + 1
NewVal(v) == IF v = NaN THEN 7777 ELSE IF v >= 500000 THEN v - 499000 ELSE v + 500000
StitchSteps == {[Act("stitch") EXCEPT !.n = m] : m \in 1..K}
UnsliceStep == Act("unslice")
NewVals(v) == {NewVal(v)} \cup (IF Erase THEN {NaN} ELSE {})
SetS == UNION {UNION {{[Act("set") EXCEPT !.tgt = "s", !.i = i, !.r = r, !.j = 1, !.v = v] : v \in NewVals(SS(w)[i].cols[1][r])} :
                    r \in 1..NRows(SS(w)[i])} : i \in 1..K}
SetF == UNION {UNION {{[Act("set") EXCEPT !.tgt = "f", !.r = r, !.j = j, !.v = v] : v \in NewVals(w.fr.cols[j][r])} :
                    r \in 1..NRows(w.fr)} : j \in 1..w.fn}
\* a correction: a value that is there gets another value (the frame stays a stitched frame)
Correction(a) == a.v # NaN /\ (IF a.tgt = "f" THEN w.fr.cols[a.j][a.r] # NaN ELSE TRUE)
BoundSteps == {[Act("bound") EXCEPT !.i = i, !.b = b] : i \in 1..K, b \in 1..Top}
NearBound(a) == a.b \in {w.bl[a.i] - 1, w.bl[a.i] + 1}
SwapSteps == {[Act("swap") EXCEPT !.i = i, !.j = j] : i \in 1..K, j \in 1..K}
DropLast(s) == [rows |-> SubSeq(s.rows, 1, NRows(s) - 1), cols |-> <<SubSeq(s.cols[1], 1, NRows(s) - 1)>>]
DropFirst(s) == [rows |-> Tail(s.rows), cols |-> <<Tail(s.cols[1])>>]
PutSteps == UNION {{[Act("put") EXCEPT !.i = i, !.s = c] :
                       c \in (IF NRows(SS(w)[i]) >= 1 THEN {DropLast(SS(w)[i]), DropFirst(SS(w)[i])} ELSE {})} : i \in 1..K}
QBounds == {0, 3, 4}
SliceSteps(tgt, I) == {[Act("slice") EXCEPT !.tgt = tgt, !.i = i, !.lb = l, !.ub = u, !.oc = o] :
                          i \in I, l \in QBounds, u \in QBounds, o \in OCs}
FrameQueries == {q \in SliceSteps("f", {0}) : <<q.lb, q.ub, q.oc>> \in
                    {<<0, 4, <<"(", "]">>>>, <<3, 0, <<"[", ")">>>>, <<3, 4, <<"[", "]">>>>, <<4, 4, <<"[", "]">>>>, <<3, 4, <<"(", ")">>>>}}
Smudge(t) == [Act("smudge") EXCEPT !.tgt = t]
NDiff(a, b) == (IF a.lb # b.lb THEN 1 ELSE 0) + (IF a.ub # b.ub THEN 1 ELSE 0) + (IF a.oc # b.oc THEN 1 ELSE 0)
\* thinning of the breadth-first forms: of the caller's edits (and of the first slice of a frame) every EditStride-th
\* (SliceStride-th) is taken, counted from a number that moves with the world and the step, so that every kind of edit is
\* taken somewhere; the corrections between two df_unslice calls are never thinned
RECURSIVE SumSeq(_)
SumSeq(q) == IF q = <<>> THEN 0 ELSE Head(q) * (Len(q) + 1) + SumSeq(Tail(q))
StepNo(a) == SumSeq(w0.bl) + a.i + (3 * a.j) + (5 * a.r) + (7 * a.n) + (2 * a.b) + (4 * a.lb) + (3 * a.ub) + NRows(a.s) + last.n
             + (IF Closed(a.oc[1]) THEN 1 ELSE 0) + (IF Closed(a.oc[2]) THEN 2 ELSE 0) + (IF a.v = NaN THEN 1 ELSE 0) + q1.lb + q1.ub + nst
PickedEdit(a)  == StepNo(a) % EditStride = 0
PickedSlice(a) == StepNo(a) % SliceStride = 0
\* which steps the form admits next
Admits(a) ==
    CASE form = "stitch2" ->
            \/ a.op = "stitch" /\ nc < 2
            \/ nc = 1 /\ ~ed /\ PickedEdit(a) /\ \/ a.op = "set" /\ Correction(a) /\ (a.tgt = "f" => a.j = 1)
                                                 \/ a.op = "bound" /\ NearBound(a)
                                                 \/ a.op \in {"swap", "put"}
      [] form = "frame" ->
            \/ nc = 0 /\ a.op = "stitch"
            \/ nc = 1 /\ ~ed /\ (a.op = "unslice" \/ (a.op = "slice" /\ a \in FrameQueries /\ PickedSlice(a)))
            \/ nc = 2 /\ ~ed /\ \/ a.op = "set" /\ a.tgt = "f" /\ (IF q1.op = "unslice" THEN Correction(a) ELSE PickedEdit(a))
                                \/ a.op = "smudge" /\ a.tgt = (IF q1.op = "unslice" THEN "un" ELSE "sl")
                                \/ a.op = "bound" /\ NearBound(a) /\ q1.op = "unslice"
            \/ nc = 2 /\ a.op = "unslice" /\ q1.op = "unslice"
            \/ nc = 2 /\ a.op = "slice" /\ a \in FrameQueries /\ q1.op = "slice" /\ NDiff(a, q1) <= 1
      [] form = "slice2" ->
            \/ nc = 0 /\ a.op = "slice" /\ a.tgt = "s"
            \/ nc = 1 /\ ~ed /\ ((a.op = "set" /\ a.tgt = "s" /\ PickedEdit(a)) \/ (a.op = "smudge" /\ a.tgt = "sl"))
            \/ nc = 1 /\ a.op = "slice" /\ a.tgt = "s" /\ a.i = q1.i /\ (AllPairs \/ NDiff(a, q1) <= 1)
      [] OTHER -> nst < MaxSteps /\ (a.op = "smudge" => last.op = (IF a.tgt = "un" THEN "unslice" ELSE "slice"))
                             /\ (a.op = "slice" => <<a.lb, a.ub, a.oc>> \in {<<q.lb, q.ub, q.oc>> : q \in FrameQueries})
                             /\ (a.op = "bound" => NearBound(a))
Complete == CASE form = "stitch2" -> nc = 2
              [] form = "frame"   -> nc = 3
              [] form = "slice2"  -> nc = 2
              [] OTHER -> nst = MaxSteps

Alphabet == StitchSteps \cup {UnsliceStep} \cup SetS \cup (IF w.fn >= 1 THEN SetF ELSE {}) \cup BoundSteps \cup SwapSteps \cup PutSteps
            \cup SliceSteps("s", 1..K) \cup (IF w.fn >= 1 THEN FrameQueries ELSE {}) \cup {Smudge("un"), Smudge("sl")}

\* ---- mechanism models with a memory (Memo) ----------------------------------------------------------
\* the frame is a new object after every stitch; an in-place edit keeps the object
MechUnslice == IF Memo = "unslice" /\ memo.frid = frid /\ memo.bl = w.bl /\ memo.shape = <<NRows(w.fr), w.fn>>
               THEN memo.res ELSE Unstitch(w.fr, w.bl, w.fn)
\* series at list position i cut to [lb of window max(i-n+1, 1), ub of window i] and stored back
Trimmed(ww, n) == [h \in 1..Len(ww.heap) |->
    IF \E i \in 1..Len(ww.ids) : ww.ids[i] = h
    THEN LET i == CHOOSE i \in 1..Len(ww.ids) : ww.ids[i] = h
             lo == LoOf(ww.bl, IF i - n + 1 >= 1 THEN i - n + 1 ELSE 1) IN
         Slice(ww.heap[h], lo, ww.bl[i], <<"[", "]">>, "date", 0)
    ELSE ww.heap[h]]

Kinds == {"stitch", "unslice", "slice", "set", "bound", "swap", "put", "smudge"}
Choose == /\ form = "free" /\ pick = "" /\ ~Complete /\ nst < 90
          /\ \E k \in Kinds : {a \in Alphabet : a.op = k /\ Admits(a) /\ StepEnabled(w, a)} # {} /\ pick' = k
          /\ UNCHANGED <<w, w0, form, hist, last, nst, nc, ed, q1, frid, memo, mout, mheap>>
Step == \E a \in Alphabet :
    /\ ~Complete /\ nst < 90 /\ (form = "free" => a.op = pick) /\ Admits(a) /\ StepEnabled(w, a) /\ pick' = ""
    /\ w' = Apply(w, a) /\ last' = a /\ nst' = nst + 1
    /\ nc' = IF IsCall(a) THEN nc + 1 ELSE nc
    /\ ed' = (ed \/ ~IsCall(a))
    /\ q1' = IF IsCall(a) /\ nc = (IF form = "slice2" THEN 0 ELSE 1) THEN a ELSE q1
    /\ frid' = IF a.op = "stitch" THEN frid + 1 ELSE frid
    /\ mout' = IF a.op = "unslice" THEN MechUnslice ELSE mout
    /\ memo' = IF a.op = "unslice" THEN [frid |-> frid, bl |-> w.bl, shape |-> <<NRows(w.fr), w.fn>>, res |-> MechUnslice] ELSE memo
    /\ mheap' = IF Memo = "trim" /\ a.op = "stitch" /\ a.n > 1 /\ Increasing(w.bl) THEN Trimmed(w, a.n) ELSE w'.heap
    /\ hist' = IF Gen THEN Append(hist, [a |-> a, w |-> w', res |-> Result(w, a)]) ELSE hist
    /\ UNCHANGED <<w0, form>>
Finish == /\ Gen /\ Complete /\ nst < 90
          /\ nst' = 99 /\ PrintT(ToJson([form |-> form, w0 |-> w0, steps |-> hist]))
          /\ UNCHANGED <<w, w0, form, hist, last, nc, ed, q1, frid, memo, mout, mheap, pick>>
Next == Choose \/ Step \/ Finish

\* ---- the clauses ----------------------------------------------------------------------------------------
TypeOK == WorldOK(w) /\ WorldOK(w0)
\* a stitched frame of series that record no NaN can be taken apart again: df_unslice is enabled after such a stitch
NaNFreeWorld == \A h \in 1..Len(w.heap) : ~(NaN \in RangeOf(w.heap[h].cols[1]))
StitchedCanUnstitch == (last.op = "stitch" /\ Increasing(w.bl) /\ NaNFreeWorld) => CanUnstitch(w.fr, w.bl, w.fn)
\* a correction written into a stitched frame leaves a stitched frame, and shows in exactly one recovered series
CorrectionKeepsStitched == [][(last'.op = "set" /\ last'.tgt = "f" /\ last'.v # NaN /\ w.fr.cols[last'.j][last'.r] # NaN
                               /\ CanUnstitch(w.fr, w.bl, w.fn)) =>
        /\ CanUnstitch(w'.fr, w'.bl, w'.fn)
        /\ LET U == Unstitch(w.fr, w.bl, w.fn)  V == Unstitch(w'.fr, w'.bl, w'.fn) IN
           Cardinality({i \in 1..Len(U) : U[i] # V[i]}) = 1]_vars
\* no memory: what the mechanism answers is admitted by the law for the frame as it is now
UnsliceNoMemory == (last.op = "unslice") => IsUnstitch(mout, w.fr, w.bl, w.fn)
\* a call owns nothing of the caller: the lists, the series (and for calls other than stitch the frame) are as before
CallsOwnNothing == [][IsCall(last') /\ nst' # nst =>
                        /\ w'.ids = w.ids /\ w'.bl = w.bl /\ w'.heap = w.heap /\ mheap' = w.heap
                        /\ (last'.op # "stitch" => w'.fr = w.fr /\ w'.fn = w.fn)]_vars
\* the answer of a stitch is the law applied to the world at that moment (not to the world of an earlier call)
StitchNoMemory == (last.op = "stitch") => w.fr = Stitch(SS(w), w.bl, w.fn)
Spec == Init /\ [][Next]_vars
=============================================================================
