\* S2C generator, single units: every start day of Jan-Mar 2000 (leap February) x n in -60..60
CONSTANTS Years = {}
          NMax = 60
          GenY = 2000
          GenM0 = 1
          GenM1 = 3
INIT InitGenU
NEXT GenU
