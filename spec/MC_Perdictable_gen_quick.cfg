CONSTANT Sizes <- SZ_gen_quick
INIT Init
NEXT Gen
