-------------------------- MODULE Trace_CfgStoreReg --------------------------
(* Trace validation for extension X04-b.  Every line of the log is ONE recorded history of calls  *)
(* in one real process (no configuration files):  [id, events]  with the events                    *)
(*    [op |-> "get",   names, got]           get_cache(names..) and what came back                 *)
(*    [op |-> "store", names, key, value, got]   get_cache(names..)[key] = value                   *)
(*    [op |-> "fetch", names, key, got]      key in get_cache(names..), and the value              *)
(*    [op |-> "write", cfg, got]             cfg_write(a new dict with the items cfg)              *)
(*    [op |-> "read", got]                   cfg_read()                                            *)
(* got = [kind |-> "obj", tok, keys]  (tok = the first event of the history that returned / handed *)
(* in the identical object)  or  [kind |-> "item", has, val]  or  [kind |-> "exc", cls].            *)
(* One TLC behaviour per history, stepped by the SAME actions as the model-checked specification;  *)
(* each event is judged against what the specification says it must show.                           *)
EXTENDS CfgStoreReg, Batch

Report(v) == IF v = "" THEN TRUE ELSE Reject(1000 * c + l + 1, v)
AsSet(q) == {q[i] : i \in DOMAIN q}

Judge(g) == IF g.kind = "exc" THEN "raised"
            ELSE IF last'.kind = "none" THEN ""
            ELSE IF g.kind # last'.kind THEN "wrong_kind_of_result"
            ELSE IF last'.kind = "obj" THEN
                    (IF g.tok # last'.tok THEN "one_object_per_name"
                     ELSE IF AsSet(g.keys) # last'.keys THEN "object_contents" ELSE "")
            ELSE IF g.has # last'.has THEN "stored_item_lost"
            ELSE IF g.val # last'.val THEN "stored_item_value" ELSE ""

Init == c \in 1..N /\ l = 0 /\ RInit
Next == /\ l < Len(Obs[c].events)
        /\ LET e == Obs[c].events[l + 1] IN
              \/ e.op = "get"   /\ GetCache(e.names) /\ Report(Judge(e.got))
              \/ e.op = "store" /\ Store(e.names, e.key, e.value) /\ Report(Judge(e.got))
              \/ e.op = "fetch" /\ Fetch(e.names, e.key) /\ Report(Judge(e.got))
              \/ e.op = "write" /\ Write(AsSet(e.cfg)) /\ Report(Judge(e.got))
              \/ e.op = "read"  /\ Read /\ Report(Judge(e.got))
        /\ l' = l + 1 /\ c' = c
=============================================================================
