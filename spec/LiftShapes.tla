----------------------------- MODULE LiftShapes -----------------------------
(* Enumeration of container shapes and of the leaves put into them, shared by the model-checking *)
(* modules of property C19 (MC_Lift, MC_LiftWaiter).                                             *)
EXTENDS Lift

Kinds == {"l", "t", "m"}
LeafS == <<"o", <<>>>>
SeqsUpTo(S, n) == UNION {[1..k -> S] : k \in 0..n}
RECURSIVE Shapes(_, _)
Shapes(d, w) == IF d = 0 THEN {LeafS}
                ELSE LET sub == Shapes(d - 1, w) IN {LeafS} \cup {<<k, s>> : k \in Kinds, s \in SeqsUpTo(sub, w)}
RECURSIVE Uniform(_)
Uniform(d) == IF d = 0 THEN {LeafS} ELSE {<<k, <<s, s>>>> : k \in Kinds, s \in Uniform(d - 1)}
RECURSIVE Spine(_)
Spine(d) == IF d = 0 THEN {LeafS}
            ELSE LET sub == Spine(d - 1) IN
                 {<<k, <<LeafS, s>>>> : k \in Kinds, s \in sub} \cup {<<k, <<s, LeafS>>>> : k \in Kinds, s \in sub}
RECURSIVE Chain(_)
Chain(d) == IF d = 0 THEN {LeafS} ELSE {<<k, <<s>>>> : k \in Kinds, s \in Chain(d - 1)}

KeyName == <<"a", "b", "c">>
\* a shape with its leaves filled in: leaf at path <<i1, i2, ..>> is leaf(4*(4*i1 + i2) + ..)
\* (leaf menus: "int" = the integer base + code; otherwise the code-th (cyclically) leaf of a universe)
UnarySeq == << VStr(""), VStr("ab"), VInt(3), VStr("Ab C"), VStr(" a b "), VFlt(3, 2), VStr("THE FOX"), VStr("1.3k"),
               None, VStr("100%"), VStr("1,234"), VFlt(2, 1), VStr("1.5"), VStr("7"), VBool(TRUE), VStr("2m"), VFlt(-1, 4) >>
RepSeq   == << VStr("a,b"), VStr("a b"), VInt(3), VStr("a  b"), VStr("a,,b"), VStr("ab"), VStr(""), None >>
SplSeq   == << VStr("a b"), VStr("a  b"), VStr("a.b c"), VInt(3), VStr(""), VStr("ab"), None >>
AwKinds == <<"fut", "coro", "task">>
Aw(i, kind) == <<"aw", <<i, kind, 0>>>>
Look(i, kind) == <<"look", <<i, kind>>>>
\* the realisation kinds beyond futures / coroutines / tasks, interleaved with them: rotating `base`
\* moves every kind over every position of a shape
AwKindsX  == <<"obj", "fut", "objnow", "coro", "objfut", "task", "objcoro", "gather", "objobj", "shield", "done", "coronow">>
LookSeq   == <<"gen", "cls", "afn", "inst", "agen", "attr">>
Cyc(seq, n) == seq[(n % Len(seq)) + 1]
LeafOf(menu, base, code) == CASE menu = "int" -> VInt(base + code)
                              [] menu = "unary" -> Cyc(UnarySeq, base + code)
                              [] menu = "rep"   -> Cyc(RepSeq, base + code)
                              [] menu = "spl"   -> Cyc(SplSeq, base + code)
                              [] menu = "aw"    -> Aw(base + code, Cyc(AwKinds, base + code))
                              [] menu = "co"    -> Aw(base + code, "coro")
                              [] menu = "awx"   -> Aw(base + code, Cyc(AwKindsX, base + code))
                              \* awaitables of the new kinds next to look-alikes and plain leaves
                              [] menu = "awlook" -> (CASE code % 3 = 1 -> Aw(base + code, Cyc(AwKindsX, base + (code \div 3)))
                                                      [] code % 3 = 2 -> Look(base + code, Cyc(LookSeq, base + (code \div 3)))
                                                      [] OTHER -> VInt(base + code))
                              [] menu = "awmix" -> IF code % 2 = 1 THEN Aw(base + code, Cyc(AwKinds, base + code)) ELSE VInt(base + code)
RECURSIVE Build(_, _, _, _)
Build(s, menu, base, code) ==
    IF s[1] = "o" THEN LeafOf(menu, base, code)
    ELSE IF s[1] = "m" THEN <<"m", [i \in 1..Len(s[2]) |-> <<KeyName[i], Build(s[2][i], menu, base, 4 * code + i)>>]>>
    ELSE <<s[1], [i \in 1..Len(s[2]) |-> Build(s[2][i], menu, base, 4 * code + i)]>>
\* every dict of x turned into an OrderedDict whose keys were inserted in reverse (not sorted) order
RECURSIVE Ord(_)
Ord(x) == IF Tag(x) = "m" THEN <<"om", [i \in 1..Width(x) |-> <<Pay(x)[Width(x) + 1 - i][1], Ord(Pay(x)[Width(x) + 1 - i][2])>>]>>
          ELSE IF IsSeq(x) THEN <<Tag(x), [i \in 1..Width(x) |-> Ord(Pay(x)[i])]>>
          ELSE x
RECURSIVE HasWideDict(_)
HasWideDict(s) == s[1] # "o" /\ ((s[1] = "m" /\ Len(s[2]) >= 2) \/ \E i \in 1..Len(s[2]) : HasWideDict(s[2][i]))
X(s)    == Build(s, "int", 0, 0)
Same(s) == Build(s, "int", 1000, 0)
=============================================================================
