---------------------- MODULE Trace_Bitemporal_Explain ----------------------
(* For the replay files of property C17: what the LAW of spec/Bitemporal.tla expects for a      *)
(* rejected read.  Each line of the file is  [hist, w, z]  (hist = the merge / again events     *)
(* before the read, <<w, z>> the read time as written); printed is, for that line, the as-of picture and the two admitted readings of     *)
(* "first value published".  Used only to fill the `expected` field of a reported violation.    *)
EXTENDS Bitemporal, Batch

RECURSIVE PubsOf(_, _)
PubsOf(ev, k) == IF k = 0 THEN <<>>
                 ELSE IF ev[k].op = "merge" THEN Append(PubsOf(ev, k - 1), <<<<ev[k].w, ev[k].z>>, SeqMap(ev[k].v)>>)
                 ELSE PubsOf(ev, k - 1)

Explain(i) ==
    LET o == Obs[i]
        p == PubsOf(o.hist, Len(o.hist))
        T == Instant(<<o.w, o.z>>)
        D == PublishedBy(p, T)
    IN  [line |-> i,
         latest |-> MapSeq(AsOf(p, T)),
         first_published |-> MapSeq([d \in D |-> FirstPublished(p, d, T)]),
         first_settled   |-> MapSeq([d \in D |-> FirstSettled(p, d, T)])]

Init == c = 1 /\ l = 0 /\ BInit
Next == /\ l < N
        /\ PrintT(ToJson(Explain(l + 1)))
        /\ l' = l + 1
        /\ UNCHANGED <<c, pubs, store, out>>
=============================================================================
