CONSTANTS MaxLen = 4
          MaxLenX = 3
INIT Init
NEXT Next
INVARIANT DedupLaw
INVARIANT UnionLaw
INVARIANT DiffLaw
INVARIANT InterLaw
INVARIANT Partition
INVARIANT SelfLaws
INVARIANT UlistMechanism
INVARIANT KeysCommute
INVARIANT SubsetLaws
INVARIANT PlusLaw
INVARIANT SelectLaw
INVARIANT RelabelLaw
INVARIANT DomainOk
INVARIANT EvaluatedAreFinal
INVARIANT Confluence
INVARIANT StuckOnlyIfCyclic
INVARIANT DoneOnlyIfAcyclic
INVARIANT CyclicNeverDone
INVARIANT OthersUntouched
INVARIANT LayeredIsLaw
