CONSTANTS MaxLen = 4
          MaxLenX = 3
          Kinds2 = {"req", "opt", "kwreq", "kwopt"}
          Kinds3 = {"req", "opt", "kwreq", "kwopt"}
          Kinds4 = {"req", "opt"}
          PathPolicy = "alongpath"
          MaxE4 = 4
INIT Init
NEXT Next
INVARIANT DedupLaw
INVARIANT UnionLaw
INVARIANT DiffLaw
INVARIANT InterLaw
INVARIANT Partition
INVARIANT SelfLaws
INVARIANT UlistMechanism
INVARIANT KeysCommute
INVARIANT SubsetLaws
INVARIANT PlusLaw
INVARIANT TreePlusLaw
INVARIANT PathLaw
INVARIANT PathLeavesOperand
INVARIANT SelectLaw
INVARIANT RelabelLaw
INVARIANT BlanketLaw
INVARIANT DomainOk
INVARIANT EvaluatedAreFinal
INVARIANT Confluence
INVARIANT StuckOnlyIfCyclic
INVARIANT DoneOnlyIfAcyclic
INVARIANT CyclicNeverDone
INVARIANT OthersUntouched
INVARIANT ArgumentsByName
INVARIANT LayeredIsLaw
