--------------------------- MODULE MC_Perdictable ---------------------------
(* Property C20 on the specification.                                                          *)
(* Initial states: for every size <<n, K, nk, cache, same>> of the constant Sizes, every         *)
(* configuration of n inputs, each a scalar or a table over any subset of the K keys (on nk key *)
(* columns), every subset of inputs with a default, and (cache = TRUE) every assignment          *)
(*    not computed | computed with expiry absent / past / future / None      to the K keys.     *)
(* Behaviours: Start (only inside the quantifier's domain, InDomain), then the evaluation of     *)
(* the call row by row in any order - Keep(k) for a row whose cached value is reused, Call(k)    *)
(* for a row handed to f - and Finish.  The guard of the machine is the code's (run_if_none /    *)
(* run_expiry on the joined data and expiry columns, None where a key is missing); the          *)
(* invariants compare it with the law level of Perdictable.tla.                                 *)
(* Generator configurations (NEXT Gen) print every configuration with what the spec accepts.    *)
(* Spelling of keys (Perdictable.tla): a size with a sixth component S > 1 additionally enumerates *)
(* how the tables of the call - the inputs, the previously computed values, the expiries - SPELL  *)
(* their keys: every table that holds keys is put into one of at most S classes; tables of one   *)
(* class hold the very same objects as keys, tables of different classes hold different objects   *)
(* (of any type) denoting the same keys.  Classes are enumerated up to renaming (restricted      *)
(* growth), tables without keys are in class 0.                                                   *)
EXTENDS PerdictableSess, Json
CONSTANTS Sizes     \* set of <<n, K, nk, cache, values>>: inputs, keys, key columns, enumerate cached values /
                    \* expiries ("yes"/"no"; "scalar": one expiry value for all rows), values: "distinct" | "same" (every cell, scalar and default is the same
                    \* value: calls collide, bag counts matter) | "pairs" (the previously computed values are 2-tuples)
                    \* | "seq0".."seq3" (the scalar inputs are lists / tuples of that length)
                    \* cache = "beyond" additionally gives past expiries to keys that were NOT computed before -
                    \* outside the quantifier ("expiry to previously computed keys"); configuration `beyond`
                    \* documents that there the code's gating leaves such rows uncomputed (ComputedRows fails).

\* a size may have a sixth component: the number of spelling classes of the tables (1 when it is missing)
NSp(sz) == IF Len(sz) >= 6 THEN sz[6] ELSE 1

\* the size sets of the configuration files (a .cfg cannot write tuples): <<n, K, nk, cache, values>>
SZ_quick == {<<1, 3, 1, "yes", "distinct">>, <<2, 2, 1, "yes", "distinct">>, <<2, 3, 1, "no", "distinct">>, <<3, 3, 1, "no", "distinct">>, <<1, 3, 2, "yes", "distinct">>, <<2, 2, 2, "yes", "distinct">>, <<2, 3, 2, "no", "distinct">>, <<1, 3, 1, "yes", "same">>, <<2, 2, 1, "yes", "same">>, <<1, 3, 1, "yes", "pairs">>, <<1, 3, 1, "scalar", "distinct">>, <<2, 2, 2, "scalar", "distinct">>, <<1, 2, 1, "no", "seq0">>, <<1, 2, 1, "no", "seq2">>, <<2, 2, 1, "no", "seq0">>, <<2, 2, 1, "no", "seq1">>, <<2, 3, 1, "no", "seq2">>, <<2, 3, 1, "no", "seq3">>, <<2, 2, 2, "no", "seq2">>, <<1, 2, 1, "yes", "distinct", 2>>, <<2, 2, 2, "no", "distinct", 2>>}
SZ_thorough == {<<1, 3, 1, "yes", "distinct">>, <<2, 3, 1, "yes", "distinct">>, <<3, 2, 1, "yes", "distinct">>, <<3, 3, 1, "no", "distinct">>, <<4, 3, 1, "no", "distinct">>}
SZ_thorough2 == {<<1, 3, 2, "yes", "distinct">>, <<2, 3, 2, "yes", "distinct">>, <<3, 2, 2, "yes", "distinct">>, <<3, 3, 2, "no", "distinct">>, <<1, 3, 1, "yes", "same">>, <<2, 3, 1, "yes", "same">>, <<3, 2, 1, "yes", "same">>, <<1, 3, 1, "yes", "pairs">>, <<2, 3, 2, "yes", "pairs">>, <<1, 3, 1, "scalar", "distinct">>, <<2, 3, 2, "scalar", "distinct">>, <<3, 2, 1, "scalar", "distinct">>, <<1, 3, 1, "no", "seq0">>, <<1, 3, 1, "no", "seq1">>, <<1, 3, 1, "no", "seq2">>, <<1, 3, 1, "no", "seq3">>, <<1, 3, 2, "no", "seq0">>, <<1, 3, 2, "no", "seq1">>, <<1, 3, 2, "no", "seq2">>, <<1, 3, 2, "no", "seq3">>, <<2, 3, 1, "no", "seq0">>, <<2, 3, 1, "no", "seq1">>, <<2, 3, 1, "no", "seq2">>, <<2, 3, 1, "no", "seq3">>, <<2, 3, 2, "no", "seq0">>, <<2, 3, 2, "no", "seq1">>, <<2, 3, 2, "no", "seq2">>, <<2, 3, 2, "no", "seq3">>, <<3, 3, 1, "no", "seq0">>, <<3, 3, 1, "no", "seq1">>, <<3, 3, 1, "no", "seq2">>, <<3, 3, 1, "no", "seq3">>, <<1, 3, 1, "yes", "distinct", 3>>, <<2, 2, 1, "yes", "distinct", 2>>, <<3, 2, 2, "no", "distinct", 3>>, <<1, 2, 2, "scalar", "distinct", 2>>}
SZ_beyond == {<<1, 2, 1, "beyond", "distinct">>}
SZ_identity == {<<2, 2, 1, "no", "distinct", 2>>}
SZ_gen_quick == {<<1, 3, 1, "yes", "distinct">>, <<2, 2, 1, "yes", "distinct">>, <<2, 3, 1, "no", "distinct">>, <<3, 3, 1, "no", "distinct">>, <<1, 3, 2, "yes", "distinct">>, <<2, 2, 2, "yes", "distinct">>, <<2, 3, 2, "no", "distinct">>, <<2, 2, 1, "yes", "same">>, <<1, 3, 1, "yes", "pairs">>, <<1, 3, 1, "scalar", "distinct">>, <<2, 2, 2, "scalar", "distinct">>, <<1, 2, 1, "no", "seq0">>, <<1, 2, 1, "no", "seq2">>, <<2, 2, 1, "no", "seq0">>, <<2, 2, 1, "no", "seq1">>, <<2, 3, 1, "no", "seq2">>, <<2, 3, 1, "no", "seq3">>, <<2, 2, 2, "no", "seq2">>}
SZ_gen_spell_quick == {<<2, 2, 1, "no", "distinct", 2>>, <<2, 2, 2, "no", "distinct", 2>>, <<1, 2, 1, "yes", "distinct", 3>>, <<2, 1, 1, "yes", "distinct", 3>>, <<1, 2, 2, "scalar", "distinct", 2>>}
SZ_gen_spell == {<<1, 3, 1, "yes", "distinct", 3>>, <<2, 2, 1, "yes", "distinct", 3>>, <<2, 2, 2, "yes", "distinct", 2>>, <<3, 2, 1, "no", "distinct", 3>>, <<3, 2, 2, "no", "distinct", 3>>, <<2, 3, 1, "no", "distinct", 2>>, <<2, 2, 1, "yes", "same", 2>>, <<2, 2, 1, "scalar", "distinct", 3>>}
SZ_gen_join == {<<1, 3, 1, "no", "distinct">>, <<2, 3, 1, "no", "distinct">>, <<3, 3, 1, "no", "distinct">>, <<1, 3, 2, "no", "distinct">>, <<2, 3, 2, "no", "distinct">>, <<3, 3, 2, "no", "distinct">>}
SZ_gen_join4 == {<<4, 3, 1, "no", "distinct">>}
SZ_gen_cache == {<<1, 3, 1, "yes", "distinct">>, <<2, 3, 1, "yes", "distinct">>, <<3, 2, 1, "yes", "distinct">>}
SZ_gen_cache2 == {<<1, 3, 2, "yes", "distinct">>, <<2, 3, 2, "yes", "distinct">>, <<3, 2, 2, "yes", "distinct">>}
SZ_gen_values == {<<1, 3, 1, "yes", "same">>, <<2, 3, 1, "yes", "same">>, <<3, 2, 2, "yes", "same">>, <<1, 3, 1, "yes", "pairs">>, <<2, 2, 1, "yes", "pairs">>, <<2, 2, 2, "yes", "pairs">>, <<1, 3, 1, "scalar", "distinct">>, <<2, 3, 2, "scalar", "distinct">>, <<3, 2, 1, "scalar", "distinct">>, <<1, 3, 1, "no", "seq0">>, <<1, 3, 1, "no", "seq1">>, <<1, 3, 1, "no", "seq2">>, <<1, 3, 1, "no", "seq3">>, <<1, 3, 2, "no", "seq0">>, <<1, 3, 2, "no", "seq1">>, <<1, 3, 2, "no", "seq2">>, <<1, 3, 2, "no", "seq3">>, <<2, 3, 1, "no", "seq0">>, <<2, 3, 1, "no", "seq1">>, <<2, 3, 1, "no", "seq2">>, <<2, 3, 1, "no", "seq3">>, <<2, 3, 2, "no", "seq0">>, <<2, 3, 2, "no", "seq1">>, <<2, 3, 2, "no", "seq2">>, <<2, 3, 2, "no", "seq3">>, <<3, 3, 1, "no", "seq0">>, <<3, 3, 1, "no", "seq1">>, <<3, 3, 1, "no", "seq2">>, <<3, 3, 1, "no", "seq3">>}

VARIABLES size, shape, dflt, cache, sexp, spell, C, todo, out, calls, ncall, phase
vars == <<size, shape, dflt, cache, sexp, spell, C, todo, out, calls, ncall, phase>>

NK   == size[3]
Same == size[5] = "same"
AllKeys(nk) == IF nk = 1 THEN <<<<1>>, <<2>>, <<3>>>> ELSE <<<<1, 2>>, <<2, 1>>, <<1, 1>>>>
KeysOf(sz)  == {AllKeys(sz[3])[n] : n \in 1..sz[2]}
Keys  == KeysOf(size)
Today == 739000                                       \* some day in 2024; the driver checks past < today < future
PastD   == <<"d", <<730120, 0, 0>>>>                  \* 2000-01-01
FutureD == <<"d", <<1094998, 0, 0>>>>                 \* 2999-01-01

KeyNo(k)    == IF Len(k) = 1 THEN k[1] ELSE 10 * k[1] + k[2]
Cell(i, k)  == IF Same THEN VInt(7) ELSE VInt(100 * i + KeyNo(k))
\* values "seq0" .. "seq3": every scalar input is itself a sequence (a list; a tuple for input 2) of that many numbers -
\* a scalar is whatever is not a table, and it is handed to f as it is for every row, also when it happens to be
\* as long as the table
SeqLen      == CASE size[5] = "seq0" -> 0 [] size[5] = "seq1" -> 1 [] size[5] = "seq2" -> 2 [] size[5] = "seq3" -> 3 [] OTHER -> 0 - 1
SeqScal(i)  == LET xs == [n \in 1..SeqLen |-> VInt(1000 * n + i)] IN IF i = 2 THEN VTup(xs) ELSE VLst(xs)
Scal(i)     == IF Same THEN VInt(7) ELSE IF SeqLen >= 0 THEN SeqScal(i) ELSE IF i = 2 THEN None ELSE VInt(1000 + i)
Dflt(i)     == IF Same THEN VInt(7) ELSE IF i = 1 THEN None ELSE VInt(0 - i)
Old(k)      == IF size[5] = "pairs" THEN VTup(<<VStr("old"), VInt(KeyNo(k))>>)     \* previously computed values that are pairs
               ELSE VStr("old" \o ToString(KeyNo(k)))

ShapeU(sz) == {[t |-> FALSE, ks |-> {}]} \cup {[t |-> TRUE, ks |-> S] : S \in SUBSET KeysOf(sz)}
Beyond(sz) == sz[4] = "beyond"
Status(sz) == IF Beyond(sz) THEN {"nc", "ncpast", "absent", "past", "future", "none"}
              ELSE IF sz[4] = "yes" THEN {"nc", "absent", "past", "future", "none"}
              ELSE IF sz[4] = "scalar" THEN {"nc", "absent"} ELSE {"nc"}
\* cache = "scalar": the expiry is ONE value for all rows (sexp: a past date, a future date or None), not a table
ScalarExp(sz) == IF sz[4] = "scalar" THEN {"past", "future", "none"} ELSE {"no"}

MkIn(i, sh) == IF sh.t THEN [kind |-> "keyed", v |-> None, map |-> [k \in sh.ks |-> Cell(i, k)]]
               ELSE [kind |-> "scalar", v |-> Scal(i), map |-> <<>>]
CachedKeys(ch) == {k \in DOMAIN ch : ch[k] \notin {"nc", "ncpast"}}
ExpKeys(ch)    == {k \in DOMAIN ch : ch[k] \in {"past", "future", "none", "ncpast"}}
ExpVal(s)      == CASE s \in {"past", "ncpast"} -> PastD [] s = "future" -> FutureD [] s = "none" -> None
MkBase(sh, df, ch, sx) ==
    [ins    |-> [i \in DOMAIN sh |-> MkIn(i, sh[i])],
     defs   |-> [i \in DOMAIN sh |-> IF df[i] THEN <<Dflt(i)>> ELSE <<>>],
     data   |-> IF CachedKeys(ch) = {} THEN <<>> ELSE <<[k \in CachedKeys(ch) |-> Old(k)]>>,
     expiry |-> IF sx # "no" THEN <<"scalar", ExpVal(sx)>> ELSE IF ExpKeys(ch) = {} THEN <<>> ELSE <<[k \in ExpKeys(ch) |-> ExpVal(ch[k])]>>,
     today  |-> Today]
\* sp[t] = the spelling class of table t: all its keys are spelt by the objects of that class
MkCfg(sh, df, ch, sx, sp) ==
    LET b == MkBase(sh, df, ch, sx) IN
    [ins |-> b.ins, defs |-> b.defs, data |-> b.data, expiry |-> b.expiry, today |-> b.today,
     spell |-> [t \in 1..(Len(sh) + 2) |-> [k \in TableKeys(b, t) |-> sp[t]]]]
\* the spelling classes, up to renaming: a table without keys is in class 0, the first table with keys too, and every
\* further one is in a class already used or in the next new one
CanonSpell(b, sp, S) ==
    \A t \in DOMAIN sp :
        IF TableKeys(b, t) = {} THEN sp[t] = 0
        ELSE LET before == {sp[u] : u \in {u \in 1..(t - 1) : TableKeys(b, u) # {}}} IN
             sp[t] < S /\ sp[t] <= Cardinality(before) /\ (sp[t] > 0 => (sp[t] - 1) \in before)

Init == /\ size \in Sizes
        /\ shape \in [1..size[1] -> ShapeU(size)] /\ dflt \in [1..size[1] -> BOOLEAN]
        /\ cache \in [KeysOf(size) -> Status(size)]
        /\ sexp \in ScalarExp(size)
        /\ spell \in [1..(size[1] + 2) -> 0..(NSp(size) - 1)]
        /\ CanonSpell(MkBase(shape, dflt, cache, sexp), spell, NSp(size))
        /\ C = <<>> /\ todo = {} /\ out = <<>> /\ calls = <<>> /\ ncall = <<>>
        /\ phase = "new"
\* the call is made (only inside the quantifier's domain): the rows to evaluate are those of the join
Start == /\ phase = "new"
         /\ LET c == MkCfg(shape, dflt, cache, sexp, spell) IN
              /\ InDomain(c) \/ (Beyond(size) /\ InDomain(Plain([c EXCEPT !.expiry = <<>>])))
              /\ C' = c
              /\ todo' = JoinKeys(c)
              /\ ncall' = [k \in JoinKeys(c) |-> 0]
         /\ phase' = "fresh"
         /\ UNCHANGED <<size, shape, dflt, cache, sexp, spell, out, calls>>

\* the code's gating of one row: the joined `data` / `expiry` cells (None where the key is missing)
MechExpiry(c, k) == IF HasExpiry(c, k) THEN ExpiryAt(c, k) ELSE None      \* a scalar expiry is a constant column
MechRuns(c, k)   == \/ c.data = <<>>                         \* no data column at all: run every row
                    \/ IsNone(MechExpiry(c, k))              \* run_expiry: value is None
                    \/ ~IsPast(MechExpiry(c, k), c.today)    \*             or value >= today
MechCache(c, k)  == IF k \in DOMAIN c.data[1] THEN c.data[1][k] ELSE None

Running == phase \in {"fresh", "eval"}
Keep(k) == /\ Running /\ k \in todo /\ ~MechRuns(C, k)
           /\ out' = (k :> MechCache(C, k)) @@ out
           /\ todo' = todo \ {k}
           /\ phase' = "eval"
           /\ UNCHANGED <<size, shape, dflt, cache, sexp, spell, C, calls, ncall>>
Call(k) == /\ Running /\ k \in todo /\ MechRuns(C, k)
           /\ calls' = Append(calls, Args(C, k))
           /\ ncall' = [ncall EXCEPT ![k] = @ + 1]
           /\ out' = (k :> F(Args(C, k))) @@ out
           /\ todo' = todo \ {k}
           /\ phase' = "eval"
           /\ UNCHANGED <<size, shape, dflt, cache, sexp, spell, C>>
Finish == /\ Running /\ todo = {}
          /\ phase' = "done"
          /\ UNCHANGED <<size, shape, dflt, cache, sexp, spell, C, todo, out, calls, ncall>>
KeepSome == \E k \in Keys : Keep(k)
CallSome == \E k \in Keys \cup {<<>>} : Call(k)
Next == Start \/ KeepSome \/ CallSome \/ Finish

\* ---- the clauses of the statement, on the law level (looked at once per configuration) -------
Fresh == phase = "fresh"
InEveryStrictTable == Fresh /\ Strict(C) # {} =>
                         \A k \in Keys : k \in JoinKeys(C) <=> \A i \in Strict(C) : k \in Dom(C, i)
AllDefaultIsUnion  == Fresh /\ ~AllScalar(C) /\ Strict(C) = {} =>
                         \A k \in Keys : k \in JoinKeys(C) <=> \E i \in Tables(C) : k \in Dom(C, i)
DefaultNeverRemoves == Fresh /\ ~AllScalar(C) =>            \* giving one more input a default can only add keys
                         \A i \in Tables(C) : ~dflt[i] =>
                            JoinKeys(C) \subseteq JoinKeys(MkCfg(shape, [dflt EXCEPT ![i] = TRUE], cache, sexp, spell))
RowValues == Fresh => LET rows == JoinRows(C, NK) IN
                 \A n \in 1..Len(rows) : \A i \in 1..NIn(C) :
                     rows[n].vals[i] = IF ~shape[i].t THEN Scal(i)                           \* scalars broadcast
                                       ELSE IF rows[n].key \in shape[i].ks THEN Cell(i, rows[n].key)
                                       ELSE Dflt(i)                                          \* only where the key is lacking
DefaultOnlyWithDefault == Fresh => \A k \in JoinKeys(C) : \A i \in Tables(C) : k \notin Dom(C, i) => dflt[i]
SortedByKey == Fresh /\ ~AllScalar(C) => LET rows == JoinRows(C, NK) IN
                 /\ {rows[n].key : n \in 1..Len(rows)} = JoinKeys(C) /\ Len(rows) = Cardinality(JoinKeys(C))
                 /\ \A n \in 1..(Len(rows) - 1) : LexLess(rows[n].key, rows[n + 1].key)
ScalarsGiveF == Fresh /\ AllScalar(C) => /\ RunOutcomes(C, NK, TRUE) = {[kind |-> "value", v |-> F([i \in 1..NIn(C) |-> Scal(i)])]}
                                         /\ RunCalls(C, NK) = <<[i \in 1..NIn(C) |-> Scal(i)]>>
CallsPlusKept == Fresh => Len(RunCalls(C, NK)) + Cardinality({k \in JoinKeys(C) : CachedPast(C, k)}) = Cardinality(JoinKeys(C))
OnlyPastIsKept == Fresh => \A k \in JoinKeys(C) : CachedPast(C, k) <=> (k \in Keys /\ (cache[k] = "past" \/ (cache[k] = "absent" /\ sexp = "past")))
MechanismIsLaw == Fresh => MechJoin(C) = JoinAsMap(C)
\* the optional parameters of perdictable are not inputs: whatever output_is_input / if_none, the outcomes are those of the default call;
\* with include_inputs the same rows in the same order, each carrying its key's values in addition
OptionsAreNotInputs == Fresh => \A n \in 1..Len(OptSeq) : LET op == OptSeq[n] IN
                          /\ InOptDomain(op)
                          /\ ~op.inc => RunOutcomesOpt(C, NK, TRUE, op) = RunOutcomes(C, NK, TRUE)
                          /\ (op.inc /\ ~AllScalar(C) /\ JoinKeys(C) # {}) =>
                                \A x \in RunOutcomesOpt(C, NK, TRUE, op) : \E y \in RunOutcomes(C, NK, TRUE) :
                                    /\ Len(x.rows) = Len(y.rows)
                                    /\ \A m \in 1..Len(x.rows) : x.rows[m].key = y.rows[m].key /\ x.rows[m].v = y.rows[m].v /\ x.rows[m].vals = Args(C, x.rows[m].key)
\* the rows, their order, their values and the calls are those of the same call with every key spelt by one object everywhere
SpellingIsNotKey == Fresh => /\ WellSpelled(C)
                             /\ JoinKeys(C) = JoinKeys(Plain(C))
                             /\ RunOutcomes(C, NK, TRUE) = RunOutcomes(Plain(C), NK, TRUE)
                             /\ JoinOutcomes(C, NK, TRUE) = JoinOutcomes(Plain(C), NK, TRUE)
                             /\ RunCalls(C, NK) = RunCalls(Plain(C), NK)
                             /\ \A t \in 1..NTab(C) : \A k \in TableKeys(C, t) : \A u \in OtherSpellings(C, t, k) : spell[u] # spell[t]

\* the mechanism on the key cells: matching by rank gives the law whatever the spellings; a quotient that looks the cells up as
\* objects does not (expected to FAIL in configuration `identity`: two classes of spellings are enough)
CellsJoinIsLaw    == Fresh /\ ~AllScalar(C) => CellsAreLaw(C, MechCells(C, "ByRank", "ByRank"))
\* the cache travels through the same join as two more outer-joined inputs: it decides neither the keys nor the number of rows,
\* however it spells its keys, and every row sees its own cached value / expiry (None where there is none)
CacheJoinIsLaw    == Fresh /\ ~AllScalar(C) => /\ JoinKeys(AsJoin(C)) = JoinKeys(C)
                                                /\ CellsAreLaw(AsJoin(C), MechCells(AsJoin(C), "ByRank", "ByRank"))
                                                /\ \A r \in MechCells(AsJoin(C), "ByRank", "ByRank") :
                                                       /\ r.v[NIn(C) + 1] = (IF C.data = <<>> THEN None ELSE MechCache(C, r.k))
                                                       /\ r.v[NIn(C) + 2] = MechExpiry(C, r.k)
ObjectLookupIsLaw == Fresh /\ ~AllScalar(C) => CellsAreLaw(C, MechCells(C, "ByRank", "ByObject"))

\* ---- the evaluation machine against the law ----------------------------------------------------
Started == phase # "new"
Handled == JoinKeys(C) \ todo
CallsAreUncachedRows == Started => SameBag(calls, CallsIn(SetToSeq(Handled), C))
OncePerKey   == Started => \A k \in JoinKeys(C) : ncall[k] = IF k \in Handled /\ ~CachedPast(C, k) THEN 1 ELSE 0
KeptRows     == Started => \A k \in Handled : CachedPast(C, k) => out[k] = C.data[1][k]
ComputedRows == Started => \A k \in Handled : ~CachedPast(C, k) => out[k] = F(Args(C, k))
FinalIsLaw   == phase = "done" => /\ DOMAIN out = JoinKeys(C)
                                  /\ LET rows == RunRows(C, NK) IN \A n \in 1..Len(rows) : out[rows[n].key] = rows[n].v
                                  /\ SameBag(calls, RunCalls(C, NK))

\* ---- generator: one line per configuration with everything the specification accepts ----------
\* a row of a table: the key (denotation), how the table spells it, the value
MapRows(m, sp) == LET ks == SortedKeys(DOMAIN m, NK) IN [n \in 1..Len(ks) |-> [key |-> ks[n], sp |-> sp[ks[n]], v |-> m[ks[n]]]]
InJson(x, sp)  == [kind |-> x.kind, v |-> x.v, rows |-> MapRows(x.map, sp)]
OptMap(o, sp)  == IF o = <<>> THEN [kind |-> "absent", rows |-> <<>>, v |-> None]
                  ELSE IF Len(o) = 2 THEN [kind |-> "scalar", rows |-> <<>>, v |-> o[2]]
                  ELSE [kind |-> "keyed", rows |-> MapRows(o[1], sp), v |-> None]
CfgJson(c) == [nk |-> NK, ins |-> [i \in 1..NIn(c) |-> InJson(c.ins[i], c.spell[i])], defs |-> c.defs,
               data |-> OptMap(c.data, c.spell[NIn(c) + 1]), expiry |-> OptMap(c.expiry, c.spell[NIn(c) + 2])]
Case(c) == [c |-> CfgJson(c), size |-> size,
            \* what is accepted when `on` is rendered in alphabetical order of the column names / otherwise
            run |-> [alpha |-> SetToSeq(RunOutcomes(c, NK, TRUE)), other |-> SetToSeq(RunOutcomes(c, NK, FALSE))],
            join |-> [alpha |-> SetToSeq(JoinOutcomes(c, NK, TRUE)), other |-> SetToSeq(JoinOutcomes(c, NK, FALSE))],
            \* the same with include_inputs = TRUE (the other optional parameters are not read by the law: OptionsAreNotInputs);
            \* printed for the sizes of at most two inputs
            run_inc |-> IF size[1] <= 2 THEN SetToSeq(RunOutcomesOpt(c, NK, TRUE, [DefaultOpts EXCEPT !.inc = TRUE])) ELSE <<>>,
            calls |-> RunCalls(c, NK),
            nrows |-> Cardinality(JoinKeys(c)), nkept |-> Cardinality({k \in JoinKeys(c) : CachedPast(c, k)})]
Gen == /\ phase = "new"
       /\ LET c == MkCfg(shape, dflt, cache, sexp, spell) IN InDomain(c) /\ PrintT(ToJson(Case(c)))
       /\ phase' = "done"
       /\ UNCHANGED <<size, shape, dflt, cache, sexp, spell, C, todo, out, calls, ncall>>
=============================================================================
