----------------------------- MODULE Trace_Tree -----------------------------
(* Trace validation for property C15.  Every line is one observation of the real code:        *)
(*   flatten   tree_items / tree_keys / tree_values / items_to_tree(tree_items(t)) of one tree  *)
(*   get       tree_getitem / tree_get on a listed path (dotted string, list or tuple)          *)
(*   update    tree_update(t, u, ignore) or Dict + dict, with t and u encoded again afterwards  *)
(*   setitem   tree_setitem(t, path, leaf, ignore): t afterwards                                *)
(*   to_table  tree_to_table(t, pattern) / dictable(t, pattern): the rows                        *)
(*   from_table table_to_tree(None, pattern, rows)                                               *)
(*   round_tree  rows = tree_to_table(t, p), back = table_to_tree(None, p, rows)                 *)
(*   round_rows  tree = table_to_tree(None, p, rows), rows2 = tree_to_table(tree, p)             *)
(*   hflatten / hget / hupdate / hto_table   the same calls on operands with ALIASING: the       *)
(*             operands are objects rt (and ru) of a heap `objs` (Tree.tla, "Trees as DAGs"); the  *)
(*             result is judged on the unfolded trees, and objs_after (every object of the heap   *)
(*             encoded again, references by identity) must be objs                                *)
(*   hhist     a HISTORY on one heap of operand objects that outlive the calls: steps "update" /    *)
(*             "items" (calls, each with its outcome and the heap encoded again afterwards) and   *)
(*             "edit" (the caller writes objs[obj][key] = cell between two calls); every call is   *)
(*             judged against what its operands hold at that moment                                *)
(*   sess      a SESSION (Tree.tla, "SESSIONS"): the caller's dicts, path objects (list / tuple / dotted string) and    *)
(*             table objects (one dict / list of dicts / dictable) outlive the calls; steps get / setitem / update /   *)
(*             items / to_table / from_table (calls) and edit / setpath / setrow (the caller's own writes); after     *)
(*             every step ALL the caller's objects are encoded again (dicts by identity; a result joins the heap)     *)
(* Verdict(o) = "" or the name of the first clause the observation breaks.  The result is      *)
(* judged before the operands so that a wrong result is never hidden behind a changed operand. *)
EXTENDS Tree, Batch

ElemSet(s) == {s[i] : i \in 1..Len(s)}
IsBagOf(s, S) == Len(s) = Cardinality(S) /\ ElemSet(s) = S
\* a pattern is logged as its parts  ["lit", s] / ["var", name]  (the driver joins them to 'a/%x/...')
ParsePat(p) == p
\* the root as a caller sees it without looking into nested dicts
RootView(t) == [k \in KeysOf(t) |-> IF IsBranch(Kids(t)[k]) THEN <<"branch", 0>> ELSE Kids(t)[k]]
Changed(name, before, after) ==
    IF after = before THEN ""
    ELSE IF IsBranch(after) /\ RootView(after) = RootView(before) THEN name \o "_modified_nested"
    ELSE name \o "_modified_root"

TreeVerdict(o) ==
    CASE o.op = "flatten" ->
            LET I == TItems(o.t) IN
            IF ~WellFormed(o.t) THEN "bad_input"
            ELSE IF ~IsBagOf(o.items, I) THEN "items"
            ELSE IF o.keys # [i \in 1..Len(o.items) |-> o.items[i][1]] THEN "keys_order"
            ELSE IF o.values # [i \in 1..Len(o.items) |-> o.items[i][2]] THEN "values_order"
            ELSE IF o.rebuilt # o.t THEN "rebuild_inverse"
            ELSE Changed("t", o.t, o.after)
      [] o.op = "get" ->
            IF ~(<<o.path, TGet(o.t, o.path)>> \in TItems(o.t)) THEN "bad_input"
            ELSE IF o.out # TGet(o.t, o.path) THEN "get_leaf"
            ELSE IF o.path_after # o.path THEN "path_argument_changed"      \* the caller's list / tuple is what it was
            ELSE Changed("t", o.t, o.after)
      [] o.op = "update" ->
            LET g == ElemSet(o.ign) IN
            IF ~(WellFormed(o.t) /\ WellFormed(o.u)) THEN "bad_input"
            ELSE IF o.out # Merge(o.t, o.u, g) THEN "merge_result"
            ELSE IF o.u_after # o.u THEN Changed("u", o.u, o.u_after)
            ELSE Changed("t", o.t, o.t_after)
      [] o.op = "setitem" ->
            IF o.path = <<>> \/ ~WellFormed(o.t) THEN "bad_input"
            ELSE IF o.t_after # Merge(o.t, Single(o.path, o.leaf), ElemSet(o.ign)) THEN "setitem"
            ELSE IF o.path_after # o.path THEN "path_argument_changed" ELSE ""
      [] o.op = "to_table" ->
            LET p == ParsePat(o.pat) IN
            IF ~(DistinctVars(p) /\ VarsOf(p) # {} /\ WellFormed(o.t)) THEN "bad_input"
            ELSE IF o.exc # "" THEN "to_table_raised"
            ELSE IF ~IsBagOf(o.rows, ToTableFast(o.t, p)) THEN "to_table_rows"
            ELSE Changed("t", o.t, o.after)
      [] o.op = "from_table" ->
            LET p == ParsePat(o.pat)  R == ElemSet(o.rows) IN
            IF ~(DistinctVars(p) /\ Len(p) >= 2 /\ UniquePaths(p, R) /\ Cardinality(R) = Len(o.rows) /\ \A r \in R : RowOk(p, r)) THEN "bad_input"
            ELSE IF o.out # FromTable(R, p) THEN "from_table_tree"
            ELSE IF o.rows_after # o.rows THEN "rows_modified" ELSE ""
      [] o.op = "round_tree" ->
            LET p == ParsePat(o.pat) IN
            IF ~(DistinctVars(p) /\ Len(p) >= 2 /\ WellFormed(o.t)) THEN "bad_input"
            ELSE IF Shaped(o.t, p) /\ o.back # o.t THEN "table_inverse_on_tree"
            ELSE IF ~(TItems(o.back) \subseteq TItems(o.t) \cup {RowItem(p, r) : r \in ToTableFast(o.t, p)}) THEN "table_back_unsound"
            ELSE Changed("t", o.t, o.after)
      [] o.op = "round_rows" ->
            LET p == ParsePat(o.pat)  R == ElemSet(o.rows) IN
            IF ~(DistinctVars(p) /\ Len(p) >= 2 /\ UniquePaths(p, R) /\ Cardinality(R) = Len(o.rows) /\ \A r \in R : RowOk(p, r)) THEN "bad_input"
            ELSE IF o.exc # "" THEN "round_rows_raised"
            ELSE IF ~IsBagOf(o.rows2, R) THEN "table_inverse_on_rows" ELSE ""
      [] OTHER -> "unknown_op"

\* --- operands with aliasing ---------------------------------------------------------------------
HeapOps == {"hflatten", "hget", "hupdate", "hto_table"}
\* every object of the heap is what it was, references (identities) included
HeapChanged(o, hasU) ==
    IF o.objs_after = o.objs THEN ""
    ELSE IF Len(o.objs_after) # Len(o.objs) THEN "bad_input"
    ELSE IF o.objs_after[o.rt] # o.objs[o.rt] THEN "t_modified_root"
    ELSE IF hasU /\ o.objs_after[o.ru] # o.objs[o.ru] THEN "u_modified_root"
    ELSE "operand_object_modified_nested"
HeapVerdict(o) ==
    LET hasU == o.op = "hupdate"
        roots == IF hasU THEN {o.rt, o.ru} ELSE {o.rt}
    IN
    IF ~HeapOk(o.objs, roots) THEN "bad_input"
    ELSE LET T == Unfold(o.objs, o.rt)
             v == CASE o.op = "hflatten" -> TreeVerdict([op |-> "flatten", t |-> T, items |-> o.items, keys |-> o.keys, values |-> o.values,
                                                          rebuilt |-> o.rebuilt, after |-> T])
                    [] o.op = "hget"     -> TreeVerdict([op |-> "get", t |-> T, path |-> o.path, out |-> o.out, after |-> T, path_after |-> o.path_after])
                    [] o.op = "hupdate"  -> LET U == Unfold(o.objs, o.ru) IN
                                            TreeVerdict([op |-> "update", t |-> T, u |-> U, ign |-> o.ign, out |-> o.out, t_after |-> T, u_after |-> U])
                    [] o.op = "hto_table" -> TreeVerdict([op |-> "to_table", t |-> T, pat |-> o.pat, rows |-> o.rows, exc |-> o.exc, after |-> T])
         IN  IF v # "" THEN v ELSE HeapChanged(o, hasU)

\* --- histories: the heap is the state, edits change it, calls are judged against it as it is now ---
PutCell(objs, i, k, cell) == [objs EXCEPT ![i] = [x \in DOMAIN objs[i] \cup {k} |-> IF x = k THEN cell ELSE objs[i][x]]]
EditOk(objs, s) == /\ s.obj \in 1..Len(objs)
                   /\ IsRefCell(s.cell) => s.cell[2] \in (s.obj + 1)..Len(objs) /\ DOMAIN objs[s.cell[2]] # {}
RECURSIVE HistVerdict(_, _)
HistVerdict(objs, steps) ==
    IF steps = <<>> THEN ""
    ELSE LET s == Head(steps) IN
         IF s.kind = "edit"
         THEN IF EditOk(objs, s) THEN HistVerdict(PutCell(objs, s.obj, s.key, s.cell), Tail(steps)) ELSE "bad_input"
         ELSE LET v == IF s.kind = "update"
                       THEN HeapVerdict([op |-> "hupdate", objs |-> objs, rt |-> s.rt, ru |-> s.ru, ign |-> s.ign, out |-> s.out, objs_after |-> s.objs_after])
                       ELSE IF s.kind = "items"
                       THEN HeapVerdict([op |-> "hflatten", objs |-> objs, rt |-> s.rt, items |-> s.items, keys |-> s.keys, values |-> s.values,
                                         rebuilt |-> s.rebuilt, objs_after |-> s.objs_after])
                       ELSE "unknown_op"
              IN  IF v = "bad_input" \/ v = "unknown_op" THEN v
                  ELSE IF v # "" THEN "history_" \o v
                  ELSE HistVerdict(objs, Tail(steps))

\* --- sessions (Tree.tla, "SESSIONS"): the caller's heap, path objects and table objects are the state; every step is
\* judged against the state as it is at that moment: a call returns SessOut, and afterwards the caller's objects are SessNext
\* (what they were, plus the result of update / from_table as a new object that refers to nothing the caller had) -------------
SessCalls == {"get", "setitem", "update", "items", "to_table", "from_table"}
\* an item spelled as a list [k1, .., kn, leaf], logged with the keys wrapped as <<"k", key>>
SeqOfItem(it) == [i \in 1..Len(it[1]) |-> <<"k", it[1][i]>>] \o <<it[2]>>
SessOutVerdict(st0, step) ==
    LET call == step.call  want == SessOut(st0, call) IN
    CASE call.kind = "get"     -> IF step.out = want THEN "" ELSE "get_leaf"
      [] call.kind = "setitem" -> IF step.out = None THEN "" ELSE "setitem_returned"
      [] call.kind = "update"  -> IF step.out = want THEN "" ELSE IF step.out[1] = "ref" THEN "result_is_an_operand_object" ELSE "merge_result"
      [] call.kind = "from_table" -> IF step.out = want THEN "" ELSE "from_table_tree"
      [] call.kind = "items"   -> IF ~IsBagOf(step.items, TItems(want)) THEN "items"
                                  ELSE IF step.keys # [i \in 1..Len(step.items) |-> step.items[i][1]] THEN "keys_order"
                                  ELSE IF step.values # [i \in 1..Len(step.items) |-> step.items[i][2]] THEN "values_order"
                                  ELSE IF step.rebuilt # want \/ step.rebuilt_lists # want THEN "rebuild_inverse"
                                  ELSE IF step.lists_after # [i \in 1..Len(step.items) |-> SeqOfItem(step.items[i])] THEN "items_argument_changed"
                                  ELSE ""
      [] call.kind = "to_table" -> IF step.exc # "" THEN "to_table_raised"
                                   ELSE IF ~IsBagOf(step.rows, want) THEN "to_table_rows" ELSE ""
      [] OTHER -> ""
SessStepVerdict(st0, step) ==
    LET call == step.call IN
    IF ~SessOk(st0, call) THEN "bad_input"
    ELSE LET v    == IF call.kind \in SessCalls THEN SessOutVerdict(st0, step) ELSE ""
             want == SessNext(st0, call)
         IN  IF v # "" THEN v
             ELSE IF step.after.paths # want.paths THEN "path_argument_changed"
             ELSE IF step.after.tabs # want.tabs THEN "table_argument_changed"
             ELSE IF step.after.objs = want.objs THEN ""
             ELSE IF Len(step.after.objs) # Len(want.objs) THEN "result_not_a_new_object"
             ELSE IF call.kind \in {"setitem", "edit"}
                  THEN LET tgt == IF call.kind = "edit" THEN call.obj ELSE call.rt IN
                       IF step.after.objs[tgt] # want.objs[tgt] THEN (IF call.kind = "edit" THEN "bad_input" ELSE "setitem")
                       ELSE "write_to_one_tree_changed_another"          \* a result that shares a dict with an operand
                  ELSE "operand_object_modified"
RECURSIVE SessVerdict(_, _)
SessVerdict(st0, steps) ==
    IF steps = <<>> THEN ""
    ELSE LET v == SessStepVerdict(st0, Head(steps)) IN
         IF v = "bad_input" THEN v
         ELSE IF v # "" THEN "session_" \o v
         ELSE SessVerdict(SessNext(st0, Head(steps).call), Tail(steps))
SessInit(o) == [objs |-> o.objs, paths |-> o.paths, tabs |-> o.tabs]

Verdict(o) == IF o.op = "hhist" THEN HistVerdict(o.objs, o.steps)
              ELSE IF o.op = "sess" THEN (IF SessHeapOk(o.objs) THEN SessVerdict(SessInit(o), o.steps) ELSE "bad_input")
              ELSE IF o.op \in HeapOps THEN HeapVerdict(o) ELSE TreeVerdict(o)

Init == BatchInit
Next == BatchNext(Verdict)
=============================================================================
