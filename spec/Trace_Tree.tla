----------------------------- MODULE Trace_Tree -----------------------------
(* Trace validation for property C15.  Every line is one observation of the real code:        *)
(*   flatten   tree_items / tree_keys / tree_values / items_to_tree(tree_items(t)) of one tree  *)
(*   get       tree_getitem / tree_get on a listed path (dotted string, list or tuple)          *)
(*   update    tree_update(t, u, ignore) or Dict + dict, with t and u encoded again afterwards  *)
(*   setitem   tree_setitem(t, path, leaf, ignore): t afterwards                                *)
(*   to_table  tree_to_table(t, pattern) / dictable(t, pattern): the rows                        *)
(*   from_table table_to_tree(None, pattern, rows)                                               *)
(*   round_tree  rows = tree_to_table(t, p), back = table_to_tree(None, p, rows)                 *)
(*   round_rows  tree = table_to_tree(None, p, rows), rows2 = tree_to_table(tree, p)             *)
(* Verdict(o) = "" or the name of the first clause the observation breaks.  The result is      *)
(* judged before the operands so that a wrong result is never hidden behind a changed operand. *)
EXTENDS Tree, Batch

ElemSet(s) == {s[i] : i \in 1..Len(s)}
IsBagOf(s, S) == Len(s) = Cardinality(S) /\ ElemSet(s) = S
\* a pattern is logged as its parts  ["lit", s] / ["var", name]  (the driver joins them to 'a/%x/...')
ParsePat(p) == p
\* the root as a caller sees it without looking into nested dicts
RootView(t) == [k \in KeysOf(t) |-> IF IsBranch(Kids(t)[k]) THEN <<"branch", 0>> ELSE Kids(t)[k]]
Changed(name, before, after) ==
    IF after = before THEN ""
    ELSE IF IsBranch(after) /\ RootView(after) = RootView(before) THEN name \o "_modified_nested"
    ELSE name \o "_modified_root"

Verdict(o) ==
    CASE o.op = "flatten" ->
            LET I == TItems(o.t) IN
            IF ~WellFormed(o.t) THEN "bad_input"
            ELSE IF ~IsBagOf(o.items, I) THEN "items"
            ELSE IF o.keys # [i \in 1..Len(o.items) |-> o.items[i][1]] THEN "keys_order"
            ELSE IF o.values # [i \in 1..Len(o.items) |-> o.items[i][2]] THEN "values_order"
            ELSE IF o.rebuilt # o.t THEN "rebuild_inverse"
            ELSE Changed("t", o.t, o.after)
      [] o.op = "get" ->
            IF ~(<<o.path, TGet(o.t, o.path)>> \in TItems(o.t)) THEN "bad_input"
            ELSE IF o.out # TGet(o.t, o.path) THEN "get_leaf"
            ELSE Changed("t", o.t, o.after)
      [] o.op = "update" ->
            LET g == ElemSet(o.ign) IN
            IF ~(WellFormed(o.t) /\ WellFormed(o.u)) THEN "bad_input"
            ELSE IF o.out # Merge(o.t, o.u, g) THEN "merge_result"
            ELSE IF o.u_after # o.u THEN Changed("u", o.u, o.u_after)
            ELSE Changed("t", o.t, o.t_after)
      [] o.op = "setitem" ->
            IF o.path = <<>> \/ ~WellFormed(o.t) THEN "bad_input"
            ELSE IF o.t_after # Merge(o.t, Single(o.path, o.leaf), ElemSet(o.ign)) THEN "setitem" ELSE ""
      [] o.op = "to_table" ->
            LET p == ParsePat(o.pat) IN
            IF ~(DistinctVars(p) /\ VarsOf(p) # {} /\ WellFormed(o.t)) THEN "bad_input"
            ELSE IF o.exc # "" THEN "to_table_raised"
            ELSE IF ~IsBagOf(o.rows, ToTableFast(o.t, p)) THEN "to_table_rows"
            ELSE Changed("t", o.t, o.after)
      [] o.op = "from_table" ->
            LET p == ParsePat(o.pat)  R == ElemSet(o.rows) IN
            IF ~(DistinctVars(p) /\ Len(p) >= 2 /\ UniquePaths(p, R) /\ Cardinality(R) = Len(o.rows) /\ \A r \in R : RowOk(p, r)) THEN "bad_input"
            ELSE IF o.out # FromTable(R, p) THEN "from_table_tree"
            ELSE IF o.rows_after # o.rows THEN "rows_modified" ELSE ""
      [] o.op = "round_tree" ->
            LET p == ParsePat(o.pat) IN
            IF ~(DistinctVars(p) /\ Len(p) >= 2 /\ WellFormed(o.t)) THEN "bad_input"
            ELSE IF Shaped(o.t, p) /\ o.back # o.t THEN "table_inverse_on_tree"
            ELSE IF ~(TItems(o.back) \subseteq TItems(o.t) \cup {RowItem(p, r) : r \in ToTableFast(o.t, p)}) THEN "table_back_unsound"
            ELSE Changed("t", o.t, o.after)
      [] o.op = "round_rows" ->
            LET p == ParsePat(o.pat)  R == ElemSet(o.rows) IN
            IF ~(DistinctVars(p) /\ Len(p) >= 2 /\ UniquePaths(p, R) /\ Cardinality(R) = Len(o.rows) /\ \A r \in R : RowOk(p, r)) THEN "bad_input"
            ELSE IF o.exc # "" THEN "round_rows_raised"
            ELSE IF ~IsBagOf(o.rows2, R) THEN "table_inverse_on_rows" ELSE ""
      [] OTHER -> "unknown_op"

Init == BatchInit
Next == BatchNext(Verdict)
=============================================================================
