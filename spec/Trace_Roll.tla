------------------------------ MODULE Trace_Roll ------------------------------
(* Trace validation for extension X03-b/c: each line of the log is one call of df_roll_off       *)
(*   o.call    : the call as a record of spec/Roll.tla (what the loader returns per contract,     *)
(*               the roll column of the chain, clock, expiry, cutoff, n, the caller's data, flags) *)
(*   o.loaded  : the contracts the loader was asked for, in order                                 *)
(*   o.checked : the contracts live_check was shown, in order (o.call.check = 1)                  *)
(*   o.out     : kind "ok" (data, rolls = roll column of the returned chain by contract),          *)
(*               "exc" (cls), "called" (args of do_if_no_n)                                        *)
(*   o.data_before / o.after.data, o.chain_before / o.after.chain, o.keys_before / o.after.keys :  *)
(*               the caller's data, chain rows and chain columns before and after the call        *)
EXTENDS Roll, Batch

\* the law reads "live" as the docstring does, whatever the observation says
LawCall(cl) == [live |-> "post"] @@ cl

\* the call leaves the caller's data and chain as they were
ArgsVerdict(o) == IF o.after.data # o.data_before THEN "data_argument_changed"
                  ELSE IF o.after.chain # o.chain_before \/ o.after.keys # o.keys_before THEN "chain_argument_changed" ELSE ""

Verdict(o) ==
    LET cc == LawCall(o.call) IN
    IF ~Domain(cc) THEN "malformed_observation"
    ELSE LET w == Apply(cc) IN
    IF o.loaded # w.loaded THEN "loaded"
    ELSE IF o.call.check = 1 /\ o.checked # w.checked THEN "live_check"
    ELSE IF o.out.kind # w.kind THEN "outcome_kind"
    ELSE CASE w.kind = "exc"    -> IF o.out.cls = w.cls THEN ArgsVerdict(o) ELSE "exception_class"
           [] w.kind = "called" -> IF o.out.args = w.args THEN ArgsVerdict(o) ELSE "do_if_no_n_arguments"
           [] w.kind = "ok"     -> IF o.out.data.rows # w.data.rows THEN "rows"
                                   ELSE IF o.out.data.cols # w.data.cols THEN "values"
                                   ELSE IF \E i \in w.pinned : o.out.rolls[i] # w.rolls[i] THEN "roll_dates"
                                   ELSE ArgsVerdict(o)

Init == BatchInit
Next == BatchNext(Verdict)
=============================================================================
