CONSTANTS
 N = 6
 Ahead = 2
 G = {0}
 HistG = 2
 HistLen = 5
INIT InitHist
NEXT HistNext
INVARIANT Restored
