CONSTANTS NP = 3
          NT = 2
          NF = 2
          NA = 2
          Light = TRUE
INIT Init
NEXT Eval
INVARIANT OnJointIndex
INVARIANT ValuesIntact
INVARIANT AsOfJoin
INVARIANT ColumnsAligned
INVARIANT StructureKept
INVARIANT Idempotent
INVARIANT PolicyOrder
INVARIANT ReadingsAgree
INVARIANT MechanismIsLaw
INVARIANT PerColumnIsWhole
INVARIANT ArraysAlignedAtEnd
