CONSTANTS NP = 3
          NT = 2
          NF = 2
          NA = 2
          NC = 1
          NS = 4
          Light = TRUE
INIT Init
NEXT Eval
INVARIANT OnJointIndex
INVARIANT ValuesIntact
INVARIANT AsOfJoin
INVARIANT ColumnsAligned
INVARIANT ColumnPolicy
INVARIANT DictOrderKept
INVARIANT StructureKept
INVARIANT Idempotent
INVARIANT PolicyOrder
INVARIANT ReadingsAgree
INVARIANT MechanismIsLaw
INVARIANT PerColumnIsWhole
INVARIANT ArraysAlignedAtEnd
