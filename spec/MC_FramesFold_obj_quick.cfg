CONSTANTS
 MaxLen = 4
 NStamps = 2
 Leaky = FALSE
 Depth = 3
INIT InitObj
NEXT ObjNext
INVARIANT AnswerIsLaw
INVARIANT NothingRemembered
PROPERTY ObjectUnchanged
