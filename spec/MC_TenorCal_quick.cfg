CONSTANTS NthYears = {2000, 2001, 2020, 2023}
          Days <- QuickDays
          GenDays <- QuickGenDays
          GenFams = {"gmon", "gnth", "gnum", "gnumb", "gnp", "gper", "gfmt"}
INIT Init
NEXT Next
INVARIANT MonthLaws
INVARIANT YmLaws
INVARIANT NthLaws
INVARIANT NumLaws
INVARIANT NumBorders
INVARIANT NpLaws
INVARIANT PeriodLaws
INVARIANT BumpLaws
INVARIANT FormatLaws
