-------------------------- MODULE MC_DrangeSession --------------------------
(* Property C10 over sessions, on the specification.                                                     *)
(*   universe   4 start days (Mon 1 Jan 2001, Fri 5 Jan, Sat 6 Jan, Thu 1 Feb 2001) x spans of days in    *)
(*              both directions, a few windows with times of day of their own, x ints, timedeltas,        *)
(*              single periods (d b w m h) and compound periods whose HEADING DEPENDS ON THE START DATE    *)
(*              ('1m-30d', '-1m30d', '1b-2d', '-1b2d', '2b-3d'), kept where every step                     *)
(*              of the iteration moves towards t1 (Drange!Steady)                                          *)
(*   MC         every session of <= MaxCalls calls with registry edits and result mutations in between:    *)
(*              NoMemory, RegistryBlind, ResultOwned hold for today's mechanism ("code"); the variants     *)
(*              "memo", "regcal", "cache" each violate their clause (run as must_fail)                     *)
(*   generators (S2C) Pair  every ordered pair of calls that collide on what a memo could be keyed on      *)
(*                          (the same bump from two windows; the same window with two bumps)               *)
(*                    Edit  registry edits before / between business-day calls                              *)
(*                    Real  every realisation of each argument, and the same call twice in two              *)
(*                          realisations of the bump                                                        *)
(*                    Sim   TLC-simulated longer sessions (thorough tier)                                   *)
(*              each printed with the outcomes the law accepts for every call                               *)
EXTENDS DrangeSession, Json
CONSTANTS Scope,        \* "quick" | "thorough"
          Family        \* which scripts the generator configuration enumerates: "pair" | "edit" | "real" | "all" | "none"
VARIABLE hist           \* generator configurations only: the script (Init) / the steps taken so far (Sim)

T1(n, u) == <<"tenor", <<<<n, u>>>>>>
T2(a, ua, b, ub) == <<"tenor", <<<<a, ua>>, <<b, ub>>>>>>
A0 == OrdOf(2001, 1, 1)      \* Monday
A1 == OrdOf(2001, 1, 5)      \* Friday
A2 == OrdOf(2001, 1, 6)      \* Saturday
A3 == OrdOf(2001, 2, 1)      \* Thursday; '1m-30d' moves it back to 30 Jan
SStarts == {A0, A1, A2, A3}
SSpans  == IF Scope = "quick" THEN {-4, -1, 0, 1, 5} ELSE {-9, -4, -2, -1, 0, 1, 2, 5, 9}
SWindows == {<<Midnight(a), Midnight(a + sp)>> : a \in SStarts, sp \in SSpans}
            \* endpoints with times of day of their own: Mon -> Sun 06:00 ('1b-2d' walks back one step and stops), Fri 09:30 -> Sat 18:00
            \cup {<<Midnight(A0 + 7), <<A0 + 6, 21600, 0>>>>, <<<<A0 + 6, 21600, 0>>, Midnight(A0 + 7)>>,
                  <<<<A1, 34200, 0>>, <<A1 + 1, 64800, 0>>>>, <<<<A1 + 1, 64800, 0>>, <<A1, 34200, 0>>>>}
DependentBumps == {T2(1, "m", -30, "d"), T2(-1, "m", 30, "d"), T2(1, "b", -2, "d"), T2(-1, "b", 2, "d"), T2(2, "b", -3, "d")}
BBumps   == {T1(1, "b"), T1(-1, "b"), T1(2, "b"), T1(3, "b"), T1(-2, "b")}
SBumps   == {<<"int", k>> : k \in {-3, -1, 1, 2, 3}} \cup {<<"td", x>> : x \in {<<1, 0, 0>>, <<-1, 0, 0>>, <<1, 43200, 0>>}}
            \cup {T1(1, "d"), T1(-1, "d"), T1(1, "w"), T1(1, "m"), T1(-1, "m"), T1(12, "h"), T2(1, "w", -1, "d")}
            \cup BBumps \cup DependentBumps
InUniverse(c) == CaseInDomain(c[1], c[2], c[3]) /\ Steady(c[1], c[2], c[3])
\* (Keep(S, P): the filtered set built once as an enumerated value - TLC re-evaluates the predicate of {x \in S : P(x)} at every use)
Keep(S, P(_)) == UNION {IF P(x) THEN {x} ELSE {} : x \in S}
SCalls   == Keep({<<w[1], w[2], b>> : w \in SWindows, b \in SBumps}, InUniverse)
HasB(b)  == b[1] = "tenor" /\ \E i \in 1..Len(b[2]) : b[2][i][2] = "b"
BCalls   == {c \in SCalls : HasB(c[3])}
\* holidays that fall inside the windows (Tue 2 Jan, Fri 5 Jan, Wed 3 Jan, Fri 2 Feb, Mon 5 Feb 2001)
H1 == {A0 + 1, A1, A3 + 1, A3 + 4}
H2 == {A0 + 2, A3}
SEdits == {<<"set_holidays", H1>>, <<"set_weekend", {4, 5}>>, <<"set_weekend", {}>>, <<"set_both", H2, {6}>>,
           <<"register", H1, {4, 5}>>, <<"add_inplace", H2>>, <<"reset">>, <<"named", H1, {4, 5}>>}
Mutations == {"append", "pop", "clear", "reverse"}

\* ------------------------------------------------------------------------- model checking ---
\* (the model-checked sessions draw on a part of the universe: every state has |MCalls| successors)
MCBumps  == DependentBumps \cup {<<"int", 1>>, <<"int", -1>>, T1(1, "m"), T1(1, "b"), T1(-1, "b"), T1(2, "b")}
                            \cup (IF MaxCalls <= 2 THEN {} ELSE {<<"int", 2>>, <<"td", <<1, 0, 0>>>>, T1(1, "d")})   \* (the deeper, thorough run)
MCalls   == Keep(SCalls, LAMBDA c : c[3] \in MCBumps /\ (Scope = "quick" => c[1][1] \in {A1, A3, A0 + 7}))
MCEdits  == {<<"set_holidays", H1>>, <<"set_weekend", {4, 5}>>, <<"add_inplace", H2>>, <<"reset">>, <<"named", H1, {4, 5}>>}
MCMutations == IF MaxCalls <= 2 THEN {"clear"} ELSE {"append", "clear"}
Init == SInit /\ hist = <<>>
Next == /\ \/ \E c \in MCalls : Call(c)
           \/ \E e \in MCEdits : EditCal(e)
           \/ \E h \in MCMutations : Mutate(h)
        /\ UNCHANGED hist
\* the universe exercises what it is meant to: the same compound bump points both ways, and rejects, within it
UniverseDiscriminates ==
    \A b \in {T2(1, "m", -30, "d"), T2(1, "b", -2, "d"), T2(-1, "b", 2, "d")} :
        /\ \E c \in SCalls : c[3] = b /\ Dir(c[1], b) = 1 /\ Toward(c[1], c[2]) = 1
        /\ \E c \in SCalls : c[3] = b /\ Dir(c[1], b) = -1 /\ Toward(c[1], c[2]) = -1
        /\ \E c \in SCalls : c[3] = b /\ c[1] # c[2] /\ Dir(c[1], b) # Toward(c[1], c[2])
ASSUME UniverseDiscriminates

\* ------------------------------------------------------------------ realisations for a call ---
EndRealSeq == <<"datetime", "date", "ts", "np_D", "sub", "int", "np_us", "str_d", "np_s", "str_c", "np_ns", "str_s", "str_us">>
IntRealSeq == <<"int", "np_int64", "np_int32", "np_uint8", "series_item", "np_int8", "np_int16", "np_uint64", "array_item", "np_intp", "np_uint16", "np_uint32", "np_longlong">>
TdRealSeq  == <<"timedelta", "pd_Timedelta", "td_sub">>
StrRealSeq == <<"l", "u", "p", "m", "str_sub", "np_str">>
BumpRealSeq(b) == CASE b[1] = "int" -> IntRealSeq [] b[1] = "td" -> TdRealSeq [] OTHER -> StrRealSeq
Pick(s, i) == s[(i % Len(s)) + 1]
BumpCode(b) == CASE b[1] = "int" -> b[2] + 7 [] b[1] = "td" -> b[2][1] + b[2][2] + 11 [] OTHER -> Len(b[2]) + b[2][1][1] + 13
\* a diagonal choice: which realisation each argument of call c takes as step k of a script
RealsFor(c, k) ==
    LET i  == c[1][1] + 3 * c[2][1] + 5 * BumpCode(c[3]) + 7 * k
        e0 == SelectSeq(EndRealSeq, LAMBDA r : EndRealOk(r, c[1]))
        e1 == SelectSeq(EndRealSeq, LAMBDA r : EndRealOk(r, c[2]))
        bs == SelectSeq(BumpRealSeq(c[3]), LAMBDA r : BumpRealOk(r, c[1], c[2], c[3]))
    IN  [t0 |-> Pick(e0, i), t1 |-> Pick(e1, i \div 3), bump |-> Pick(bs, i \div 2),
         via |-> IF HasBPart(c[3]) THEN "drange" ELSE Pick(<<"drange", "drange", "cal_hol", "drange", "cal", "drange">>, i \div 5)]
\* every realisation of one argument, the others plain; and all three strange at once
OneOff(c) ==
    LET p == PlainReals(c[3]) IN
    {[p EXCEPT !.t0 = r] : r \in {r \in EndReals : EndRealOk(r, c[1])}}
    \cup {[p EXCEPT !.t1 = r] : r \in {r \in EndReals : EndRealOk(r, c[2])}}
    \cup {[p EXCEPT !.bump = r] : r \in {r \in IntReals \cup TdReals \cup StrReals : BumpRealOk(r, c[1], c[2], c[3])}}
    \cup {[p EXCEPT !.via = v] : v \in {v \in Vias : v = "drange" \/ ~HasBPart(c[3])}}
    \cup {RealsFor(c, k) : k \in 0..3}
BumpVariants(c) == {[PlainReals(c[3]) EXCEPT !.bump = r] : r \in {r \in IntReals \cup TdReals \cup StrReals : BumpRealOk(r, c[1], c[2], c[3])}}

\* --------------------------------------------------------------------------------- scripts ---
\* a step of a script:  <<"call", c, reals>>   <<"edit", e>>   <<"mutate", how>>
\* (quick tier: the full square only where it matters most - start-dependent bumps from every pair of windows; the other
\* bumps from the windows of two start days; two bumps over one window for the windows of one start day and the intraday ones)
Narrow == Scope = "quick"
SameBump(c, d)   == c[3] = d[3] /\ (~Narrow \/ c[3] \in DependentBumps \/ (c[1][1] \in {A1, A3} /\ d[1][1] \in {A1, A3}))
SameWindow(c, d) == c[1] = d[1] /\ c[2] = d[2] /\ (~Narrow \/ c[1][1] \in {A1, A1 + 1, A0 + 6, A0 + 7})
Collide(c, d) == SameBump(c, d) \/ SameWindow(c, d)
PairScripts == UNION {{<< <<"call", c, RealsFor(c, 0)>>, <<"call", d, RealsFor(d, 1)>> >> : d \in {d \in SCalls : Collide(c, d)}} : c \in SCalls}
\* the registry edited before a call; between two calls over one window (the second the same or another business-day bump)
ECalls == BCalls \cup {c \in SCalls : c[3] \in {<<"int", 1>>, <<"int", -1>>, T1(1, "d"), T1(1, "w")}}
ECalls1 == IF Narrow THEN {c \in BCalls : c[3] \in BBumps} ELSE BCalls
Again(c) == {d \in BCalls : d[1] = c[1] /\ d[2] = c[2] /\ (~Narrow \/ d[3] \in {c[3], T1(1, "b"), T1(-1, "b")})}
EditScripts == {<< <<"edit", e>>, <<"call", c, RealsFor(c, 2)>> >> : e \in SEdits, c \in ECalls}
               \cup UNION {{<< <<"call", c, RealsFor(c, 0)>>, <<"edit", e>>, <<"call", d, RealsFor(d, 3)>> >> :
                               e \in SEdits, d \in Again(c)} : c \in ECalls1}
               \cup UNION {{<< <<"edit", e>>, <<"edit", f>>, <<"call", c, RealsFor(c, 1)>> >> :
                               f \in SEdits \ {e, <<"reset">>},
                               c \in {c \in BCalls : c[3] \in {T1(1, "b"), T1(-2, "b")} /\ (~Narrow \/ c[1][1] \in {A0, A3})}} : e \in SEdits}
\* realisations: windows with every kind of endpoint (midnight, whole seconds, sub-second) x one bump of each kind
RWindows == {<<Midnight(A0), Midnight(A0 + 9)>>, <<Midnight(A1 + 4), Midnight(A1)>>, <<Midnight(A2), Midnight(A2)>>,
             <<<<A0, 34200, 0>>, <<A0 + 9, 34200, 0>>>>, <<<<A1 + 4, 34200, 250000>>, <<A1, 34200, 250000>>>>,
             <<<<A1, 34200, 0>>, <<A1 + 1, 64800, 0>>>>, <<Midnight(OrdOf(1999, 12, 28)), Midnight(OrdOf(2000, 1, 4))>>}
RBumps   == {<<"int", k>> : k \in {-4, -1, 1, 3}} \cup {<<"td", x>> : x \in {<<3, 0, 0>>, <<-1, 0, 0>>, <<0, 43200, 500000>>}}
            \cup {T1(3, "d"), T1(-2, "d"), T1(1, "b"), T1(-2, "b"), T1(1, "w"), T1(6, "h"), T1(1, "m"),
                  T2(1, "w", -4, "d"), T2(1, "m", -30, "d"), T2(-1, "b", 2, "d")}
RCalls   == {c \in {<<w[1], w[2], b>> : w \in RWindows, b \in RBumps} : InUniverse(c)}
\* ... and the same call twice, in two realisations of the bump (equal by value, another type)
RRCalls  == {c \in RCalls : c[1] \in {Midnight(A0), <<A0, 34200, 0>>, Midnight(A1 + 4)}}
RealScripts == UNION {{<< <<"call", c, rs>> >> : rs \in {rs \in OneOff(c) : RealsOk(rs, c[1], c[2], c[3])}} : c \in RCalls}
               \cup UNION {{<< <<"call", c, r1>>, <<"call", c, r2>> >> : r1 \in BumpVariants(c), r2 \in BumpVariants(c)} : c \in RRCalls}

Scripts == CASE Family = "pair" -> PairScripts [] Family = "edit" -> EditScripts [] Family = "real" -> RealScripts
             [] Family = "all" -> PairScripts \cup EditScripts \cup RealScripts [] OTHER -> {}

CallRec(c, rs) == [op |-> "call", t0 |-> c[1], t1 |-> c[2], bump |-> c[3], reals |-> rs, accept |-> AcceptSeq(c[1], c[2], c[3])]
Rec(s) == CASE s[1] = "call"   -> CallRec(s[2], s[3])
            [] s[1] = "edit"   -> [op |-> "edit", edit |-> s[2]]
            [] s[1] = "mutate" -> [op |-> "mutate_result", how |-> s[2]]
ScriptOk(sc) == \A i \in DOMAIN sc : sc[i][1] = "call" => (InUniverse(sc[i][2]) /\ RealsOk(sc[i][3], sc[i][2][1], sc[i][2][2], sc[i][2][3]))

InitScript == SInit /\ hist \in Scripts
NextScript == /\ st = "idle" /\ st' = "done"
              /\ Assert(ScriptOk(hist), <<"script outside the domain", hist>>)
              /\ PrintT(ToJson([hist |-> [i \in DOMAIN hist |-> Rec(hist[i])]]))
              /\ UNCHANGED <<t0, t1, bump, cur, out, reg, memo, ncalls, hist>>

\* ------------------------------------------------------------- simulated longer sessions ---
\* (run with -simulate -depth SimLen + 1): every action appends its record; the finished session is printed
SimLen == MaxCalls
\* The simulator draws the next step itself (RandomElement, seeded by -seed) instead of enumerating all |SCalls| successors.
\* The draw is kept in `cur` (unused by sessions otherwise) so that one step reads ONE draw.  What a call returns is not
\* needed here: the printed record carries the outcomes the law accepts.
Draw == <<RandomElement(SCalls), RandomElement(SEdits), RandomElement(Mutations), RandomElement(0..5)>>
InitSim == /\ t0 = <<>> /\ t1 = <<>> /\ bump = <<>> /\ cur = Draw /\ out = <<>> /\ st = "idle"
           /\ reg = FreshReg /\ memo = <<>> /\ ncalls = 0 /\ hist = <<>>
Finished(h) == Len(h) = SimLen => /\ Assert(ScriptOk(h), <<"script outside the domain", h>>)
                                  /\ PrintT(ToJson([hist |-> [i \in DOMAIN h |-> Rec(h[i])]]))
SimCall(c) == /\ t0' = c[1] /\ t1' = c[2] /\ bump' = c[3] /\ st' = "returned" /\ out' = <<"ok", <<>>>> /\ ncalls' = ncalls + 1
              /\ UNCHANGED <<reg, memo>>
NextSim == /\ Len(hist) < SimLen
           /\ cur' = Draw
           /\ LET c == cur[1]  e == cur[2]  h == cur[3] IN
              \/ SimCall(c) /\ hist' = Append(hist, <<"call", c, RealsFor(c, cur[4])>>)
              \/ SimCall(c) /\ hist' = Append(hist, <<"call", c, RealsFor(c, cur[4] + 6)>>)
              \/ /\ reg' = EditReg(reg, e) /\ hist' = Append(hist, <<"edit", e>>)
                 /\ UNCHANGED <<t0, t1, bump, out, st, memo, ncalls>>
              \/ /\ st = "returned" /\ st' = "edited" /\ hist' = Append(hist, <<"mutate", h>>)
                 /\ UNCHANGED <<t0, t1, bump, out, reg, memo, ncalls>>
           /\ Finished(hist')
=============================================================================
