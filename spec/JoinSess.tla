------------------------------ MODULE JoinSess ------------------------------
(* Property C02 at the level of SESSIONS on caller-owned operand objects.                        *)
(*                                                                                               *)
(* "join returns exactly the pairs ... both calls terminate on every input and leave both        *)
(* operands unchanged" is a statement about a CALL: the outcome is a function of the two         *)
(* operand values at the moment of the call, and of nothing else.  A call therefore              *)
(*   - has no memory: what earlier calls were made, with which operands, in which mode,          *)
(*     does not matter;                                                                          *)
(*   - owns nothing of the caller: the operands (and every other object of the caller) are the   *)
(*     same afterwards, the caller may edit them in place between calls and the next call sees   *)
(*     the edited value, and what the call returns is the caller's to edit without any operand   *)
(*     changing.                                                                                 *)
(* A session is a POOL of caller-owned objects                                                   *)
(*     X   a table  (columns a = key, v = a second shared column, p = row id)                    *)
(*     Y   a table / plain dict of lists / pyg Dict / pandas DataFrame (columns a, v, q):        *)
(*         join and xor accept "anything a dictable can be made of" as the other operand         *)
(*     Z   a second table (columns a, r)                                                         *)
(* and a sequence of steps on these same objects:                                                *)
(*     call        l.join(r, ..) / l * r / l.xor(r, ..) / l / r / l*r + l/r, any two different   *)
(*                 pool objects (l a table), every mode, explicit key a / implicit keys /        *)
(*                 operator form                                                                 *)
(*     cell        one key cell of a pool object overwritten in place (through the column list   *)
(*                 the object hands out; DataFrame: df.loc)                                      *)
(*     setcol      the key column replaced by a new list: obj['a'] = [...]                       *)
(*     append      a row appended in place to every column                                       *)
(*     editresult  every cell of the table the last call returned overwritten in place           *)
(* The whole pool is read after every step.  Law (StepVerdict): a call leaves the pool as it was *)
(* and returns CallVerdict's outcome for the pool values at that moment; an edit of the caller   *)
(* changes exactly what it says; editing a result changes nothing in the pool.                   *)
(* MC_JoinSess.tla enumerates sessions (and checks a mechanism with and without memo against     *)
(* this law); Trace_Join.tla judges every recorded step with StepVerdict.                        *)
EXTENDS JoinCalls

Objs == <<"X", "Y", "Z">>
YKinds == <<"table", "dict", "Dict", "df">>
KeyA == <<KC("a")>>

\* ---- the caller's own actions ---------------------------------------------------------------------
SetCell(t, i, c, v) == [t EXCEPT !.rows[i][c] = v]
SetCol(t, c, vs) == [t EXCEPT !.rows = [i \in 1..NRows(t) |-> [t.rows[i] EXCEPT ![c] = vs[i]]]]
AppendRow(t, row) == [t EXCEPT !.rows = Append(t.rows, row)]
ApplyEdit(pool, e) ==
    CASE e.kind = "cell"   -> [pool EXCEPT ![e.obj] = SetCell(pool[e.obj], e.row, e.col, e.val)]
      [] e.kind = "setcol" -> [pool EXCEPT ![e.obj] = SetCol(pool[e.obj], e.col, e.vals)]
      [] e.kind = "append" -> [pool EXCEPT ![e.obj] = AppendRow(pool[e.obj], e.newrow)]
      [] e.kind = "editresult" -> pool

\* ---- the verdict on one recorded step ---------------------------------------------------------------
\* o: [step, pool (read immediately before the step = the reading after the previous one), pool_after, out (calls only),
\*     ka / ka_after: the caller's key-list objects (lcols / rcols arguments, kept and reused for the whole session) before and after a call]
StepVerdict(o) ==
    LET s == o.step  pool == o.pool IN
    IF s.kind = "call" THEN
        IF s.implicit /\ s.lk # ImplicitKeys(pool[s.l], pool[s.r]) THEN "harness_domain_error"
        ELSE IF o.out.kind = "timeout" THEN "does_not_terminate"
        ELSE IF o.pool_after[s.l] # pool[s.l] \/ o.pool_after[s.r] # pool[s.r] THEN "operand_changed"
        ELSE IF o.pool_after # pool THEN "bystander_changed"
        ELSE IF "ka" \in DOMAIN o /\ o.ka_after # o.ka THEN "argument_changed"      \* the caller's key lists (one object per key specification, reused)
        ELSE CallVerdict(s.op, pool[s.l], pool[s.r], s.lk, s.rk, s.mode, o.out)
    ELSE IF s.kind = "editresult" THEN (IF o.pool_after # pool THEN "result_aliases_operand" ELSE "")
    ELSE IF o.pool_after # ApplyEdit(pool, s) THEN "caller_edit_not_local"
    ELSE ""

\* ---- the menu of calls ------------------------------------------------------------------------------
\* <<op, mode, form>>; form: explicit key a (spelling rotating) | implicit keys (the common columns) | operator
SPlans == << <<"join", "none", "explicit">>, <<"join", "l", "explicit">>, <<"join", "r", "explicit">>, <<"join", "0", "explicit">>,
             <<"join", "1", "explicit">>, <<"join", "fn", "explicit">>,
             <<"join", "none", "implicit">>, <<"join", "l", "implicit">>, <<"join", "r", "implicit">>, <<"join", "0", "implicit">>,
             <<"join", "1", "implicit">>, <<"join", "fn", "implicit">>,
             <<"xor", "l", "explicit">>, <<"xor", "r", "explicit">>, <<"xor", "l", "implicit">>, <<"xor", "r", "implicit">>,
             <<"leftjoin", "none", "explicit">>, <<"leftjoin", "r", "explicit">>,
             <<"join", "none", "operator">>, <<"xor", "l", "operator">>, <<"leftjoin", "none", "operator">> >>
ExplicitSpellings == <<"str", "list", "tuple", "same">>
\* the call (l, r, plan number j) on the pool; k rotates the spelling
SCall(pool, l, r, j, k) ==
    LET pl == SPlans[j]
        ks == IF pl[3] = "explicit" THEN KeyA ELSE ImplicitKeys(pool[l], pool[r])
        sp == IF pl[3] = "explicit" THEN ExplicitSpellings[((j + k) % 4) + 1] ELSE "none"
        p  == MkPlan(pl[1], pl[2], ks, ks, sp, IF pl[3] = "operator" THEN "operator" ELSE "method", "xy")
    IN  [kind |-> "call", op |-> p.op, mode |-> p.mode, lk |-> p.lk, rk |-> p.rk, spelling |-> p.spelling, how |-> p.how,
         dir |-> p.dir, implicit |-> p.implicit, l |-> l, r |-> r, form |-> pl[3]]
\* the object whose method is called is a table; the other one is any other pool object
CallPairs(kindY) == {lr \in Range(Objs) \X Range(Objs) : lr[1] # lr[2] /\ (lr[1] = "Y" => kindY = "table")}
=============================================================================
