INIT Init
NEXT Next
