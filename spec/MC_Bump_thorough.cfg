CONSTANTS Years = {1900, 1903, 1904, 1999, 2000, 2001, 2096, 2099, 2100, 2101, 2104, 2299}
          NMax = 60
          GenY = 2000
          GenM0 = 1
          GenM1 = 1
INIT Init
NEXT Next
INVARIANT Anchor
INVARIANT ClosedIsStep
INVARIANT StepIsCount
INVARIANT LandsOnWeekday
INVARIANT WeekendRolls
INVARIANT DirectionB
INVARIANT MonotoneB
INVARIANT ComposeB
INVARIANT RoundTripB
INVARIANT PeriodicB
INVARIANT FixedExact
INVARIANT IntTdExact
INVARIANT FixedRoundTrip
INVARIANT UnitsAgree
INVARIANT KeepsClockB
INVARIANT ClosedCivil
INVARIANT MonthMechIsLaw
INVARIANT MonthKeepsDay
INVARIANT MonthShapeIsLaw
INVARIANT YearIsTwelve
INVARIANT RoundTripM
INVARIANT DirectionM
