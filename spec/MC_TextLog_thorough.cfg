CONSTANTS MaxLen = 6
          NNames = 4
          Gen = FALSE
          Cached = TRUE
INIT Init
NEXT Next
PROPERTY Stable
INVARIANT OneObjectPerName
INVARIANT NoDoubleHandlers
INVARIANT OnceEach
INVARIANT OnlyTheFamily
INVARIANT MechIsLaw
