CONSTANTS Wide = FALSE
          Nest = FALSE
INIT InitVar
NEXT Eval
INVARIANT RealAliasPinned
