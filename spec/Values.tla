------------------------------- MODULE Values -------------------------------
(* The universe of Python values as the specifications see them.                               *)
(*                                                                                             *)
(* A value is a tagged pair <<tag, payload>>; the tag fixes the type of the payload, so TLC    *)
(* can compare and collect any two values.                                                      *)
(*    <<"n", 0>>            None                                                                *)
(*    <<"b", 0|1>>          bool                                                                *)
(*    <<"i", k>>            int                                                                 *)
(*    <<"f", <<p, q>>>>     finite float, the exact rational p/q in lowest terms, q > 0        *)
(*    <<"nan", id>>         a float NaN *object*; id is the object's identity                   *)
(*    <<"inf", 1|-1>>       +-infinity                                                          *)
(*    <<"s", str>>          str                                                                 *)
(*    <<"d", <<o, s, u>>>>  datetime: proleptic ordinal, second of day, microsecond             *)
(*    <<"t", seq>> <<"l", seq>>   tuple / list of values                                        *)
(*    <<"m", seq of <<key string, value>>>>   dict with string keys, in key order               *)
(* Half of the library's corner cases live in the gap between Python's three notions of        *)
(* "same": identity (is), equality (==) and what containers use (identity or equality).         *)
EXTENDS Integers, Sequences, FiniteSets

Tag(v) == v[1]
Pay(v) == v[2]

None      == <<"n", 0>>
VBool(b)  == <<"b", IF b THEN 1 ELSE 0>>
VInt(k)   == <<"i", k>>
VFlt(p, q)== <<"f", <<p, q>>>>
VNaN(id)  == <<"nan", id>>
VInf(s)   == <<"inf", s>>
VStr(s)   == <<"s", s>>
VTup(xs)  == <<"t", xs>>
VLst(xs)  == <<"l", xs>>

IsNone(v)  == Tag(v) = "n"
IsBool(v)  == Tag(v) = "b"
IsStr(v)   == Tag(v) = "s"
IsDate(v)  == Tag(v) = "d"
IsNaN(v)   == Tag(v) = "nan"
IsInf(v)   == Tag(v) = "inf"
IsFloat(v) == Tag(v) \in {"f", "nan", "inf"}
IsFinNum(v) == Tag(v) \in {"b", "i", "f"}            \* bool, int or finite float
IsNum(v)   == Tag(v) \in {"b", "i", "f", "nan", "inf"}
IsSeq(v)   == Tag(v) \in {"t", "l"}
\* pyg's is_nan: a float that is NaN *or infinite*
IsNanLike(v) == Tag(v) \in {"nan", "inf"}

\* exact rationals <<p, q>>, q > 0
Rat(v) == IF Tag(v) = "f" THEN Pay(v) ELSE <<Pay(v), 1>>
RatEq(a, b) == a[1] * b[2] = b[1] * a[2]
RatLt(a, b) == a[1] * b[2] < b[1] * a[2]

\* x is y
PyIs(u, v) == u = v

\* x == y (and the identity shortcut containers apply to their elements)
RECURSIVE PyEq(_, _)
PyEqIn(u, v) == PyIs(u, v) \/ PyEq(u, v)
PyEq(u, v) ==
    IF IsNaN(u) \/ IsNaN(v) THEN FALSE
    ELSE IF IsFinNum(u) /\ IsFinNum(v) THEN RatEq(Rat(u), Rat(v))
    ELSE IF IsSeq(u) /\ IsSeq(v)
         THEN /\ Tag(u) = Tag(v)
              /\ Len(Pay(u)) = Len(Pay(v))
              /\ \A i \in 1..Len(Pay(u)) : PyEqIn(Pay(u)[i], Pay(v)[i])
    ELSE u = v

\* x in [s1, s2, ...]
PyIn(u, s) == \E i \in 1..Len(s) : PyEqIn(u, s[i])

\* the equality the table properties (C02, C11) speak of: NaN = NaN whatever the object,
\* an int equals the same-valued float, None = None
RECURSIVE KeyEq(_, _)
KeyEq(u, v) ==
    IF IsNaN(u) /\ IsNaN(v) THEN TRUE
    ELSE IF IsSeq(u) /\ IsSeq(v)
         THEN /\ Tag(u) = Tag(v)
              /\ Len(Pay(u)) = Len(Pay(v))
              /\ \A i \in 1..Len(Pay(u)) : KeyEq(Pay(u)[i], Pay(v)[i])
    ELSE PyEq(u, v)

\* hash/== classes as a set() or dict sees them: identical objects or equal values
SameForSet(u, v) == PyEqIn(u, v)

Range(f) == {f[x] : x \in DOMAIN f}

\* outcome of a call that raised
Raises(cls) == <<"exc", cls>>
=============================================================================
