INIT Init
NEXT Next
