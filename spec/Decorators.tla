----------------------------- MODULE Decorators -----------------------------
(* Property C18 - decorators are transparent: same results, same signature, no double wrapping. *)
(*                                                                                               *)
(* Three layers, all written from the property statement:                                        *)
(*  (a) Python argument binding:  Valid(sig, cc), Bind(sig, cc)  for a signature                 *)
(*          sig = [npos 0..4, ndef 0..npos, varargs, varkw, alt]  (parameters a, b, c, d, *args,  *)
(*          **kw; alt = the function carries the alternative default VALUES: two functions made  *)
(*          from one code object differ only in such values)                                     *)
(*      and a concrete call  cc = [pos |-> <<values>>, kw |-> <<<<name, value>>, ...>>]          *)
(*      (keyword items sorted by name - a call's keywords are a set).                            *)
(*  (b) wrapper objects: a wrapper object is the chain (outermost first) of its layers           *)
(*      <<class, parameter>> over the session's base function.  Wrapping allocates a NEW object  *)
(*      in normal form (no class twice) and leaves every existing object as it was.  Calling an  *)
(*      object has the law-level outcome LawOutcome; ChainEval is the layer-by-layer evaluation. *)
(*  (c) the memo of a cached function: key = arguments as passed, one evaluation per key.        *)
(* The session machine (variables below) has one action per public call: Wrap, Call, CallCached. *)
(* An implementation-shaped model of wrapper.__init__ on a pointer heap (cells/roots) runs in     *)
(* lockstep with the law-level heap and is compared with it inside TLC only (MechRefines).        *)
EXTENDS Values, SequencesExt, FiniteSetsExt, TLC

\* ---------------------------------------------------------------------------------------------
\* (a) signatures, calls, binding
\* ---------------------------------------------------------------------------------------------
ParamNames == <<"a", "b", "c", "d">>
DefaultOf  == [a |-> VStr("da"), b |-> VStr("db"), c |-> VStr("dc"), d |-> VStr("dd")]
AltDefaultOf == [a |-> VStr("ea"), b |-> VInt(0), c |-> VStr("ec"), d |-> None]
DefVal(sig, n) == IF sig.alt THEN AltDefaultOf[n] ELSE DefaultOf[n]      \* defaults belong to the function object
Bad        == VStr("bad")                 \* the base function raises ValueError("bad") when it is handed this value
\* "f raises" has many realisations: the base function fails in the way the marker value it is handed says - an
\* exception with a message, without one (raise ValueError / a bare assert), with several arguments, raised by the
\* interpreter (KeyError), of a user-defined subclass, StopIteration, a message full of format characters.  The law
\* knows the exception only by its class.  Named deviation InterruptsPassThrough: KeyboardInterrupt, SystemExit and
\* GeneratorExit are not failures of f (they are not Exceptions); no wrapper may turn them into a fallback.
FailMarks  == <<"bad", "bad_bare", "bad_assert", "bad_args", "bad_key", "bad_sub", "bad_stop", "bad_fmt",
                "bad_interrupt", "bad_exit", "bad_genexit">>
ExcClassOf == [bad |-> "ValueError", bad_bare |-> "ValueError", bad_assert |-> "AssertionError", bad_args |-> "ValueError",
               bad_key |-> "KeyError", bad_sub |-> "Oops", bad_stop |-> "StopIteration", bad_fmt |-> "ValueError",
               bad_interrupt |-> "KeyboardInterrupt", bad_exit |-> "SystemExit", bad_genexit |-> "GeneratorExit"]
InterruptClasses == {"KeyboardInterrupt", "SystemExit", "GeneratorExit"}
Quiet      == VStr("quiet")               \* ... and returns None (without raising) when it is handed this one
VDict(items) == <<"m", items>>            \* dict with string keys, items sorted by key (Values.tla)
Unspecified  == <<"unspec", 0>>           \* the statement does not pin the outcome
IsExc(r)   == r[1] = "exc"
IsInterrupt(r) == IsExc(r) /\ r[2] \in InterruptClasses
IsFailure(r)   == IsExc(r) /\ ~IsInterrupt(r)           \* "f raises" in the sense of the try_* clause

PName(i)    == ParamNames[i]
Params(sig) == {PName(i) : i \in 1..sig.npos}
WellFormed(sig) == sig.npos \in 0..4 /\ sig.ndef \in 0..sig.npos

KwNames(cc)  == {cc.kw[i][1] : i \in 1..Len(cc.kw)}
KwGet(cc, n) == cc.kw[CHOOSE i \in 1..Len(cc.kw) : cc.kw[i][1] = n][2]

\* Python's rules for   f( *pos, **kw )
Valid(sig, cc) ==
    /\ \A i, j \in 1..Len(cc.kw) : cc.kw[i][1] = cc.kw[j][1] => i = j
    /\ Len(cc.pos) <= sig.npos \/ sig.varargs                                   \* too many positional
    /\ \A n \in KwNames(cc) : n \in Params(sig) \/ sig.varkw                     \* unexpected keyword
    /\ \A i \in 1..sig.npos : ~(i <= Len(cc.pos) /\ PName(i) \in KwNames(cc))    \* multiple values
    /\ \A i \in 1..(sig.npos - sig.ndef) : i <= Len(cc.pos) \/ PName(i) \in KwNames(cc)   \* missing required

ParamVal(sig, cc, i) == IF i <= Len(cc.pos) THEN cc.pos[i]
                        ELSE IF PName(i) \in KwNames(cc) THEN KwGet(cc, PName(i))
                        ELSE DefVal(sig, PName(i))
VarArgs(sig, cc) == VTup(SubSeq(cc.pos, sig.npos + 1, Len(cc.pos)))
VarKw(sig, cc)   == VDict(SelectSeq(cc.kw, LAMBDA p : p[1] \notin Params(sig)))
\* the binding as the dict  {parameter: value, 'args': tuple, 'kw': dict}  with its items in key order
Bind(sig, cc) ==
    VDict(  (IF sig.npos >= 1 THEN <<<<"a", ParamVal(sig, cc, 1)>>>> ELSE <<>>)
         \o (IF sig.varargs THEN <<<<"args", VarArgs(sig, cc)>>>> ELSE <<>>)
         \o [i \in 1..(IF sig.npos >= 1 THEN sig.npos - 1 ELSE 0) |-> <<PName(i + 1), ParamVal(sig, cc, i + 1)>>]
         \o (IF sig.varkw THEN <<<<"kw", VarKw(sig, cc)>>>> ELSE <<>>))

\* what getargspec reports ("" stands for None)
ArgSpec(sig) == [args     |-> SubSeq(ParamNames, 1, sig.npos),
                 varargs  |-> IF sig.varargs THEN "args" ELSE "",
                 varkw    |-> IF sig.varkw THEN "kw" ELSE "",
                 defaults |-> [i \in 1..sig.ndef |-> DefVal(sig, PName(sig.npos - sig.ndef + i))]]

\* The base function of the session returns all its bindings; it raises when it sees Bad and returns
\* None when it sees Quiet (a lookup that misses, a procedure called for its effect).
Passes(cc, v) == (\E i \in 1..Len(cc.pos) : cc.pos[i] = v) \/ (\E i \in 1..Len(cc.kw) : cc.kw[i][2] = v)
FailMarkSet  == Range(FailMarks)
IsMark(v)    == v[1] = "s" /\ v[2] \in FailMarkSet
HasBad(cc)   == (\E i \in 1..Len(cc.pos) : IsMark(cc.pos[i])) \/ (\E i \in 1..Len(cc.kw) : IsMark(cc.kw[i][2]))
\* (the drivers pass at most one marker per call)
FailClass(cc) == LET ps == {i \in 1..Len(cc.pos) : IsMark(cc.pos[i])}  ks == {i \in 1..Len(cc.kw) : IsMark(cc.kw[i][2])} IN
                 ExcClassOf[IF ps # {} THEN cc.pos[Min(ps)][2] ELSE cc.kw[Min(ks)][2][2]]
HasQuiet(cc) == Passes(cc, Quiet)
BaseOutcome(sig, cc) == IF ~Valid(sig, cc) THEN Raises("TypeError")
                        ELSE IF HasBad(cc) THEN Raises(FailClass(cc))
                        ELSE IF HasQuiet(cc) THEN None ELSE Bind(sig, cc)

\* the values every passed argument carries end up in the binding exactly once; the rest are defaults
PassedBag(cc)  == cc.pos \o [i \in 1..Len(cc.kw) |-> cc.kw[i][2]]
BoundBag(sig, cc) == [i \in 1..sig.npos |-> ParamVal(sig, cc, i)]
                     \o (IF sig.varargs THEN Pay(VarArgs(sig, cc)) ELSE <<>>)
                     \o (IF sig.varkw THEN [i \in 1..Len(Pay(VarKw(sig, cc))) |-> Pay(VarKw(sig, cc))[i][2]] ELSE <<>>)
Count(s, v) == Cardinality({i \in 1..Len(s) : s[i] = v})
BindConserves(sig, cc) ==
    Valid(sig, cc) =>
        /\ \A v \in Range(PassedBag(cc)) : Count(BoundBag(sig, cc), v) = Count(PassedBag(cc), v)
        /\ \A i \in 1..sig.npos : ParamVal(sig, cc, i) \in Range(PassedBag(cc)) \/
                                    (i > sig.npos - sig.ndef /\ ParamVal(sig, cc, i) = DefVal(sig, PName(i)))

\* --- the call as WRITTEN -------------------------------------------------------------------------
\* At the call site the keywords stand in some ORDER.  The statement quantifies over "all ways of splitting a valid
\* argument set between positional and keyword passing": the keywords of a call are a SET, and every spelling of a
\* call - the same positional arguments, the same keyword items written in any order - is that call.  (cc.kw above is
\* the canonical spelling: sorted by name.)  In particular "f's first parameter" (try_back's fallback, the argument
\* loops and pd2np look at) is the parameter named first in f's SIGNATURE, never the keyword written first.
IsSpelling(order, cc) == /\ Len(order) = Len(cc.kw)
                         /\ \A i \in 1..Len(cc.kw) : \E j \in 1..Len(order) : order[j] = cc.kw[i][1]
Written(cc, order)    == [pos |-> cc.pos, kw |-> [j \in 1..Len(order) |-> <<order[j], KwGet(cc, order[j])>>]]
\* every order in which n keywords can be written (as sequences of positions of the canonical spelling)
PermsOf(n) == {p \in [1..n -> 1..n] : \A i, j \in 1..n : p[i] = p[j] => i = j}
Orders(cc) == {[j \in 1..Len(cc.kw) |-> cc.kw[p[j]][1]] : p \in PermsOf(Len(cc.kw))}

\* ---------------------------------------------------------------------------------------------
\* (b) wrapper objects
\* ---------------------------------------------------------------------------------------------
\* the decorators of the statement; try_none and try_zero are one class (try_value) with a parameter
KindSeq == <<"try_none", "try_zero", "try_back", "kwargs_support", "cache", "loops", "pd2np">>
Kinds   == Range(KindSeq)
\* try_list has a MUTABLE fallback.  Values of the specification cannot be mutated: whatever the caller does
\* to an object a call returned (append to the list it was given, ...) is not an action of the session and
\* changes nothing - the next failing call returns the fallback again, on this and on every other function
\* decorated with it.  (Named deviation MemoisedResultIsShared: a result served from a memo is the object
\* the first call returned; the drivers do not mutate results of chains with a cache layer.)
\* pd2np_exc = pd2np(exc = ['a', 'b', 'x']): the named parameters are exempt from the pandas -> numpy conversion;
\* on non-pandas input there is nothing to convert, so it is as transparent as plain pd2np.
BindKindSeq == KindSeq \o <<"try_list", "pd2np_exc">>
\* Optional parameters of the try wrappers at non-default values: verbose = True / False (log the failure),
\* repeat = n (try again first).  They are no part of the law: a layer is <<class, fallback>> whatever they are,
\* and so is the outcome of every call.  (return_value = False switches the wrapper off and is outside the statement.)
OptKindSeq  == <<"try_none_verbose", "try_zero_verbose", "try_none_silent", "try_none_repeat", "try_zero_repeat_verbose", "try_list_verbose">>
ExcKindSeq  == BindKindSeq \o OptKindSeq
ClassOf(kind) == IF kind \in {"try_none", "try_zero", "try_list"} \cup Range(OptKindSeq) THEN "try_value"
                 ELSE IF kind = "pd2np_exc" THEN "pd2np" ELSE kind
ParOf(kind)   == IF kind \in {"try_zero", "try_zero_verbose", "try_zero_repeat_verbose"} THEN VInt(0)
                 ELSE IF kind \in {"try_list", "try_list_verbose"} THEN VLst(<<>>)
                 ELSE IF kind = "pd2np_exc" THEN VLst(<<VStr("a"), VStr("b"), VStr("x")>>) ELSE None
LayerOf(kind) == <<ClassOf(kind), ParOf(kind)>>
Layers  == {LayerOf(k) : k \in Kinds}

HasCls(chain, cls) == \E i \in 1..Len(chain) : chain[i][1] = cls
DistinctClasses(chain) == \A i, j \in 1..Len(chain) : chain[i][1] = chain[j][1] => i = j

\* "Wrapping twice with the same decorator - directly or through a chain of other decorators - equals
\* wrapping once": the new layer goes on top and an older layer of the same class, wherever it sits
\* in the chain, is gone.  Named deviation MergeSameClass: for two wrappers of one class with
\* different parameters (try_zero over try_none) the statement says nothing; the library's documented
\* reading - one instance per class, the parameters of the new wrapping win - is accepted.
NormalForm(layer, chain) == <<layer>> \o SelectSeq(chain, LAMBDA ly : ly[1] # layer[1])
\* target 0 is the base function itself
WrapObjs(os, layer, target) == Append(os, NormalForm(layer, IF target = 0 THEN <<>> ELSE os[target]))

\* --- law level: the outcome of calling an object ---------------------------------------------
\* kwargs_support "makes a function WITHOUT **kwargs ignore exactly the keywords it does not declare"
DropUndeclared(sig, cc) == [cc EXCEPT !.kw = SelectSeq(@, LAMBDA p : p[1] \in Params(sig))]
Effective(sig, chain, cc) == IF HasCls(chain, "kwargs_support") /\ ~sig.varkw THEN DropUndeclared(sig, cc) ELSE cc
ValidFor(sig, chain, cc)  == Valid(sig, Effective(sig, chain, cc))
\* Named deviation NoFirstArgument: try_back's fallback is "the first argument"; a call that passes
\* neither a positional argument nor the first parameter by name has none - outcome unspecified.
FirstArg(sig, cc) == IF Len(cc.pos) > 0 THEN cc.pos[1]
                     ELSE IF sig.npos > 0 /\ "a" \in KwNames(cc) THEN KwGet(cc, "a") ELSE Unspecified
IsTry(layer) == layer[1] \in {"try_value", "try_back"}
Fallback(layer, sig, cc) == IF layer[1] = "try_value" THEN layer[2] ELSE FirstArg(sig, cc)
TryIdx(chain) == {i \in 1..Len(chain) : IsTry(chain[i])}
\* what f returns; the fallback (of the try wrapper nearest to f) exactly when f raises; cache, loops
\* on non-containers and pd2np on non-pandas input change nothing
LawOutcome(sig, chain, cc) ==
    LET r == BaseOutcome(sig, Effective(sig, chain, cc)) IN
    IF IsFailure(r) /\ TryIdx(chain) # {} THEN Fallback(chain[Max(TryIdx(chain))], sig, cc) ELSE r

\* --- mechanism: evaluate layer by layer, each layer calling the next ---------------------------
RECURSIVE ChainEval(_, _, _)
ChainEval(sig, chain, cc) ==
    IF chain = <<>> THEN BaseOutcome(sig, cc)
    ELSE LET ly == Head(chain) rest == Tail(chain) IN
         CASE ly[1] = "try_value" -> (LET r == ChainEval(sig, rest, cc) IN IF IsFailure(r) THEN ly[2] ELSE r)
           [] ly[1] = "try_back"  -> (LET r == ChainEval(sig, rest, cc) IN IF IsFailure(r) THEN FirstArg(sig, cc) ELSE r)
           [] ly[1] = "kwargs_support" -> ChainEval(sig, rest, IF sig.varkw THEN cc ELSE DropUndeclared(sig, cc))
           [] OTHER -> ChainEval(sig, rest, cc)

\* --- mechanism: wrapper.__init__ on a pointer heap ----------------------------------------------
\* a cell is [cls, par, inner]; inner = 0 is the base function, otherwise the address of a cell.
\* roots[i] is the cell of the i-th object handed to the user.
RECURSIVE View(_, _)
View(cs, p) == IF p = 0 THEN <<>> ELSE <<<<cs[p].cls, cs[p].par>>>> \o View(cs, cs[p].inner)

\* today's loop: `while isinstance(f, wrapper): if type(f.function) == type(self): f['function'] =
\* f.function.function  else: f = f.function` - it writes into whatever cell f happens to be
RECURSIVE WalkToday(_, _, _)
WalkToday(cs, f, cls) ==
    IF f = 0 THEN cs
    ELSE LET g == cs[f].inner IN
         IF g # 0 /\ cs[g].cls = cls THEN WalkToday([cs EXCEPT ![f].inner = cs[g].inner], f, cls)
         ELSE WalkToday(cs, g, cls)
\* repaired loop: a cell is copied before the walk descends into it, so f is always a private cell
RECURSIVE WalkFixed(_, _, _)
WalkFixed(cs, f, cls) ==
    IF f = 0 \/ cs[f].inner = 0 THEN cs
    ELSE LET g == cs[f].inner IN
         IF cs[g].cls = cls THEN WalkFixed([cs EXCEPT ![f].inner = cs[g].inner], f, cls)
         ELSE LET cs1 == Append(cs, cs[g]) n == Len(cs) + 1 IN WalkFixed([cs1 EXCEPT ![f].inner = n], n, cls)

MechWrap(cs, rs, layer, target, fixed) ==
    LET t == IF target = 0 THEN 0 ELSE rs[target] IN
    IF t = 0 THEN [cells |-> Append(cs, [cls |-> layer[1], par |-> layer[2], inner |-> 0]), roots |-> Append(rs, Len(cs) + 1)]
    ELSE LET cs1 == Append(cs, cs[t])                      \* function = copy(function): a shallow copy of the top cell
             n1  == Len(cs) + 1
             same == cs[t].cls = layer[1]
             \* same class on top: function = function.function (a shared cell today, a copy when repaired)
             cs2 == IF same /\ fixed /\ cs[t].inner # 0 THEN Append(cs1, cs[cs[t].inner]) ELSE cs1
             fn  == IF ~same THEN n1 ELSE IF fixed /\ cs[t].inner # 0 THEN Len(cs1) + 1 ELSE cs[t].inner
             cs3 == IF fixed THEN WalkFixed(cs2, fn, layer[1]) ELSE WalkToday(cs2, fn, layer[1])
         IN  [cells |-> Append(cs3, [cls |-> layer[1], par |-> layer[2], inner |-> fn]), roots |-> Append(rs, Len(cs3) + 1)]

\* ---------------------------------------------------------------------------------------------
\* (c) the memo of a cached function; the base function counts its evaluations and returns
\*     (bindings, number of this evaluation)
\* ---------------------------------------------------------------------------------------------
Result(sig, cc, n) == IF HasQuiet(cc) THEN None ELSE VTup(<<Bind(sig, cc), VInt(n)>>)
MemoIdx(m, cc) == {i \in 1..Len(m) : m[i][1] = cc}
\* key = the arguments as passed: positional tuple and the set of keyword items
MemoCall(m, ev, sig, cc) ==
    IF MemoIdx(m, cc) # {}
    THEN [memo |-> m, evals |-> ev, out |-> m[CHOOSE i \in MemoIdx(m, cc) : TRUE][2]]
    ELSE [memo |-> Append(m, <<cc, Result(sig, cc, ev + 1)>>), evals |-> ev + 1, out |-> Result(sig, cc, ev + 1)]
\* the same, said directly from the statement for a whole call sequence: the j-th call returns the
\* result of the first call with these arguments, which was the (number of distinct argument
\* combinations seen until then)-th evaluation
LawOuts(sig, calls) ==
    [j \in 1..Len(calls) |->
        LET first == Min({i \in 1..j : calls[i] = calls[j]}) IN
        Result(sig, calls[j], Cardinality({calls[i] : i \in 1..first}))]
LawEvals(calls) == Cardinality(Range(calls))
\* (c') SCALE.  Nothing in the two laws above mentions how long the history is or how many distinct combinations it
\* holds: MemoCall is the law for the 3rd call and for the 3000th (MemoScales: the j-th call of ANY call sequence returns
\* the result of the first call with these arguments and evaluates f iff there was none - TLC compares MemoCall with
\* LawOuts / LawEvals on every small sequence, MemoIsLaw; the trace specification folds MemoCall over recorded histories
\* of hundreds and thousands of distinct combinations followed by repeats of early, middle and late ones).  Likewise
\* LawOutcome has no memory (TransparentForever): the n-th call on one wrapper object is judged like the first.
MemoScales(sig, calls) ==
    LET RECURSIVE Run(_, _, _)
        Run(i, m, ev) == IF i > Len(calls) THEN TRUE
                         ELSE LET r == MemoCall(m, ev, sig, calls[i]) IN
                              /\ r.out = LawOuts(sig, calls)[i]
                              /\ r.evals = LawEvals(SubSeq(calls, 1, i))
                              /\ Run(i + 1, r.memo, r.evals)
    IN Run(1, <<>>, 0)
\* Named deviation Uncached: an argument that cannot be hashed (list, dict, set) may be evaluated anew
\* on every call instead of once.
RECURSIVE Unhashable(_)
Unhashable(v) == Tag(v) \in {"l", "m", "set"} \/ (Tag(v) = "t" /\ \E i \in 1..Len(Pay(v)) : Unhashable(Pay(v)[i]))
UnhashableCall(cc) == (\E i \in 1..Len(cc.pos) : Unhashable(cc.pos[i])) \/ (\E i \in 1..Len(cc.kw) : Unhashable(cc.kw[i][2]))

\* ---------------------------------------------------------------------------------------------
\* (d) the caller's own objects: a binding (the dict getcallargs returned) belongs to the caller.  It may be
\*     replayed any number of times, on f and on every wrapper of f, and edited by its owner in between; a call
\*     has no memory and owns nothing of the caller: every replay is judged on the binding as it is at THAT moment
\*     and leaves it as it was.
\* ---------------------------------------------------------------------------------------------
DHas(D, k)    == \E i \in 1..Len(Pay(D)) : Pay(D)[i][1] = k
DGet(D, k)    == Pay(D)[CHOOSE i \in 1..Len(Pay(D)) : Pay(D)[i][1] = k][2]
DSet(D, k, v) == VDict([i \in 1..Len(Pay(D)) |-> IF Pay(D)[i][1] = k THEN <<k, v>> ELSE Pay(D)[i]])      \* k is a key of D
DPutLast(D, k, v) == IF DHas(D, k) THEN DSet(D, k, v) ELSE VDict(Append(Pay(D), <<k, v>>))               \* k sorts after every key of D
\* the call a binding stands for: every (a, k) with getcallargs(f, *a, **k) = D gives f the same parameters;
\* this one passes all of them by position
CallOfBinding(sig, D) == [pos |-> [i \in 1..sig.npos |-> DGet(D, PName(i))] \o (IF sig.varargs THEN Pay(DGet(D, "args")) ELSE <<>>),
                          kw  |-> IF sig.varkw THEN Pay(DGet(D, "kw")) ELSE <<>>]
\* call_with_callargs(obj, D) == obj( *a, **k ) for the calls (a, k) that D binds.  (NoFirstArgument: when the first
\* parameter holds its default, one of those calls leaves it out and try_back's fallback is not pinned.)
ReplayLaw(sig, chain, D) ==
    LET cc == CallOfBinding(sig, D) IN
    IF /\ HasCls(chain, "try_back") /\ IsFailure(BaseOutcome(sig, cc))
       /\ sig.npos >= 1 /\ sig.ndef = sig.npos /\ DGet(D, "a") = DefVal(sig, "a")
    THEN Unspecified ELSE LawOutcome(sig, chain, cc)
\* what the owner of a binding may do to it between two calls (in place); each edit turns the binding of one valid
\* call into the binding of another valid call
Edits == <<"set_first", "fail_first", "more_args", "more_kw">>
EditApplies(sig, e) == (e \in {"set_first", "fail_first"} /\ sig.npos >= 1) \/ (e = "more_args" /\ sig.varargs) \/ (e = "more_kw" /\ sig.varkw)
\* (the model-checked machine makes every edit once: the edits stay finitely many)
EditOK(sig, D, e) == /\ EditApplies(sig, e)
                     /\ CASE e = "set_first"  -> DGet(D, "a") # VInt(9)
                          [] e = "fail_first" -> DGet(D, "a") # VStr("bad_bare")
                          [] e = "more_args"  -> (LET xs == Pay(DGet(D, "args")) IN IF Len(xs) = 0 THEN TRUE ELSE xs[Len(xs)] # VInt(8))
                          [] e = "more_kw"    -> ~DHas(DGet(D, "kw"), "z")
                          [] OTHER -> FALSE
Edited(sig, D, e) == CASE e = "set_first"  -> DSet(D, "a", VInt(9))                                         \* D['a'] = 9
                       [] e = "fail_first" -> DSet(D, "a", VStr("bad_bare"))                                 \* D['a'] = 'bad_bare'
                       [] e = "more_args"  -> DSet(D, "args", VTup(Append(Pay(DGet(D, "args")), VInt(8))))   \* D['args'] += (8,)
                       [] e = "more_kw"    -> DSet(D, "kw", DPutLast(DGet(D, "kw"), "z", VInt(7)))           \* D['kw']['z'] = 7
                       [] OTHER -> D

\* ---------------------------------------------------------------------------------------------
\* (e) ready-made decorator OBJECTS: every wrapper class can be instantiated without a function (try_value(value = 0),
\*     cache_func(), pd2np(exc = ...)) and the object applied to any number of functions.  The functions it was
\*     applied to have nothing in common: each is the chain over ITS function, a cached one has ITS memo, and
\*     calling one never evaluates another's function.  The session has two functions made from one code object:
\*     function 1 = base, function 2 = its twin with the other default values (same calls valid, other results).
\* ---------------------------------------------------------------------------------------------
TwinOf(sig) == [sig EXCEPT !.alt = ~@]
CacheLayer  == <<"cache", None>>

\* ---------------------------------------------------------------------------------------------
\* The session: one base function, a heap of wrapper objects, the memo of cache(base), the caller's bindings,
\* the functions decorated by ready-made decorator objects
\* ---------------------------------------------------------------------------------------------
CONSTANT FixedCode       \* TRUE: the pointer heap follows the repaired wrapper.__init__, FALSE: today's
VARIABLES base,          \* signature of the session's base function
          objs,          \* law level: the sequence of wrapper objects built so far, each one a chain
          cells, roots,  \* mechanism: the same objects as cells with pointers
          memo, evals,   \* the memo of cache(base) and the number of evaluations of base
          store,         \* the caller's bindings (dicts returned by getcallargs), in the order they were obtained
          dobjs,         \* functions decorated by ready-made decorator objects: [fn 1|2, chain, memo = keys evaluated]
          out            \* the last public call: <<"wrapped", new object>> or <<"ret", object, call, outcome>>
                         \* (object 0 = the base function, -1 = the cached function cache(base)),
                         \* <<"gca", object, call, binding>>, <<"cwc", object, binding number, outcome>>, <<"edit", binding number, edit>>,
                         \* <<"decorated", new object>>, <<"dret", object, call, outcome, evaluations of <<fn 1, fn 2>> (-1 = not pinned)>>
vars == <<base, objs, cells, roots, memo, evals, store, dobjs, out>>

SessionInit(sig) == /\ base = sig /\ objs = <<>> /\ cells = <<>> /\ roots = <<>>
                    /\ memo = <<>> /\ evals = 0 /\ store = <<>> /\ dobjs = <<>> /\ out = <<"idle", 0>>

\* W(obj): allocate the normal form; nothing that exists changes
Wrap(layer, target) ==
    /\ target \in 0..Len(objs)
    /\ objs' = WrapObjs(objs, layer, target)
    /\ LET m == MechWrap(cells, roots, layer, target, FixedCode) IN cells' = m.cells /\ roots' = m.roots
    /\ out' = <<"wrapped", Len(objs) + 1>>
    /\ UNCHANGED <<base, memo, evals, store, dobjs>>
\* obj( *pos, **kw ): a pure query (object 0 = the base function)
Call(o, cc) ==
    /\ o \in 0..Len(objs)
    /\ out' = <<"ret", o, cc, LawOutcome(base, IF o = 0 THEN <<>> ELSE objs[o], cc)>>
    /\ UNCHANGED <<base, objs, cells, roots, memo, evals, store, dobjs>>
\* cache(base)( *pos, **kw ) with the counting base function
CallCached(cc) ==
    /\ Valid(base, cc) /\ ~HasBad(cc)
    /\ LET r == MemoCall(memo, evals, base, cc) IN memo' = r.memo /\ evals' = r.evals /\ out' = <<"ret", -1, cc, r.out>>
    /\ UNCHANGED <<base, objs, cells, roots, store, dobjs>>

\* --- the caller's bindings -----------------------------------------------------------------------
ChainOf(o) == IF o = 0 THEN <<>> ELSE objs[o]
\* D = getcallargs(obj, *pos, **kw): a NEW dict for the caller; same binding through every wrapper ("reports f's
\* argument specification")
GetCallArgs(o, cc) ==
    /\ o \in 0..Len(objs) /\ (Valid(base, cc) = TRUE)         \* (= TRUE: evaluated as a value, not split into branches by TLC)
    /\ store' = Append(store, Bind(base, cc))
    /\ out' = <<"gca", o, cc, Bind(base, cc)>>
    /\ UNCHANGED <<base, objs, cells, roots, memo, evals, dobjs>>
\* call_with_callargs(obj, D) with a binding the caller holds: a pure query of the binding as it is now
Replay(o, i) ==
    /\ o \in 0..Len(objs) /\ i \in 1..Len(store)
    /\ out' = <<"cwc", o, i, ReplayLaw(base, ChainOf(o), store[i])>>
    /\ UNCHANGED <<base, objs, cells, roots, memo, evals, store, dobjs>>
\* the caller edits its own binding in place
EditBinding(i, e) ==
    /\ i \in 1..Len(store) /\ EditOK(base, store[i], e)
    /\ store' = [store EXCEPT ![i] = Edited(base, @, e)]
    /\ out' = <<"edit", i, e>>
    /\ UNCHANGED <<base, objs, cells, roots, memo, evals, dobjs>>

\* --- ready-made decorator objects ------------------------------------------------------------------
FnSig(fn) == IF fn = 1 THEN base ELSE TwinOf(base)
\* D(function fn): a new wrapper of THAT function
Decorate(kind, fn) ==
    /\ dobjs' = Append(dobjs, [fn |-> fn, chain |-> <<LayerOf(kind)>>, memo |-> <<>>])
    /\ out' = <<"decorated", Len(dobjs) + 1>>
    /\ UNCHANGED <<base, objs, cells, roots, memo, evals, store>>
\* D(an object built earlier): a new wrapper in normal form over the same function.  (SharedMemo: it may share the
\* memo of the cached function it was built from - its own memo is not pinned, see CountPinned.)
Redecorate(kind, i) ==
    /\ i \in 1..Len(dobjs)
    /\ dobjs' = Append(dobjs, [fn |-> dobjs[i].fn, chain |-> NormalForm(LayerOf(kind), dobjs[i].chain), memo |-> <<>>])
    /\ out' = <<"decorated", Len(dobjs) + 1>>
    /\ UNCHANGED <<base, objs, cells, roots, memo, evals, store>>
\* "exactly once per distinct combination" is pinned for cache(f) itself when no other cached wrapper of f exists
CountPinned(i) == /\ dobjs[i].chain = <<CacheLayer>>
                  /\ \A j \in 1..Len(dobjs) : (j # i /\ dobjs[j].fn = dobjs[i].fn) => ~HasCls(dobjs[j].chain, "cache")
\* obj( *pos, **kw ) on a decorated function: the outcome is the law on ITS function; the OTHER function is not
\* evaluated at all; its own function once for a new key and never for a key seen (when pinned)
CallDecorated(i, cc) ==
    /\ i \in 1..Len(dobjs)
    /\ LET ob == dobjs[i]  sig == FnSig(ob.fn)
           normal == ~IsExc(BaseOutcome(sig, Effective(sig, ob.chain, cc)))
           hit == \E k \in 1..Len(ob.memo) : ob.memo[k] = cc
           own == IF CountPinned(i) /\ normal THEN (IF hit THEN 0 ELSE 1) ELSE -1
       IN /\ (ValidFor(sig, ob.chain, cc) = TRUE)
          /\ out' = <<"dret", i, cc, LawOutcome(sig, ob.chain, cc), IF ob.fn = 1 THEN <<own, 0>> ELSE <<0, own>>>>
          /\ dobjs' = [dobjs EXCEPT ![i].memo = IF HasCls(ob.chain, "cache") /\ normal /\ ~hit THEN Append(@, cc) ELSE @]
    /\ UNCHANGED <<base, objs, cells, roots, memo, evals, store>>

\* --- properties of the session ------------------------------------------------------------------
\* history property: building a new wrapper never changes an object that already exists
OnlyNewObject == [][/\ Len(objs') >= Len(objs)
                    /\ \A i \in 1..Len(objs) : objs'[i] = objs[i]]_vars
NoDoubleWrapping == \A i \in 1..Len(objs) : DistinctClasses(objs[i])
\* the pointer heap shows the user exactly the law-level objects
MechRefines == /\ Len(roots) = Len(objs)
               /\ \A i \in 1..Len(objs) : View(cells, roots[i]) = objs[i]
\* memo: one entry and one evaluation per distinct key, entries never change
MemoOncePerKey == /\ evals = Len(memo)
                  /\ \A i, j \in 1..Len(memo) : memo[i][1] = memo[j][1] => i = j
                  /\ \A i \in 1..Len(memo) : memo[i][2] = Result(base, memo[i][1], i)
MemoStable == [][/\ Len(memo') >= Len(memo)
                 /\ \A i \in 1..Len(memo) : memo'[i] = memo[i]]_vars
\* a call owns nothing of the caller: only the caller's own edit changes a binding it holds
ArgumentsUntouched == [][/\ Len(store') >= Len(store)
                         /\ \A i \in 1..Len(store) : store'[i] = store[i] \/ (out'[1] = "edit" /\ out'[2] = i)]_vars
\* every binding the caller holds is the binding of a valid call, whatever it did to it
BindingsAreBindings == \A i \in 1..Len(store) :
                          /\ Valid(base, CallOfBinding(base, store[i]))
                          /\ Bind(base, CallOfBinding(base, store[i])) = store[i]
\* decorated functions: objects never change (but for the keys a memo has seen), no class twice, one memo entry per key
DecoratedStable == [][/\ Len(dobjs') >= Len(dobjs)
                      /\ \A i \in 1..Len(dobjs) : dobjs'[i].fn = dobjs[i].fn /\ dobjs'[i].chain = dobjs[i].chain]_vars
DecoratedNormal == \A i \in 1..Len(dobjs) : /\ DistinctClasses(dobjs[i].chain)
                                            /\ \A j, k \in 1..Len(dobjs[i].memo) : dobjs[i].memo[j] = dobjs[i].memo[k] => j = k
=============================================================================
