----------------------------- MODULE Decorators -----------------------------
(* Property C18 - decorators are transparent: same results, same signature, no double wrapping. *)
(*                                                                                               *)
(* Three layers, all written from the property statement:                                        *)
(*  (a) Python argument binding:  Valid(sig, cc), Bind(sig, cc)  for a signature                 *)
(*          sig = [npos 0..4, ndef 0..npos, varargs, varkw, alt]  (parameters a, b, c, d, *args,  *)
(*          **kw; alt = the function carries the alternative default VALUES: two functions made  *)
(*          from one code object differ only in such values)                                     *)
(*      and a concrete call  cc = [pos |-> <<values>>, kw |-> <<<<name, value>>, ...>>]          *)
(*      (keyword items sorted by name - a call's keywords are a set).                            *)
(*  (b) wrapper objects: a wrapper object is the chain (outermost first) of its layers           *)
(*      <<class, parameter>> over the session's base function.  Wrapping allocates a NEW object  *)
(*      in normal form (no class twice) and leaves every existing object as it was.  Calling an  *)
(*      object has the law-level outcome LawOutcome; ChainEval is the layer-by-layer evaluation. *)
(*  (c) the memo of a cached function: key = arguments as passed, one evaluation per key.        *)
(* The session machine (variables below) has one action per public call: Wrap, Call, CallCached. *)
(* An implementation-shaped model of wrapper.__init__ on a pointer heap (cells/roots) runs in     *)
(* lockstep with the law-level heap and is compared with it inside TLC only (MechRefines).        *)
EXTENDS Values, SequencesExt, FiniteSetsExt, TLC

\* ---------------------------------------------------------------------------------------------
\* (a) signatures, calls, binding
\* ---------------------------------------------------------------------------------------------
ParamNames == <<"a", "b", "c", "d">>
DefaultOf  == [a |-> VStr("da"), b |-> VStr("db"), c |-> VStr("dc"), d |-> VStr("dd")]
AltDefaultOf == [a |-> VStr("ea"), b |-> VInt(0), c |-> VStr("ec"), d |-> None]
DefVal(sig, n) == IF sig.alt THEN AltDefaultOf[n] ELSE DefaultOf[n]      \* defaults belong to the function object
Bad        == VStr("bad")                 \* the base function raises ValueError when it is handed this value
Quiet      == VStr("quiet")               \* ... and returns None (without raising) when it is handed this one
VDict(items) == <<"m", items>>            \* dict with string keys, items sorted by key (Values.tla)
Unspecified  == <<"unspec", 0>>           \* the statement does not pin the outcome
IsExc(r)   == r[1] = "exc"

PName(i)    == ParamNames[i]
Params(sig) == {PName(i) : i \in 1..sig.npos}
WellFormed(sig) == sig.npos \in 0..4 /\ sig.ndef \in 0..sig.npos

KwNames(cc)  == {cc.kw[i][1] : i \in 1..Len(cc.kw)}
KwGet(cc, n) == cc.kw[CHOOSE i \in 1..Len(cc.kw) : cc.kw[i][1] = n][2]

\* Python's rules for   f( *pos, **kw )
Valid(sig, cc) ==
    /\ \A i, j \in 1..Len(cc.kw) : cc.kw[i][1] = cc.kw[j][1] => i = j
    /\ Len(cc.pos) <= sig.npos \/ sig.varargs                                   \* too many positional
    /\ \A n \in KwNames(cc) : n \in Params(sig) \/ sig.varkw                     \* unexpected keyword
    /\ \A i \in 1..sig.npos : ~(i <= Len(cc.pos) /\ PName(i) \in KwNames(cc))    \* multiple values
    /\ \A i \in 1..(sig.npos - sig.ndef) : i <= Len(cc.pos) \/ PName(i) \in KwNames(cc)   \* missing required

ParamVal(sig, cc, i) == IF i <= Len(cc.pos) THEN cc.pos[i]
                        ELSE IF PName(i) \in KwNames(cc) THEN KwGet(cc, PName(i))
                        ELSE DefVal(sig, PName(i))
VarArgs(sig, cc) == VTup(SubSeq(cc.pos, sig.npos + 1, Len(cc.pos)))
VarKw(sig, cc)   == VDict(SelectSeq(cc.kw, LAMBDA p : p[1] \notin Params(sig)))
\* the binding as the dict  {parameter: value, 'args': tuple, 'kw': dict}  with its items in key order
Bind(sig, cc) ==
    VDict(  (IF sig.npos >= 1 THEN <<<<"a", ParamVal(sig, cc, 1)>>>> ELSE <<>>)
         \o (IF sig.varargs THEN <<<<"args", VarArgs(sig, cc)>>>> ELSE <<>>)
         \o [i \in 1..(IF sig.npos >= 1 THEN sig.npos - 1 ELSE 0) |-> <<PName(i + 1), ParamVal(sig, cc, i + 1)>>]
         \o (IF sig.varkw THEN <<<<"kw", VarKw(sig, cc)>>>> ELSE <<>>))

\* what getargspec reports ("" stands for None)
ArgSpec(sig) == [args     |-> SubSeq(ParamNames, 1, sig.npos),
                 varargs  |-> IF sig.varargs THEN "args" ELSE "",
                 varkw    |-> IF sig.varkw THEN "kw" ELSE "",
                 defaults |-> [i \in 1..sig.ndef |-> DefVal(sig, PName(sig.npos - sig.ndef + i))]]

\* The base function of the session returns all its bindings; it raises when it sees Bad and returns
\* None when it sees Quiet (a lookup that misses, a procedure called for its effect).
Passes(cc, v) == (\E i \in 1..Len(cc.pos) : cc.pos[i] = v) \/ (\E i \in 1..Len(cc.kw) : cc.kw[i][2] = v)
HasBad(cc)   == Passes(cc, Bad)
HasQuiet(cc) == Passes(cc, Quiet)
BaseOutcome(sig, cc) == IF ~Valid(sig, cc) THEN Raises("TypeError")
                        ELSE IF HasBad(cc) THEN Raises("ValueError")
                        ELSE IF HasQuiet(cc) THEN None ELSE Bind(sig, cc)

\* the values every passed argument carries end up in the binding exactly once; the rest are defaults
PassedBag(cc)  == cc.pos \o [i \in 1..Len(cc.kw) |-> cc.kw[i][2]]
BoundBag(sig, cc) == [i \in 1..sig.npos |-> ParamVal(sig, cc, i)]
                     \o (IF sig.varargs THEN Pay(VarArgs(sig, cc)) ELSE <<>>)
                     \o (IF sig.varkw THEN [i \in 1..Len(Pay(VarKw(sig, cc))) |-> Pay(VarKw(sig, cc))[i][2]] ELSE <<>>)
Count(s, v) == Cardinality({i \in 1..Len(s) : s[i] = v})
BindConserves(sig, cc) ==
    Valid(sig, cc) =>
        /\ \A v \in Range(PassedBag(cc)) : Count(BoundBag(sig, cc), v) = Count(PassedBag(cc), v)
        /\ \A i \in 1..sig.npos : ParamVal(sig, cc, i) \in Range(PassedBag(cc)) \/
                                    (i > sig.npos - sig.ndef /\ ParamVal(sig, cc, i) = DefVal(sig, PName(i)))

\* ---------------------------------------------------------------------------------------------
\* (b) wrapper objects
\* ---------------------------------------------------------------------------------------------
\* the decorators of the statement; try_none and try_zero are one class (try_value) with a parameter
KindSeq == <<"try_none", "try_zero", "try_back", "kwargs_support", "cache", "loops", "pd2np">>
Kinds   == Range(KindSeq)
\* try_list has a MUTABLE fallback.  Values of the specification cannot be mutated: whatever the caller does
\* to an object a call returned (append to the list it was given, ...) is not an action of the session and
\* changes nothing - the next failing call returns the fallback again, on this and on every other function
\* decorated with it.  (Named deviation MemoisedResultIsShared: a result served from a memo is the object
\* the first call returned; the drivers do not mutate results of chains with a cache layer.)
\* pd2np_exc = pd2np(exc = ['a', 'b', 'x']): the named parameters are exempt from the pandas -> numpy conversion;
\* on non-pandas input there is nothing to convert, so it is as transparent as plain pd2np.
BindKindSeq == KindSeq \o <<"try_list", "pd2np_exc">>
ClassOf(kind) == IF kind \in {"try_none", "try_zero", "try_list"} THEN "try_value"
                 ELSE IF kind = "pd2np_exc" THEN "pd2np" ELSE kind
ParOf(kind)   == IF kind = "try_zero" THEN VInt(0) ELSE IF kind = "try_list" THEN VLst(<<>>)
                 ELSE IF kind = "pd2np_exc" THEN VLst(<<VStr("a"), VStr("b"), VStr("x")>>) ELSE None
LayerOf(kind) == <<ClassOf(kind), ParOf(kind)>>
Layers  == {LayerOf(k) : k \in Kinds}

HasCls(chain, cls) == \E i \in 1..Len(chain) : chain[i][1] = cls
DistinctClasses(chain) == \A i, j \in 1..Len(chain) : chain[i][1] = chain[j][1] => i = j

\* "Wrapping twice with the same decorator - directly or through a chain of other decorators - equals
\* wrapping once": the new layer goes on top and an older layer of the same class, wherever it sits
\* in the chain, is gone.  Named deviation MergeSameClass: for two wrappers of one class with
\* different parameters (try_zero over try_none) the statement says nothing; the library's documented
\* reading - one instance per class, the parameters of the new wrapping win - is accepted.
NormalForm(layer, chain) == <<layer>> \o SelectSeq(chain, LAMBDA ly : ly[1] # layer[1])
\* target 0 is the base function itself
WrapObjs(os, layer, target) == Append(os, NormalForm(layer, IF target = 0 THEN <<>> ELSE os[target]))

\* --- law level: the outcome of calling an object ---------------------------------------------
\* kwargs_support "makes a function WITHOUT **kwargs ignore exactly the keywords it does not declare"
DropUndeclared(sig, cc) == [cc EXCEPT !.kw = SelectSeq(@, LAMBDA p : p[1] \in Params(sig))]
Effective(sig, chain, cc) == IF HasCls(chain, "kwargs_support") /\ ~sig.varkw THEN DropUndeclared(sig, cc) ELSE cc
ValidFor(sig, chain, cc)  == Valid(sig, Effective(sig, chain, cc))
\* Named deviation NoFirstArgument: try_back's fallback is "the first argument"; a call that passes
\* neither a positional argument nor the first parameter by name has none - outcome unspecified.
FirstArg(sig, cc) == IF Len(cc.pos) > 0 THEN cc.pos[1]
                     ELSE IF sig.npos > 0 /\ "a" \in KwNames(cc) THEN KwGet(cc, "a") ELSE Unspecified
IsTry(layer) == layer[1] \in {"try_value", "try_back"}
Fallback(layer, sig, cc) == IF layer[1] = "try_value" THEN layer[2] ELSE FirstArg(sig, cc)
TryIdx(chain) == {i \in 1..Len(chain) : IsTry(chain[i])}
\* what f returns; the fallback (of the try wrapper nearest to f) exactly when f raises; cache, loops
\* on non-containers and pd2np on non-pandas input change nothing
LawOutcome(sig, chain, cc) ==
    LET r == BaseOutcome(sig, Effective(sig, chain, cc)) IN
    IF IsExc(r) /\ TryIdx(chain) # {} THEN Fallback(chain[Max(TryIdx(chain))], sig, cc) ELSE r

\* --- mechanism: evaluate layer by layer, each layer calling the next ---------------------------
RECURSIVE ChainEval(_, _, _)
ChainEval(sig, chain, cc) ==
    IF chain = <<>> THEN BaseOutcome(sig, cc)
    ELSE LET ly == Head(chain) rest == Tail(chain) IN
         CASE ly[1] = "try_value" -> (LET r == ChainEval(sig, rest, cc) IN IF IsExc(r) THEN ly[2] ELSE r)
           [] ly[1] = "try_back"  -> (LET r == ChainEval(sig, rest, cc) IN IF IsExc(r) THEN FirstArg(sig, cc) ELSE r)
           [] ly[1] = "kwargs_support" -> ChainEval(sig, rest, IF sig.varkw THEN cc ELSE DropUndeclared(sig, cc))
           [] OTHER -> ChainEval(sig, rest, cc)

\* --- mechanism: wrapper.__init__ on a pointer heap ----------------------------------------------
\* a cell is [cls, par, inner]; inner = 0 is the base function, otherwise the address of a cell.
\* roots[i] is the cell of the i-th object handed to the user.
RECURSIVE View(_, _)
View(cs, p) == IF p = 0 THEN <<>> ELSE <<<<cs[p].cls, cs[p].par>>>> \o View(cs, cs[p].inner)

\* today's loop: `while isinstance(f, wrapper): if type(f.function) == type(self): f['function'] =
\* f.function.function  else: f = f.function` - it writes into whatever cell f happens to be
RECURSIVE WalkToday(_, _, _)
WalkToday(cs, f, cls) ==
    IF f = 0 THEN cs
    ELSE LET g == cs[f].inner IN
         IF g # 0 /\ cs[g].cls = cls THEN WalkToday([cs EXCEPT ![f].inner = cs[g].inner], f, cls)
         ELSE WalkToday(cs, g, cls)
\* repaired loop: a cell is copied before the walk descends into it, so f is always a private cell
RECURSIVE WalkFixed(_, _, _)
WalkFixed(cs, f, cls) ==
    IF f = 0 \/ cs[f].inner = 0 THEN cs
    ELSE LET g == cs[f].inner IN
         IF cs[g].cls = cls THEN WalkFixed([cs EXCEPT ![f].inner = cs[g].inner], f, cls)
         ELSE LET cs1 == Append(cs, cs[g]) n == Len(cs) + 1 IN WalkFixed([cs1 EXCEPT ![f].inner = n], n, cls)

MechWrap(cs, rs, layer, target, fixed) ==
    LET t == IF target = 0 THEN 0 ELSE rs[target] IN
    IF t = 0 THEN [cells |-> Append(cs, [cls |-> layer[1], par |-> layer[2], inner |-> 0]), roots |-> Append(rs, Len(cs) + 1)]
    ELSE LET cs1 == Append(cs, cs[t])                      \* function = copy(function): a shallow copy of the top cell
             n1  == Len(cs) + 1
             same == cs[t].cls = layer[1]
             \* same class on top: function = function.function (a shared cell today, a copy when repaired)
             cs2 == IF same /\ fixed /\ cs[t].inner # 0 THEN Append(cs1, cs[cs[t].inner]) ELSE cs1
             fn  == IF ~same THEN n1 ELSE IF fixed /\ cs[t].inner # 0 THEN Len(cs1) + 1 ELSE cs[t].inner
             cs3 == IF fixed THEN WalkFixed(cs2, fn, layer[1]) ELSE WalkToday(cs2, fn, layer[1])
         IN  [cells |-> Append(cs3, [cls |-> layer[1], par |-> layer[2], inner |-> fn]), roots |-> Append(rs, Len(cs3) + 1)]

\* ---------------------------------------------------------------------------------------------
\* (c) the memo of a cached function; the base function counts its evaluations and returns
\*     (bindings, number of this evaluation)
\* ---------------------------------------------------------------------------------------------
Result(sig, cc, n) == IF HasQuiet(cc) THEN None ELSE VTup(<<Bind(sig, cc), VInt(n)>>)
MemoIdx(m, cc) == {i \in 1..Len(m) : m[i][1] = cc}
\* key = the arguments as passed: positional tuple and the set of keyword items
MemoCall(m, ev, sig, cc) ==
    IF MemoIdx(m, cc) # {}
    THEN [memo |-> m, evals |-> ev, out |-> m[CHOOSE i \in MemoIdx(m, cc) : TRUE][2]]
    ELSE [memo |-> Append(m, <<cc, Result(sig, cc, ev + 1)>>), evals |-> ev + 1, out |-> Result(sig, cc, ev + 1)]
\* the same, said directly from the statement for a whole call sequence: the j-th call returns the
\* result of the first call with these arguments, which was the (number of distinct argument
\* combinations seen until then)-th evaluation
LawOuts(sig, calls) ==
    [j \in 1..Len(calls) |->
        LET first == Min({i \in 1..j : calls[i] = calls[j]}) IN
        Result(sig, calls[j], Cardinality({calls[i] : i \in 1..first}))]
LawEvals(calls) == Cardinality(Range(calls))
\* Named deviation Uncached: an argument that cannot be hashed (list, dict, set) may be evaluated anew
\* on every call instead of once.
RECURSIVE Unhashable(_)
Unhashable(v) == Tag(v) \in {"l", "m", "set"} \/ (Tag(v) = "t" /\ \E i \in 1..Len(Pay(v)) : Unhashable(Pay(v)[i]))
UnhashableCall(cc) == (\E i \in 1..Len(cc.pos) : Unhashable(cc.pos[i])) \/ (\E i \in 1..Len(cc.kw) : Unhashable(cc.kw[i][2]))

\* ---------------------------------------------------------------------------------------------
\* The session: one base function, a heap of wrapper objects, the memo of cache(base)
\* ---------------------------------------------------------------------------------------------
CONSTANT FixedCode       \* TRUE: the pointer heap follows the repaired wrapper.__init__, FALSE: today's
VARIABLES base,          \* signature of the session's base function
          objs,          \* law level: the sequence of wrapper objects built so far, each one a chain
          cells, roots,  \* mechanism: the same objects as cells with pointers
          memo, evals,   \* the memo of cache(base) and the number of evaluations of base
          out            \* the last public call: <<"wrapped", new object>> or <<"ret", object, call, outcome>>
                         \* (object 0 = the base function, -1 = the cached function cache(base))
vars == <<base, objs, cells, roots, memo, evals, out>>

SessionInit(sig) == /\ base = sig /\ objs = <<>> /\ cells = <<>> /\ roots = <<>>
                    /\ memo = <<>> /\ evals = 0 /\ out = <<"idle", 0>>

\* W(obj): allocate the normal form; nothing that exists changes
Wrap(layer, target) ==
    /\ target \in 0..Len(objs)
    /\ objs' = WrapObjs(objs, layer, target)
    /\ LET m == MechWrap(cells, roots, layer, target, FixedCode) IN cells' = m.cells /\ roots' = m.roots
    /\ out' = <<"wrapped", Len(objs) + 1>>
    /\ UNCHANGED <<base, memo, evals>>
\* obj( *pos, **kw ): a pure query (object 0 = the base function)
Call(o, cc) ==
    /\ o \in 0..Len(objs)
    /\ out' = <<"ret", o, cc, LawOutcome(base, IF o = 0 THEN <<>> ELSE objs[o], cc)>>
    /\ UNCHANGED <<base, objs, cells, roots, memo, evals>>
\* cache(base)( *pos, **kw ) with the counting base function
CallCached(cc) ==
    /\ Valid(base, cc) /\ ~HasBad(cc)
    /\ LET r == MemoCall(memo, evals, base, cc) IN memo' = r.memo /\ evals' = r.evals /\ out' = <<"ret", -1, cc, r.out>>
    /\ UNCHANGED <<base, objs, cells, roots>>

\* --- properties of the session ------------------------------------------------------------------
\* history property: building a new wrapper never changes an object that already exists
OnlyNewObject == [][/\ Len(objs') >= Len(objs)
                    /\ \A i \in 1..Len(objs) : objs'[i] = objs[i]]_vars
NoDoubleWrapping == \A i \in 1..Len(objs) : DistinctClasses(objs[i])
\* the pointer heap shows the user exactly the law-level objects
MechRefines == /\ Len(roots) = Len(objs)
               /\ \A i \in 1..Len(objs) : View(cells, roots[i]) = objs[i]
\* memo: one entry and one evaluation per distinct key, entries never change
MemoOncePerKey == /\ evals = Len(memo)
                  /\ \A i, j \in 1..Len(memo) : memo[i][1] = memo[j][1] => i = j
                  /\ \A i \in 1..Len(memo) : memo[i][2] = Result(base, memo[i][1], i)
MemoStable == [][/\ Len(memo') >= Len(memo)
                 /\ \A i \in 1..Len(memo) : memo'[i] = memo[i]]_vars
=============================================================================
