-------------------------------- MODULE Fill --------------------------------
(* Property C12: df_fillna / nona fill or drop exactly the missing cells, arrays and pandas     *)
(* alike.                                                                                       *)
(*                                                                                              *)
(* A cell is an integer: NaN (= -1) is the missing value, every other cell is a value >= 0.     *)
(* In the model-checking universe the value of the cell in row i of column j is the position    *)
(* code 100*j + i, so the provenance of a filled cell can be read off the result.               *)
(* A frame is  [rows |-> sequence of row labels, cols |-> sequence of columns]  (every column a *)
(* sequence of cells as long as rows).  A float vector is a frame with one column: the property *)
(* makes no difference between a vector and a one-column frame, and neither does this module.   *)
(* A method is a pair <<name, argument>>:                                                        *)
(*    <<"ffill",0>> <<"bfill",0>> <<"const",v>> <<"nona",0>> <<"fnna",0>> <<"ffill_na",0>>      *)
(*    <<"ffill_0",0>>                                                                            *)
(* limit = 0 stands for limit = None.                                                            *)
(*                                                                                              *)
(* Where the property statement does not pin the outcome down the operators return the SET of   *)
(* outcomes the statement admits (named deviations ConstLimit, NoValidObservation below).       *)
(*                                                                                              *)
(* ONLY NaN is missing.  Every other float is an observation - also the strange ones, which get  *)
(* symbolic codes below (Specials): they are never filled, never rewritten, and ffill / bfill    *)
(* copy them like any other value.  No operator of this module looks inside a value, so all of   *)
(* them are treated alike by construction (data independence; MC_FillX checks it as a law).      *)
EXTENDS Integers, Sequences, FiniteSets

NaN == -1
\* symbolic codes of non-missing floats that are easily mistaken for "no value"
PInf    == -2      \* +inf
NInf    == -3      \* -inf
NegZero == -4      \* -0.0 (equal to 0 as a number, a different cell)
Huge    == -5      \* the largest finite double (what np.nan_to_num writes for +inf)
NegHuge == -6      \* the most negative finite double
Tiny    == -7      \* the smallest positive subnormal
Half    == -8      \* 0.5: a fraction
NegFrac == -9      \* -3.5: a negative fraction
Specials == {PInf, NInf, NegZero, Huge, NegHuge, Tiny, Half, NegFrac}
\* codes <= -1000 stand for the negative integers: NegInt(k) is the float -k (k >= 1)
NegInt(k) == -1000 - k

NRows(f) == Len(f.rows)
NCols(f) == Len(f.cols)
Idx(n)   == [i \in 1..n |-> i]
MaxS(S)  == CHOOSE x \in S : \A y \in S : y <= x
MinS(S)  == CHOOSE x \in S : \A y \in S : x <= y
WellFormed(f) == \A j \in 1..NCols(f) : Len(f.cols[j]) = NRows(f)

\* ---------------------------------------------------------------------------------------------
\* vectors (one column)
\* ---------------------------------------------------------------------------------------------
Valid(s) == {i \in 1..Len(s) : s[i] # NaN}
Within(d, lim) == lim = 0 \/ d <= lim

\* ffill: a NaN at position i takes the nearest earlier non-NaN value iff that value is at most
\* `lim` positions back (everything in between is NaN, so i lies within lim consecutive NaNs).
Ffill(s, lim) ==
    [i \in 1..Len(s) |->
        IF s[i] # NaN THEN s[i]
        ELSE LET P == {p \in Valid(s) : p < i} IN
             IF P = {} THEN NaN
             ELSE LET p == MaxS(P) IN IF Within(i - p, lim) THEN s[p] ELSE NaN]

\* bfill: the nearest later non-NaN value, at most `lim` positions ahead
Bfill(s, lim) ==
    [i \in 1..Len(s) |->
        IF s[i] # NaN THEN s[i]
        ELSE LET Q == {q \in Valid(s) : q > i} IN
             IF Q = {} THEN NaN
             ELSE LET q == MinS(Q) IN IF Within(q - i, lim) THEN s[q] ELSE NaN]

\* a numeric method replaces NaN by that constant
ConstAll(s, v) == [i \in 1..Len(s) |-> IF s[i] = NaN THEN v ELSE s[i]]
\* Named deviation ConstLimit: the statement speaks of `limit` for ffill/bfill only.  With a limit
\* pandas' value fill replaces just the first `lim` NaNs of each column; both readings are accepted.
ConstFirst(s, v, lim) ==
    [i \in 1..Len(s) |-> IF s[i] = NaN /\ Cardinality({k \in 1..i : s[k] = NaN}) <= lim THEN v ELSE s[i]]
ConstOutcomes(s, v, lim) == IF lim = 0 THEN {ConstAll(s, v)} ELSE {ConstAll(s, v), ConstFirst(s, v, lim)}

\* ffill_na / ffill_0: forward-fill up to the last valid observation, then NaN / 0
LastValid(s) == IF Valid(s) = {} THEN 0 ELSE MaxS(Valid(s))
FfillTo(s, lim, tail) ==
    LET lv == LastValid(s)  fs == Ffill(s, lim) IN [i \in 1..Len(s) |-> IF i <= lv THEN fs[i] ELSE tail]
\* Named deviation NoValidObservation: a column without any valid observation has no "last valid
\* observation"; leaving it alone and writing the tail value everywhere are both accepted.
FfillXOutcomes(s, lim, tail) ==
    IF Valid(s) = {} THEN {s, [i \in 1..Len(s) |-> tail]} ELSE {FfillTo(s, lim, tail)}

\* ---------------------------------------------------------------------------------------------
\* frames
\* ---------------------------------------------------------------------------------------------
AllNaN(f, i) == \A j \in 1..NCols(f) : f.cols[j][i] = NaN

KeepRows(f, Keep(_)) ==
    LET ix == SelectSeq(Idx(NRows(f)), Keep) IN
    [rows |-> [k \in 1..Len(ix) |-> f.rows[ix[k]]],
     cols |-> [j \in 1..NCols(f) |-> [k \in 1..Len(ix) |-> f.cols[j][ix[k]]]]]

\* 'nona' removes exactly the rows that are entirely NaN
Nona(f) == KeepRows(f, LAMBDA i : ~AllNaN(f, i))
\* 'fnna' removes only the leading all-NaN rows
Fnna(f) == KeepRows(f, LAMBDA i : \E k \in 1..i : ~AllNaN(f, k))
\* nona(.., edge = 1): removes only the trailing all-NaN rows
Lnna(f) == KeepRows(f, LAMBDA i : \E k \in i..NRows(f) : ~AllNaN(f, k))

MapCols(f, Op(_)) == [rows |-> f.rows, cols |-> [j \in 1..NCols(f) |-> Op(f.cols[j])]]

\* all ways of choosing one outcome per column
RECURSIVE SeqProd(_)
SeqProd(sets) == IF sets = <<>> THEN {<<>>}
                 ELSE {<<h>> \o t : h \in Head(sets), t \in SeqProd(Tail(sets))}
PerColumn(f, Outs(_)) ==
    {[rows |-> f.rows, cols |-> c] : c \in SeqProd([j \in 1..NCols(f) |-> Outs(f.cols[j])])}

\* one method: the set of admitted results
Apply(m, f, lim) ==
    CASE m[1] = "ffill"    -> {MapCols(f, LAMBDA s : Ffill(s, lim))}
      [] m[1] = "bfill"    -> {MapCols(f, LAMBDA s : Bfill(s, lim))}
      [] m[1] = "const"    -> PerColumn(f, LAMBDA s : ConstOutcomes(s, m[2], lim))
      [] m[1] = "nona"     -> {Nona(f)}
      [] m[1] = "fnna"     -> {Fnna(f)}
      [] m[1] = "ffill_na" -> PerColumn(f, LAMBDA s : FfillXOutcomes(s, lim, NaN))
      [] m[1] = "ffill_0"  -> PerColumn(f, LAMBDA s : FfillXOutcomes(s, lim, 0))

\* a list of methods applies them in sequence (the empty list returns the input)
RECURSIVE ApplyList(_, _, _)
ApplyList(ms, F, lim) ==
    IF ms = <<>> THEN F
    ELSE ApplyList(Tail(ms), UNION {Apply(Head(ms), f, lim) : f \in F}, lim)
Fillna(f, ms, lim) == ApplyList(ms, {f}, lim)

\* the function nona(x, edge): edge = 0 (None) / 1 (cut the latest NaN rows only) / -1 (historic only)
NonaFn(f, edge) == IF edge = 0 THEN Nona(f) ELSE IF edge = 1 THEN Lnna(f) ELSE Fnna(f)
\* Named deviation ArrayIgnoresEdge: `edge` is no part of the property statement (nor of its
\* quantifier); on a numpy array (no index to cut at) nona ignores it and removes every all-NaN row.
NonaFnArray(f, edge) == {Nona(f), NonaFn(f, edge)}

\* ---------------------------------------------------------------------------------------------
\* the function nona(x, value = v, edge): "removes rows that are entirely nan (or a specific other
\* value)".  Every NaN - however the caller spells it - asks for the rows that are entirely NaN; a
\* number asks for the rows all of whose cells EQUAL that number (0 = -0.0 as numbers, NaN equals
\* nothing).  The cells of the rows that stay are never touched.
\* ---------------------------------------------------------------------------------------------
SameNumber(c, v) == c # NaN /\ (c = v \/ {c, v} = {0, NegZero})
IsInfinite(c)    == c \in {PInf, NInf}
\* Gone(i): row i counts as removable; edge = 0: every such row, 1: only the trailing ones, -1: only the leading ones
DropRows(f, Gone(_), edge) ==
    IF edge = 0 THEN KeepRows(f, LAMBDA i : ~Gone(i))
    ELSE IF edge = 1 THEN KeepRows(f, LAMBDA i : \E k \in i..NRows(f) : ~Gone(k))
    ELSE KeepRows(f, LAMBDA i : \E k \in 1..i : ~Gone(k))
NonaValue(f, v, edge) ==
    IF v = NaN THEN DropRows(f, LAMBDA i : AllNaN(f, i), edge)
    ELSE DropRows(f, LAMBDA i : \A j \in 1..NCols(f) : SameNumber(f.cols[j][i], v), edge)
\* Named deviation InfEitherSign: the statement says nothing about value = +-inf; the code takes either infinity
\* as "the infinite rows" (np.isinf).  Rows entirely equal to v and rows entirely infinite are both accepted.
NonaInfinite(f, edge) == DropRows(f, LAMBDA i : \A j \in 1..NCols(f) : IsInfinite(f.cols[j][i]), edge)
NonaValueOutcomes(f, v, edge) ==
    IF IsInfinite(v) THEN {NonaValue(f, v, edge), NonaInfinite(f, edge)} ELSE {NonaValue(f, v, edge)}
\* on an array: ArrayIgnoresEdge as above
NonaValueArray(f, v, edge) == NonaValueOutcomes(f, v, edge) \cup NonaValueOutcomes(f, v, 0)

\* ---------------------------------------------------------------------------------------------
\* sessions: several calls on the caller's objects.  A call is a function of the CONTENTS of its
\* arguments as the caller wrote them and modifies none of them - neither the data ("the input
\* object is not modified") nor the method list ("a list of methods applies them in sequence" holds
\* for every call, not only for the first one with that list object).
\* The session state is [x: the input object, m: the shared method-list object, prev: the frames the
\* statement admits as the latest result].  A call c = [src, obj, ms, lim]:
\*    src = "x": on the input object, "prev": on the object returned by the previous call
\*    obj = "M": the shared list object is passed, otherwise a fresh list c.ms
\* ---------------------------------------------------------------------------------------------
SessInit(x, m) == [x |-> x, m |-> m, prev |-> {x}]
CallMethods(st, c) == IF c.obj = "M" THEN st.m ELSE c.ms
CallInputs(st, c)  == IF c.src = "x" THEN {st.x} ELSE st.prev
SessCall(st, c) == [st EXCEPT !.prev = UNION {Fillna(g, CallMethods(st, c), c.lim) : g \in CallInputs(st, c)}]

\* ---------------------------------------------------------------------------------------------
\* process sessions: a call has NO MEMORY and the result is ORDINARY DATA.  Between two calls the
\* caller may make a new input FROM THE RESULT of the first (reindex it onto a longer calendar,
\* lag it, withdraw an observation in place, slice it, copy it, do arithmetic with it, take its
\* values into a new object) or build ANOTHER input of the same length / shape.  Whatever the
\* history, the outcome of a call is the single-call law (Fillna) applied to the CONTENTS of the
\* object it is handed as they are at that moment, with the arguments of that call - nothing of an
\* earlier call (its input, its methods, its limit, its result) plays any part, and an object that
\* descends from an earlier result is a float vector / frame like any other.
\* The caller's own actions, as functions of the contents (d = [kind, k, i, j]; n0 = the length of
\* the calendar the session started with: new labels are later than it and than every label of the object):
\* ---------------------------------------------------------------------------------------------
NaNs(k) == [i \in 1..k |-> NaN]
HasLabel(f, t) == \E i \in 1..NRows(f) : f.rows[i] = t
RowOf(f, t)    == CHOOSE i \in 1..NRows(f) : f.rows[i] = t
\* reindex onto the labels labs: a label the object does not have gives a row of NaN
Reindex(f, labs) ==
    [rows |-> labs,
     cols |-> [j \in 1..NCols(f) |-> [k \in 1..Len(labs) |-> IF HasLabel(f, labs[k]) THEN f.cols[j][RowOf(f, labs[k])] ELSE NaN]]]
\* k new rows at the end (reindex onto the own index + k later labels; np.concatenate for an array)
TopLabel(f, n0)  == MaxS({n0} \cup {f.rows[i] : i \in 1..NRows(f)})
Extend(f, k, n0) == [rows |-> f.rows \o [i \in 1..k |-> TopLabel(f, n0) + i], cols |-> [j \in 1..NCols(f) |-> f.cols[j] \o NaNs(k)]]
\* lag by one position: the labels stay, the first row is NaN, the last value is lost
Lag(f) == [rows |-> f.rows, cols |-> [j \in 1..NCols(f) |-> [i \in 1..NRows(f) |-> IF i = 1 THEN NaN ELSE f.cols[j][i - 1]]]]
\* withdraw observations IN PLACE: row i of column j (j = 0: of every column)
Poke(f, i, j) == [rows |-> f.rows,
                  cols |-> [c \in 1..NCols(f) |-> [r \in 1..NRows(f) |-> IF r = i /\ (j = 0 \/ c = j) THEN NaN ELSE f.cols[c][r]]]]
\* an observation ARRIVES in place: row i of column j (j = 0: of every column) becomes the value v
Put(f, i, j, v) == [rows |-> f.rows,
                    cols |-> [c \in 1..NCols(f) |-> [r \in 1..NRows(f) |-> IF r = i /\ (j = 0 \/ c = j) THEN v ELSE f.cols[c][r]]]]
PutValue(i) == 900 + i          \* the value that arrives in row i (told apart from every cell of an input)
DropFirst(f) == KeepRows(f, LAMBDA i : i > 1)
DropLast(f)  == KeepRows(f, LAMBDA i : i < NRows(f))
DeriveKinds  == {"extend", "calendar", "lag", "poke", "put", "head", "tail", "copy", "values", "arith"}
PositionalKinds == DeriveKinds \ {"calendar"}         \* what can be done to an array (it has no labels)
Derive(d, f, n0) ==
    CASE d.kind = "extend"   -> Extend(f, d.k, n0)
      [] d.kind = "calendar" -> Reindex(f, Idx(n0 + d.k))      \* back onto the full calendar (+ k later days)
      [] d.kind = "lag"      -> Lag(f)
      [] d.kind = "poke"     -> Poke(f, d.i, d.j)
      [] d.kind = "put"      -> Put(f, d.i, d.j, PutValue(d.i))
      [] d.kind = "head"     -> DropLast(f)
      [] d.kind = "tail"     -> DropFirst(f)
      [] OTHER               -> f         \* copy / values / arith (x * 1): another OBJECT with the same contents
\* The caller may equally edit an INPUT object in place between two calls on it (poke / put): the second call is judged on
\* the contents it has then.
\* the derivations that make sense on every frame of F (an in-place edit needs its cell to exist)
InPlaceKinds == {"poke", "put"}       \* these edit the object itself; the others make a new object ...
ViewKinds    == {"head", "tail"}      \* ... which for a slice (of an array) still shares its data with the object it was cut from
DeriveOK(d, F) == d.kind \in InPlaceKinds => \A f \in F : d.i >= 1 /\ d.i <= NRows(f) /\ d.j <= NCols(f)

\* ---------------------------------------------------------------------------------------------
\* mechanism: the single forward scan with a carried value and a run counter (what pandas'
\* pad/backfill kernels do); compared with the law inside TLC only
\* ---------------------------------------------------------------------------------------------
RECURSIVE ScanF(_, _, _, _, _)
ScanF(s, lim, i, carry, run) ==
    IF i > Len(s) THEN <<>>
    ELSE IF s[i] # NaN THEN <<s[i]>> \o ScanF(s, lim, i + 1, s[i], 0)
    ELSE IF carry # NaN /\ (lim = 0 \/ run < lim) THEN <<carry>> \o ScanF(s, lim, i + 1, carry, run + 1)
    ELSE <<NaN>> \o ScanF(s, lim, i + 1, carry, run + 1)
FfillScan(s, lim) == ScanF(s, lim, 1, NaN, 0)
Rev(s) == [i \in 1..Len(s) |-> s[Len(s) + 1 - i]]
BfillScan(s, lim) == Rev(FfillScan(Rev(s), lim))
=============================================================================
