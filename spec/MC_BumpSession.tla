---------------------------- MODULE MC_BumpSession ----------------------------
(* Property C09 as a session state machine (BumpSession.tla): a scenario gives the caller two     *)
(* start objects (in different realisations), a few bumps and two lists of bumps he owns; one     *)
(* action per public call (dt_bump / dt on a start with a list itself, its elements as separate   *)
(* arguments, its strings concatenated, or a literal bump) and the caller's own edits of his      *)
(* lists between calls.  Calls are executed by the MECHANISM on the current lists and memo; the   *)
(* invariants say what the statement says: every result is what the LAW gives for the start       *)
(* instant and the bumps as they are at that moment, whatever was called before, however start    *)
(* and bumps are realised / spelled, and the caller's lists are never changed by a call.          *)
(* The same machine with the history as a variable is the S2C source: every history is printed    *)
(* with the result the law expects at every call and the contents the caller must still see in    *)
(* his lists after every step.  Shapes of histories (constant Shape):                             *)
(*   "probe"    call ; call ; the first call's argument again   |   call ; edit ; call on a list  *)
(*   "collide"  literal calls A ; B ; A where B collides with A on anything a memo could be keyed  *)
(*              on (suffix / prefix / same tail / same head / same string in another case /       *)
(*              the same amount as another type); run in a fresh process each                     *)
(*   "free"     any actions (thorough; also the source of simulated long sessions)                *)
(* Mechanism variants "queue" / "memo" / "asis" must each violate a clause (cfgs *_queue, *_memo,  *)
(* *_asis): the model is able to express what it forbids.                                         *)
(* InitR / NextR: single calls over every realisation of the start and of the bump (S2C).         *)
EXTENDS BumpSession, TLC, Json

CONSTANTS Variant,     \* "code" | "queue" | "memo" | "asis"
          MaxSteps,    \* length of the histories
          MaxLen,      \* longest list the caller builds
          Shape,       \* "probe" | "collide" | "free"
          Scope,       \* "quick" | "thorough"
          Emitting        \* TRUE: print every complete history (S2C generator)

VARIABLES sc, lists, memo, last, hist
vars == <<sc, lists, memo, last, hist>>
View == <<sc, lists, memo, last>>

\* ------------------------------------------------------------------------------ scenarios ---
P(n, u)  == <<n, u>>
T1(n, u) == <<"tenor", <<P(n, u)>>>>
Ten(ps)  == <<"tenor", ps>>
IntB(k)  == <<"int", k>>
TdB(d, s, u) == <<"td", <<d, s, u>>>>
St(r, y, m, d, s, u) == [real |-> r, t |-> <<OrdOf(y, m, d), s, u>>]

Sc(name, starts, items, ls) == [name |-> name, starts |-> starts, items |-> items, lists |-> ls]

ScSchedule == Sc("schedule", <<St("datetime", 2024, 1, 31, 0, 0), St("date", 2024, 2, 29, 0, 0)>>,
                 <<T1(1, "y"), T1(-3, "m"), T1(2, "d")>>,
                 << <<T1(1, "y"), T1(-3, "m"), T1(2, "d")>>, <<>> >>)
ScSteps    == Sc("steps", <<St("ts", 2024, 3, 1, 34200, 250000), St("np_us", 2024, 3, 2, 86399, 999999)>>,
                 <<IntB(3), TdB(0, 43200, 0), T1(1, "b")>>,
                 << <<IntB(3), TdB(0, 43200, 0)>>, <<T1(1, "b")>> >>)
ScRound    == Sc("roundtrip", <<St("str_s", 2000, 2, 28, 68400, 0), St("np_s", 2100, 2, 28, 82800, 0)>>,
                 <<Ten(<<P(5, "h"), P(-5, "h")>>), T1(-5, "h"), T1(5, "h")>>,
                 << <<T1(5, "h")>>, <<Ten(<<P(5, "h"), P(-5, "h")>>), T1(-5, "h")>> >>)
ScSuffix   == Sc("suffix", <<St("int", 2024, 1, 1, 0, 0), St("str_d", 2023, 12, 30, 0, 0)>>,
                 <<Ten(<<P(1, "y"), P(-3, "m"), P(2, "d")>>), Ten(<<P(-3, "m"), P(2, "d")>>), T1(2, "d")>>,
                 << <<Ten(<<P(1, "y"), P(-3, "m"), P(2, "d")>>)>>, <<T1(2, "d")>> >>)
ScBdays    == Sc("bdays", <<St("sub", 2024, 1, 7, 3600, 1), St("np_D", 2024, 1, 5, 0, 0)>>,
                 <<T1(-1, "b"), T1(7, "b"), T1(0, "b")>>,
                 << <<T1(7, "b"), T1(-1, "b")>>, <<T1(0, "b")>> >>)
ScMonths   == Sc("months", <<St("date", 2023, 1, 31, 0, 0), St("np_ns", 2024, 2, 29, 0, 0)>>,
                 <<T1(1, "m"), T1(-1, "q"), T1(1, "y")>>,
                 << <<T1(1, "m"), T1(1, "m")>>, <<T1(-1, "q")>> >>)
ScMixed    == Sc("mixed", <<St("date", 2024, 1, 5, 0, 0), St("str_us", 1999, 12, 31, 86399, 999999)>>,
                 <<Ten(<<P(12, "h"), P(1, "b")>>), IntB(-1), TdB(-1, 86399, 999999)>>,
                 << <<Ten(<<P(12, "h"), P(1, "b")>>), IntB(-1)>>, <<TdB(-1, 86399, 999999), TdB(-1, 86399, 999999)>> >>)
ScWeeks    == Sc("weeks", <<St("np_D", 2100, 2, 27, 0, 0), St("datetime", 2000, 2, 26, 43200, 500000)>>,
                 <<T1(-2, "w"), Ten(<<P(90, "n"), P(-45, "s")>>), T1(60, "b")>>,
                 << <<>>, <<T1(-2, "w"), T1(60, "b"), Ten(<<P(90, "n"), P(-45, "s")>>)>> >>)
ScYears    == Sc("years", <<St("int", 2096, 2, 29, 0, 0), St("ts", 1900, 1, 31, 0, 0)>>,
                 <<T1(4, "y"), Ten(<<P(1, "m"), P(-1, "d")>>), T1(-60, "m")>>,
                 << <<T1(4, "y"), T1(4, "y")>>, <<Ten(<<P(1, "m"), P(-1, "d")>>)>> >>)
ScNone     == Sc("empty", <<St("str_d", 2299, 12, 31, 0, 0), St("sub", 1900, 1, 1, 1, 1)>>,
                 <<T1(0, "b"), IntB(0), T1(-1, "s")>>,
                 << <<>>, <<>> >>)

ScenariosQuick == {ScSchedule, ScSteps, ScRound, ScSuffix, ScBdays, ScMonths}
ScenariosMore  == {ScMixed, ScWeeks, ScYears, ScNone}

\* the universe of the "collide" histories: single parts, all their ordered pairs, some triples, and the
\* same two days as an integer / a timedelta
CParts == <<P(1, "y"), P(-3, "m"), P(2, "d"), P(-1, "b"), P(5, "h"), P(-5, "h")>>
CPartsMore == <<P(2, "y"), P(7, "b"), P(1, "q"), P(-2, "w"), P(-90, "n"), P(45, "s"), P(0, "b"), P(-2, "d")>>
CTriples == { <<P(1, "y"), P(-3, "m"), P(2, "d")>>, <<P(2, "y"), P(-3, "m"), P(2, "d")>>, <<P(5, "h"), P(-5, "h"), P(5, "h")>>,
              <<P(2, "d"), P(-1, "b"), P(2, "d")>>, <<P(1, "y"), P(1, "y"), P(-3, "m")>>, <<P(-1, "b"), P(7, "b"), P(-1, "b")>> }
CUniverse(ps) == {Ten(<<ps[i]>>) : i \in 1..Len(ps)} \cup {Ten(<<ps[i], ps[j]>>) : i, j \in 1..Len(ps)}
                 \cup {Ten(x) : x \in CTriples} \cup {IntB(2), TdB(2, 0, 0), IntB(-1), TdB(0, 18000, 0)}
ScCollide(ps) == Sc("collide", <<St("datetime", 2024, 1, 1, 0, 0), St("ts", 2024, 3, 1, 34200, 250000)>>,
                    SetToSeq(CUniverse(ps)), <<>>)

Scenarios == IF Shape = "collide" THEN {ScCollide(IF Scope = "quick" THEN CParts ELSE CParts \o CPartsMore)}
             ELSE IF Scope = "quick" THEN ScenariosQuick ELSE ScenariosQuick \cup ScenariosMore

\* ---------------------------------------------------------------------- collision classes ---
IsSuffixOf(a, b) == Len(a) <= Len(b) /\ SubSeq(b, Len(b) - Len(a) + 1, Len(b)) = a
IsPrefixOf(a, b) == Len(a) <= Len(b) /\ SubSeq(b, 1, Len(a)) = a
\* what a single-part bump adds when it is a fixed amount, in seconds (int and timedelta(days) and 'nd' ... collide by value)
HasAmount(b) == b[1] \in {"int", "td"} \/ (Len(b[2]) = 1 /\ b[2][1][2] \in FixedUnits)
Amount(b) == CASE b[1] = "int" -> <<b[2] * 86400, 0>>
               [] b[1] = "td"  -> <<b[2][1] * 86400 + b[2][2], b[2][3]>>
               [] OTHER        -> <<b[2][1][1] * UnitSeconds(b[2][1][2]), 0>>
Collide(a, b) ==
    \/ /\ IsTenor(a) /\ IsTenor(b)
       /\ \/ IsSuffixOf(a[2], b[2]) \/ IsSuffixOf(b[2], a[2])            \* B a tail of A, A a tail of B, A = B
          \/ a[2][Len(a[2])] = b[2][Len(b[2])]                            \* the same last part
          \/ IsPrefixOf(a[2], b[2]) \/ IsPrefixOf(b[2], a[2])            \* B a head of A, A a head of B
          \/ a[2][1] = b[2][1]                                            \* the same first part
    \/ HasAmount(a) /\ HasAmount(b) /\ Amount(a) = Amount(b)                    \* the same amount in another type

\* -------------------------------------------------------------------------------- actions ---
None == <<"none", "">>
Init == /\ sc \in Scenarios /\ lists = sc.lists /\ memo = NoMemo /\ hist = <<>>
        /\ last = [kind |-> "init", c |-> <<>>, out |-> None, snap |-> sc.lists]

IsCallAt(k) == hist[k][1] = "call"
\* which actions a history may take next
CallShapeOk(c) ==
    CASE Shape = "free"  -> TRUE
      [] Shape = "probe" ->
            /\ Len(hist) = 0 => c[2] = sc.starts[1]
            /\ Len(hist) = 2 => /\ IsCallAt(2)  => c[3] = hist[1][2][3] /\ c[1] = hist[1][2][1]    \* the first call's argument again
                                /\ ~IsCallAt(2) => c[3][1] # "item" /\ c[3][2] = hist[2][2][2]            \* ... and handed over again
      [] Shape = "collide" ->
            /\ c[3][1] = "item" /\ c[1] = "bump"
            /\ Len(hist) = 0 => c[2] = sc.starts[1] /\ c[4] = "l"
            /\ Len(hist) = 1 => Collide(hist[1][2][3][2], c[3][2]) /\ c[4] \in {"l", "u"}
            /\ Len(hist) = 2 => c[3] = hist[1][2][3] /\ c[2] = hist[1][2][2] /\ c[4] = "l"
EditShapeOk(e) ==
    CASE Shape = "free"    -> Len(hist) > 0
      [] Shape = "probe"   -> /\ Len(hist) = 1 /\ hist[1][2][3][1] # "item"          \* the list the first call was given is edited ...
                              /\ e[2] = hist[1][2][3][2]
      [] Shape = "collide" -> FALSE

Entry(kind, x, want, after) == <<kind, x, want, after>>
Emit(h) == Emitting => PrintT(ToJson(<<sc.name, sc.lists, h>>))

DoCall(c) ==
    \* (= TRUE: evaluated as a value - inside an action TLC would explore every disjunct of the guards separately)
    /\ Len(hist) < MaxSteps /\ (CallShapeOk(c) /\ CallInDomain(lists, c)) = TRUE
    /\ LET m  == MechCall(lists, memo, c, Variant)
           h2 == Append(hist, Entry("call", c, LawCall(lists, c), lists))
       IN  /\ lists' = m.lists /\ memo' = m.memo
           /\ last' = [kind |-> "call", c |-> c, out |-> m.out, snap |-> lists]
           /\ hist' = h2 /\ (Len(h2) = MaxSteps => Emit(h2))
    /\ UNCHANGED sc
DoEdit(e) ==
    /\ Len(hist) < MaxSteps - 1 /\ (EditShapeOk(e) /\ EditOk(lists, e)) = TRUE      \* a history ends with a call
    /\ (\A i \in DOMAIN lists : Len(Edit(lists, e)[i]) <= MaxLen) = TRUE
    /\ lists' = Edit(lists, e)
    /\ last' = [kind |-> "edit", c |-> e, out |-> None, snap |-> lists]
    /\ hist' = Append(hist, Entry("edit", e, None, Edit(lists, e)))
    /\ UNCHANGED <<sc, memo>>

Ops    == {"bump", "dt"}
\* the spelling of a literal / concatenated period string (lower / mixed / upper case, explicit + sign): by position in the
\* history, except in the "collide" histories where the second call comes in both cases (a memo may be keyed on either)
Styles == IF Shape = "collide" THEN {"l", "u"} ELSE {<<"l", "m", "u", "p">>[(Len(hist) % 4) + 1]}
ItemIx == 1..Len(sc.items)
ListIx == DOMAIN lists
\* dt(t, lst) is enumerated next to dt_bump(t, lst) (another path to the caller's list); the other spellings take the
\* operation from their position in the history
OpAt(s) == IF (Len(hist) + s) % 2 = 1 /\ DtFormOk(sc.starts[s].real) THEN "dt" ELSE "bump"
CallList  == \E s \in 1..2, i \in ListIx, op \in Ops : DoCall(<<op, sc.starts[s], <<"list", i>>, "l">>)
CallSplat == \E s \in 1..2, i \in ListIx : DoCall(<<OpAt(s), sc.starts[s], <<"splat", i>>, "l">>)
CallJoin  == \E s \in 1..2, i \in ListIx, st \in Styles : DoCall(<<OpAt(s), sc.starts[s], <<"join", i>>, st>>)
CallItem  == \E s \in 1..2, k \in ItemIx, op \in Ops, st \in Styles :
                 (Shape # "collide" => op = OpAt(s)) /\ DoCall(<<op, sc.starts[s], <<"item", sc.items[k]>>, st>>)
EditAppend == \E i \in ListIx, k \in ItemIx : DoEdit(<<"append", i, sc.items[k]>>)
EditPop    == \E i \in ListIx : DoEdit(<<"popfirst", i>>) \/ DoEdit(<<"poplast", i>>)
EditSet    == \E i \in ListIx, k \in ItemIx : \E p \in DOMAIN lists[i] : DoEdit(<<"set", i, p, sc.items[k]>>)
EditClear  == \E i \in ListIx : DoEdit(<<"clear", i>>)
EditExtend == \E i, j \in ListIx : DoEdit(<<"extend", i, j>>)             \* i = j: lst += lst
Next == CallList \/ CallSplat \/ CallJoin \/ CallItem \/ EditAppend \/ EditPop \/ EditSet \/ EditClear \/ EditExtend
NextCollide == CallItem

\* ---- what the statement says, clause by clause -----------------------------------------------
Called == last.kind = "call"
ArgumentsUntouched == Called => lists = last.snap
ResultIsLaw        == Called => last.out = LawCall(last.snap, last.c)
\* the same call as the first call of a fresh process gives the same answer
NoMemory           == Called => MechCall(last.snap, NoMemo, last.c, Variant).out = last.out
\* a list, its elements as arguments and its strings concatenated are the same bumps; dt_bump and dt agree
SpellingIrrelevant ==
    Called => \A kind \in {"list", "splat", "join"}, op \in Ops :
        LET c2 == <<op, last.c[2], IF last.c[3][1] = "item" THEN last.c[3] ELSE <<kind, last.c[3][2]>>, last.c[4]>> IN
        CallInDomain(last.snap, c2) => MechCall(last.snap, NoMemo, c2, Variant).out = last.out
\* every realisation of the same start instant gives the same answer
RealisationIrrelevant ==
    Called => \A r \in Reals :
        LET c2 == <<last.c[1], [real |-> r, t |-> last.c[2].t], last.c[3], last.c[4]>> IN
        CallInDomain(last.snap, c2) => MechCall(last.snap, NoMemo, c2, Variant).out = last.out
\* a list of period strings is the compound tenor of their parts (law level)
ListIsCompound ==
    \A i \in DOMAIN lists : (lists[i] # <<>> /\ \A k \in DOMAIN lists[i] : IsTenor(lists[i][k])) =>
        \A s \in 1..2 : AllInDomain(Denote(sc.starts[s]), lists[i]) =>
            ApplyAll(Denote(sc.starts[s]), lists[i]) = ApplyTenor(Denote(sc.starts[s]), JoinParts(lists[i]))
\* only the caller edits his lists
CallsOwnNothing == [][last'.kind = "call" => lists' = lists]_vars

\* ---- S2C: single calls over every realisation of the start and of the bump -------------------
RDay0 == OrdOf(2000, 2, 21)                          \* a Monday; two weeks across the leap day
RDays == RDay0..(RDay0 + 13)
RTods == {<<0, 0>>, <<34200, 250000>>, <<86399, 0>>}
RBumps == {T1(n, u) : n \in {-7, -1, 1, 6}, u \in Units}
          \cup {IntB(3), IntB(-3), TdB(1, 43200, 0), TdB(-1, 86399, 999999), TdB(0, 18000, 0)}
          \cup {Ten(<<P(12, "h"), P(1, "b")>>), Ten(<<P(1, "d"), P(12, "h")>>), Ten(<<P(1, "y"), P(-3, "m"), P(2, "d")>>),
                Ten(<<P(-1, "s"), P(1, "b")>>), Ten(<<P(1, "m"), P(90, "n")>>)}
Dress(b) == CASE b[1] = "int" -> {"int", "np_int64", "np_int32"}
              [] b[1] = "td"  -> {"td", "td_sub", "pd_td"}
              [] OTHER        -> {"l", "u", "str_sub", "np_str"}
InitR == /\ sc \in {<<op, [real |-> r, t |-> <<d, tod[1], tod[2]>>]>> :
                        op \in Ops, r \in Reals, d \in RDays, tod \in RTods}
         /\ RealOk(sc[2].real, sc[2].t) /\ (sc[1] = "dt" => DtFormOk(sc[2].real))
         /\ lists = <<>> /\ memo = NoMemo /\ hist = <<>> /\ last = None
AllDress == {"l", "u", "str_sub", "np_str", "int", "np_int64", "np_int32", "td", "td_sub", "pd_td"}
RCases(t) == {<<x[1], x[2], Ok(Apply(t, x[1]))>> : x \in {y \in RBumps \X AllDress : y[2] \in Dress(y[1]) /\ ItemInDomain(t, y[1])}}
NextR == /\ hist = <<>> /\ hist' = <<1>> /\ UNCHANGED <<sc, lists, memo, last>>
         /\ PrintT(ToJson(<<sc[1], sc[2], SetToSeq(RCases(Denote(sc[2])))>>))
=============================================================================
