---------------------------- MODULE MC_FramesGap ----------------------------
(* Extension X06-b on the specification, and the source of its S2C cases and histories.           *)
(*                                                                                             *)
(* Function-like part (INIT InitCalls, NEXT Eval): one behaviour per call  cs --Eval--> done  of ts_gap /     *)
(* ts_deal_with_issue / ts_degap on a series over a subset of 1..N, today = N + Ahead.             *)
(*                                                                                             *)
(* History part (INIT InitHist, NEXT HistNext): a caller keeps a degapped series and degaps it again every time  *)
(* a row arrives:  kept' = degap(kept + the new row)  (deal = 'last', recent = False).  Rows       *)
(* arrive in time order (RowInOrder) or late, inside or before what is there (RowLate: a gap is      *)
(* closed afterwards).  `all` is everything that ever arrived.  What the caller keeps is always    *)
(* gap-free and part of what degapping the full history would keep; it IS that as long as rows     *)
(* arrive in order; after a late row it need not be: rows that were cut are not restored by closing *)
(* the gap (NotRestored is reachable - the must_fail configuration MC_FramesGap_restored.cfg).     *)
EXTENDS FramesGap, TLC, Json
CONSTANTS N,        \* stamps 1..N
          Ahead,    \* today = N + Ahead
          G,        \* the values of max_gap / issue level tried
          HistG,    \* history part: the max_gap of the caller
          HistLen   \* history part: the generator prints the histories of this many rows

VARIABLES cs, done,                 \* function-like part
          all, kept, rd, late, hist  \* history part (hist is printed by the generator configuration only)
vars == <<cs, done, all, kept, rd, late, hist>>

Today == N + Ahead
NoCase == [op |-> "none"]

\* ---- function-like universe ----------------------------------------------------------------------
SerOn(I) == LET ts == Asc(I) IN Ser(ts, [r \in 1..Len(ts) |-> VFlt(10 + ts[r], 1)])
FrmOn(I) == LET ts == Asc(I) IN Frm(ts, <<HS("a"), HS("b")>>, <<[r \in 1..Len(ts) |-> VFlt(10 + ts[r], 1)], [r \in 1..Len(ts) |-> IF r = 1 THEN NaNC ELSE Zero]>>)
Deals == {<<"last", 0>>, <<"no_first", 0>>, <<"raise", 0>>, <<"other", 0>>} \cup {<<"int", k>> : k \in -2..2}
\* scores for ts_deal_with_issue: on the stamps of the series, the score of stamp t is (t mod 3) + 1
ScoresOn(I) == LET ts == Asc(I) IN Ser(ts, [r \in 1..Len(ts) |-> VFlt((ts[r] % 3) + 1, 1)])
InitCalls ==
    /\ done = FALSE /\ all = {} /\ kept = {} /\ rd = "ge" /\ late = FALSE /\ hist = <<>>
    /\ \/ \E I \in SUBSET (1..N), recent \in BOOLEAN, wide \in BOOLEAN :
             cs = [op |-> "gap", x |-> IF wide THEN FrmOn(I) ELSE SerOn(I), today |-> Today, recent |-> recent]
       \/ \E I \in SUBSET (1..N), level \in 0..3, deal \in Deals :
             cs = [op |-> "deal", x |-> SerOn(I), scores |-> ScoresOn(I), level |-> level, deal |-> deal]
       \/ \E I \in SUBSET (1..N), g \in G, deal \in Deals, recent \in BOOLEAN, wide \in BOOLEAN :
             /\ (wide => deal = <<"last", 0>>)
             /\ cs = [op |-> "degap", x |-> IF wide THEN FrmOn(I) ELSE SerOn(I), today |-> Today, g |-> g, deal |-> deal, recent |-> recent]
Eval == cs.op # "none" /\ done = FALSE /\ done' = TRUE /\ UNCHANGED <<cs, all, kept, rd, late, hist>>
EvalGen == Eval /\ PrintT(ToJson([case |-> cs, want |-> GapExpect(cs)]))

\* ---- the history machine ---------------------------------------------------------------------------
InitHist == /\ cs = NoCase /\ done = TRUE /\ all = {} /\ kept = {} /\ rd \in GapReadings /\ late = FALSE /\ hist = <<>>
Arrive(t) == /\ all' = all \cup {t}
             /\ kept' = DegapSet(kept \cup {t}, HistG, rd)
             /\ UNCHANGED <<cs, done, rd>>
RowInOrder == cs.op = "none" /\ \E t \in (1..N) \ all : (\A u \in all : u < t) /\ Arrive(t) /\ late' = late /\ hist' = hist
RowLate    == cs.op = "none" /\ \E t \in (1..N) \ all : (\E u \in all : t < u) /\ Arrive(t) /\ late' = TRUE /\ hist' = hist
HistNext   == RowInOrder \/ RowLate
\* the generator: the same steps with the history written down (stamp, what is kept afterwards)
Step(t) == /\ Arrive(t) /\ late' = (late \/ \E u \in all : t < u)
           /\ hist' = Append(hist, [t |-> t, kept |-> Asc(kept')])
           /\ (Len(hist') = HistLen => PrintT(ToJson([g |-> HistG, rd |-> rd, hist |-> hist'])))
GenNext == cs.op = "none" /\ Len(hist) < HistLen /\ \E t \in (1..N) \ all : Step(t)

\* ---- clauses: single calls -------------------------------------------------------------------------
Is(op) == done /\ cs.op = op
AllInDomain == cs.op # "none" => GapCallDomain(cs)
\* gaps are positive whole days that add up to the span of the series (and to today with `recent`)
GapSums == Is("gap") =>
    LET T == cs.x.t  g == GapSeq(T, cs.today, cs.recent)
        RECURSIVE Sum(_)
        Sum(s) == IF s = <<>> THEN 0 ELSE Head(s) + Sum(Tail(s)) IN
    /\ \A i \in 1..Len(g) : g[i] >= 0 /\ (i < Len(T) => g[i] >= 1)
    /\ T # <<>> => Sum(g) = (IF cs.recent THEN cs.today ELSE T[Len(T)]) - T[1]
    /\ Len(g) = (IF cs.recent \/ T = <<>> THEN Len(T) ELSE Len(T) - 1)
Outs == IF cs.op = "degap" THEN DegapOutcomes(cs.x, cs.today, cs.g, cs.deal, cs.recent) ELSE {DealLaw(cs.x, cs.scores, cs.level, cs.deal)}
Cuts(deal) == deal[1] \in {"last", "no_first", "int"}
\* what is kept is a tail of the series: the rows strictly after some stamp, untouched
KeepsATail == (Is("deal") \/ Is("degap")) => \A out \in Outs :
    IF Cuts(cs.deal) \/ out.kind = "val" THEN out.kind = "val" /\ \E u \in 0..(N + 1) : out.v = KeepPos(cs.x, {i \in 1..Len(cs.x.t) : cs.x.t[i] > u})
    ELSE out = Exc("ValueError")
\* level 0 / no issue: the series itself, also for 'raise'
NothingToDo == (Is("deal") \/ Is("degap")) =>
    /\ (cs.op = "deal" /\ (cs.level = 0 \/ IssueStamps(cs.scores, cs.level) = <<>>)) => Outs = {Val(cs.x)}
    /\ (cs.op = "degap" /\ cs.g = 0) => Outs = {Val(cs.x)}
\* -1 is 'last', 0 is 'no_first'
IntDeals == (Is("deal") \/ Is("degap")) =>
    LET with(d) == IF cs.op = "degap" THEN DegapOutcomes(cs.x, cs.today, cs.g, d, cs.recent) ELSE {DealLaw(cs.x, cs.scores, cs.level, d)} IN
    with(<<"int", -1>>) = with(<<"last", 0>>) /\ with(<<"int", 0>>) = with(<<"no_first", 0>>)
\* ts_degap, deal 'last': what is kept has no issue inside, is the longest such tail, and degapping it again changes nothing
DegapLast == (Is("degap") /\ cs.deal = <<"last", 0>> /\ cs.g > 0) => \A r \in GapReadings :
    LET out == DegapRd(cs.x, cs.today, cs.g, cs.deal, cs.recent, r)
        S == Range(cs.x.t)  K == Range(out.v.t) IN
    /\ ~HasIssue(K, cs.g, r)
    /\ (cs.recent /\ K # {}) => ~IsIssueGap(cs.today - Max(K), cs.g, r)
    /\ (cs.recent /\ S # {} /\ IsIssueGap(cs.today - Max(S), cs.g, r)) => K = {}
    /\ (K # S /\ K # {}) => LET u == Max({w \in S : w < Min(K)}) IN IsIssueGap(Min(K) - u, cs.g, r)
    /\ (K = {} /\ S # {} /\ ~cs.recent) => FALSE
    /\ DegapRd(out.v, cs.today, cs.g, cs.deal, cs.recent, r) = out
\* the two readings are nested, and a larger max_gap keeps more
DegapNested == (Is("degap") /\ cs.deal = <<"last", 0>> /\ cs.g > 0) =>
    LET K(g, r) == Range(DegapRd(cs.x, cs.today, g, cs.deal, cs.recent, r).v.t) IN
    /\ K(cs.g, "ge") \subseteq K(cs.g, "gt")
    /\ K(cs.g, "gt") = K(cs.g + 1, "ge")
    /\ \A r \in GapReadings : K(cs.g, r) \subseteq K(cs.g + 1, r)

\* ---- clauses: the history ----------------------------------------------------------------------------
InHist == cs.op = "none"
KeptGapFree == InHist => ~HasIssue(kept, HistG, rd) /\ kept \subseteq all
KeptWithinFull == InHist => kept \subseteq DegapSet(all, HistG, rd)
InOrderExact == (InHist /\ ~late) => kept = DegapSet(all, HistG, rd)
\* not an invariant: after a late row the caller may hold less than degapping the full history would give him
Restored == InHist => kept = DegapSet(all, HistG, rd)
\* a late row never costs the caller a row he holds; a row in order is always kept
StepLate == \E t \in all' \ all : \E u \in all : t < u
LateRowsOnlyAdd == [][(InHist /\ StepLate) => kept \subseteq kept']_vars
NewRowKept == [][InHist => \A t \in all' \ all : (\A u \in all : u < t) => t \in kept']_vars
=============================================================================
