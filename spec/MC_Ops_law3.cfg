\* thorough: the clauses on the operators of OpsLaw.tla over three timestamps
CONSTANTS NS = 3
 NT = 2
 NF = 2
 Fill = FALSE
INIT Init
NEXT Eval
INVARIANT OpsAgrees
INVARIANT CmpNoData
INVARIANT FillNumber
INVARIANT FillAsOf
INVARIANT DivZeroFilled
INVARIANT DivListZero
