CONSTANTS NP = 0
 NT = 0
 NF = 2
 NA = 0
 NC = 3
 NS = 0
 Light = TRUE
INIT InitGen
NEXT EvalGen
