CONSTANTS MaxRows = 2
          Wide = TRUE
INIT Init
NEXT Eval
INVARIANT MechanismIsLaw
INVARIANT Partition
INVARIANT Idempotent
INVARIANT KeepsCols
INVARIANT NoCondIsId
INVARIANT FindSound
