CONSTANTS NthYears = {1900, 1999, 2000, 2001, 2004, 2015, 2016, 2017, 2018, 2019, 2020, 2021, 2022, 2023, 2024, 2100}
          Days <- QuickDays
          GenDays <- ThoroughGenDays
          GenFams = {"gmon", "gnth", "gnum", "gnumb", "gnp", "gper", "gfmt"}
INIT GenInit
NEXT GenNext
