--------------------------------- MODULE Eq ---------------------------------
(* Property C14: eq(x, y) is a NaN-aware, type-strict equivalence on values, containers and   *)
(* pandas objects; in_(x, seq) is membership under eq.                                         *)
(*                                                                                             *)
(* Value descriptors.  Leaves are the tagged pairs of Values.tla plus                          *)
(*    <<"np",   <<dtype, leaf>>>>   a numpy scalar of that dtype holding the leaf              *)
(*                                  (int64 int32 float64 float32 bool_ str_)                   *)
(*    <<"ts",   <<o, s, u>>>>       pd.Timestamp       (<<"d", ..>> is datetime.datetime)      *)
(*    <<"d64",  <<o, s, u>>>>       np.datetime64                                              *)
(*    <<"date", o>>                 datetime.date                                              *)
(* Containers                                                                                  *)
(*    <<"t", items>>  <<"l", items>>                  tuple / list                             *)
(*    <<"m", kvs>>                                    dict, kvs = <<key, value>> in key order  *)
(*    <<"M", <<cls, kvs>>>>                           instance of the dict subclass cls        *)
(*    <<"a", <<dtype, shape, cells>>>>                np.ndarray, cells in row-major order     *)
(*    <<"S", <<dtype, index, cells>>>>                pd.Series                                *)
(*    <<"F", <<dtype, index, columns, cells>>>>       pd.DataFrame, cells row-major            *)
(* index / columns are sequences of leaves; cells of numeric arrays are plain leaves, cells of  *)
(* object arrays any value.  Every container is [kind, frame, items]: Kind, Frame, Items.       *)
(*    <<"nat", 0>>                  pd.NaT, the missing Timestamp (one object; NaT != NaT)     *)
(*                                                                                             *)
(* REALISATIONS.  The descriptors above name VALUES - what the statement speaks about.  One    *)
(* value can be realised as a Python object in several concrete ways that the statement does   *)
(* not distinguish; the concrete descriptors below name the realisation, Norm(c) the value:    *)
(*    <<"mo", <<perm, kvs>>>>         a dict whose keys were INSERTED in the order              *)
(*                                    kvs[perm[1]], kvs[perm[2]], ..   (kvs in key order;       *)
(*                                    <<"m", kvs>> is the dict inserted in key order)           *)
(*    <<"Mo", <<cls, perm, kvs>>>>    the same for an instance of the dict subclass cls         *)
(*    <<"v", <<dtype, buf, bufcells, offset, shape, strides>>>>                                 *)
(*                                    an ndarray that does not own its cells: a view into       *)
(*                                    buffer number buf (flat cells bufcells) starting at       *)
(*                                    element offset with element strides - a[1:], a[:-1],      *)
(*                                    m[:, 0], m.T, a[::-1], overlapping windows ...; two views *)
(*                                    with one buf number share memory                          *)
(*    <<"Sv", <<index, view>>>>  <<"Fv", <<index, columns, view>>>>                             *)
(*                                    a Series / DataFrame built on a view without copying      *)
EXTENDS Values

NpS(dt, leaf)  == <<"np", <<dt, leaf>>>>
VDt(o, s, u)   == <<"d", <<o, s, u>>>>
VTs(o, s, u)   == <<"ts", <<o, s, u>>>>
VD64(o, s, u)  == <<"d64", <<o, s, u>>>>
VDate(o)       == <<"date", o>>
VDict(kvs)     == <<"m", kvs>>
VSub(cls, kvs) == <<"M", <<cls, kvs>>>>
VArr(dt, shape, cells)       == <<"a", <<dt, shape, cells>>>>
VSer(dt, index, cells)       == <<"S", <<dt, index, cells>>>>
VFrm(dt, index, cols, cells) == <<"F", <<dt, index, cols, cells>>>>
VNaT           == <<"nat", 0>>
VDictO(perm, kvs)     == <<"mo", <<perm, kvs>>>>
VSubO(cls, perm, kvs) == <<"Mo", <<cls, perm, kvs>>>>
VView(dt, buf, bc, off, shape, strides) == <<"v", <<dt, buf, bc, off, shape, strides>>>>
VSerV(index, view)       == <<"Sv", <<index, view>>>>
VFrmV(index, cols, view) == <<"Fv", <<index, cols, view>>>>

LeafTags == {"n", "b", "i", "f", "nan", "inf", "s", "d", "ts", "d64", "date", "np", "nat"}
IsLeaf(v) == Tag(v) \in LeafTags
\* the container type; a scalar of any sort is "scalar"
Kind(v) == IF IsLeaf(v) THEN "scalar" ELSE IF Tag(v) = "M" THEN "M:" \o Pay(v)[1] ELSE Tag(v)
\* the Python-level value a numpy scalar stands for
Core(v) == IF Tag(v) = "np" THEN Pay(v)[2] ELSE v

Kvs(v)   == IF Tag(v) = "M" THEN Pay(v)[2] ELSE Pay(v)
Items(v) == CASE Tag(v) \in {"t", "l"} -> Pay(v)
              [] Tag(v) \in {"m", "M"} -> [i \in 1..Len(Kvs(v)) |-> Kvs(v)[i][2]]
              [] Tag(v) \in {"a", "S"} -> Pay(v)[3]
              [] Tag(v) = "F"          -> Pay(v)[4]
Keys(v)  == [i \in 1..Len(Kvs(v)) |-> Kvs(v)[i][1]]

\* ---------------------------------------------------------------------------------------------
\* Leaves: Python == with NaN = NaN.  A datetime and a Timestamp of one instant are equal (the
\* second is a subclass of the first).  Named deviation Datetime64Triangle: numpy/pandas == between
\* an np.datetime64 and a datetime / Timestamp of the SAME instant is not eq's doing (it depends on
\* the unit of the datetime64 and is not transitive: datetime != datetime64[D] == Timestamp ==
\* datetime).  With tri = FALSE the datetime64 instants are kept apart from the others, with
\* tri = TRUE they are identified; wherever the two readings differ nothing is pinned (Pin).
\* Named deviation NaTIsMissing: pd.NaT is one object, equal to itself (eq is reflexive) and to
\* nothing else - except that the statement does not say whether NaT counts as a NaN ("NaN equals
\* NaN"): strict reading (tri = FALSE) NaT # NaN, loose reading NaT = NaN, nothing pinned between.
\* NaT against None, numbers, strings, instants is a difference in a cell like any other.
\* ---------------------------------------------------------------------------------------------
IsInstant(a) == Tag(a) \in {"d", "ts", "d64"}
IsNaT(a)     == Tag(a) = "nat"
\* bool / int / finite float by VALUE, exactly - no tolerance: 1000000.0 # 1000001.0, 0.0 # 2^-27.  Rationals are
\* in lowest terms with a positive denominator (Values.tla; the driver's projection float.as_integer_ratio
\* guarantees it), so two of them are equal iff they are the same pair - which also keeps TLC's 32-bit integers
\* out of the cross products of Values!RatEq for near-equal numbers
NumEq(a, b)  == Rat(a) = Rat(b)
LeafEqG(u, v, tri) ==
    LET a == Core(u)  b == Core(v) IN
    IF IsNaN(a) /\ IsNaN(b) THEN TRUE
    ELSE IF IsNaT(a) \/ IsNaT(b)
         THEN (IsNaT(a) /\ IsNaT(b)) \/ (tri /\ (IsNaN(a) \/ IsNaN(b)))
    ELSE IF IsFinNum(a) /\ IsFinNum(b) THEN NumEq(a, b)
    ELSE IF IsInstant(a) /\ IsInstant(b)
         THEN Pay(a) = Pay(b) /\ (tri \/ (Tag(a) = "d64") = (Tag(b) = "d64"))
    ELSE PyEq(a, b)

SeqLeafEqG(s, t, tri) == Len(s) = Len(t) /\ \A i \in 1..Len(s) : LeafEqG(s[i], t[i], tri)

\* same shape / index / columns / keys
FrameEqG(u, v, tri) ==
    CASE Tag(u) \in {"t", "l"} -> Len(Pay(u)) = Len(Pay(v))
      [] Tag(u) \in {"m", "M"} -> Keys(u) = Keys(v)
      [] Tag(u) = "a"          -> Pay(u)[2] = Pay(v)[2]
      [] Tag(u) = "S"          -> SeqLeafEqG(Pay(u)[2], Pay(v)[2], tri)
      [] Tag(u) = "F"          -> SeqLeafEqG(Pay(u)[2], Pay(v)[2], tri) /\ SeqLeafEqG(Pay(u)[3], Pay(v)[3], tri)

\* THE SPECIFICATION: same kind, same shape/index/columns, items pairwise equal
RECURSIVE EqG(_, _, _)
EqG(u, v, tri) ==
    IF IsLeaf(u) /\ IsLeaf(v) THEN LeafEqG(u, v, tri)
    ELSE /\ Kind(u) = Kind(v)
         /\ FrameEqG(u, v, tri)
         /\ LET a == Items(u)  b == Items(v) IN
            Len(a) = Len(b) /\ \A i \in 1..Len(a) : EqG(a[i], b[i], tri)

EqSpec(u, v) == EqG(u, v, FALSE)
InSpec(u, s) == \E i \in 1..Len(s) : EqSpec(u, s[i])

\* the first position at which two equally long sequences of values differ under EqSpec (there is one), from i on
RECURSIVE FirstDiff(_, _, _)
FirstDiff(a, b, i) == IF i >= Len(a) \/ ~EqSpec(a[i], b[i]) THEN i ELSE FirstDiff(a, b, i + 1)

\* why two values differ under EqSpec: the first reason met walking both in step
RECURSIVE Why(_, _)
Why(u, v) ==
    IF IsLeaf(u) /\ IsLeaf(v) THEN "cell"
    ELSE IF Kind(u) # Kind(v) THEN "type"
    ELSE IF ~FrameEqG(u, v, FALSE) \/ Len(Items(u)) # Len(Items(v)) THEN "shape"
    ELSE LET a == Items(u)  b == Items(v)
             k == FirstDiff(a, b, 1)
         IN  Why(a[k], b[k])

\* where two values differ: the classes of the two sub-values at that first difference, "x/y"
\* ("-" when they do not differ) - a stable name for the place of a defect, used in reports
Class(v) == CASE Tag(v) \in {"np", "d64"} -> "npscalar"
              [] IsLeaf(v)   -> "scalar"
              [] Tag(v) = "t" -> "tuple"   [] Tag(v) = "l" -> "list"
              [] Tag(v) = "m" -> "dict"    [] Tag(v) = "M" -> "dictsub"
              [] Tag(v) = "a" -> (IF Pay(v)[2] = <<>> THEN "array0d" ELSE "array")
              [] Tag(v) = "S" -> "Series"  [] Tag(v) = "F" -> "DataFrame"
RECURSIVE At(_, _)
At(u, v) ==
    IF EqSpec(u, v) THEN "-"
    ELSE IF (IsLeaf(u) /\ IsLeaf(v)) \/ Kind(u) # Kind(v) \/ ~FrameEqG(u, v, FALSE) \/ Len(Items(u)) # Len(Items(v))
         THEN Class(u) \o "/" \o Class(v)
    ELSE LET a == Items(u)  b == Items(v)
             k == FirstDiff(a, b, 1)
         IN  At(a[k], b[k])

\* ---------------------------------------------------------------------------------------------
\* What the statement pins
\* ---------------------------------------------------------------------------------------------
\* structural copy: the same descriptor up to the identities of the NaN objects
RECURSIVE Strip(_)
StripSeq(s) == [i \in 1..Len(s) |-> Strip(s[i])]
StripKvs(s) == [i \in 1..Len(s) |-> <<s[i][1], Strip(s[i][2])>>]
Strip(v) ==
    CASE Tag(v) = "nan" -> VNaN(0)
      [] Tag(v) = "np"  -> NpS(Pay(v)[1], Strip(Pay(v)[2]))
      [] Tag(v) \in {"t", "l"} -> <<Tag(v), StripSeq(Pay(v))>>
      [] Tag(v) = "m"   -> VDict(StripKvs(Pay(v)))
      [] Tag(v) = "M"   -> VSub(Pay(v)[1], StripKvs(Pay(v)[2]))
      [] Tag(v) = "a"   -> VArr(Pay(v)[1], Pay(v)[2], StripSeq(Pay(v)[3]))
      [] Tag(v) = "S"   -> VSer(Pay(v)[1], Pay(v)[2], StripSeq(Pay(v)[3]))
      [] Tag(v) = "F"   -> VFrm(Pay(v)[1], Pay(v)[2], Pay(v)[3], StripSeq(Pay(v)[4]))
      [] OTHER -> v
StructCopy(u, v) == Strip(u) = Strip(v)

\* the same value with every NaN object replaced by another one
RECURSIVE Fresh(_)
FreshSeq(s) == [i \in 1..Len(s) |-> Fresh(s[i])]
FreshKvs(s) == [i \in 1..Len(s) |-> <<s[i][1], Fresh(s[i][2])>>]
Fresh(v) ==
    CASE Tag(v) = "nan" -> VNaN(IF Pay(v) = 0 THEN 0 ELSE Pay(v) + 1000)      \* (identity 0: the NaN of a typed cell, not an object)
      [] Tag(v) = "np"  -> NpS(Pay(v)[1], Fresh(Pay(v)[2]))
      [] Tag(v) \in {"t", "l"} -> <<Tag(v), FreshSeq(Pay(v))>>
      [] Tag(v) = "m"   -> VDict(FreshKvs(Pay(v)))
      [] Tag(v) = "M"   -> VSub(Pay(v)[1], FreshKvs(Pay(v)[2]))
      [] Tag(v) = "a"   -> VArr(Pay(v)[1], Pay(v)[2], FreshSeq(Pay(v)[3]))
      [] Tag(v) = "S"   -> VSer(Pay(v)[1], Pay(v)[2], FreshSeq(Pay(v)[3]))
      [] Tag(v) = "F"   -> VFrm(Pay(v)[1], Pay(v)[2], Pay(v)[3], FreshSeq(Pay(v)[4]))
      [] OTHER -> v

\* plain values: scalars and lists / tuples / dicts of plain values
RECURSIVE Plain(_)
Plain(v) == IsLeaf(v) \/ (Tag(v) \in {"t", "l", "m"} /\ \A i \in 1..Len(Items(v)) : Plain(Items(v)[i]))
RECURSIVE NaNFree(_)
\* (pd.NaT is the NaN of timestamps - NaT != NaT in Python - and is not "NaN-free")
NaNFree(v) == IF IsLeaf(v) THEN ~IsNaN(Core(v)) /\ ~IsNaT(v) ELSE \A i \in 1..Len(Items(v)) : NaNFree(Items(v)[i])

\* Python's == on plain values (written from Python's rules, not from EqSpec): numbers by value,
\* sequences of one type elementwise, dicts by key set and values; NaN is equal to nothing
RECURSIVE PyEqX(_, _)
PyEqX(u, v) ==
    IF IsLeaf(u) /\ IsLeaf(v)
    THEN LET a == Core(u)  b == Core(v) IN
         IF IsNaT(a) \/ IsNaT(b) THEN FALSE
         ELSE IF IsFinNum(a) /\ IsFinNum(b) THEN NumEq(a, b)
         ELSE IF Tag(a) \in {"d", "ts"} /\ Tag(b) \in {"d", "ts"} THEN Pay(a) = Pay(b) ELSE PyEq(a, b)
    ELSE IF Tag(u) \in {"t", "l"} /\ Tag(v) = Tag(u)
         THEN Len(Pay(u)) = Len(Pay(v)) /\ \A i \in 1..Len(Pay(u)) : PyEqX(Pay(u)[i], Pay(v)[i])
    ELSE IF Tag(u) = "m" /\ Tag(v) = "m"
         THEN Keys(u) = Keys(v) /\ \A i \in 1..Len(Pay(u)) : PyEqX(Pay(u)[i][2], Pay(v)[i][2])
    ELSE FALSE

\* Pin(u, v): "T" / "F" where the statement fixes eq(u, v), "free" where it does not.
\*   "F"   the values differ in container type, shape / index / columns / keys, or in some cell
\*         ("arrays are equal only if shape and all cells match ...", "False whenever container
\*         types differ", == on plain values);
\*   "T"   structural copies (fresh NaN objects and containers), and plain values that are ==
\*         once NaN = NaN at any depth;
\*   free  named deviation SameCellsOtherCarrier: arrays / pandas objects (or containers holding
\*         them) with matching shape, index, columns and cells that are not copies of each other -
\*         int64 against float64 cells, RangeIndex against a float index ... - the statement gives
\*         only the "only if" direction; the equivalence axioms still bind these entries;
\*   free  named deviations Datetime64Triangle and NaTIsMissing (see LeafEqG).
\* Pin speaks of VALUES; for realisations (insertion order, shared memory) see PinC below.
Pin(u, v) ==
    LET e == EqSpec(u, v) IN
    IF EqG(u, v, TRUE) # e THEN "free"
    ELSE IF ~e THEN "F"
    ELSE IF StructCopy(u, v) THEN "T"
    ELSE IF Plain(u) /\ Plain(v) THEN "T"
    ELSE "free"

\* the clause of the statement that an answer True / False to eq(u, v) contradicts ("" = admitted)
\* (ClauseIfTP / ClauseIfFP: the same with Pin(u, v) handed in, for callers that need it more than once)
ClauseIfTP(u, v, pin) == IF pin = "F" THEN "equal_despite_" \o Why(u, v) ELSE ""
ClauseIfFP(u, v, pin) == IF pin = "T" THEN (IF StructCopy(u, v) THEN "copy_unequal" ELSE "plain_equal_values_unequal") ELSE ""
ClauseIfT(u, v) == ClauseIfTP(u, v, Pin(u, v))
ClauseIfF(u, v) == ClauseIfFP(u, v, Pin(u, v))

\* ---------------------------------------------------------------------------------------------
\* Realisations: concrete descriptors and the value they denote
\* ---------------------------------------------------------------------------------------------
\* The statement speaks of values: a dict is its key -> value mapping ("on NaN-free plain values it
\* agrees with ==", and == on dicts does not look at the insertion order; a re-ordered dict is a
\* structural copy), an array is its dtype, shape and cells ("arrays are equal only if shape and
\* all cells match" - whichever memory the cells live in, shared with the other operand or not), a
\* pandas object its index, columns and cells.  So everything the statement fixes for two
\* realisations is what it fixes for the values they denote: EqC / PinC below.
RECURSIVE ProdSeq(_)
ProdSeq(sh) == IF sh = <<>> THEN 1 ELSE sh[1] * ProdSeq(Tail(sh))
\* the cell with row-major number p (from 0) of a view: its position in the buffer relative to the offset
RECURSIVE PosOf(_, _, _, _)
PosOf(p, sh, st, j) ==
    IF j > Len(sh) THEN 0
    ELSE (((p \div ProdSeq(SubSeq(sh, j + 1, Len(sh)))) % sh[j]) * st[j]) + PosOf(p, sh, st, j + 1)
VDt_(w)  == Pay(w)[1]
VBuf(w)  == Pay(w)[2]
VBc(w)   == Pay(w)[3]
VOff(w)  == Pay(w)[4]
VShp(w)  == Pay(w)[5]
VStr_(w) == Pay(w)[6]
\* positions (from 0) in the buffer of the cells of view w, in row-major order
ViewPos(w)   == [q \in 1..ProdSeq(VShp(w)) |-> VOff(w) + PosOf(q - 1, VShp(w), VStr_(w), 1)]
ViewCells(w) == [q \in 1..ProdSeq(VShp(w)) |-> VBc(w)[ViewPos(w)[q] + 1]]
ViewOK(w)    == /\ Len(VShp(w)) = Len(VStr_(w))
                /\ \A j \in 1..Len(VShp(w)) : VShp(w)[j] >= 1
                /\ \A q \in 1..ProdSeq(VShp(w)) : ViewPos(w)[q] \in 0..(Len(VBc(w)) - 1)
IsPerm(p, n) == Len(p) = n /\ \A k \in 1..n : \E i \in 1..n : p[i] = k

RECURSIVE Norm(_)
NormSeq(s) == [i \in 1..Len(s) |-> Norm(s[i])]
NormKvs(s) == [i \in 1..Len(s) |-> <<s[i][1], Norm(s[i][2])>>]
Norm(c) ==
    CASE Tag(c) \in {"t", "l"} -> <<Tag(c), NormSeq(Pay(c))>>
      [] Tag(c) = "m"   -> VDict(NormKvs(Pay(c)))
      [] Tag(c) = "mo"  -> VDict(NormKvs(Pay(c)[2]))
      [] Tag(c) = "M"   -> VSub(Pay(c)[1], NormKvs(Pay(c)[2]))
      [] Tag(c) = "Mo"  -> VSub(Pay(c)[1], NormKvs(Pay(c)[3]))
      [] Tag(c) = "a"   -> IF Pay(c)[1] = "object" THEN VArr(Pay(c)[1], Pay(c)[2], NormSeq(Pay(c)[3])) ELSE c
      [] Tag(c) = "S"   -> IF Pay(c)[1] = "object" THEN VSer(Pay(c)[1], Pay(c)[2], NormSeq(Pay(c)[3])) ELSE c
      [] Tag(c) = "F"   -> IF Pay(c)[1] = "object" THEN VFrm(Pay(c)[1], Pay(c)[2], Pay(c)[3], NormSeq(Pay(c)[4])) ELSE c
      [] Tag(c) = "v"   -> VArr(VDt_(c), VShp(c), NormSeq(ViewCells(c)))
      [] Tag(c) = "Sv"  -> VSer(VDt_(Pay(c)[2]), Pay(c)[1], NormSeq(ViewCells(Pay(c)[2])))
      [] Tag(c) = "Fv"  -> VFrm(VDt_(Pay(c)[3]), Pay(c)[1], Pay(c)[2], NormSeq(ViewCells(Pay(c)[3])))
      [] OTHER -> c

\* a concrete descriptor is well formed: permutations are permutations, views stay inside their buffer
RECURSIVE ConcreteOK(_)
OKSeq(s) == \A i \in 1..Len(s) : ConcreteOK(s[i])
OKKvs(s) == \A i \in 1..Len(s) : ConcreteOK(s[i][2])
ConcreteOK(c) ==
    CASE Tag(c) \in {"t", "l"} -> OKSeq(Pay(c))
      [] Tag(c) = "m"   -> OKKvs(Pay(c))
      [] Tag(c) = "mo"  -> IsPerm(Pay(c)[1], Len(Pay(c)[2])) /\ OKKvs(Pay(c)[2])
      [] Tag(c) = "M"   -> OKKvs(Pay(c)[2])
      [] Tag(c) = "Mo"  -> IsPerm(Pay(c)[2], Len(Pay(c)[3])) /\ OKKvs(Pay(c)[3])
      [] Tag(c) = "a"   -> Len(Pay(c)[3]) = ProdSeq(Pay(c)[2]) /\ OKSeq(Pay(c)[3])
      [] Tag(c) = "S"   -> Len(Pay(c)[3]) = Len(Pay(c)[2]) /\ OKSeq(Pay(c)[3])
      [] Tag(c) = "F"   -> Len(Pay(c)[4]) = Len(Pay(c)[2]) * Len(Pay(c)[3]) /\ OKSeq(Pay(c)[4])
      [] Tag(c) = "v"   -> ViewOK(c) /\ OKSeq(VBc(c))
      [] Tag(c) = "Sv"  -> Tag(Pay(c)[2]) = "v" /\ ViewOK(Pay(c)[2]) /\ VShp(Pay(c)[2]) = <<Len(Pay(c)[1])>>
      [] Tag(c) = "Fv"  -> Tag(Pay(c)[3]) = "v" /\ ViewOK(Pay(c)[3]) /\ VShp(Pay(c)[3]) = <<Len(Pay(c)[1]), Len(Pay(c)[2])>>
      [] OTHER -> TRUE

\* the key -> value pairs of a concrete dict in the order they were inserted
InsKvs(c) == CASE Tag(c) = "mo" -> [i \in 1..Len(Pay(c)[2]) |-> Pay(c)[2][Pay(c)[1][i]]]
               [] Tag(c) = "Mo" -> [i \in 1..Len(Pay(c)[3]) |-> Pay(c)[3][Pay(c)[2][i]]]
               [] OTHER -> Kvs(c)
\* two views share memory: one buffer, and some cell of it is addressed by both
ViewCellSet(w) == {ViewPos(w)[q] : q \in 1..ProdSeq(VShp(w))}
SharesCells(u, v) == VBuf(u) = VBuf(v) /\ ViewCellSet(u) \cap ViewCellSet(v) # {}
\* ... one buffer, and the address ranges overlap (np.may_share_memory looks at the bounds only)
ViewLo(w) == CHOOSE a \in ViewCellSet(w) : \A b \in ViewCellSet(w) : a <= b
ViewHi(w) == CHOOSE a \in ViewCellSet(w) : \A b \in ViewCellSet(w) : a >= b
MayShare(u, v) == VBuf(u) = VBuf(v) /\ ViewLo(u) <= ViewHi(v) /\ ViewLo(v) <= ViewHi(u)

\* what the statement says about two realisations = what it says about their values
EqC(u, v)        == EqSpec(Norm(u), Norm(v))
PinC(u, v)       == Pin(Norm(u), Norm(v))
SameValue(u, v)  == Norm(u) = Norm(v)
AtC(u, v)        == At(Norm(u), Norm(v))
\* structural copy at the level of realisations: also the same insertion orders, the same offsets and
\* strides (whatever the buffer number: a copy lives in its own memory)
RECURSIVE StripC(_)
StripCSeq(s) == [i \in 1..Len(s) |-> StripC(s[i])]
StripCKvs(s) == [i \in 1..Len(s) |-> <<s[i][1], StripC(s[i][2])>>]
StripC(c) ==
    CASE Tag(c) = "nan" -> VNaN(0)
      [] Tag(c) = "np"  -> NpS(Pay(c)[1], StripC(Pay(c)[2]))
      [] Tag(c) \in {"t", "l"} -> <<Tag(c), StripCSeq(Pay(c))>>
      [] Tag(c) = "m"   -> VDict(StripCKvs(Pay(c)))
      [] Tag(c) = "mo"  -> VDictO(Pay(c)[1], StripCKvs(Pay(c)[2]))
      [] Tag(c) = "M"   -> VSub(Pay(c)[1], StripCKvs(Pay(c)[2]))
      [] Tag(c) = "Mo"  -> VSubO(Pay(c)[1], Pay(c)[2], StripCKvs(Pay(c)[3]))
      [] Tag(c) = "a"   -> VArr(Pay(c)[1], Pay(c)[2], StripCSeq(Pay(c)[3]))
      [] Tag(c) = "S"   -> VSer(Pay(c)[1], Pay(c)[2], StripCSeq(Pay(c)[3]))
      [] Tag(c) = "F"   -> VFrm(Pay(c)[1], Pay(c)[2], Pay(c)[3], StripCSeq(Pay(c)[4]))
      [] Tag(c) = "v"   -> VView(VDt_(c), 0, StripCSeq(VBc(c)), VOff(c), VShp(c), VStr_(c))
      [] Tag(c) = "Sv"  -> VSerV(Pay(c)[1], StripC(Pay(c)[2]))
      [] Tag(c) = "Fv"  -> VFrmV(Pay(c)[1], Pay(c)[2], StripC(Pay(c)[3]))
      [] OTHER -> c
SameRealisation(u, v) == StripC(u) = StripC(v)
\* the clause an answer True / False to eq(u, v) contradicts, for two realisations.  An answer False for
\* two realisations of one value that are NOT realised the same way (another insertion order, other
\* memory) is named apart - it is the same sentence of the statement, but another family of defects
ClauseIfTC(u, v) == ClauseIfT(Norm(u), Norm(v))
ClauseIfFC(u, v) == LET cl == ClauseIfF(Norm(u), Norm(v)) IN
                    IF cl = "copy_unequal" /\ ~SameRealisation(u, v) THEN "other_realisation_unequal" ELSE cl

\* ---------------------------------------------------------------------------------------------
\* Objects that change in place.  eq speaks of the values its operands have NOW: an object that was
\* written to (a cell, a label, a dict entry) is simply another value of the universe, whatever was
\* answered about it before.  The operators give the concrete descriptor of an object after a write.
\* ---------------------------------------------------------------------------------------------
SetAt(q, k, v) == [q EXCEPT ![k] = v]
SetKv(kvs, k, v) == [kvs EXCEPT ![k] = <<kvs[k][1], v>>]
DropAt(q, k) == SubSeq(q, 1, k - 1) \o SubSeq(q, k + 1, Len(q))
MkDict(perm, kvs) == IF \A i \in 1..Len(perm) : perm[i] = i THEN VDict(kvs) ELSE VDictO(perm, kvs)
MkSub(cls, perm, kvs) == IF \A i \in 1..Len(perm) : perm[i] = i THEN VSub(cls, kvs) ELSE VSubO(cls, perm, kvs)
PermOf(c) == CASE Tag(c) = "mo" -> Pay(c)[1] [] Tag(c) = "Mo" -> Pay(c)[2]
               [] Tag(c) = "m" -> [i \in 1..Len(Pay(c)) |-> i] [] Tag(c) = "M" -> [i \in 1..Len(Pay(c)[2]) |-> i]
KvsOf(c)  == CASE Tag(c) = "mo" -> Pay(c)[2] [] Tag(c) = "Mo" -> Pay(c)[3] [] Tag(c) = "m" -> Pay(c) [] Tag(c) = "M" -> Pay(c)[2]
ReDict(c, perm, kvs) == IF Tag(c) \in {"m", "mo"} THEN MkDict(perm, kvs) ELSE MkSub(Pay(c)[1], perm, kvs)
NItems(c) == CASE Tag(c) \in {"t", "l"} -> Len(Pay(c))
               [] Tag(c) \in {"m", "mo", "M", "Mo"} -> Len(KvsOf(c))
               [] Tag(c) \in {"a", "S"} -> Len(Pay(c)[3])
               [] Tag(c) = "F" -> Len(Pay(c)[4])
               [] Tag(c) = "v" -> ProdSeq(VShp(c))
               [] OTHER -> 0
\* x[k] = v : item k of a list, the value of the k-th key (in key order) of a dict, cell k (row-major) of an
\* array / Series / frame; a write through a view lands in its buffer
SetItem(c, k, v) ==
    CASE Tag(c) = "l" -> VLst(SetAt(Pay(c), k, v))
      [] Tag(c) \in {"m", "mo", "M", "Mo"} -> ReDict(c, PermOf(c), SetKv(KvsOf(c), k, v))
      [] Tag(c) = "a" -> VArr(Pay(c)[1], Pay(c)[2], SetAt(Pay(c)[3], k, v))
      [] Tag(c) = "S" -> VSer(Pay(c)[1], Pay(c)[2], SetAt(Pay(c)[3], k, v))
      [] Tag(c) = "F" -> VFrm(Pay(c)[1], Pay(c)[2], Pay(c)[3], SetAt(Pay(c)[4], k, v))
      [] Tag(c) = "v" -> VView(VDt_(c), VBuf(c), SetAt(VBc(c), ViewPos(c)[k] + 1, v), VOff(c), VShp(c), VStr_(c))
\* ... and what another object sees of it: a view into the same buffer sees the new cell
SeesWrite(o, c, k, v) ==
    IF Tag(o) = "v" /\ Tag(c) = "v" /\ VBuf(o) = VBuf(c)
    THEN VView(VDt_(o), VBuf(o), SetAt(VBc(o), ViewPos(c)[k] + 1, v), VOff(o), VShp(o), VStr_(o)) ELSE o
\* x.index = ... / x.columns = ... with label k replaced
SetLabel(c, axis, k, v) ==
    CASE Tag(c) = "S" -> VSer(Pay(c)[1], SetAt(Pay(c)[2], k, v), Pay(c)[3])
      [] Tag(c) = "F" /\ axis = 0 -> VFrm(Pay(c)[1], SetAt(Pay(c)[2], k, v), Pay(c)[3], Pay(c)[4])
      [] Tag(c) = "F" /\ axis = 1 -> VFrm(Pay(c)[1], Pay(c)[2], SetAt(Pay(c)[3], k, v), Pay(c)[4])
\* d[key] = d.pop(key) for the k-th key: the same mapping, the key now inserted last
Reinsert(c, k) == LET p == PermOf(c)  at == CHOOSE i \in 1..Len(p) : p[i] = k
                  IN  ReDict(c, DropAt(p, at) \o <<k>>, KvsOf(c))
\* x.append(v) / x.pop() on a list
Appended(c, v) == VLst(Append(Pay(c), v))
Popped(c)      == VLst(SubSeq(Pay(c), 1, Len(Pay(c)) - 1))

\* ---------------------------------------------------------------------------------------------
\* The axioms of the statement on an observed matrix  M[i][j] \in {"T", "F", other}, i, j \in 1..n,
\* with descriptors D[i]
\* ---------------------------------------------------------------------------------------------
IsB(m) == m \in {"T", "F"}
AxBoolean(M, n)    == \A i, j \in 1..n : IsB(M[i][j])
AxReflexive(M, D, n) == \A i, j \in 1..n : StructCopy(D[i], D[j]) => M[i][j] = "T"
AxSymmetric(M, n)  == \A i, j \in 1..n : (IsB(M[i][j]) /\ IsB(M[j][i])) => M[i][j] = M[j][i]
AxTransitive(M, n) == \A i, j, k \in 1..n : (M[i][j] = "T" /\ M[j][k] = "T") => M[i][k] # "F"
AxPinned(M, D, n)  == \A i, j \in 1..n : IsB(M[i][j]) => (Pin(D[i], D[j]) \in {"free", M[i][j]})
=============================================================================
