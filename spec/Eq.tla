--------------------------------- MODULE Eq ---------------------------------
(* Property C14: eq(x, y) is a NaN-aware, type-strict equivalence on values, containers and   *)
(* pandas objects; in_(x, seq) is membership under eq.                                         *)
(*                                                                                             *)
(* Value descriptors.  Leaves are the tagged pairs of Values.tla plus                          *)
(*    <<"np",   <<dtype, leaf>>>>   a numpy scalar of that dtype holding the leaf              *)
(*                                  (int64 int32 float64 float32 bool_ str_)                   *)
(*    <<"ts",   <<o, s, u>>>>       pd.Timestamp       (<<"d", ..>> is datetime.datetime)      *)
(*    <<"d64",  <<o, s, u>>>>       np.datetime64                                              *)
(*    <<"date", o>>                 datetime.date                                              *)
(* Containers                                                                                  *)
(*    <<"t", items>>  <<"l", items>>                  tuple / list                             *)
(*    <<"m", kvs>>                                    dict, kvs = <<key, value>> in key order  *)
(*    <<"M", <<cls, kvs>>>>                           instance of the dict subclass cls        *)
(*    <<"a", <<dtype, shape, cells>>>>                np.ndarray, cells in row-major order     *)
(*    <<"S", <<dtype, index, cells>>>>                pd.Series                                *)
(*    <<"F", <<dtype, index, columns, cells>>>>       pd.DataFrame, cells row-major            *)
(* index / columns are sequences of leaves; cells of numeric arrays are plain leaves, cells of  *)
(* object arrays any value.  Every container is [kind, frame, items]: Kind, Frame, Items.       *)
EXTENDS Values

NpS(dt, leaf)  == <<"np", <<dt, leaf>>>>
VDt(o, s, u)   == <<"d", <<o, s, u>>>>
VTs(o, s, u)   == <<"ts", <<o, s, u>>>>
VD64(o, s, u)  == <<"d64", <<o, s, u>>>>
VDate(o)       == <<"date", o>>
VDict(kvs)     == <<"m", kvs>>
VSub(cls, kvs) == <<"M", <<cls, kvs>>>>
VArr(dt, shape, cells)       == <<"a", <<dt, shape, cells>>>>
VSer(dt, index, cells)       == <<"S", <<dt, index, cells>>>>
VFrm(dt, index, cols, cells) == <<"F", <<dt, index, cols, cells>>>>

LeafTags == {"n", "b", "i", "f", "nan", "inf", "s", "d", "ts", "d64", "date", "np"}
IsLeaf(v) == Tag(v) \in LeafTags
\* the container type; a scalar of any sort is "scalar"
Kind(v) == IF IsLeaf(v) THEN "scalar" ELSE IF Tag(v) = "M" THEN "M:" \o Pay(v)[1] ELSE Tag(v)
\* the Python-level value a numpy scalar stands for
Core(v) == IF Tag(v) = "np" THEN Pay(v)[2] ELSE v

Kvs(v)   == IF Tag(v) = "M" THEN Pay(v)[2] ELSE Pay(v)
Items(v) == CASE Tag(v) \in {"t", "l"} -> Pay(v)
              [] Tag(v) \in {"m", "M"} -> [i \in 1..Len(Kvs(v)) |-> Kvs(v)[i][2]]
              [] Tag(v) \in {"a", "S"} -> Pay(v)[3]
              [] Tag(v) = "F"          -> Pay(v)[4]
Keys(v)  == [i \in 1..Len(Kvs(v)) |-> Kvs(v)[i][1]]

\* ---------------------------------------------------------------------------------------------
\* Leaves: Python == with NaN = NaN.  A datetime and a Timestamp of one instant are equal (the
\* second is a subclass of the first).  Named deviation Datetime64Triangle: numpy/pandas == between
\* an np.datetime64 and a datetime / Timestamp of the SAME instant is not eq's doing (it depends on
\* the unit of the datetime64 and is not transitive: datetime != datetime64[D] == Timestamp ==
\* datetime).  With tri = FALSE the datetime64 instants are kept apart from the others, with
\* tri = TRUE they are identified; wherever the two readings differ nothing is pinned (Pin).
\* ---------------------------------------------------------------------------------------------
IsInstant(a) == Tag(a) \in {"d", "ts", "d64"}
LeafEqG(u, v, tri) ==
    LET a == Core(u)  b == Core(v) IN
    IF IsNaN(a) /\ IsNaN(b) THEN TRUE
    ELSE IF IsInstant(a) /\ IsInstant(b)
         THEN Pay(a) = Pay(b) /\ (tri \/ (Tag(a) = "d64") = (Tag(b) = "d64"))
    ELSE PyEq(a, b)

SeqLeafEqG(s, t, tri) == Len(s) = Len(t) /\ \A i \in 1..Len(s) : LeafEqG(s[i], t[i], tri)

\* same shape / index / columns / keys
FrameEqG(u, v, tri) ==
    CASE Tag(u) \in {"t", "l"} -> Len(Pay(u)) = Len(Pay(v))
      [] Tag(u) \in {"m", "M"} -> Keys(u) = Keys(v)
      [] Tag(u) = "a"          -> Pay(u)[2] = Pay(v)[2]
      [] Tag(u) = "S"          -> SeqLeafEqG(Pay(u)[2], Pay(v)[2], tri)
      [] Tag(u) = "F"          -> SeqLeafEqG(Pay(u)[2], Pay(v)[2], tri) /\ SeqLeafEqG(Pay(u)[3], Pay(v)[3], tri)

\* THE SPECIFICATION: same kind, same shape/index/columns, items pairwise equal
RECURSIVE EqG(_, _, _)
EqG(u, v, tri) ==
    IF IsLeaf(u) /\ IsLeaf(v) THEN LeafEqG(u, v, tri)
    ELSE /\ Kind(u) = Kind(v)
         /\ FrameEqG(u, v, tri)
         /\ LET a == Items(u)  b == Items(v) IN
            Len(a) = Len(b) /\ \A i \in 1..Len(a) : EqG(a[i], b[i], tri)

EqSpec(u, v) == EqG(u, v, FALSE)
InSpec(u, s) == \E i \in 1..Len(s) : EqSpec(u, s[i])

\* why two values differ under EqSpec: the first reason met walking both in step
RECURSIVE Why(_, _)
Why(u, v) ==
    IF IsLeaf(u) /\ IsLeaf(v) THEN "cell"
    ELSE IF Kind(u) # Kind(v) THEN "type"
    ELSE IF ~FrameEqG(u, v, FALSE) \/ Len(Items(u)) # Len(Items(v)) THEN "shape"
    ELSE LET a == Items(u)  b == Items(v)
             k == CHOOSE i \in 1..Len(a) : ~EqSpec(a[i], b[i]) /\ \A j \in 1..(i - 1) : EqSpec(a[j], b[j])
         IN  Why(a[k], b[k])

\* where two values differ: the classes of the two sub-values at that first difference, "x/y"
\* ("-" when they do not differ) - a stable name for the place of a defect, used in reports
Class(v) == CASE Tag(v) \in {"np", "d64"} -> "npscalar"
              [] IsLeaf(v)   -> "scalar"
              [] Tag(v) = "t" -> "tuple"   [] Tag(v) = "l" -> "list"
              [] Tag(v) = "m" -> "dict"    [] Tag(v) = "M" -> "dictsub"
              [] Tag(v) = "a" -> (IF Pay(v)[2] = <<>> THEN "array0d" ELSE "array")
              [] Tag(v) = "S" -> "Series"  [] Tag(v) = "F" -> "DataFrame"
RECURSIVE At(_, _)
At(u, v) ==
    IF EqSpec(u, v) THEN "-"
    ELSE IF (IsLeaf(u) /\ IsLeaf(v)) \/ Kind(u) # Kind(v) \/ ~FrameEqG(u, v, FALSE) \/ Len(Items(u)) # Len(Items(v))
         THEN Class(u) \o "/" \o Class(v)
    ELSE LET a == Items(u)  b == Items(v)
             k == CHOOSE i \in 1..Len(a) : ~EqSpec(a[i], b[i]) /\ \A j \in 1..(i - 1) : EqSpec(a[j], b[j])
         IN  At(a[k], b[k])

\* ---------------------------------------------------------------------------------------------
\* What the statement pins
\* ---------------------------------------------------------------------------------------------
\* structural copy: the same descriptor up to the identities of the NaN objects
RECURSIVE Strip(_)
StripSeq(s) == [i \in 1..Len(s) |-> Strip(s[i])]
StripKvs(s) == [i \in 1..Len(s) |-> <<s[i][1], Strip(s[i][2])>>]
Strip(v) ==
    CASE Tag(v) = "nan" -> VNaN(0)
      [] Tag(v) = "np"  -> NpS(Pay(v)[1], Strip(Pay(v)[2]))
      [] Tag(v) \in {"t", "l"} -> <<Tag(v), StripSeq(Pay(v))>>
      [] Tag(v) = "m"   -> VDict(StripKvs(Pay(v)))
      [] Tag(v) = "M"   -> VSub(Pay(v)[1], StripKvs(Pay(v)[2]))
      [] Tag(v) = "a"   -> VArr(Pay(v)[1], Pay(v)[2], StripSeq(Pay(v)[3]))
      [] Tag(v) = "S"   -> VSer(Pay(v)[1], Pay(v)[2], StripSeq(Pay(v)[3]))
      [] Tag(v) = "F"   -> VFrm(Pay(v)[1], Pay(v)[2], Pay(v)[3], StripSeq(Pay(v)[4]))
      [] OTHER -> v
StructCopy(u, v) == Strip(u) = Strip(v)

\* the same value with every NaN object replaced by another one
RECURSIVE Fresh(_)
FreshSeq(s) == [i \in 1..Len(s) |-> Fresh(s[i])]
FreshKvs(s) == [i \in 1..Len(s) |-> <<s[i][1], Fresh(s[i][2])>>]
Fresh(v) ==
    CASE Tag(v) = "nan" -> VNaN(Pay(v) + 1000)
      [] Tag(v) = "np"  -> NpS(Pay(v)[1], Fresh(Pay(v)[2]))
      [] Tag(v) \in {"t", "l"} -> <<Tag(v), FreshSeq(Pay(v))>>
      [] Tag(v) = "m"   -> VDict(FreshKvs(Pay(v)))
      [] Tag(v) = "M"   -> VSub(Pay(v)[1], FreshKvs(Pay(v)[2]))
      [] Tag(v) = "a"   -> VArr(Pay(v)[1], Pay(v)[2], FreshSeq(Pay(v)[3]))
      [] Tag(v) = "S"   -> VSer(Pay(v)[1], Pay(v)[2], FreshSeq(Pay(v)[3]))
      [] Tag(v) = "F"   -> VFrm(Pay(v)[1], Pay(v)[2], Pay(v)[3], FreshSeq(Pay(v)[4]))
      [] OTHER -> v

\* plain values: scalars and lists / tuples / dicts of plain values
RECURSIVE Plain(_)
Plain(v) == IsLeaf(v) \/ (Tag(v) \in {"t", "l", "m"} /\ \A i \in 1..Len(Items(v)) : Plain(Items(v)[i]))
RECURSIVE NaNFree(_)
NaNFree(v) == IF IsLeaf(v) THEN ~IsNaN(Core(v)) ELSE \A i \in 1..Len(Items(v)) : NaNFree(Items(v)[i])

\* Python's == on plain values (written from Python's rules, not from EqSpec): numbers by value,
\* sequences of one type elementwise, dicts by key set and values; NaN is equal to nothing
RECURSIVE PyEqX(_, _)
PyEqX(u, v) ==
    IF IsLeaf(u) /\ IsLeaf(v)
    THEN LET a == Core(u)  b == Core(v) IN
         IF Tag(a) \in {"d", "ts"} /\ Tag(b) \in {"d", "ts"} THEN Pay(a) = Pay(b) ELSE PyEq(a, b)
    ELSE IF Tag(u) \in {"t", "l"} /\ Tag(v) = Tag(u)
         THEN Len(Pay(u)) = Len(Pay(v)) /\ \A i \in 1..Len(Pay(u)) : PyEqX(Pay(u)[i], Pay(v)[i])
    ELSE IF Tag(u) = "m" /\ Tag(v) = "m"
         THEN Keys(u) = Keys(v) /\ \A i \in 1..Len(Pay(u)) : PyEqX(Pay(u)[i][2], Pay(v)[i][2])
    ELSE FALSE

\* Pin(u, v): "T" / "F" where the statement fixes eq(u, v), "free" where it does not.
\*   "F"   the values differ in container type, shape / index / columns / keys, or in some cell
\*         ("arrays are equal only if shape and all cells match ...", "False whenever container
\*         types differ", == on plain values);
\*   "T"   structural copies (fresh NaN objects and containers), and plain values that are ==
\*         once NaN = NaN at any depth;
\*   free  named deviation SameCellsOtherCarrier: arrays / pandas objects (or containers holding
\*         them) with matching shape, index, columns and cells that are not copies of each other -
\*         int64 against float64 cells, RangeIndex against a float index ... - the statement gives
\*         only the "only if" direction; the equivalence axioms still bind these entries;
\*   free  named deviation Datetime64Triangle (see LeafEqG).
Pin(u, v) ==
    LET e == EqSpec(u, v) IN
    IF EqG(u, v, TRUE) # e THEN "free"
    ELSE IF ~e THEN "F"
    ELSE IF StructCopy(u, v) THEN "T"
    ELSE IF Plain(u) /\ Plain(v) THEN "T"
    ELSE "free"

\* the clause of the statement that an answer True / False to eq(u, v) contradicts ("" = admitted)
ClauseIfT(u, v) == IF Pin(u, v) = "F" THEN "equal_despite_" \o Why(u, v) ELSE ""
ClauseIfF(u, v) == IF Pin(u, v) = "T" THEN (IF StructCopy(u, v) THEN "copy_unequal" ELSE "plain_equal_values_unequal") ELSE ""

\* ---------------------------------------------------------------------------------------------
\* The axioms of the statement on an observed matrix  M[i][j] \in {"T", "F", other}, i, j \in 1..n,
\* with descriptors D[i]
\* ---------------------------------------------------------------------------------------------
IsB(m) == m \in {"T", "F"}
AxBoolean(M, n)    == \A i, j \in 1..n : IsB(M[i][j])
AxReflexive(M, D, n) == \A i, j \in 1..n : StructCopy(D[i], D[j]) => M[i][j] = "T"
AxSymmetric(M, n)  == \A i, j \in 1..n : (IsB(M[i][j]) /\ IsB(M[j][i])) => M[i][j] = M[j][i]
AxTransitive(M, n) == \A i, j, k \in 1..n : (M[i][j] = "T" /\ M[j][k] = "T") => M[i][k] # "F"
AxPinned(M, D, n)  == \A i, j \in 1..n : IsB(M[i][j]) => (Pin(D[i], D[j]) \in {"free", M[i][j]})
=============================================================================
