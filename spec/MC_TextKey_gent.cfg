CONSTANTS MaxLen = 3
          Gen = TRUE
          WithDicts = TRUE
INIT Init
NEXT Next
