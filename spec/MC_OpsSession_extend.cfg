\* the model can express what it forbids: with dfs = as_list(a); dfs += as_list(b) the caller's list does not survive add_(L, x)
CONSTANTS MaxSteps = 2
          FreeSteps = 1
          Scope = "series"
          Caller = FALSE
          Edits = FALSE
          Pairs = "no"
          Extend = TRUE
          Mech = TRUE
INIT Init
NEXT Next
INVARIANT PoolUntouched
