\* thorough tier, MC of the clauses on every history: call on two objects ; in-place edit ; probe (same call, ring operators,
\* other policies, fill methods) - series heaps
CONSTANTS MaxSteps = 3
          FreeSteps = 1
          Scope = "series"
          Caller = FALSE
          Edits = TRUE
          Pairs = "only"
          Extend = FALSE
          Mech = TRUE
INIT Init
NEXT NextE
INVARIANT PoolUntouched
INVARIANT ResultByOriginal
INVARIANT RightListPinned
INVARIANT SwapArguments
INVARIANT ListAggregates
PROPERTY CallsChangeNothing
