\* thorough tier, exhaustive: call on two objects ; in-place edit ; probe (same call, ring operators, other policies, fill methods)
CONSTANTS MaxSteps = 3
          FreeSteps = 1
          Scope = "quick"
          Caller = FALSE
          Edits = TRUE
          Pairs = "only"
          Extend = FALSE
INIT Init
NEXT NextGen
INVARIANT PoolUntouched
INVARIANT ResultByOriginal
INVARIANT RightListPinned
INVARIANT SwapArguments
INVARIANT ListAggregates
PROPERTY CallsChangeNothing
