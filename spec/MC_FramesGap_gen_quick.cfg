CONSTANTS
 N = 5
 Ahead = 2
 G = {0, 1, 2, 3}
 HistG = 2
 HistLen = 5
INIT InitCalls
NEXT EvalGen
