CONSTANTS
 N = 5
 Ahead = 2
 G = {0, 1, 2, 3}
 HistG = 2
 HistLen = 5
INIT InitCalls
NEXT EvalGen
INVARIANT AllInDomain
INVARIANT GapSums
INVARIANT KeepsATail
INVARIANT NothingToDo
INVARIANT IntDeals
INVARIANT DegapLast
INVARIANT DegapNested
