CONSTANTS Depth = 7
          Record = TRUE
          Wide = TRUE
          Full = TRUE
INIT InitSess
NEXT NextGen
