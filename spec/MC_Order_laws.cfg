CONSTANTS MaxLen = 0
          Mode = "laws"
INIT Init
NEXT Next
INVARIANT Antisym
INVARIANT Reflexive
INVARIANT Transitive
INVARIANT PinnedOK
INVARIANT NaNTop
INVARIANT ModelXAgrees
