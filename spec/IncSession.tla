------------------------------ MODULE IncSession ------------------------------
(* Property C06 over HISTORIES of calls that share the caller's objects.                        *)
(*                                                                                             *)
(* A session is one table and a POOL of caller-owned filter objects:                           *)
(*     [kind |-> "dict", name |-> "", items |-> <<<<column, cell condition>>, ...>>]           *)
(*           a dict of column conditions (cell conditions as in Table.tla; a "list" condition   *)
(*           is itself a caller-owned list object living inside the dict)                       *)
(*     [kind |-> "pred", name |-> n, items |-> <<>>]     a callable on named columns            *)
(* A call takes its filters from the pool, in any spelling:                                     *)
(*     [op |-> "inc" | "exc" | "find" | "one",  col |-> column of find_<col> or "",             *)
(*      pos |-> <<pool slots handed over positionally, in this order>>,                         *)
(*      kw  |-> 0 or the slot of a dict handed over as keywords, ** q,                       *)
(*      x   |-> 0 or the slot of a dict given as one_or_none(..., exc = q),                     *)
(*      on  |-> "t" (the call is made on the session's table) | "last" (on the table the previous *)
(*              call returned:  r = t.inc(q1, q2);  r.inc(q1, q2)  - idempotence as a history)]    *)
(* e.g.  t.inc(q1, q2)   t.exc(q2, f)   t.find_a(q1, **q2)   t.one_or_none(q1, exc = q2).       *)
(* The statement's "conjunction of column conditions" is the union of the conditions of all     *)
(* the dicts of the call, whatever the spelling.                                                *)
(*                                                                                             *)
(* LAW (from the statement): the outcome of a call is a function of the table and of the        *)
(* ORIGINAL contents of the filters it names - nothing an earlier call did can be seen in it -  *)
(* and a call leaves the table and every pool object as they were.                              *)
(* MECHANISM (from the code): the keywords form a fresh dict `filters`, every positional dict   *)
(* is merged into it with dict.update, callables narrow the rows on the way.  Variant Adopt     *)
(* (`filters` IS the caller's dict when there is nothing to merge it into) shows what the law   *)
(* forbids: the next update then writes into the caller's object.                               *)
(*                                                                                             *)
(* ROUND 4.  (1) The caller OWNS the pool: between two calls he may EDIT an object in place - a   *)
(* list of admissible values (a cell condition <<"list", contents, id>>: id = the identity of the *)
(* list OBJECT; the same id in two dicts is one list held by both), or a dict (set / delete a     *)
(* condition).  A call may also hand over FRESH objects equal by value to what the pool held      *)
(* BEFORE the latest edit (src = "old"), and it may be made on a SECOND table (on = "u").  The law *)
(* does not change: the outcome is a function of the table the call is made on and of the contents*)
(* its filters have AT THE MOMENT OF THE CALL - a call has no memory and owns nothing of the       *)
(* caller.  (2) The NAMES of the columns are data of the case: a naming maps the columns a, b, c, d*)
(* of the law onto the names the real table carries (data, columns, key, self, function, ...);    *)
(* the law under a naming is the renamed law (RenT, RenOut).  (3) A callable has a REALISATION (field      *)
(* `real`: lambda, def, functools.partial, an object with __call__, a bound method, a function     *)
(* decorated by pyg_base - a dict subclass instance); the law does not look at it.                 *)
EXTENDS Table, SequencesExt, FiniteSetsExt

\* (fields in the order TLC keeps them once normalised, see MkCall in MC_IncSession.tla)
FDict(items)  == [kind |-> "dict", items |-> items, name |-> "", real |-> "dict"]
FPredR(n, r)  == [kind |-> "pred", items |-> <<>>, name |-> n, real |-> r]
FPred(n)      == FPredR(n, "lambda")
IsDict(f) == f.kind = "dict"
IsPred(f) == f.kind = "pred"

NArgs(c) == Len(c.pos) + (IF c.kw = 0 THEN 0 ELSE 1)
DictPos(p, c) == {k \in 1..Len(c.pos) : IsDict(p[c.pos[k]])}
PredPos(p, c) == {k \in 1..Len(c.pos) : IsPred(p[c.pos[k]])}

\* the condition a call expresses, read off the pool p: the callables and the set of <<column, cell condition>>
CondOf(p, c) == [preds |-> {p[c.pos[k]].name : k \in PredPos(p, c)},
                 items |-> UNION ({Range(p[c.pos[k]].items) : k \in DictPos(p, c)}
                                  \cup {IF c.kw = 0 THEN {} ELSE Range(p[c.kw].items)})]

\* Domain of the statement.  Named restrictions:
\*   SingleCallable     - "single predicate": at most one callable in a call;
\*   SameColumnOnce     - a column named by two filters of one call carries the SAME condition in both
\*                        (two different conditions on one column: the statement does not say whether
\*                        they are conjoined or the later one wins - out of the domain);
\*   columns exist in the table; keywords and exc= are dicts.
SlotsOK(p, c) == /\ \A k \in 1..Len(c.pos) : c.pos[k] \in 1..Len(p)
                 /\ c.kw \in 0..Len(p) /\ c.x \in 0..Len(p)
SingleCallable(p, c) == Cardinality(PredPos(p, c)) <= 1
SameColumnOnce(p, c) == LET its == CondOf(p, c).items IN \A i1 \in its, i2 \in its : i1[1] = i2[1] => i1 = i2
InDomain(t, p, c) ==
    /\ SlotsOK(p, c)
    /\ c.kw # 0 => IsDict(p[c.kw])
    /\ c.x # 0 => (c.op = "one" /\ IsDict(p[c.x]) /\ \A it \in Range(p[c.x].items) : it[1] \in ColSet(t))
    /\ SingleCallable(p, c)
    /\ SameColumnOnce(p, c)
    /\ \A it \in CondOf(p, c).items : it[1] \in ColSet(t)
    /\ c.op = "find" => c.col \in ColSet(t)

SatC(row, cd)  == (\A n \in cd.preds : PredSat(row, n)) /\ (\A it \in cd.items : CellSat(row[it[1]], it[2]))
NoCondC(cd)    == cd.preds = {} /\ cd.items = {}          \* Table!NoCondition: also a lone empty dict filters nothing
MixedC(cd)     == cd.preds # {} /\ cd.items # {}
IncC(t, cd)    == [cols |-> t.cols, rows |-> SelectSeq(t.rows, LAMBDA r : SatC(r, cd))]
ExcC(t, cd)    == IF NoCondC(cd) THEN t ELSE [cols |-> t.cols, rows |-> SelectSeq(t.rows, LAMBDA r : ~SatC(r, cd))]
\* Named deviation ExcMixed: the statement speaks of a single predicate OR a conjunction of column
\* conditions.  For a call that gives both, "exactly the others" has two readings and both are accepted:
\* the complement of the whole conjunction, or excluding on the predicate and then on the column conditions.
ExcSeqC(t, cd) == [cols |-> t.cols,
                   rows |-> SelectSeq(t.rows, LAMBDA r : (\A n \in cd.preds : ~PredSat(r, n))
                                                         /\ ~(\A it \in cd.items : CellSat(r[it[1]], it[2])))]
ExcReadings(t, cd) == IF MixedC(cd) THEN {ExcC(t, cd), ExcSeqC(t, cd)} ELSE {ExcC(t, cd)}

\* rows one_or_none looks at: the selection, less the rows its exc= dict describes
OneSel(t, p, c) == LET sel == IncC(t, CondOf(p, c)) IN
                   IF c.x = 0 THEN sel.rows ELSE Exc(sel, [kind |-> "kw", items |-> p[c.x].items]).rows

TabOut(tt) == [kind |-> "table", cols |-> tt.cols, rows |-> tt.rows]
TableOf(out, cols) == [cols |-> cols, rows |-> out.rows]       \* a returned table as the operand of the next call
RaisesOut(cls) == [kind |-> "exc", cls |-> cls]
FindC(t, col, cd) ==
    LET sel == IncC(t, cd).rows
        vals == {sel[i][col] : i \in 1..Len(sel)}
    IN  IF sel # <<>> /\ \A u \in vals, v \in vals : SameForSet(u, v) THEN {[kind |-> "val", v |-> v] : v \in vals}
        ELSE {RaisesOut("ValueError")}
OneC(sel) == IF Len(sel) = 0 THEN {[kind |-> "none"]}
             ELSE IF Len(sel) = 1 THEN {[kind |-> "row", row |-> sel[1]]}
             ELSE {RaisesOut("ValueError")}

\* Named deviation MixedEmptied (same root: a callable AND column conditions in one call is more than the statement's
\* "single predicate or conjunction of column conditions"): when the callable alone accepts no row of the table, today's
\* inc / find_ / one_or_none raise KeyError on the first column condition (the rows are rebuilt without their columns,
\* _dictable.py inc: type(self)([row for row in res if f(**row)])).  Reported as a defect; accepted here next to the lawful outcome.
MixedEmptied(t, cd) == MixedC(cd) /\ \A i \in 1..NRows(t) : \E n \in cd.preds : ~PredSat(t.rows[i], n)
MixedRaises(t, c, cd) == IF c.op # "exc" /\ MixedEmptied(t, cd) THEN {RaisesOut("KeyError")} ELSE {}

\* LAW: the set of outcomes the statement allows for call c on table t with filter contents p
Outcomes(t, p, c) ==
    LET cd == CondOf(p, c) IN
    MixedRaises(t, c, cd) \cup
    CASE c.op = "inc"  -> {TabOut(IncC(t, cd))}
      [] c.op = "exc"  -> {TabOut(e) : e \in ExcReadings(t, cd)}
      [] c.op = "find" -> FindC(t, c.col, cd)
      [] c.op = "one"  -> OneC(OneSel(t, p, c))

\* ---------------------------------------------------------------------------------------------
\* MECHANISM of the argument handling (dictable.inc / exc, the loop over *functions)
\* ---------------------------------------------------------------------------------------------
\* dict.update: a key already present keeps its place and takes the new value, a new key goes last
Upd1(items, it) == IF \E k \in 1..Len(items) : items[k][1] = it[1]
                   THEN [k \in 1..Len(items) |-> IF items[k][1] = it[1] THEN it ELSE items[k]]
                   ELSE Append(items, it)
RECURSIVE Update(_, _)
Update(items, new) == IF new = <<>> THEN items ELSE Update(Upd1(items, Head(new)), Tail(new))

\* state of the loop: own = the callee's fresh dict, ref = 0 or the pool slot whose dict object `filters` IS,
\* pl = the pool (written to only through ref), preds = the callables met, in order
RECURSIVE MergeFrom(_, _, _, _)
MergeFrom(st, c, k, adopt) ==
    IF k > Len(c.pos) THEN st
    ELSE LET s == c.pos[k]
             f == st.pl[s]
             cur == IF st.ref = 0 THEN st.own ELSE st.pl[st.ref].items IN
         IF IsPred(f) THEN MergeFrom([st EXCEPT !.preds = Append(@, f.name)], c, k + 1, adopt)
         ELSE IF adopt /\ cur = <<>> THEN MergeFrom([st EXCEPT !.ref = s], c, k + 1, adopt)    \* filters = function  (no copy)
         ELSE IF st.ref = 0 THEN MergeFrom([st EXCEPT !.own = Update(@, f.items)], c, k + 1, adopt)
         ELSE MergeFrom([st EXCEPT !.pl[st.ref].items = Update(@, f.items)], c, k + 1, adopt)   \* writes into the caller's dict
Merge(p, c, adopt) ==
    LET st == MergeFrom([own |-> IF c.kw = 0 THEN <<>> ELSE p[c.kw].items, ref |-> 0, pl |-> p, preds |-> <<>>], c, 1, adopt)
    IN  [filters |-> IF st.ref = 0 THEN st.own ELSE st.pl[st.ref].items, preds |-> st.preds, pool |-> st.pl]

RECURSIVE ByPreds(_, _, _, _)
ByPreds(rows, preds, k, keep) ==      \* keep = TRUE: inc keeps the rows the callable accepts; FALSE: exc drops them
    IF k > Len(preds) THEN rows
    ELSE ByPreds(SelectSeq(rows, LAMBDA r : PredSat(r, preds[k]) = keep), preds, k + 1, keep)
ConjItems(r, items) == \A k \in 1..Len(items) : CellSat(r[items[k][1]], items[k][2])

MechInc(t, m) == IncSeqFrom(ByPreds(t.rows, m.preds, 1, TRUE), m.filters, 1)
MechExc(t, m) == LET rows == ByPreds(t.rows, m.preds, 1, FALSE) IN
                 IF m.filters = <<>> THEN rows ELSE SelectSeq(rows, LAMBDA r : ~ConjItems(r, m.filters))
\* what the code returns for call c when the pool holds p, and the pool afterwards
MechCall(t, p, c, adopt) ==
    LET m   == Merge(p, c, adopt)
        sel == MechInc(t, m)
        out == IF c.op # "exc" /\ m.preds # <<>> /\ m.filters # <<>> /\ ByPreds(t.rows, m.preds, 1, TRUE) = <<>>
               THEN RaisesOut("KeyError")        \* the emptied table has lost its columns: res[key] (deviation MixedEmptied)
               ELSE
               CASE c.op = "inc"  -> TabOut([cols |-> t.cols, rows |-> sel])
                 [] c.op = "exc"  -> TabOut([cols |-> t.cols, rows |-> MechExc(t, m)])
                 [] c.op = "find" -> IF sel = <<>> \/ \E i \in 1..Len(sel), j \in 1..Len(sel) : ~SameForSet(sel[i][c.col], sel[j][c.col])
                                     THEN RaisesOut("ValueError") ELSE [kind |-> "val", v |-> sel[1][c.col]]
                 [] c.op = "one"  -> LET rest == IF c.x = 0 \/ m.pool[c.x].items = <<>> THEN sel
                                                 ELSE SelectSeq(sel, LAMBDA r : ~ConjItems(r, m.pool[c.x].items)) IN
                                     IF Len(rest) > 1 THEN RaisesOut("ValueError")
                                     ELSE IF Len(rest) = 0 THEN [kind |-> "none"] ELSE [kind |-> "row", row |-> rest[1]]
    IN  [out |-> out, pool |-> m.pool]

\* ---------------------------------------------------------------------------------------------
\* ROUND 4 (1): the caller's own actions between calls, and the second table
\* ---------------------------------------------------------------------------------------------
IsListC(cc) == cc[1] = "list"
ListIds(items) == {items[k][2][3] : k \in {j \in 1..Len(items) : IsListC(items[j][2])}}
PoolListIds(p) == UNION {ListIds(p[s].items) : s \in 1..Len(p)}
ListNow(p, id) == LET s == CHOOSE s \in 1..Len(p) : id \in ListIds(p[s].items)
                      k == CHOOSE k \in 1..Len(p[s].items) : IsListC(p[s].items[k][2]) /\ p[s].items[k][2][3] = id
                  IN  p[s].items[k][2][2]
\* an edit e = [op |-> "edit", what |-> "list" | "set" | "del", id, slot, col, new]
\*   "list": the list object `id` gets the contents `new`, in place (L.append / L.pop / L.clear / L[:] = new): every dict holding it sees it
\*   "set" : pool[slot][col] = new (a cell condition; an existing key keeps its place, a new one goes last)
\*   "del" : del pool[slot][col]
EditListIn(p, id, new) ==
    [s \in 1..Len(p) |-> [p[s] EXCEPT !.items = [k \in 1..Len(@) |->
        IF IsListC(@[k][2]) /\ @[k][2][3] = id THEN <<@[k][1], <<"list", new, id>>>> ELSE @[k]]]]
ApplyEdit(p, e) ==
    CASE e.what = "list" -> EditListIn(p, e.id, e.new)
      [] e.what = "set"  -> [p EXCEPT ![e.slot].items = Upd1(@, <<e.col, e.new>>)]
      [] e.what = "del"  -> [p EXCEPT ![e.slot].items = SelectSeq(@, LAMBDA it : it[1] # e.col)]
\* the pool slots an edit shows through
Touched(p, e) == IF e.what = "list" THEN {s \in 1..Len(p) : e.id \in ListIds(p[s].items)} ELSE {e.slot}
UsedSlots(c) == (Range(c.pos) \cup {c.kw, c.x}) \ {0}
\* the second table of a session: the same columns, other rows (the first table's rows but the first, backwards)
Other(t) == [cols |-> t.cols, rows |-> IF t.rows = <<>> THEN <<>> ELSE Reverse(Tail(t.rows))]

\* ---------------------------------------------------------------------------------------------
\* ROUND 4 (2): namings.  nmf = a function from the law's columns to the names of the real table
\* ---------------------------------------------------------------------------------------------
RenRow(r, nmf)  == [n \in {nmf[x] : x \in DOMAIN r} |-> r[CHOOSE x \in DOMAIN r : nmf[x] = n]]
RenCols(cs, nmf) == [k \in 1..Len(cs) |-> nmf[cs[k]]]
RenRows(rs, nmf) == [i \in 1..Len(rs) |-> RenRow(rs[i], nmf)]
RenT(t, nmf)    == [cols |-> RenCols(t.cols, nmf), rows |-> RenRows(t.rows, nmf)]
RenItems(its, nmf) == [k \in 1..Len(its) |-> <<nmf[its[k][1]], its[k][2]>>]
RenPool(p, nmf) == [s \in 1..Len(p) |-> [p[s] EXCEPT !.items = RenItems(@, nmf)]]
RenOut(o, nmf)  == CASE o.kind = "table" -> [kind |-> "table", cols |-> RenCols(o.cols, nmf), rows |-> RenRows(o.rows, nmf)]
                     [] o.kind = "row"   -> [kind |-> "row", row |-> RenRow(o.row, nmf)]
                     [] OTHER -> o
\* Named restriction NameExpressible (the quantifier: "conditions expressible through inc/exc keyword filters, dict
\* filters and single callables").  Python itself refuses t.inc(self = 1) (and one_or_none(exc = 1 / find = 1) mean something
\* else), so a condition on such a column is expressible through a dict filter only.  one_or_none hands its exc = dict on
\* as keywords (res.exc(**exc)), and every callable is called with the whole row as keywords through pyg's wrapper object
\* (wrapper.__call__(self, ...)): on a table with a column named `self` no callable can be used, and a callable needs
\* identifiers as column names anyway (named deviation SelfColumn, reported).
ReservedKw(op) == IF op = "one" THEN {"self", "exc", "find"} ELSE {"self"}
Expressible(nm, t, p, c) ==
    /\ c.kw # 0 => \A it \in Range(p[c.kw].items) : nm.f[it[1]] \notin ReservedKw(c.op)
    /\ c.x # 0  => \A it \in Range(p[c.x].items) : nm.f[it[1]] # "self"
    /\ PredPos(p, c) # {} => (nm.ident /\ \A x \in ColSet(t) : nm.f[x] # "self")

\* the caller's view of a dict: its conditions in the table's column order (a dict has no order that matters)
CanonItems(items, cols) == FoldSeq(LAMBDA c, acc : acc \o SelectSeq(items, LAMBDA it : it[1] = c), <<>>, cols)
Canon(p, cols) == [k \in 1..Len(p) |-> [p[k] EXCEPT !.items = CanonItems(@, cols)]]
=============================================================================
