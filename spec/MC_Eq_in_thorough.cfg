CONSTANTS Wide = TRUE
          Nest = FALSE
INIT InitIn
NEXT EvalIn
INVARIANT InLaws
