----------------------------- MODULE MC_Algebra -----------------------------
(* Property C16 on the specification.  Three families of behaviours share the variables:       *)
(*  "ulist"  one state per (raw list, operand): the laws of ordered union / difference /       *)
(*           intersection, and the code's mechanism (set + index sort, single-element shortcuts)*)
(*           against them                                                                       *)
(*  "map"    one state per (mapping, argument): key algebra of dictattr / Dict                  *)
(*  "call"   a real state machine for Dict.__call__: one Eval(k) action per evaluation of a     *)
(*           definition, for EVERY dependency graph without self-loops on <= 4 derived keys     *)
(*           whose edges are required parameters, and for the graphs whose edges carry a KIND   *)
(*           (required / defaulted / keyword-only / keyword-only defaulted parameter) on <= 3   *)
(*           keys (thorough: 4 keys, <= MaxE4 edges); the definitions also read the mapping     *)
(*           through parameters of every kind, name keys nobody provides through defaulted      *)
(*           ones, and two of them declare *args / **kwargs.  TLC explores every evaluation     *)
(*           order: confluence, "cyclic <=> stuck", and the code's layer-by-layer mechanism in  *)
(*           EVERY keyword order against the law                                                *)
(* With NEXT Gen* the same state spaces print every case with the outcome the specification     *)
(* expects (S2C).                                                                               *)
EXTENDS Algebra, TLC, Json
CONSTANTS MaxLen,     \* longest raw list handed to ulist()
          MaxLenX,    \* longest operand list
          Kinds2,     \* kinds an edge may have in the dependency graphs on <= 2 derived keys
          Kinds3,     \* ... on 3 derived keys
          Kinds4,     \* ... on 4 derived keys, in the graphs with at most
          MaxE4,      \*     MaxE4 edges (every all-required graph on 4 keys is there anyway)
          PathPolicy  \* mechanism of d - path: "alongpath" (today's code) / "rootonly" (must fail PathLeavesOperand)

VARIABLES mode, a, b, pending, m, go
vars == <<mode, a, b, pending, m, go>>
args == <<mode, a, b, pending, m>>
Nil == <<"nil", 0>>
SeqsUpTo(S, n) == UNION {[1..k -> S] : k \in 0..n}

\* --- "ulist": a = raw list handed to ulist(), b = operand ------------------------------------
Elem  == {VInt(1), VBool(TRUE), VInt(2), VStr("a"), None}          \* 1 == True: equal, not identical
RawU  == SeqsUpTo(Elem, MaxLen)
OperU == {<<"elem", e>> : e \in Elem} \cup {<<"list", s>> : s \in SeqsUpTo(Elem, MaxLenX)}
InitUlist == mode = "ulist" /\ a \in RawU /\ b \in OperU /\ pending = {} /\ m = Nil

\* --- "map": a = mapping, b = argument ---------------------------------------------------------
MKey == {"a", "b", "_c"}          \* a key with a leading underscore is a key like any other (d._c mirrors d["_c"])
MVal == {VInt(1), None}
Injective(s) == \A i, j \in 1..Len(s) : i # j => s[i] # s[j]
MapsOver(K, V) == UNION {{[i \in 1..Len(ks) |-> <<ks[i], vs[i]>>] : vs \in [1..Len(ks) -> V]} : ks \in {s \in SeqsUpTo(K, Cardinality(K)) : Injective(s)}}
MapU   == MapsOver(MKey, MVal)
SelU   == {<<"elem", k>> : k \in {"a", "_c", "z"}} \cup {<<"list", s>> : s \in SeqsUpTo({"a", "b", "_c", "z"}, 2)}
OtherU == MapsOver({"b", "_c", "z"}, {VInt(2), None})
RenU   == UNION {[S -> {"a", "b", "_c", "n"}] : S \in SUBSET {"a", "_c", "z"}}
\* relabel spelled with a blanket rule AND individual relabels in one call
BlankU == {<<"prefix", "x_">>, <<"suffix", "_x">>} \cup {<<"map", r>> : r \in UNION {[S -> {"b", "n"}] : S \in SUBSET {"a", "_c"}}}
IndivU == UNION {[S -> {"b", "n"}] : S \in SUBSET {"a", "z"}}
ArgU   == {<<"sel", x>> : x \in SelU} \cup {<<"keys", s>> : s \in SeqsUpTo({"a", "b", "_c", "z"}, 2)}
          \cup {<<"other", o>> : o \in OtherU} \cup {<<"ren", r>> : r \in RenU}
          \cup {<<"ren2", <<bl, iv>>>> : bl \in BlankU, iv \in IndivU}
\* values that are mappings themselves (Algebra.tla 2b): every mapping with at least one such value, and every other
\* mapping that may reach inside it (d + other, d | other; the remaining operators meet such values in MC_AlgebraSes)
NestD  == <<"m", [x |-> VInt(1), y |-> VInt(2)]>>
NestO  == <<"m", [y |-> VInt(20), z |-> VInt(30)]>>
NMapU  == {d \in MapsOver(MKey, {VInt(1), NestD}) : \E i \in 1..Len(d) : IsM(d[i][2])}
NArgU  == {<<"other", o>> : o \in MapsOver({"b", "_c", "z"}, {VInt(2), NestO})}
\* d - path (Algebra.tla 2c): mappings over two keys whose values are flat, a mapping, or a mapping of mappings; paths of 2-3 names
NestP  == <<"m", [x |-> <<"m", [p |-> VInt(1), q |-> VInt(2)]>>, y |-> VInt(2)]>>
PMapU  == MapsOver({"a", "b"}, {VInt(1), NestD, NestP})
PArgU  == {<<"path", p>> : p \in {s \in SeqsUpTo({"a", "x", "p", "z"}, 3) : Len(s) >= 2}}
InitMap == /\ mode = "map" /\ pending = {} /\ m = Nil
           /\ \/ a \in MapU /\ b \in ArgU
              \/ a \in NMapU /\ b \in NArgU
              \/ a \in PMapU /\ b \in PArgU /\ PathOk(a, b[2])

\* --- "call": a = [par, kin, star, shape] (derived key -> parameter names / their kinds / stars / shape), pending, m ------
\* a base key is called "key": Dict.__call__ hands every definition a hidden default key = <its name>, which an entry
\* of the mapping with that name must trump (arguments are taken by name from the mapping)
Base   == [p |-> VInt(1), key |-> VStr("s")]
KeyOrd == <<"p", "w", "x", "y", "z">>
NameOrd == <<"key", "n", "p", "w", "x", "y", "z">>
\* parameters that do not name a derived key, <<name, kind>>: read from the mapping through every kind of
\* parameter ("p", "key"), or naming nothing at all ("n": the parameter's default is used)
Extra  == [p |-> {<<"key", "req">>},
           w |-> {<<"p", "req">>, <<"n", "opt">>},
           x |-> {<<"p", "opt">>},
           y |-> {<<"p", "req">>, <<"key", "kwopt">>},
           z |-> {<<"key", "kwreq">>, <<"n", "kwopt">>}]
Star   == [p |-> "", w |-> "", x |-> "kw", y |-> "args", z |-> "args_kw"]
Shape  == [p |-> "def", w |-> "obj", x |-> "def", y |-> "partial", z |-> "obj"]
\* derived keys: any subset of w..z, or (shadowing) subsets of {p, x, y} that redefine the base key p
DSets  == (SUBSET {"w", "x", "y", "z"}) \cup {S \in SUBSET {"p", "x", "y"} : "p" \in S}
\* a dependency graph on D: a function from its edges <<k, q>> (k takes q as a parameter) to the kind of that parameter
Pairs(D) == {e \in D \X D : e[1] # e[2]}
\* on <= 2 / 3 derived keys every graph with edges of the kinds Kinds2 / Kinds3; on 4 keys every graph of required
\* parameters, and the graphs of at most MaxE4 edges of the kinds Kinds4
KindingsOf(D, E) == CASE Cardinality(D) <= 2 -> [E -> Kinds2]
                      [] Cardinality(D) = 3  -> [E -> Kinds3]
                      [] OTHER               -> [E -> {"req"}] \cup (IF Cardinality(E) <= MaxE4 THEN [E -> Kinds4] ELSE {})
\* the parameters of definition k in a legal declaration order: by kind, then by name
ParamsOf(k, D, g) == {e \in Extra[k] : e[1] \notin D} \cup {<<q, g[<<k, q>>]>> : q \in {q \in D : <<k, q>> \in DOMAIN g}}
\* (all <<name, kind>> in declaration order: positional without a default, with one, keyword-only without, with)
AllParams == [i \in 1..(4 * Len(NameOrd)) |-> <<NameOrd[((i - 1) % Len(NameOrd)) + 1], <<"req", "opt", "kwreq", "kwopt">>[((i - 1) \div Len(NameOrd)) + 1]>>]
ParamSeq(k, D, g) == LET ps == ParamsOf(k, D, g) IN SelectSeq(AllParams, LAMBDA e : e \in ps)
DefsOf(D, g) == [par  |-> [k \in D |-> LET s == ParamSeq(k, D, g) IN [i \in 1..Len(s) |-> s[i][1]]],
                 kin  |-> [k \in D |-> LET s == ParamSeq(k, D, g) IN [i \in 1..Len(s) |-> s[i][2]]],
                 star |-> [k \in D |-> Star[k]], shape |-> [k \in D |-> Shape[k]]]
InitCall == /\ mode = "call" /\ b = Nil /\ m = Base
            /\ \E D \in DSets : \E E \in SUBSET Pairs(D) : \E g \in KindingsOf(D, E) : a = DefsOf(D, g) /\ pending = D

Init == (InitUlist \/ InitMap \/ InitCall) /\ go = FALSE

\* TLC checks invariants of initial states in one thread: every family starts with a step that
\* only raises `go`; the laws are stated for the states after it
CallUlist == mode = "ulist" /\ ~go /\ go' = TRUE /\ UNCHANGED args
CallMap   == mode = "map" /\ ~go /\ go' = TRUE /\ UNCHANGED args
Start     == mode = "call" /\ ~go /\ go' = TRUE /\ UNCHANGED args
Eval(k)   == /\ mode = "call" /\ go /\ CanEval(k, pending, a.par)
             /\ m' = Put(m, k, ValOf(k, a.par[k], m)) /\ pending' = pending \ {k}
             /\ UNCHANGED <<mode, a, b, go>>
EvalSome  == \E k \in {"p", "w", "x", "y", "z"} : Eval(k)
Next == CallUlist \/ CallMap \/ Start \/ EvalSome
NextCall == Start \/ EvalSome

\* --- ulist laws ---------------------------------------------------------------------------------
OnU == mode = "ulist" /\ go
u  == Dedup(a)
xs == Xs(b)
DedupLaw == OnU => /\ IsUSeq(u) /\ IsSubSeq(u, a) /\ SameClasses(ElemsOf(u), ElemsOf(a))
                   /\ Dedup(u) = u /\ DedupMech(a) = u
UnionLaw == OnU => LET r == Union(u, b) IN
                   /\ IsUSeq(r) /\ SameClasses(ElemsOf(r), ElemsOf(u) \cup ElemsOf(xs))
                   /\ SubSeq(r, 1, Len(u)) = u                              \* u first, in its order
                   /\ IsSubSeq(SubSeq(r, Len(u) + 1, Len(r)), xs)           \* then what is new, in x's order
DiffLaw  == OnU => LET r == Diff(u, b) IN
                   /\ IsUSeq(r) /\ IsSubSeq(r, u)
                   /\ \A e \in ElemsOf(u) : (e \in ElemsOf(r)) <=> ~PyIn(e, xs)
InterLaw == OnU => LET r == Inter(u, b) IN
                   /\ IsUSeq(r) /\ IsSubSeq(r, u)
                   /\ \A e \in ElemsOf(u) : (e \in ElemsOf(r)) <=> PyIn(e, xs)
Partition == OnU => Len(Diff(u, b)) + Len(Inter(u, b)) = Len(u)
SelfLaws  == OnU => /\ Union(u, <<"list", u>>) = u /\ Diff(u, <<"list", u>>) = <<>> /\ Inter(u, <<"list", u>>) = u
                    /\ Union(u, <<"list", <<>>>>) = u /\ Diff(u, <<"list", <<>>>>) = u /\ Inter(u, <<"list", <<>>>>) = <<>>
UlistMechanism == OnU => /\ SeqPyEq(UnionMech(u, b), Union(u, b)) /\ IsUSeq(UnionMech(u, b))
                         /\ SeqPyEq(InterMech(u, b), Inter(u, b)) /\ IsUSeq(InterMech(u, b))
                         /\ SeqPyEq(DiffMech(u, b), Diff(u, b)) /\ IsUSeq(DiffMech(u, b))

\* --- mapping laws -------------------------------------------------------------------------------
OnM(kind) == mode = "map" /\ go /\ b[1] = kind
KeysCommute == OnM("sel") => /\ Wrap(KeySeq(Minus(a, b[2]))) = Diff(Wrap(KeySeq(a)), WrapX(b[2]))      \* (d - k).keys() == d.keys() - k
                             /\ Wrap(KeySeq(And(a, b[2]))) = Inter(Wrap(KeySeq(a)), WrapX(b[2]))
SubsetLaws  == OnM("sel") => LET mi == Minus(a, b[2])  an == And(a, b[2]) IN
                             /\ IsMapping(mi) /\ IsMapping(an)
                             /\ KeySet(mi) = KeySet(a) \ Sel(b[2]) /\ KeySet(an) = KeySet(a) \cap Sel(b[2])
                             /\ \A k \in KeySet(mi) : At(mi, k) = At(a, k)
                             /\ \A k \in KeySet(an) : At(an, k) = At(a, k)
PlusLaw     == OnM("other") => LET r == Plus(a, b[2]) IN
                             /\ DOMAIN r = KeySet(a) \cup KeySet(b[2])
                             /\ \A k \in DOMAIN r : r[k] = IF k \in KeySet(b[2]) THEN At(b[2], k) ELSE At(a, k)
                             /\ Plus(a, <<>>) = AsFun(a) /\ Plus(a, a) = AsFun(a) /\ Plus(<<>>, b[2]) = AsFun(b[2])
\* Dict + other (tree_update): {**d, **o} except where both sides hold a mapping - there the recursive merge (C15)
TreePlusLaw == OnM("other") => LET r == PlusOn("Dict", a, b[2])  o == b[2] IN
                             /\ DOMAIN r = KeySet(a) \cup KeySet(o) /\ PlusOn("dictattr", a, o) = Plus(a, o)
                             /\ \A k \in DOMAIN r : IF k \in KeySet(a) /\ k \in KeySet(o) /\ IsM(At(a, k)) /\ IsM(At(o, k))
                                                    THEN /\ IsM(r[k]) /\ DOMAIN r[k][2] = DOMAIN At(a, k)[2] \cup DOMAIN At(o, k)[2]
                                                         /\ \A q \in DOMAIN r[k][2] : r[k][2][q] = IF q \in DOMAIN At(o, k)[2] THEN At(o, k)[2][q] ELSE At(a, k)[2][q]
                                                    ELSE r[k] = Plus(a, o)[k]
                             /\ PlusOn("Dict", a, <<>>) = AsFun(a) /\ PlusOn("Dict", a, a) = AsFun(a) /\ PlusOn("Dict", <<>>, o) = AsFun(o)
SelectLaw   == OnM("keys") => LET ks == b[2]  s == Select(a, ks)  g == MultiGet(a, ks) IN
                             /\ (s = Raises("KeyError")) <=> (\E i \in 1..Len(ks) : ks[i] \notin KeySet(a))
                             /\ (g = Raises("KeyError")) <=> (s = Raises("KeyError"))
                             /\ s[1] # "exc" => /\ s[1] = "map" /\ DOMAIN s[2] = ElemsOf(ks) /\ \A k \in DOMAIN s[2] : s[2][k] = At(a, k)
                                                /\ g[1] = "list" /\ Len(g[2]) = Len(ks) /\ \A i \in 1..Len(ks) : g[2][i] = At(a, ks[i])
                             /\ Select(a, KeySeq(a)) = <<"map", AsFun(a)>>
RelabelLaw  == OnM("ren") => LET r == Relabel(a, b[2]) IN
                             ~Collides(a, b[2]) => /\ Cardinality(DOMAIN r) = Len(a)
                                                   /\ \A k \in KeySet(a) : r[NewKey(b[2], k)] = At(a, k)
                                                   /\ Relabel(a, <<>>) = AsFun(a)
BlanketLaw  == OnM("ren2") => LET bl == b[2][1]  iv == b[2][2]  ren == Renaming(a, bl, iv)  r == Relabel(a, ren) IN
                             /\ \A k \in KeySet(a) \cap DOMAIN iv : NewKey(ren, k) = iv[k]                       \* individual relabels win
                             /\ \A k \in KeySet(a) \ DOMAIN iv : NewKey(ren, k) = NewKey(BlanketOf(a, bl), k)     \* the rest follows the blanket rule
                             /\ Renaming(a, bl, <<>>) = BlanketOf(a, bl) /\ Renaming(a, <<"none">>, iv) = iv
                             /\ ~Collides(a, ren) => /\ Cardinality(DOMAIN r) = Len(a)
                                                     /\ \A k \in KeySet(a) : r[NewKey(ren, k)] = At(a, k)

\* d - path: the tree without that path; nothing else changes; a missing path is a no-op; d keeps everything at every depth
PathLaw == OnM("path") => LET p == b[2]  r == MinusPath(a, p) IN
                          /\ IsMapping(r) /\ KeySeq(r) = KeySeq(a)
                          /\ ~PathThere(AsFun(r), p)
                          /\ (~PathThere(AsFun(a), p)) => r = a
                          /\ \A q \in {s \in SeqsUpTo({"a", "b", "x", "y", "p", "q"}, 3) : Len(s) >= 1} :
                                LET below == Len(p) <= Len(q) /\ SubSeq(q, 1, Len(p)) = p IN          \* q is p or lies below p
                                /\ (PathThere(AsFun(a), q) /\ ~below) => PathThere(AsFun(r), q)
                                /\ PathThere(AsFun(r), q) => PathThere(AsFun(a), q) /\ ~below
PathLeavesOperand == OnM("path") => PathMechAfter(PathPolicy, a, b[2]) = a

\* --- Dict.__call__ ------------------------------------------------------------------------------
OnC == mode = "call" /\ go
PermSeqs(S) == {s \in [1..Cardinality(S) -> S] : Injective(s)}                       \* the keyword orders
DomainOk         == mode = "call" => /\ WellFormed(a.par, a.kin, a.star, a.shape) /\ NoSelfLoops(a.par)
                                     /\ Grounded(a.par, a.kin, Base) /\ NoHiddenKey(a.par, Base)
EvaluatedAreFinal == OnC => \A k \in (DOMAIN a.par) \ pending : m[k] = Fin(k, a.par, Base)
Confluence       == (OnC /\ pending = {}) => <<"map", m>> = Outcome(a.par, Base)        \* every complete behaviour ends in the same mapping
StuckOnlyIfCyclic == (OnC /\ Stuck(pending, a.par)) => Cyclic(a.par)
DoneOnlyIfAcyclic == (OnC /\ pending = {}) => ~Cyclic(a.par)
CyclicNeverDone  == (OnC /\ Cyclic(a.par)) => pending # {} /\ Outcome(a.par, Base) = Raises("ValueError")
OthersUntouched  == OnC => \A k \in (DOMAIN Base) \ (DOMAIN a.par) : m[k] = Base[k]
\* what a definition received through each parameter: the final value of a derived key, else the mapping's entry,
\* and its own default exactly when the name is nowhere - whatever the kind of the parameter
ArgumentsByName  == OnC => \A k \in (DOMAIN a.par) \ pending : \A i \in 1..Len(a.par[k]) :
                              LET p == a.par[k][i]  got == m[k][2][i + 1] IN
                              /\ p \in DOMAIN a.par => got = m[p] /\ p \notin pending
                              /\ (p \notin DOMAIN a.par /\ p \in DOMAIN Base) => got = Base[p]
                              /\ (got = Dflt(k, p)) <=> (p \notin DOMAIN a.par \cup DOMAIN Base)
                              /\ (got = Dflt(k, p)) => HasDefault(a.kin[k][i])
\* the code's mechanism with today's dependencies (every named parameter), in every keyword order
LayeredIsLaw     == (OnC /\ pending = DOMAIN a.par) =>
                        \A ord \in PermSeqs(DOMAIN a.par) : Layered(ord, Base, a.par, DepAll(a.par)) = Outcome(a.par, Base)
\* variants of the mechanism that do NOT implement the law (each is a must_fail configuration): defaulted
\* parameters / keyword-only parameters do not make a definition wait
ReqOnlyIsLaw     == (OnC /\ pending = DOMAIN a.par) =>
                        \A ord \in PermSeqs(DOMAIN a.par) : Layered(ord, Base, a.par, DepRequired(a.par, a.kin)) = Outcome(a.par, Base)
PositionalIsLaw  == (OnC /\ pending = DOMAIN a.par) =>
                        \A ord \in PermSeqs(DOMAIN a.par) : Layered(ord, Base, a.par, DepPositional(a.par, a.kin)) = Outcome(a.par, Base)

\* --- S2C generators -------------------------------------------------------------------------------
GenUlist == /\ mode = "ulist" /\ ~go /\ go' = TRUE /\ UNCHANGED args
            /\ PrintT(ToJson([op |-> "ulist", raw |-> a, x |-> b, ulist |-> u,
                              add |-> Union(u, b), sub |-> Diff(u, b), and |-> Inter(u, b)]))
GenMap   == /\ mode = "map" /\ ~go /\ go' = TRUE /\ UNCHANGED args
            /\ PrintT(ToJson([op |-> "map", d |-> a, arg |-> b,
                              out |-> CASE b[1] = "sel"   -> [minus |-> Minus(a, b[2]), and |-> And(a, b[2])]
                                        [] b[1] = "keys"  -> [select |-> Select(a, b[2]), multiget |-> MultiGet(a, b[2])]
                                        [] b[1] = "other" -> [plus |-> Plus(a, b[2]), tplus |-> PlusOn("Dict", a, b[2])]
                                        [] b[1] = "path"  -> [minus |-> MinusPath(a, b[2])]
                                        [] b[1] = "ren"   -> [collides |-> Collides(a, b[2]), relabel |-> Relabel(a, b[2])]
                                        [] b[1] = "ren2"  -> LET ren == Renaming(a, b[2][1], b[2][2]) IN
                                                             [collides |-> Collides(a, ren), relabel |-> Relabel(a, ren)]]))
GenCall  == /\ mode = "call" /\ ~go /\ go' = TRUE /\ UNCHANGED args
            /\ PrintT(ToJson([op |-> "call", par |-> a.par, kin |-> a.kin, star |-> a.star, shape |-> a.shape, base |-> Base, out |-> Outcome(a.par, Base)]))
NextGen == GenUlist \/ GenMap \/ GenCall
InitGenUlist == InitUlist /\ go = FALSE
InitGenMap   == InitMap /\ go = FALSE
InitGenCall  == InitCall /\ go = FALSE
=============================================================================
