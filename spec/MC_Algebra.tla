----------------------------- MODULE MC_Algebra -----------------------------
(* Property C16 on the specification.  Three families of behaviours share the variables:       *)
(*  "ulist"  one state per (raw list, operand): the laws of ordered union / difference /       *)
(*           intersection, and the code's mechanism (set + index sort, single-element shortcuts)*)
(*           against them                                                                       *)
(*  "map"    one state per (mapping, argument): key algebra of dictattr / Dict                  *)
(*  "call"   a real state machine for Dict.__call__: one Eval(k) action per evaluation of a     *)
(*           definition, for EVERY dependency graph without self-loops on <= 4 derived keys;    *)
(*           TLC explores every evaluation order: confluence, "cyclic <=> stuck", and the code's *)
(*           layer-by-layer mechanism against the law                                           *)
(* With NEXT Gen* the same state spaces print every case with the outcome the specification     *)
(* expects (S2C).                                                                               *)
EXTENDS Algebra, TLC, Json
CONSTANTS MaxLen,     \* longest raw list handed to ulist()
          MaxLenX     \* longest operand list

VARIABLES mode, a, b, pending, m, go
vars == <<mode, a, b, pending, m, go>>
args == <<mode, a, b, pending, m>>
Nil == <<"nil", 0>>
SeqsUpTo(S, n) == UNION {[1..k -> S] : k \in 0..n}

\* --- "ulist": a = raw list handed to ulist(), b = operand ------------------------------------
Elem  == {VInt(1), VBool(TRUE), VInt(2), VStr("a"), None}          \* 1 == True: equal, not identical
RawU  == SeqsUpTo(Elem, MaxLen)
OperU == {<<"elem", e>> : e \in Elem} \cup {<<"list", s>> : s \in SeqsUpTo(Elem, MaxLenX)}
InitUlist == mode = "ulist" /\ a \in RawU /\ b \in OperU /\ pending = {} /\ m = Nil

\* --- "map": a = mapping, b = argument ---------------------------------------------------------
MKey == {"a", "b", "_c"}          \* a key with a leading underscore is a key like any other (d._c mirrors d["_c"])
MVal == {VInt(1), None}
Injective(s) == \A i, j \in 1..Len(s) : i # j => s[i] # s[j]
MapsOver(K, V) == UNION {{[i \in 1..Len(ks) |-> <<ks[i], vs[i]>>] : vs \in [1..Len(ks) -> V]} : ks \in {s \in SeqsUpTo(K, Cardinality(K)) : Injective(s)}}
MapU   == MapsOver(MKey, MVal)
SelU   == {<<"elem", k>> : k \in {"a", "_c", "z"}} \cup {<<"list", s>> : s \in SeqsUpTo({"a", "b", "_c", "z"}, 2)}
OtherU == MapsOver({"b", "_c", "z"}, {VInt(2), None})
RenU   == UNION {[S -> {"a", "b", "_c", "n"}] : S \in SUBSET {"a", "_c", "z"}}
ArgU   == {<<"sel", x>> : x \in SelU} \cup {<<"keys", s>> : s \in SeqsUpTo({"a", "b", "_c", "z"}, 2)}
          \cup {<<"other", o>> : o \in OtherU} \cup {<<"ren", r>> : r \in RenU}
InitMap == mode = "map" /\ a \in MapU /\ b \in ArgU /\ pending = {} /\ m = Nil

\* --- "call": a = par (derived key -> parameter names), pending, m -----------------------------
\* a base key is called "key": Dict.__call__ hands every definition a hidden default key = <its name>, which an entry
\* of the mapping with that name must trump (arguments are taken by name from the mapping)
Base   == [p |-> VInt(1), key |-> VStr("s")]
KeyOrd == <<"p", "w", "x", "y", "z">>
Extra  == [p |-> <<"key">>, w |-> <<"p">>, x |-> <<>>, y |-> <<"p", "key">>, z |-> <<>>]     \* parameters read from the mapping
OrdSeq(S) == SelectSeq(KeyOrd, LAMBDA k : k \in S)
\* derived keys: any subset of w..z, or (shadowing) subsets of {p, x, y} that redefine the base key p
DSets  == (SUBSET {"w", "x", "y", "z"}) \cup {S \in SUBSET {"p", "x", "y"} : "p" \in S}
ParsOf(D) == {[k \in D |-> SelectSeq(Extra[k], LAMBDA q : q \notin D) \o OrdSeq(f[k])] :
                 f \in {g \in [D -> SUBSET D] : \A k \in D : k \notin g[k]}}
ParU   == UNION {ParsOf(D) : D \in DSets}
InitCall == mode = "call" /\ a \in ParU /\ b = Nil /\ pending = DOMAIN a /\ m = Base

Init == (InitUlist \/ InitMap \/ InitCall) /\ go = FALSE

\* TLC checks invariants of initial states in one thread: every family starts with a step that
\* only raises `go`; the laws are stated for the states after it
CallUlist == mode = "ulist" /\ ~go /\ go' = TRUE /\ UNCHANGED args
CallMap   == mode = "map" /\ ~go /\ go' = TRUE /\ UNCHANGED args
Start     == mode = "call" /\ ~go /\ go' = TRUE /\ UNCHANGED args
Eval(k)   == /\ mode = "call" /\ go /\ CanEval(k, pending, a)
             /\ m' = Put(m, k, ValOf(k, a[k], m)) /\ pending' = pending \ {k}
             /\ UNCHANGED <<mode, a, b, go>>
EvalSome  == \E k \in {"p", "w", "x", "y", "z"} : Eval(k)
Next == CallUlist \/ CallMap \/ Start \/ EvalSome

\* --- ulist laws ---------------------------------------------------------------------------------
OnU == mode = "ulist" /\ go
u  == Dedup(a)
xs == Xs(b)
DedupLaw == OnU => /\ IsUSeq(u) /\ IsSubSeq(u, a) /\ SameClasses(ElemsOf(u), ElemsOf(a))
                   /\ Dedup(u) = u /\ DedupMech(a) = u
UnionLaw == OnU => LET r == Union(u, b) IN
                   /\ IsUSeq(r) /\ SameClasses(ElemsOf(r), ElemsOf(u) \cup ElemsOf(xs))
                   /\ SubSeq(r, 1, Len(u)) = u                              \* u first, in its order
                   /\ IsSubSeq(SubSeq(r, Len(u) + 1, Len(r)), xs)           \* then what is new, in x's order
DiffLaw  == OnU => LET r == Diff(u, b) IN
                   /\ IsUSeq(r) /\ IsSubSeq(r, u)
                   /\ \A e \in ElemsOf(u) : (e \in ElemsOf(r)) <=> ~PyIn(e, xs)
InterLaw == OnU => LET r == Inter(u, b) IN
                   /\ IsUSeq(r) /\ IsSubSeq(r, u)
                   /\ \A e \in ElemsOf(u) : (e \in ElemsOf(r)) <=> PyIn(e, xs)
Partition == OnU => Len(Diff(u, b)) + Len(Inter(u, b)) = Len(u)
SelfLaws  == OnU => /\ Union(u, <<"list", u>>) = u /\ Diff(u, <<"list", u>>) = <<>> /\ Inter(u, <<"list", u>>) = u
                    /\ Union(u, <<"list", <<>>>>) = u /\ Diff(u, <<"list", <<>>>>) = u /\ Inter(u, <<"list", <<>>>>) = <<>>
UlistMechanism == OnU => /\ SeqPyEq(UnionMech(u, b), Union(u, b)) /\ IsUSeq(UnionMech(u, b))
                         /\ SeqPyEq(InterMech(u, b), Inter(u, b)) /\ IsUSeq(InterMech(u, b))
                         /\ SeqPyEq(DiffMech(u, b), Diff(u, b)) /\ IsUSeq(DiffMech(u, b))

\* --- mapping laws -------------------------------------------------------------------------------
OnM(kind) == mode = "map" /\ go /\ b[1] = kind
KeysCommute == OnM("sel") => /\ Wrap(KeySeq(Minus(a, b[2]))) = Diff(Wrap(KeySeq(a)), WrapX(b[2]))      \* (d - k).keys() == d.keys() - k
                             /\ Wrap(KeySeq(And(a, b[2]))) = Inter(Wrap(KeySeq(a)), WrapX(b[2]))
SubsetLaws  == OnM("sel") => LET mi == Minus(a, b[2])  an == And(a, b[2]) IN
                             /\ IsMapping(mi) /\ IsMapping(an)
                             /\ KeySet(mi) = KeySet(a) \ Sel(b[2]) /\ KeySet(an) = KeySet(a) \cap Sel(b[2])
                             /\ \A k \in KeySet(mi) : At(mi, k) = At(a, k)
                             /\ \A k \in KeySet(an) : At(an, k) = At(a, k)
PlusLaw     == OnM("other") => LET r == Plus(a, b[2]) IN
                             /\ DOMAIN r = KeySet(a) \cup KeySet(b[2])
                             /\ \A k \in DOMAIN r : r[k] = IF k \in KeySet(b[2]) THEN At(b[2], k) ELSE At(a, k)
                             /\ Plus(a, <<>>) = AsFun(a) /\ Plus(a, a) = AsFun(a) /\ Plus(<<>>, b[2]) = AsFun(b[2])
SelectLaw   == OnM("keys") => LET ks == b[2]  s == Select(a, ks)  g == MultiGet(a, ks) IN
                             /\ (s = Raises("KeyError")) <=> (\E i \in 1..Len(ks) : ks[i] \notin KeySet(a))
                             /\ (g = Raises("KeyError")) <=> (s = Raises("KeyError"))
                             /\ s[1] # "exc" => /\ s[1] = "map" /\ DOMAIN s[2] = ElemsOf(ks) /\ \A k \in DOMAIN s[2] : s[2][k] = At(a, k)
                                                /\ g[1] = "list" /\ Len(g[2]) = Len(ks) /\ \A i \in 1..Len(ks) : g[2][i] = At(a, ks[i])
                             /\ Select(a, KeySeq(a)) = <<"map", AsFun(a)>>
RelabelLaw  == OnM("ren") => LET r == Relabel(a, b[2]) IN
                             ~Collides(a, b[2]) => /\ Cardinality(DOMAIN r) = Len(a)
                                                   /\ \A k \in KeySet(a) : r[NewKey(b[2], k)] = At(a, k)
                                                   /\ Relabel(a, <<>>) = AsFun(a)

\* --- Dict.__call__ ------------------------------------------------------------------------------
OnC == mode = "call" /\ go
DomainOk         == mode = "call" => NoSelfLoops(a) /\ Grounded(a, Base)
EvaluatedAreFinal == OnC => \A k \in (DOMAIN a) \ pending : m[k] = Fin(k, a, Base)
Confluence       == (OnC /\ pending = {}) => <<"map", m>> = Outcome(a, Base)        \* every complete behaviour ends in the same mapping
StuckOnlyIfCyclic == (OnC /\ Stuck(pending, a)) => Cyclic(a)
DoneOnlyIfAcyclic == (OnC /\ pending = {}) => ~Cyclic(a)
CyclicNeverDone  == (OnC /\ Cyclic(a)) => pending # {} /\ Outcome(a, Base) = Raises("ValueError")
OthersUntouched  == OnC => \A k \in (DOMAIN Base) \ (DOMAIN a) : m[k] = Base[k]
LayeredIsLaw     == (OnC /\ pending = DOMAIN a) => Layered(DOMAIN a, Base, a) = Outcome(a, Base)

\* --- S2C generators -------------------------------------------------------------------------------
GenUlist == /\ mode = "ulist" /\ ~go /\ go' = TRUE /\ UNCHANGED args
            /\ PrintT(ToJson([op |-> "ulist", raw |-> a, x |-> b, ulist |-> u,
                              add |-> Union(u, b), sub |-> Diff(u, b), and |-> Inter(u, b)]))
GenMap   == /\ mode = "map" /\ ~go /\ go' = TRUE /\ UNCHANGED args
            /\ PrintT(ToJson([op |-> "map", d |-> a, arg |-> b,
                              out |-> CASE b[1] = "sel"   -> [minus |-> Minus(a, b[2]), and |-> And(a, b[2])]
                                        [] b[1] = "keys"  -> [select |-> Select(a, b[2]), multiget |-> MultiGet(a, b[2])]
                                        [] b[1] = "other" -> [plus |-> Plus(a, b[2])]
                                        [] b[1] = "ren"   -> [collides |-> Collides(a, b[2]), relabel |-> Relabel(a, b[2])]]))
GenCall  == /\ mode = "call" /\ ~go /\ go' = TRUE /\ UNCHANGED args
            /\ PrintT(ToJson([op |-> "call", par |-> a, base |-> Base, out |-> Outcome(a, Base)]))
NextGen == GenUlist \/ GenMap \/ GenCall
InitGenUlist == InitUlist /\ go = FALSE
InitGenMap   == InitMap /\ go = FALSE
InitGenCall  == InitCall /\ go = FALSE
=============================================================================
